package group

// Native reproducers for D7 / D8 (C13/C16/C10): a join that looked the group up just before
// the last member left re-populates the removed group object.
// The interleaving found by the checker is replayed deterministically: Ctl.Listen/Register is
// "look the group up under the controller lock" then "call the group's method"; the last
// leave is placed between the two halves.

import (
	"net"
	"testing"

	"github.com/fatedier/frp/pkg/config/types"
	"github.com/fatedier/frp/pkg/util/vhost"
	"github.com/fatedier/frp/server/ports"
)

func TestD7TCPGroupJoinRacesLastLeave(t *testing.T) {
	pm := ports.NewManager("tcp", "127.0.0.1", []types.PortsRange{{Single: 38511}})
	ctl := NewTCPGroupCtl(pm)
	ln1, _, err := ctl.Listen("p1", "g", "k", "127.0.0.1", 38511)
	if err != nil {
		t.Skip(err)
	}
	// goroutine B, first half of TCPGroupCtl.Listen
	ctl.mu.Lock()
	tg := ctl.groups["g"]
	ctl.mu.Unlock()
	// goroutine A: the last member leaves
	ln1.Close()
	// goroutine B, second half
	var ln2 net.Listener
	l2, _, err := tg.Listen("p2", "g", "k", "127.0.0.1", 38511)
	ln2 = l2
	if err != nil {
		// repaired tree: the stale group refuses and TCPGroupCtl.Listen retries with a fresh group
		ln2, _, err = ctl.Listen("p2", "g", "k", "127.0.0.1", 38511)
		if err != nil {
			t.Fatalf("join failed: %v", err)
		}
	}
	if _, ok := ctl.groups["g"]; !ok {
		t.Errorf("p2 is a live member of group g, but the controller has no group g: its endpoint is dead (closed accept channel)")
	}
	defer func() {
		if r := recover(); r != nil {
			t.Fatalf("closing the joiner panics (frps would exit): %v", r)
		}
	}()
	ln2.Close()
}

func TestD8HTTPGroupJoinRacesLastLeave(t *testing.T) {
	routers := vhost.NewRouters()
	ctl := NewHTTPGroupController(routers)
	rc := vhost.RouteConfig{Domain: "a.com", Location: "/", CreateConnFn: func(string) (net.Conn, error) { return nil, nil }}
	if err := ctl.Register("p1", "g", "k", rc); err != nil {
		t.Fatal(err)
	}
	// goroutine B, first half of HTTPGroupController.Register
	ctl.mu.Lock()
	g := ctl.groups["g"]
	ctl.mu.Unlock()
	// goroutine A: the last member leaves
	ctl.UnRegister("p1", "g", rc)
	// goroutine B, second half
	if err := g.Register("p2", "g", "k", rc); err != nil {
		// repaired tree: the stale group refuses and HTTPGroupController.Register retries with a fresh group
		if err = ctl.Register("p2", "g", "k", rc); err != nil {
			t.Fatalf("join failed: %v", err)
		}
	}
	// B leaves again: everything must be gone and the group re-creatable
	ctl.UnRegister("p2", "g", rc)
	if _, ok := routers.Get("a.com", "/", ""); ok {
		t.Errorf("route a.com/ is still registered although group g has no members (orphan group)")
	}
	if err := ctl.Register("p3", "g", "k2", rc); err != nil {
		t.Errorf("group g cannot be created again: %v", err)
	}
}
