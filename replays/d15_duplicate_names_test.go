package proxy

// Native reproducer for D15 (C19): a configuration that lists the same proxy name twice.
// UpdateAll compares the running wrapper with the LAST definition of a name (lo.KeyBy) but
// starts the FIRST one, so reloading the very same configuration stops and re-registers the
// proxy on every reload: an unchanged entry does not keep running.

import (
	"context"
	"testing"

	v1 "github.com/fatedier/frp/pkg/config/v1"
	"github.com/fatedier/frp/pkg/msg"
)

type d15Transporter struct{ closes int }

func (t *d15Transporter) Send(m msg.Message) error {
	if _, ok := m.(*msg.CloseProxy); ok {
		t.closes++
	}
	return nil
}
func (t *d15Transporter) Do(context.Context, msg.Message, string, string) (msg.Message, error) {
	return nil, nil
}
func (t *d15Transporter) Dispatch(msg.Message, string) bool                 { return false }
func (t *d15Transporter) DispatchWithType(msg.Message, string, string) bool { return false }

func d15Cfg(port int) v1.ProxyConfigurer {
	c := &v1.TCPProxyConfig{}
	c.Name, c.Type, c.LocalIP, c.LocalPort, c.RemotePort = "a", "tcp", "127.0.0.1", 80, port
	return c
}

func TestD15DuplicateNameRestartsOnIdenticalReload(t *testing.T) {
	tr := &d15Transporter{}
	pm := NewManager(context.Background(), &v1.ClientCommonConfig{}, tr, nil)
	defer pm.Close()
	cfgs := []v1.ProxyConfigurer{d15Cfg(6000), d15Cfg(6001)}
	pm.UpdateAll(cfgs)
	first := pm.proxies["a"]
	pm.UpdateAll(cfgs) // the very same configuration again
	if pm.proxies["a"] != first || tr.closes != 0 {
		t.Fatalf("reloading an identical configuration restarted proxy a (same wrapper: %v, CloseProxy sent: %d)",
			pm.proxies["a"] == first, tr.closes)
	}
}
