package proxy

// Native reproducer for D17 (C11): GetWorkConnFromPool shadows err inside its retry loop.
// When the StartWorkConn message cannot be written to any of the poolCount+1 connections
// tried, the function returns the last (already closed, never announced) connection with a
// nil error, and the user connection is "bridged" to it.

import (
	"context"
	"errors"
	"net"
	"testing"
)

type d17Conn struct {
	net.Conn
	closed int
}

func (c *d17Conn) Write(p []byte) (int, error) { return 0, errors.New("broken pipe") }
func (c *d17Conn) Close() error                { c.closed++; return nil }
func (c *d17Conn) RemoteAddr() net.Addr        { return &net.TCPAddr{} }

func TestD17AllWorkConnsDeadStillReturnsNil(t *testing.T) {
	var handed []*d17Conn
	pxy := &BaseProxy{name: "p", poolCount: 1, ctx: context.Background(), getWorkConnFn: func() (net.Conn, error) {
		c := &d17Conn{}
		handed = append(handed, c)
		return c, nil
	}}
	c, err := pxy.GetWorkConnFromPool(nil, nil)
	if err == nil {
		t.Fatalf("all %d work connections refused the start message, but GetWorkConnFromPool returned %T with a nil error", len(handed), c)
	}
}
