package validation

// Native reproducer for D11 (C18): the custom-domain / subdomain-host containment
// check is case sensitive while routing lower-cases hosts.

import (
	"testing"

	v1 "github.com/fatedier/frp/pkg/config/v1"
)

func TestD11CustomDomainCase(t *testing.T) {
	s := &v1.ServerConfig{SubDomainHost: "frps.com"}
	if err := validateDomainConfigForServer(&v1.DomainConfig{CustomDomains: []string{"x.frps.com"}}, s); err == nil {
		t.Fatalf("baseline: x.frps.com should be refused")
	}
	if err := validateDomainConfigForServer(&v1.DomainConfig{CustomDomains: []string{"X.FRPS.COM"}}, s); err == nil {
		t.Errorf("X.FRPS.COM accepted although it belongs to subdomain host frps.com (routing ignores case)")
	}
	s2 := &v1.ServerConfig{SubDomainHost: "A.B"}
	if err := validateDomainConfigForServer(&v1.DomainConfig{CustomDomains: []string{"B.A.b"}}, s2); err == nil {
		t.Errorf("B.A.b accepted although it belongs to subdomain host A.B")
	}
}
