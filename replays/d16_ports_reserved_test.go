package ports

// Native reproducer for finding D16 (C09): a server-chosen-port request takes over a
// port that another proxy has acquired but not yet bound, because the reserved-port
// fast path of Acquire consults only the OS probe and not the manager's own tables.
// Run: go test -overlay (see replays/README) -run TestD16 ./server/ports

import (
	"testing"

	"github.com/fatedier/frp/pkg/config/types"
)

func TestD16ReservedPortTakesOverUsedPort(t *testing.T) {
	pm := NewManager("tcp", "127.0.0.1", []types.PortsRange{{Start: 38211, End: 38212}})
	p, err := pm.Acquire("b", 38211) // b had this port once
	if err != nil || p != 38211 {
		t.Skipf("port busy on this host: %v", err)
	}
	pm.Release(38211)               // b closed; reservation b->38211 stays
	p, err = pm.Acquire("a", 38211) // a now owns 38211 (has not called net.Listen yet)
	if err != nil || p != 38211 {
		t.Fatalf("a could not acquire: %v", err)
	}
	p, err = pm.Acquire("b", 0) // b asks for a server-chosen port
	if err == nil && p == 38211 {
		t.Fatalf("port 38211 handed to b while a owns it (usedPorts overwritten): two live owners of one port")
	}
}
