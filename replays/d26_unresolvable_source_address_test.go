package proxy

// Native reproducer for D26 (C16): a StartWorkConn message whose SrcAddr is text the resolver
// does not accept (frps copies it from whatever the peer of the user connection announced; a
// foreign or buggy server can send anything) makes frpc build a proxy-protocol header around a
// typed-nil *net.TCPAddr: HandleTCPWorkConnection drops the error of net.ResolveTCPAddr.
// Header.WriteTo dereferences the address; the panic is raised in the goroutine started by
// Wrapper.InWorkConn, which has no recover: the whole frpc process ends.

import (
	"context"
	"net"
	"testing"

	v1 "github.com/fatedier/frp/pkg/config/v1"
	"github.com/fatedier/frp/pkg/msg"
	"github.com/fatedier/frp/pkg/util/xlog"
)

func TestD26UnresolvableSourceAddressDoesNotPanic(t *testing.T) {
	ln, err := net.Listen("tcp", "127.0.0.1:0")
	if err != nil {
		t.Skip(err)
	}
	defer ln.Close()
	go func() {
		for {
			c, err := ln.Accept()
			if err != nil {
				return
			}
			c.Close()
		}
	}()
	cfg := &v1.ProxyBaseConfig{Name: "p", Type: "tcp"}
	cfg.LocalIP = "127.0.0.1"
	cfg.LocalPort = ln.Addr().(*net.TCPAddr).Port
	cfg.Transport.ProxyProtocolVersion = "v2"
	pxy := &BaseProxy{baseCfg: cfg, clientCfg: &v1.ClientCommonConfig{}, ctx: context.Background(), xl: xlog.New()}
	work, peer := net.Pipe()
	defer peer.Close()
	defer func() {
		if r := recover(); r != nil {
			t.Fatalf("frpc panics on StartWorkConn{SrcAddr:\"not an address\", SrcPort:1}: %v", r)
		}
	}()
	pxy.HandleTCPWorkConnection(work, &msg.StartWorkConn{ProxyName: "p", SrcAddr: "not an address", SrcPort: 1, DstAddr: "1.2.3.4", DstPort: 80}, nil)
}
