package proxy

// Native reproducer for D19 (C10/C03): the server-side udp proxy wraps each work connection in a
// bandwidth limiter whose close function closes the limiter wrapper itself (the variable was
// re-assigned), so with a server-side limit neither replacing a broken work connection nor
// closing the proxy ever closes the work connection underneath.

import (
	"context"
	"io"
	"net"
	"sync/atomic"
	"testing"
	"time"

	"golang.org/x/time/rate"

	"github.com/fatedier/frp/pkg/config/types"
	v1 "github.com/fatedier/frp/pkg/config/v1"
	plugin "github.com/fatedier/frp/pkg/plugin/server"
	"github.com/fatedier/frp/pkg/util/xlog"
	"github.com/fatedier/frp/server/controller"
	"github.com/fatedier/frp/server/ports"
)

type d19Conn struct {
	net.Conn
	closed atomic.Int32
}

func (c *d19Conn) Close() error { c.closed.Add(1); return c.Conn.Close() }

func TestD19UDPProxyCloseReachesWorkConn(t *testing.T) {
	for _, limited := range []bool{false, true} {
		l, err := net.ListenUDP("udp", &net.UDPAddr{IP: net.IPv4(127, 0, 0, 1)})
		if err != nil {
			t.Fatal(err)
		}
		port := l.LocalAddr().(*net.UDPAddr).Port
		l.Close()
		pm := ports.NewManager("udp", "127.0.0.1", []types.PortsRange{{Single: port}})
		server, client := net.Pipe()
		go func() { _, _ = io.Copy(io.Discard, client) }() // the client end reads whatever is announced
		work := &d19Conn{Conn: server}
		handed := false
		cfg := &v1.UDPProxyConfig{RemotePort: port}
		cfg.Name, cfg.Type = "u", "udp"
		scfg := &v1.ServerConfig{ProxyBindAddr: "127.0.0.1", UDPPacketSize: 1500}
		var lim *rate.Limiter
		if limited {
			lim = rate.NewLimiter(rate.Limit(1<<20), 1<<20)
		}
		bp := &BaseProxy{name: "u", rc: &controller.ResourceController{PluginManager: plugin.NewManager(), UDPPortManager: pm}, poolCount: 0,
			getWorkConnFn: func() (net.Conn, error) {
				if handed {
					return nil, io.EOF
				}
				handed = true
				return work, nil
			},
			serverCfg: scfg, limiter: lim, configurer: cfg, ctx: context.Background(), xl: xlog.New()}
		pxy := NewUDPProxy(bp).(*UDPProxy)
		if _, err := pxy.Run(); err != nil {
			t.Fatal(err)
		}
		time.Sleep(900 * time.Millisecond) // the work-connection loop starts after 500 ms
		pxy.Close()
		time.Sleep(100 * time.Millisecond)
		client.Close()
		if work.closed.Load() == 0 {
			t.Errorf("bandwidth limit=%v: closing the udp proxy left its work connection open", limited)
		}
	}
}
