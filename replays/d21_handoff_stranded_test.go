package group

// Native reproducer for D21 (C11/C13): a user connection accepted by a tcp group's real listener
// while no member is inside Accept is held by TCPGroup.worker in `tg.acceptCh <- c`. When the last
// member leaves, the channel is closed, the send panics, the panic is recovered and the worker
// returns WITHOUT closing the connection: the user stays connected to nobody (until the Go garbage
// collector happens to finalise the descriptor). Same pattern in TCPMuxGroup.worker and
// vhost.Muxer.handle.

import (
	"net"
	"testing"
	"time"

	"github.com/fatedier/frp/pkg/config/types"
	"github.com/fatedier/frp/server/ports"
)

func TestD21UserConnectionStrandedWhenLastMemberLeaves(t *testing.T) {
	probe, err := net.Listen("tcp", "127.0.0.1:0")
	if err != nil {
		t.Skip(err)
	}
	port := probe.Addr().(*net.TCPAddr).Port
	probe.Close()

	pm := ports.NewManager("tcp", "127.0.0.1", []types.PortsRange{{Start: port, End: port}})
	ctl := NewTCPGroupCtl(pm)
	ln, _, err := ctl.Listen("p1", "g", "k", "127.0.0.1", port)
	if err != nil {
		t.Fatal(err)
	}
	// a user connects while the only member is busy (not inside Accept)
	user, err := net.Dial("tcp", net.JoinHostPort("127.0.0.1", itoa(port)))
	if err != nil {
		t.Fatal(err)
	}
	defer user.Close()
	time.Sleep(200 * time.Millisecond) // the group's worker has accepted it and waits for a member
	ln.Close()                          // the last member leaves: the endpoint is gone

	_ = user.SetReadDeadline(time.Now().Add(2 * time.Second))
	_, err = user.Read(make([]byte, 1))
	if ne, ok := err.(net.Error); ok && ne.Timeout() {
		t.Fatalf("the user connection is still open 2 s after the group's endpoint disappeared: nobody owns it and nobody closed it")
	}
}

func itoa(n int) string {
	if n == 0 {
		return "0"
	}
	s := ""
	for n > 0 {
		s = string(rune('0'+n%10)) + s
		n /= 10
	}
	return s
}
