package proxy

// Native reproducer for D14 (C09): UDPProxy.Close releases the port outside its isClosed
// guard. The forwarder's exit goroutine calls Close a second time after the socket was
// closed; if another proxy acquired the port in between, the second Close frees it.

import (
	"context"
	"errors"
	"net"
	"testing"

	"github.com/fatedier/frp/pkg/config/types"
	v1 "github.com/fatedier/frp/pkg/config/v1"
	"github.com/fatedier/frp/pkg/msg"
	plugin "github.com/fatedier/frp/pkg/plugin/server"
	"github.com/fatedier/frp/server/controller"
	"github.com/fatedier/frp/server/ports"
)

func TestD14UDPSecondCloseFreesForeignPort(t *testing.T) {
	const port = 38411
	pm := ports.NewManager("udp", "127.0.0.1", []types.PortsRange{{Single: port}})
	rc := &controller.ResourceController{UDPPortManager: pm, PluginManager: plugin.NewManager()}
	cfg := &v1.UDPProxyConfig{}
	cfg.Name, cfg.Type, cfg.RemotePort = "u1", "udp", port
	scfg := &v1.ServerConfig{ProxyBindAddr: "127.0.0.1", UDPPacketSize: 1500}
	pxy, err := NewProxy(context.Background(), &Options{ResourceController: rc, Configurer: cfg, ServerCfg: scfg, LoginMsg: &msg.Login{},
		GetWorkConnFn: func() (net.Conn, error) { return nil, errors.New("no work conn") }})
	if err != nil {
		t.Fatal(err)
	}
	if _, err := pxy.Run(); err != nil {
		t.Skipf("cannot bind udp port here: %v", err)
	}
	pxy.Close() // CloseProxy
	// another proxy takes the port that was just released
	if p, err := pm.Acquire("u2", port); err != nil || p != port {
		t.Fatalf("port not reusable right after close: %v", err)
	}
	// the forwarder's exit goroutine of u1 calls Close again (done here directly; it is the same call)
	pxy.Close()
	if _, err := pm.Acquire("u3", port); err == nil {
		t.Fatalf("port %d owned by u2 was freed by the late second Close of u1 and handed to u3", port)
	}
}
