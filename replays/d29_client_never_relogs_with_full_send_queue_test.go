package client

// Native reproducer for D29 (C14/C16/C19): after the control connection is lost the session must end
// (Done() closes, the service logs in again). Control.worker stops every proxy, each Stop sends a
// CloseProxy through the message transporter, and that send is a plain blocking channel send into
// the dispatcher's queue (capacity 100) which nobody drains any more: with a configuration of more
// than about 100 proxies (or a stalled peer that left the queue full) the teardown blocks for ever,
// Done() is never closed and frpc stays disconnected until it is restarted.

import (
	"context"
	"fmt"
	"net"
	"testing"
	"time"

	v1 "github.com/fatedier/frp/pkg/config/v1"
	"github.com/fatedier/frp/pkg/msg"
)

type d29Connector struct{}

func (d29Connector) Open() error                { return nil }
func (d29Connector) Connect() (net.Conn, error) { return nil, fmt.Errorf("no server") }
func (d29Connector) Close() error               { return nil }

type d29Setter struct{}

func (d29Setter) SetLogin(*msg.Login) error             { return nil }
func (d29Setter) SetPing(*msg.Ping) error               { return nil }
func (d29Setter) SetNewWorkConn(*msg.NewWorkConn) error { return nil }

func TestD29SessionEndsAfterConnectionLossWithManyProxies(t *testing.T) {
	common := &v1.ClientCommonConfig{}
	common.Complete()
	cli, srv := net.Pipe()
	ctl, err := NewControl(context.Background(), &SessionContext{Common: common, RunID: "r", Conn: cli, Connector: d29Connector{}, AuthSetter: d29Setter{}})
	if err != nil {
		t.Fatal(err)
	}
	var cfgs []v1.ProxyConfigurer
	for i := 0; i < 150; i++ {
		c := &v1.TCPProxyConfig{}
		c.Name, c.Type = fmt.Sprintf("p%d", i), "tcp"
		c.LocalIP, c.LocalPort, c.RemotePort = "127.0.0.1", 80, 6000+i
		c.Complete("")
		cfgs = append(cfgs, c)
	}
	// the server reads every registration (a healthy peer), then goes away
	got := make(chan struct{})
	go func() {
		n := 0
		for n < 150 {
			_ = srv.SetReadDeadline(time.Now().Add(10 * time.Second))
			m, err := msg.ReadMsg(srv)
			if err != nil {
				break
			}
			if _, ok := m.(*msg.NewProxy); ok {
				n++
			}
		}
		close(got)
	}()
	ctl.Run(cfgs, nil)
	select {
	case <-got:
	case <-time.After(15 * time.Second):
		t.Fatal("set-up: the registrations did not arrive")
	}
	srv.Close() // connection lost
	select {
	case <-ctl.Done():
	case <-time.After(5 * time.Second):
		t.Fatalf("the control connection was lost 5 s ago and the session has not ended: teardown is stuck sending CloseProxy messages into a queue nobody drains; frpc never logs in again")
	}
}
