package nathole

// Native reproducer for D13 (C20): mapped addresses whose port is outside 1..65535 are
// classified without error and getRangePorts then emits an out-of-range / inverted range.

import "testing"

func TestD13OutOfRangePortYieldsBogusRange(t *testing.T) {
	for _, addrs := range [][]string{
		{"1.2.3.4:70000", "1.2.3.4:70000"},
		{"1.2.3.4:5", "1.2.3.5:-6"},
		{"1.2.3.4:0", "1.2.3.5:0"},
	} {
		feat, err := ClassifyNATFeature(addrs, nil)
		if err != nil {
			continue // rejected: correct
		}
		for _, r := range getRangePorts(addrs, feat.PortsDifference, 100) {
			if r.From < 1 || r.To > 65535 || r.From > r.To {
				t.Errorf("addrs %v: candidate range {%d %d} is not within 1..65535 / start after end", addrs, r.From, r.To)
			}
		}
		t.Errorf("addrs %v: out-of-range mapped port accepted (no error response)", addrs)
	}
}
