package client

// Native reproducer for D24 (C19): loopLoginUntilSuccess takes its snapshot of the configured
// proxies, builds the new session from it and only afterwards publishes the session in svr.ctl.
// A reload (Service.UpdateAllConfigurer) that lands in between stores the new configuration and
// updates the session it finds in svr.ctl - none, or the previous dead one: the session that is about
// to be published keeps running the old set until the next reload. The window is held open here by
// a proxy definition whose GetBaseConfig blocks (the first thing Control.Run does with it).

import (
	"context"
	"net"
	"testing"
	"time"

	v1 "github.com/fatedier/frp/pkg/config/v1"
	"github.com/fatedier/frp/pkg/msg"
)

// the definition of proxy "a": its GetBaseConfig blocks the first time it is asked (the first
// thing Control.Run does with a definition), which holds the window open
type d24Cfg struct {
	*v1.TCPProxyConfig
	entered chan struct{}
	release chan struct{}
	once    bool
}

func (c *d24Cfg) GetBaseConfig() *v1.ProxyBaseConfig {
	if !c.once {
		c.once = true
		close(c.entered)
		<-c.release
	}
	return c.TCPProxyConfig.GetBaseConfig()
}

type d24Connector struct{ conn net.Conn }

func (k *d24Connector) Open() error                { return nil }
func (k *d24Connector) Connect() (net.Conn, error) { return k.conn, nil }
func (k *d24Connector) Close() error               { return nil }

type d24Setter struct{}

func (d24Setter) SetLogin(*msg.Login) error             { return nil }
func (d24Setter) SetPing(*msg.Ping) error               { return nil }
func (d24Setter) SetNewWorkConn(*msg.NewWorkConn) error { return nil }

func d24Proxy(name string) *v1.TCPProxyConfig {
	c := &v1.TCPProxyConfig{}
	c.Name, c.Type, c.LocalIP, c.LocalPort, c.RemotePort = name, "tcp", "127.0.0.1", 80, 6000
	return c
}

func TestD24ReloadBetweenSnapshotAndPublicationIsLost(t *testing.T) {
	cliEnd, srvEnd := net.Pipe()
	go func() { // the server: accept the login, then swallow whatever follows
		if _, err := msg.ReadMsg(srvEnd); err != nil {
			return
		}
		_ = msg.WriteMsg(srvEnd, &msg.LoginResp{RunID: "rid"})
		for {
			if _, err := msg.ReadMsg(srvEnd); err != nil {
				return
			}
		}
	}()
	common := &v1.ClientCommonConfig{}
	common.Complete()
	off := false
	common.Transport.TCPMux = &off
	common.Transport.HeartbeatInterval = -1
	ctx, cancel := context.WithCancelCause(context.Background())
	defer cancel(nil)
	svr := &Service{ctx: ctx, cancel: cancel, common: common, authSetter: d24Setter{},
		clientSpec:       &msg.ClientSpec{Type: "ssh-tunnel"}, // (plain control channel: the test's server speaks clear text)
		connectorCreator: func(context.Context, *v1.ClientCommonConfig) Connector { return &d24Connector{conn: cliEnd} }}
	slow := &d24Cfg{TCPProxyConfig: d24Proxy("a"), entered: make(chan struct{}), release: make(chan struct{})}
	svr.proxyCfgs = []v1.ProxyConfigurer{slow}

	loggedIn := make(chan struct{})
	go func() {
		svr.loopLoginUntilSuccess(time.Second, false)
		close(loggedIn)
	}()
	select {
	case <-slow.entered: // the new session is being built from the snapshot [a]
	case <-time.After(5 * time.Second):
		t.Fatal("login did not get as far as building the session")
	}
	// the operator reloads: proxy b is added, a stays as it is (the reload may have to wait for the login)
	reloaded := make(chan error, 1)
	go func() { reloaded <- svr.UpdateAllConfigurer([]v1.ProxyConfigurer{slow, d24Proxy("b")}, nil) }()
	time.Sleep(200 * time.Millisecond)
	close(slow.release)
	select {
	case <-loggedIn:
	case <-time.After(5 * time.Second):
		t.Fatal("login loop did not finish")
	}
	select {
	case err := <-reloaded:
		if err != nil {
			t.Fatal(err)
		}
	case <-time.After(5 * time.Second):
		t.Fatal("reload did not finish")
	}
	time.Sleep(100 * time.Millisecond)
	svr.ctlMu.RLock()
	ctl := svr.ctl
	svr.ctlMu.RUnlock()
	if ctl == nil {
		t.Fatal("no session")
	}
	var names []string
	for _, st := range ctl.pm.GetAllProxyStatus() {
		names = append(names, st.Name)
	}
	hasB := false
	for _, n := range names {
		if n == "b" {
			hasB = true
		}
	}
	if len(names) != 2 || !hasB {
		t.Fatalf("the session runs %v, the configuration loaded last is [a b]", names)
	}
}
