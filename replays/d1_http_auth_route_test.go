package vhost

// Native reproducer for D1 (C07): ServeHTTP selects the route for the credential check
// with the Authorization user, but forwards along the route selected with the
// Proxy-Authorization user (absolute-form requests). A password-protected, user-routed
// proxy is reached without its password.

import (
	"encoding/base64"
	"errors"
	"net"
	"net/http"
	"net/http/httptest"
	"testing"
)

func TestD1ProtectedRouteReachedWithoutPassword(t *testing.T) {
	rs := NewRouters()
	rp := NewHTTPReverseProxy(HTTPReverseProxyOptions{}, rs)
	dialed := false
	err := rp.Register(RouteConfig{
		Domain: "h.com", Location: "/", RouteByHTTPUser: "v", Username: "u", Password: "secret",
		CreateConnFn: func(string) (net.Conn, error) { dialed = true; return nil, errors.New("backend dial recorded") },
	})
	if err != nil {
		t.Fatal(err)
	}
	// baseline: origin-form request for user v with a wrong password is challenged
	req := httptest.NewRequest("GET", "/x", nil)
	req.Host = "h.com"
	req.SetBasicAuth("v", "wrong")
	rw := httptest.NewRecorder()
	rp.ServeHTTP(rw, req)
	if rw.Code != http.StatusUnauthorized || dialed {
		t.Fatalf("baseline: expected 401 without dialing, got %d dialed=%v", rw.Code, dialed)
	}
	// absolute-form request carrying only Proxy-Authorization: v:anything
	req = httptest.NewRequest("GET", "http://h.com/x", nil)
	req.Host = "h.com"
	req.Header.Set("Proxy-Authorization", "Basic "+base64.StdEncoding.EncodeToString([]byte("v:anything")))
	rw = httptest.NewRecorder()
	rp.ServeHTTP(rw, req)
	if dialed {
		t.Fatalf("protected backend dialled for a request without the route's credentials (status %d)", rw.Code)
	}
}
