package ssh

// Native reproducer for D20 (C16): TunnelServer.handleNewChannel computes the end of the exec
// command as 4 + uint32(length prefix) in 32 bits. A prefix of 0xFFFFFFFC..0xFFFFFFFF wraps to
// 0..3, passes the length check and the slice Payload[4:end] panics in the gateway's goroutine:
// one request from an ssh peer takes the whole frps process down.

import (
	"io"
	"testing"

	"golang.org/x/crypto/ssh"
)

type d20Channel struct{}

func (d20Channel) Read(p []byte) (int, error)                     { return 0, io.EOF }
func (d20Channel) Write(p []byte) (int, error)                    { return len(p), nil }
func (d20Channel) Close() error                                   { return nil }
func (d20Channel) CloseWrite() error                              { return nil }
func (d20Channel) SendRequest(string, bool, []byte) (bool, error) { return false, nil }
func (d20Channel) Stderr() io.ReadWriter                          { return nil }

type d20NewChannel struct{ reqs chan *ssh.Request }

func (n *d20NewChannel) Accept() (ssh.Channel, <-chan *ssh.Request, error) {
	return d20Channel{}, n.reqs, nil
}
func (n *d20NewChannel) Reject(ssh.RejectionReason, string) error { return nil }
func (n *d20NewChannel) ChannelType() string                      { return "session" }
func (n *d20NewChannel) ExtraData() []byte                        { return nil }

func TestD20ExecLengthPrefixWraps(t *testing.T) {
	defer func() {
		if r := recover(); r != nil {
			t.Fatalf("exec request with length prefix 0xFFFFFFFC panicked the gateway: %v", r)
		}
	}()
	reqs := make(chan *ssh.Request, 1)
	reqs <- &ssh.Request{Type: "exec", Payload: []byte{0xff, 0xff, 0xff, 0xfc, 0, 0, 0, 0}}
	close(reqs)
	s := &TunnelServer{doneCh: make(chan struct{})}
	close(s.doneCh) // stops the keep-alive goroutine at once
	s.handleNewChannel(&d20NewChannel{reqs: reqs}, make(chan string, 1))
}
