package nathole

// Native reproducer for D25 (C20): Controller.HandleVisitor looks the xtcp proxy up under the lock,
// registers the session, and then hands the session id to the proxy's forwarder with a plain send on
// an unbuffered channel. If the proxy is closed in between (CloseClient + the forwarder goroutine of
// XTCPProxy.Run stopping on closeCh) nobody ever receives: the channel is never closed either, so the
// recover-guard around the send never fires. The handler goroutine blocks for ever and its session
// stays in the table for ever.

import (
	"context"
	"sync"
	"sync/atomic"
	"testing"
	"time"

	"github.com/fatedier/frp/pkg/msg"
	"github.com/fatedier/frp/pkg/util/util"
)

type d25T struct{}

func (d25T) Send(m msg.Message) error { return nil }
func (d25T) Do(ctx context.Context, req msg.Message, laneKey, recvMsgType string) (msg.Message, error) {
	return nil, nil
}
func (d25T) Dispatch(m msg.Message, laneKey string) bool                  { return false }
func (d25T) DispatchWithType(m msg.Message, msgType, laneKey string) bool { return false }

func TestD25VisitorRequestBlocksForeverWhenTheProxyCloses(t *testing.T) {
	old := NatHoleTimeout
	NatHoleTimeout = 1
	defer func() { NatHoleTimeout = old }()
	c, err := NewController(time.Hour)
	if err != nil {
		t.Fatal(err)
	}
	const rounds = 4000
	var returned int64
	var wg sync.WaitGroup
	for i := 0; i < rounds; i++ {
		name := "x" + itoaD25(i)
		sidCh, err := c.ListenClient(name, "s", []string{"*"})
		if err != nil {
			t.Fatal(err)
		}
		closeCh := make(chan struct{})
		go func() { // XTCPProxy.Run's forwarder
			for {
				select {
				case <-closeCh:
					return
				case <-sidCh:
				}
			}
		}()
		wg.Add(1)
		go func() {
			defer wg.Done()
			now := time.Now().Unix()
			c.HandleVisitor(&msg.NatHoleVisitor{TransactionID: "t", ProxyName: name, Timestamp: now, SignKey: util.GetAuthKey("s", now)}, d25T{}, "alice")
			atomic.AddInt64(&returned, 1)
		}()
		go func() { // XTCPProxy.Close
			c.CloseClient(name)
			close(closeCh)
		}()
	}
	done := make(chan struct{})
	go func() { wg.Wait(); close(done) }()
	select {
	case <-done:
	case <-time.After(6 * time.Second): // every request ends within the 1 s hand-over timeout at the latest
	}
	stuck := rounds - int(atomic.LoadInt64(&returned))
	c.mu.RLock()
	sessions := len(c.sessions)
	c.mu.RUnlock()
	if stuck > 0 || sessions > 0 {
		t.Fatalf("%d of %d visitor requests never returned after their proxy was closed; %d sessions left in the table for ever", stuck, rounds, sessions)
	}
}

func itoaD25(n int) string {
	if n == 0 {
		return "0"
	}
	s := ""
	for n > 0 {
		s = string(rune('0'+n%10)) + s
		n /= 10
	}
	return s
}
