package nathole

// Native reproducer for D23 (C20): with several listening sockets (receiver role with
// ListenRandomPorts > 0) MakeHole hands the first detection over with a NON-BLOCKING send on an
// UNBUFFERED channel. A peer whose probe is already there when the waiting goroutines start (it
// follows its instruction and simply is quick) is detected before MakeHole has reached its final
// select: the send finds no receiver, takes the default branch, closes the socket on which the hole
// was just punched and drops the result - MakeHole then reports "wait detect message timeout"
// although the honest peer did everything right.

import (
	"context"
	"net"
	"testing"

	"github.com/fatedier/frp/pkg/msg"
)

func TestD23DetectionBeforeTheFinalSelectIsDropped(t *testing.T) {
	key := []byte("secret")
	lost := 0
	const rounds = 40
	for i := 0; i < rounds; i++ {
		listenConn, err := net.ListenUDP("udp4", &net.UDPAddr{IP: net.IPv4(127, 0, 0, 1)})
		if err != nil {
			t.Skip(err)
		}
		peer, err := net.ListenUDP("udp4", &net.UDPAddr{IP: net.IPv4(127, 0, 0, 1)})
		if err != nil {
			t.Skip(err)
		}
		// the honest sender's probe: already in the socket's queue when MakeHole starts waiting
		buf, err := EncodeMessage(&msg.NatHoleSid{TransactionID: "tx", Sid: "sid-1"}, key)
		if err != nil {
			t.Fatal(err)
		}
		if _, err := peer.WriteToUDP(buf, listenConn.LocalAddr().(*net.UDPAddr)); err != nil {
			t.Fatal(err)
		}
		resp := &msg.NatHoleResp{Sid: "sid-1", Protocol: "quic"}
		resp.DetectBehavior.Role = DetectRoleReceiver
		resp.DetectBehavior.ListenRandomPorts = 3
		resp.DetectBehavior.ReadTimeoutMs = 700
		c, _, err := MakeHole(context.Background(), listenConn, resp, key)
		if err != nil {
			lost++
		} else {
			c.Close()
		}
		peer.Close()
		listenConn.Close()
	}
	if lost > 0 {
		t.Fatalf("%d of %d exchanges failed with a timeout although the peer's probe had arrived", lost, rounds)
	}
}
