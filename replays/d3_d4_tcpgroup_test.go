package group

// Native reproducers for D3 and D4 (C09/C10/C13): tcp load-balancing groups.

import (
	"net"
	"strconv"
	"testing"

	"github.com/fatedier/frp/pkg/config/types"
	"github.com/fatedier/frp/server/ports"
)

// D3: with a server-chosen port (0) the group reports realPort but binds port 0 (an
// unrelated ephemeral port): the address returned to the client is not the one served.
func TestD3GroupListensOnRequestedNotRealPort(t *testing.T) {
	pm := ports.NewManager("tcp", "127.0.0.1", []types.PortsRange{{Start: 38311, End: 38313}})
	ctl := NewTCPGroupCtl(pm)
	ln, realPort, err := ctl.Listen("p1", "g", "k", "127.0.0.1", 0)
	if err != nil {
		t.Skipf("cannot listen here: %v", err)
	}
	defer ln.Close()
	_, ps, _ := net.SplitHostPort(ln.Addr().String())
	bound, _ := strconv.Atoi(ps)
	if bound != realPort {
		t.Fatalf("group reports port %d to the client but its listener is bound to %d", realPort, bound)
	}
}

// D4: if net.Listen fails after the port was acquired, the port stays marked used forever.
func TestD4GroupListenFailureLeaksPort(t *testing.T) {
	squat, err := net.Listen("tcp", "127.0.0.1:0")
	if err != nil {
		t.Skip(err)
	}
	defer squat.Close()
	_, ps, _ := net.SplitHostPort(squat.Addr().String())
	port, _ := strconv.Atoi(ps)
	// port manager for udp probing so that Acquire's own OS probe passes while the tcp listen fails
	pm := ports.NewManager("udp", "127.0.0.1", []types.PortsRange{{Single: port}})
	ctl := NewTCPGroupCtl(pm)
	if _, _, err := ctl.Listen("p1", "g", "k", "127.0.0.1", port); err == nil {
		t.Skip("listen unexpectedly succeeded")
	}
	squat.Close()
	// the failed registration must have returned the port
	if _, err := pm.Acquire("p2", port); err == ports.ErrPortAlreadyUsed {
		t.Fatalf("port %d is still marked used after the failed group registration: %v", port, err)
	}
}
