package config

// Native reproducer for D22 (C18): BoolFuncFlag.Set ignores the value it is given
// (f.v = strconv.FormatBool(f.v) == "true" is always false for a fresh flag), so
// --dashboard_tls_mode=true never runs TrueFunc: frps started with
//   --dashboard_tls_mode=true --dashboard_tls_cert_file=c.pem --dashboard_tls_key_file=k.pem
// serves the dashboard in clear, whereas webServer.tls in a configuration file enables TLS.

import (
	"testing"

	"github.com/spf13/cobra"

	v1 "github.com/fatedier/frp/pkg/config/v1"
)

func TestD22DashboardTLSModeFlag(t *testing.T) {
	c := &v1.ServerConfig{}
	cmd := &cobra.Command{Use: "frps"}
	RegisterServerConfigFlags(cmd, c)
	err := cmd.PersistentFlags().Parse([]string{"--dashboard_tls_mode=true", "--dashboard_tls_cert_file=c.pem", "--dashboard_tls_key_file=k.pem"})
	if err != nil {
		t.Fatal(err)
	}
	if c.WebServer.TLS == nil {
		t.Fatalf("--dashboard_tls_mode=true did not enable dashboard TLS (WebServer.TLS is nil)")
	}
	if c.WebServer.TLS.CertFile != "c.pem" || c.WebServer.TLS.KeyFile != "k.pem" {
		t.Fatalf("dashboard TLS files not taken from the flags: %+v", c.WebServer.TLS)
	}
	c2 := &v1.ServerConfig{}
	cmd2 := &cobra.Command{Use: "frps"}
	RegisterServerConfigFlags(cmd2, c2)
	if err := cmd2.PersistentFlags().Parse([]string{"--dashboard_tls_mode=false"}); err != nil || c2.WebServer.TLS != nil {
		t.Fatalf("--dashboard_tls_mode=false must leave dashboard TLS off (err=%v tls=%v)", err, c2.WebServer.TLS)
	}
}
