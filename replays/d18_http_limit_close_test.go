package proxy

// Native reproducer for D18 (C10/C02): HTTPProxy.GetRealConn with a server-side bandwidth limit
// wraps the work connection in a limiter whose close function is
//     func() error { return rwc.Close() }
// but rwc has just been re-assigned to that very wrapper, so Close calls itself once (guarded by
// golib's closed flag) and the work connection underneath is never closed: the client never
// sees end-of-stream and the connection leaks.

import (
	"context"
	"net"
	"testing"

	"golang.org/x/time/rate"

	v1 "github.com/fatedier/frp/pkg/config/v1"
	plugin "github.com/fatedier/frp/pkg/plugin/server"
	"github.com/fatedier/frp/server/controller"
)

type d18Conn struct {
	net.Conn
	closed int
}

func (c *d18Conn) Write(p []byte) (int, error) { return len(p), nil }
func (c *d18Conn) Close() error                { c.closed++; return nil }
func (c *d18Conn) RemoteAddr() net.Addr        { return &net.TCPAddr{} }
func (c *d18Conn) LocalAddr() net.Addr         { return &net.TCPAddr{} }

func d18Proxy(limited bool) (*HTTPProxy, *d18Conn) {
	work := &d18Conn{}
	cfg := &v1.HTTPProxyConfig{}
	cfg.Name, cfg.Type = "web", "http"
	scfg := &v1.ServerConfig{}
	var lim *rate.Limiter
	if limited {
		lim = rate.NewLimiter(rate.Limit(1<<20), 1<<20)
	}
	bp := &BaseProxy{name: "web", rc: &controller.ResourceController{PluginManager: plugin.NewManager()}, poolCount: 0,
		getWorkConnFn: func() (net.Conn, error) { return work, nil },
		serverCfg:     scfg, limiter: lim, configurer: cfg, ctx: context.Background()}
	return &HTTPProxy{BaseProxy: bp, cfg: cfg}, work
}

func TestD18HTTPRealConnCloseReachesWorkConn(t *testing.T) {
	for _, limited := range []bool{false, true} {
		pxy, work := d18Proxy(limited)
		c, err := pxy.GetRealConn("9.9.9.9:4321")
		if err != nil {
			t.Fatal(err)
		}
		c.Close()
		if work.closed == 0 {
			t.Errorf("bandwidth limit=%v: closing the connection handed to the reverse proxy left the work connection open", limited)
		}
	}
}
