package server

// Native reproducer for D30 (C15/C16): an http server plugin that answers a gated operation with
// {"reject": false, "unchange": false, "content": null} makes the plugin manager panic on an
// unchecked type assertion (encoding/json sets the interface field to nil); the callers run in
// goroutines without recover (connection handler, control read loop, per-user-connection goroutine),
// so one such answer ends frps.

import (
	"net/http"
	"net/http/httptest"
	"testing"

	v1 "github.com/fatedier/frp/pkg/config/v1"
)

func TestD30PluginAnswerWithNullContent(t *testing.T) {
	ts := httptest.NewServer(http.HandlerFunc(func(w http.ResponseWriter, r *http.Request) {
		w.Header().Set("Content-Type", "application/json")
		_, _ = w.Write([]byte(`{"reject": false, "unchange": false, "content": null}`))
	}))
	defer ts.Close()
	m := NewManager()
	m.Register(NewHTTPPluginOptions(v1.HTTPPluginOptions{Name: "p", Addr: ts.URL, Path: "/h",
		Ops: []string{OpLogin, OpNewProxy, OpPing, OpNewWorkConn, OpNewUserConn}}))
	try := func(name string, f func() error) {
		defer func() {
			if r := recover(); r != nil {
				t.Errorf("%s: plugin manager panicked: %v", name, r)
			}
		}()
		if err := f(); err == nil {
			t.Errorf("%s: an answer that claims a change and carries no content was accepted", name)
		}
	}
	try("Login", func() error { _, err := m.Login(&LoginContent{}); return err })
	try("NewProxy", func() error { _, err := m.NewProxy(&NewProxyContent{}); return err })
	try("Ping", func() error { _, err := m.Ping(&PingContent{}); return err })
	try("NewWorkConn", func() error { _, err := m.NewWorkConn(&NewWorkConnContent{}); return err })
	try("NewUserConn", func() error { _, err := m.NewUserConn(&NewUserConnContent{}); return err })
}
