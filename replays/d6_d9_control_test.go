package server

// Native reproducers for D6 (C11) and D9 (C16/C11).

import (
	"context"
	"net"
	"testing"

	v1 "github.com/fatedier/frp/pkg/config/v1"
	"github.com/fatedier/frp/pkg/msg"
	"github.com/fatedier/frp/pkg/util/xlog"
)

type d6Conn struct {
	net.Conn
	closed int
}

func (c *d6Conn) Close() error { c.closed++; return nil }

// D6: a work connection that arrives after session teardown closed the pool is reported
// as registered (nil error), so nobody closes it: it is orphaned.
func TestD6WorkConnAfterTeardownIsOrphaned(t *testing.T) {
	ctl := &Control{workConnCh: make(chan net.Conn, 2), xl: xlog.New()}
	close(ctl.workConnCh) // what Control.worker does on teardown
	wc := &d6Conn{}
	if err := ctl.RegisterWorkConn(wc); err == nil {
		t.Fatalf("RegisterWorkConn on an ended session returned nil: the caller believes the connection was pooled and never closes it")
	}
}

// D9: a login with pool_count < -10 makes NewControl panic (negative channel size) in the
// connection goroutine, which has no recover: frps exits.
func TestD9NegativePoolCountPanics(t *testing.T) {
	defer func() {
		if r := recover(); r != nil {
			t.Fatalf("NewControl panicked for pool_count=-11: %v", r)
		}
	}()
	cfg := &v1.ServerConfig{}
	cfg.Transport.MaxPoolCount = 5
	c1, c2 := net.Pipe()
	defer c1.Close()
	defer c2.Close()
	_, _ = NewControl(context.Background(), nil, nil, nil, nil, c1, false, &msg.Login{PoolCount: -11}, cfg)
}
