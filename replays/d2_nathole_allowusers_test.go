package nathole

// Native reproducer for D2 (C08/C20): the session branch of HandleVisitor checks the
// signature but not allowUsers, so a keyed visitor whose user is not allowed still gets a
// session and the proxy owner is notified.

import (
	"context"
	"testing"
	"time"

	"github.com/fatedier/frp/pkg/msg"
	"github.com/fatedier/frp/pkg/util/util"
)

type d2Transporter struct{ sent []msg.Message }

func (t *d2Transporter) Send(m msg.Message) error { t.sent = append(t.sent, m); return nil }
func (t *d2Transporter) Do(ctx context.Context, req msg.Message, laneKey, recvMsgType string) (msg.Message, error) {
	return nil, nil
}
func (t *d2Transporter) Dispatch(m msg.Message, laneKey string) bool                  { return false }
func (t *d2Transporter) DispatchWithType(m msg.Message, msgType, laneKey string) bool { return false }

func TestD2DisallowedUserGetsSession(t *testing.T) {
	NatHoleTimeout = 1
	c, _ := NewController(time.Hour)
	sidCh, err := c.ListenClient("secret", "sk", []string{"alice"})
	if err != nil {
		t.Fatal(err)
	}
	notified := make(chan string, 1)
	go func() {
		select {
		case sid := <-sidCh:
			notified <- sid
		case <-time.After(3 * time.Second):
		}
	}()
	ts := time.Now().Unix()
	tr := &d2Transporter{}
	c.HandleVisitor(&msg.NatHoleVisitor{TransactionID: "t", ProxyName: "secret", Timestamp: ts, SignKey: util.GetAuthKey("sk", ts)}, tr, "mallory")
	select {
	case sid := <-notified:
		t.Fatalf("owner of [secret] was notified (sid %s) for visitor user mallory although allowUsers = [alice]", sid)
	default:
	}
	if len(tr.sent) != 1 || tr.sent[0].(*msg.NatHoleResp).Error == "" {
		t.Fatalf("expected exactly one error response, got %v", tr.sent)
	}
}
