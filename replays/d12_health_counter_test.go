package health

// Native reproducer for D12 (C19): failedTimes is only ever incremented, so failures that
// are not consecutive add up: after an earlier failure, a healthy proxy with maxFailed=2 is
// withdrawn after a single failed probe.

import (
	"context"
	"net"
	"testing"
	"time"

	v1 "github.com/fatedier/frp/pkg/config/v1"
)

func TestD12NonConsecutiveFailuresWithdrawProxy(t *testing.T) {
	ln, err := net.Listen("tcp", "127.0.0.1:0")
	if err != nil {
		t.Skip(err)
	}
	addr := ln.Addr().String()
	ln.Close() // probe 1 fails (nothing listens)
	events := make(chan string, 10)
	m := NewMonitor(context.Background(), v1.HealthCheckConfig{Type: "tcp", MaxFailed: 2, IntervalSeconds: 1, TimeoutSeconds: 1}, addr,
		func() { events <- "up" }, func() { events <- "down" })
	m.Start()
	defer m.Stop()
	time.Sleep(300 * time.Millisecond) // probe 1: failed (count 1, not healthy yet)
	ln, err = net.Listen("tcp", addr)
	if err != nil {
		t.Skip(err)
	}
	go func() {
		for {
			c, err := ln.Accept()
			if err != nil {
				return
			}
			c.Close()
		}
	}()
	if e := <-events; e != "up" { // probe 2: success
		t.Fatalf("expected up, got %s", e)
	}
	ln.Close() // probe 3 fails: ONE failure since the success, maxFailed is 2
	select {
	case e := <-events:
		// a "down" here arrives after a single failure since the last success
		if e == "down" {
			// make sure it was really only one probe: interval is 1s, we waited < 1.6s after "up"
			t.Fatalf("proxy withdrawn after a single failed probe (maxFailed=2): earlier, non-consecutive failures were counted")
		}
	case <-time.After(1600 * time.Millisecond):
	}
}
