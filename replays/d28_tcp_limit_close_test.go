package proxy

// Native reproducer for D28 (C10/C01): BaseProxy.handleUserTCPConnection with a server-side
// bandwidth limit wraps the work connection in a limiter whose close function is
//     func() error { return local.Close() }
// but local has just been re-assigned to that very wrapper. When the user closes, golib's Join closes
// "local" - which reaches nobody - so the work connection stays open: frpc and the backend never see
// the end of the stream and the bridge goroutines stay until the backend gives up on its own.

import (
	"context"
	"io"
	"net"
	"testing"
	"time"

	"golang.org/x/time/rate"

	v1 "github.com/fatedier/frp/pkg/config/v1"
	"github.com/fatedier/frp/pkg/msg"
	plugin "github.com/fatedier/frp/pkg/plugin/server"
	"github.com/fatedier/frp/server/controller"
)

func TestD28UserCloseReachesWorkConnUnderServerSideLimit(t *testing.T) {
	for _, limited := range []bool{false, true} {
		workS, workC := net.Pipe() // frps end, frpc end
		userS, userC := net.Pipe() // frps end, user end
		cfg := &v1.TCPProxyConfig{}
		cfg.Name, cfg.Type = "t", "tcp"
		var lim *rate.Limiter
		if limited {
			lim = rate.NewLimiter(rate.Limit(1<<20), 1<<20)
		}
		bp := &BaseProxy{name: "t", rc: &controller.ResourceController{PluginManager: plugin.NewManager()},
			getWorkConnFn: func() (net.Conn, error) { return workS, nil },
			serverCfg:     &v1.ServerConfig{}, limiter: lim, configurer: cfg, ctx: context.Background()}
		go bp.handleUserTCPConnection(userS)
		// frpc: read the StartWorkConn announcement
		_ = workC.SetReadDeadline(time.Now().Add(3 * time.Second))
		var start msg.StartWorkConn
		if err := msg.ReadMsgInto(workC, &start); err != nil {
			t.Fatalf("limit=%v: no StartWorkConn: %v", limited, err)
		}
		// the user goes away
		userC.Close()
		// frpc must see the end of the stream
		_ = workC.SetReadDeadline(time.Now().Add(2 * time.Second))
		_, err := workC.Read(make([]byte, 1))
		if err != io.EOF {
			t.Errorf("bandwidth limit=%v: the user closed, but the work connection was not closed (read on frpc's end: %v)", limited, err)
		}
		workC.Close()
	}
}
