package server

// Native reproducer for D27 (C04): a session created through the ssh gateway's internal listener
// (always-pass) accepts key-less work connections from ANY listener although the NewWorkConns scope
// is configured: the check uses the session's verifier instead of the listener's.

import (
	"context"
	"net"
	"testing"
	"time"

	"github.com/fatedier/frp/pkg/auth"
	v1 "github.com/fatedier/frp/pkg/config/v1"
	"github.com/fatedier/frp/pkg/msg"
	plugin "github.com/fatedier/frp/pkg/plugin/server"
	"github.com/fatedier/frp/server/controller"
	"github.com/fatedier/frp/server/proxy"
)

func TestD27KeylessWorkConnForSSHSessionFromPublicListener(t *testing.T) {
	cfg := &v1.ServerConfig{}
	cfg.Complete()
	cfg.Auth.Method = v1.AuthMethodToken
	cfg.Auth.Token = "secret"
	cfg.Auth.AdditionalScopes = []v1.AuthScope{v1.AuthScopeNewWorkConns}
	pm := plugin.NewManager()
	svr := &Service{
		ctlManager:    NewControlManager(),
		pxyManager:    proxy.NewManager(),
		pluginManager: pm,
		authVerifier:  auth.NewAuthVerifier(cfg.Auth),
		rc:            &controller.ResourceController{PluginManager: pm},
		cfg:           cfg,
	}
	ctx := context.Background()

	// the gateway's virtual client logs in on the internal listener
	gwC, gwS := net.Pipe()
	go svr.handleConnection(ctx, gwS, true)
	if err := msg.WriteMsg(gwC, &msg.Login{ClientSpec: msg.ClientSpec{Type: "ssh-tunnel", AlwaysAuthPass: true}}); err != nil {
		t.Fatal(err)
	}
	_ = gwC.SetReadDeadline(time.Now().Add(5 * time.Second))
	var lr msg.LoginResp
	if err := msg.ReadMsgInto(gwC, &lr); err != nil || lr.Error != "" || lr.RunID == "" {
		t.Fatalf("gateway login: %v %+v", err, lr)
	}
	go func() { // drain what the session sends (ReqWorkConn ...)
		for {
			_ = gwC.SetReadDeadline(time.Now().Add(5 * time.Second))
			if _, err := msg.ReadMsg(gwC); err != nil {
				return
			}
		}
	}()
	ctl, ok := svr.ctlManager.GetByID(lr.RunID)
	if !ok {
		t.Fatal("session not registered")
	}
	before := len(ctl.workConnCh)

	// a peer on a PUBLIC listener names that session, with no key at all
	pubC, pubS := net.Pipe()
	go svr.handleConnection(ctx, pubS, false)
	if err := msg.WriteMsg(pubC, &msg.NewWorkConn{RunID: lr.RunID}); err != nil {
		t.Fatal(err)
	}
	_ = pubC.SetReadDeadline(time.Now().Add(1 * time.Second))
	var sw msg.StartWorkConn
	err := msg.ReadMsgInto(pubC, &sw)
	pooled := len(ctl.workConnCh) - before
	if pooled != 0 || err != nil || sw.Error == "" {
		t.Fatalf("key-less NewWorkConn from a public listener for an ssh-gateway session: pooled=%d, refusal read err=%v answer=%+v (want: refused with an error answer, not pooled)", pooled, err, sw)
	}
}
