package net

// Native reproducer for D5 (C10): CloseNotifyConn.Close calls itself instead of the wrapped
// connection, so the wrapped transport is never closed (websocket listener path).

import (
	"net"
	"testing"
)

type d5Conn struct {
	net.Conn
	closed int
}

func (c *d5Conn) Close() error { c.closed++; return nil }

func TestD5CloseNotifyConnNeverClosesTransport(t *testing.T) {
	under := &d5Conn{}
	cb := 0
	c := WrapCloseNotifyConn(under, func() { cb++ })
	_ = c.Close()
	_ = c.Close()
	if under.closed != 1 || cb != 1 {
		t.Fatalf("wrapped transport closed %d times (want 1), callback ran %d times (want 1)", under.closed, cb)
	}
}
