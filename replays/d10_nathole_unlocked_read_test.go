package nathole

// Native reproducer for D10 (C16): the pre-check branch of HandleVisitor reads clientCfgs
// without the controller lock while ListenClient/CloseClient (other sessions) write it.
// Go aborts the process on such an access ("fatal error: concurrent map read and map
// write"), so the failure shows as a crashed test binary, not as a failed assertion.

import (
	"sync"
	"testing"
	"time"

	"github.com/fatedier/frp/pkg/msg"
)

func TestD10PreCheckReadsClientTableUnlocked(t *testing.T) {
	c, _ := NewController(time.Hour)
	var wg sync.WaitGroup
	stop := make(chan struct{})
	wg.Add(2)
	go func() { // registrations and closures of xtcp proxies by other sessions
		defer wg.Done()
		for i := 0; ; i++ {
			select {
			case <-stop:
				return
			default:
			}
			_, _ = c.ListenClient("p", "sk", []string{"*"})
			c.CloseClient("p")
		}
	}()
	go func() { // a visitor's pre-check
		defer wg.Done()
		tr := &d2Transporter{}
		for {
			select {
			case <-stop:
				return
			default:
			}
			c.HandleVisitor(&msg.NatHoleVisitor{ProxyName: "p", PreCheck: true}, tr, "u")
			tr.sent = tr.sent[:0]
		}
	}()
	time.Sleep(1500 * time.Millisecond)
	close(stop)
	wg.Wait()
}
