#!/usr/bin/env python3
"""blind_spots.py: lists the frp functions (non-test, outside test/, web/, hack/) that NO registered harness executes,
from the `functions_encoded_frp` lists in /verif/evidence/*.json, grouped by package with line counts.
A PASS says nothing about code in this list. Usage: blind_spots.py [min_lines]"""
import json, glob, re, os, sys
minl = int(sys.argv[1]) if len(sys.argv) > 1 else 8
enc = set()
for f in glob.glob('/verif/evidence/C*.json'):
    for h in json.load(open(f))['coverage']['harnesses']:
        enc.update(h.get('functions_encoded_frp') or [])
base = {re.sub(r'\$\d+.*$', '', x) for x in enc}
os.chdir('/repo')
miss, total = {}, 0
for root, ds, fs in os.walk('.'):
    if any(root.startswith(p) for p in ('./test', './web', './.git', './hack', './doc', './assets')):
        continue
    for f in fs:
        if not f.endswith('.go') or f.endswith('_test.go') or f.startswith('zz_'):
            continue
        pkg = 'github.com/fatedier/frp/' + root[2:] if root != '.' else 'github.com/fatedier/frp'
        src = open(os.path.join(root, f)).read()
        for m in re.finditer(r'^func (?:\((\w+\s+)?(\*?)(\w+)(?:\[[^\]]*\])?\)\s*)?(\w+)\s*[\(\[]', src, re.M):
            star, T, name = m.group(2), m.group(3), m.group(4)
            full = f'({star}{pkg}.{T}).{name}' if T else f'{pkg}.{name}'
            total += 1
            if full not in base:
                end = src.find('\n}\n', m.start())
                n = src[m.start():end].count('\n') if end > 0 else 0
                miss.setdefault(root[2:], []).append(((T + '.' if T else '') + name, n))
print(f"{total} functions, {sum(len(v) for v in miss.values())} never executed by a harness")
for tot, k, v in sorted(((sum(n for _, n in v), k, v) for k, v in miss.items()), reverse=True):
    big = ' '.join(f'{a}({n})' for a, n in sorted(v, key=lambda x: -x[1]) if n >= minl)
    print(f"{k}: {len(v)} funcs, {tot} lines :: {big}")
