#!/usr/bin/env python3
"""Regenerates /verif/MANIFEST.json from harness/index.json + tools/manifest_meta.json."""
import json, os
root = os.path.dirname(os.path.dirname(os.path.abspath(__file__)))
idx = json.load(open(os.path.join(root, 'harness/index.json')))
meta = json.load(open(os.path.join(root, 'tools/manifest_meta.json')))
props = [json.loads(l) for l in open(os.path.join(root, 'properties.jsonl'))]
checks, na = [], []
for p in props:
    pid = p['id']
    m = meta.get(pid, {})
    if pid in idx['properties'] and not m.get('not_applicable'):
        hs = idx['properties'][pid]['harnesses']
        checks.append({
            "property_id": pid,
            "quick_cmd": "/verif/bin/gosym check %s --tier quick" % pid,
            "thorough_cmd": "/verif/bin/gosym check %s --tier thorough" % pid,
            "evidence_file": "/verif/evidence/%s.json" % pid,
            "replay_cmd_template": "/verif/bin/gosym replay {path}",
            "engine": "gosym",
            "level_claimed": {
                "category": "model_checking",
                "text": m.get("text", "bounded symbolic execution of the real go/ssa code; see DESIGN.md"),
                "design_ref": m.get("design_ref", "DESIGN.md §3 " + pid),
            },
            "level_note": m.get("note", "") + " Harnesses: " + ", ".join(h['name'] for h in hs) + ".",
            "technique": "bounded symbolic execution of go/ssa (gosym) with SMT (z3) deciding every branch feasibility and assertion",
        })
    else:
        na.append({"property_id": pid, "reason": m.get("na_reason", "no check registered yet (work in progress)")})
man = {
    "version": 1,
    "setup_cmd": "cd /verif/engine && GOFLAGS=-mod=mod GOPROXY=off GOSUMDB=off GOTOOLCHAIN=local go build -o /verif/bin/gosym . && /verif/bin/gosym selftest",
    "hooks": {
        "guard": "verif",
        "enable": "no hook lives in /repo: harnesses (//go:build verif) and the zzverif helper package are injected through go/packages overlays from /verif/harness and loaded with -tags verif",
        "baseline_off_cmd": "cd /repo && go test -vet=off -count=1 -timeout 25m ./...",
        "source_commits": [],
        "add_only": True,
    },
    "engines": [{
        "name": "gosym", "path": "/verif/engine",
        "serves_properties": [c["property_id"] for c in checks],
        "kind_free_text": "bounded symbolic executor for go/ssa written for this task: stateless DFS over fork decisions by re-execution, z3 -in (incremental, then one-shot for hard queries), sliced query cache, model-guided path following; harnesses are ordinary in-package Go functions injected by overlay",
    }],
    "checks": checks,
    "notes": meta.get("_notes", ""),
    "not_applicable": na,
}
json.dump(man, open(os.path.join(root, 'MANIFEST.json'), 'w'), indent=1)
print("checks:", [c['property_id'] for c in checks], "n/a:", [n['property_id'] for n in na])
