#!/bin/bash
# usage: try_seed.sh <patch.diff> <tier> <prop> [<prop>...]  -- applies the patch to /repo, runs the checks, reverts.
P=$1; T=$2; shift 2
cd /repo && git apply "$P" || { echo "patch does not apply"; exit 2; }
for p in "$@"; do
  timeout 1800 /verif/bin/gosym check $p --tier $T --no-evidence 2>&1 | grep -E "^violation in|^VIOLATION|^PASS|^INCONCLUSIVE property|KNOWN" | sort | uniq -c | head -8
done
git -C /repo checkout -- . ; git -C /repo status --short | head -3
