#!/bin/bash
# usage: par_tier.sh <log> <tier> <parallel> [--no-evidence]  -- every property's check at the tier, <parallel> at a time
L=$1; T=$2; P=$3; X=${4:-}; : > $L
seq -w 1 20 | xargs -P $P -I{} bash -c 'S=$(date +%s); /verif/bin/gosym check C{} --tier '$T' '$X' > /tmp/pt_'$T'_C{}.log 2>&1; R=$?; E=$(date +%s); echo "C{} exit=$R $((E-S))s $(grep -E "^PASS|^VIOLATION|^INCONCLUSIVE property" /tmp/pt_'$T'_C{}.log | head -2 | tr "\n" " ")" >> '$L
echo DONE >> $L
