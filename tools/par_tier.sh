#!/bin/bash
# usage: par_tier.sh <log> <tier> <parallel> [--no-evidence] [-- ids...]  -- every property's check at the tier, <parallel> at a time
L=$1; T=$2; P=$3; shift 3; X=""; if [ "${1:-}" = "--no-evidence" ]; then X=$1; shift; fi
[ "${1:-}" = "--" ] && shift; IDS="$*"; [ -z "$IDS" ] && IDS="20 19 09 03 06 18 13 01 12 11 14 02 10 07 08 15 16 17 04 05"
: > $L
echo $IDS | tr ' ' '\n' | xargs -P $P -I{} bash -c 'S=$(date +%s); /verif/bin/gosym check C{} --tier '$T' '$X' > /tmp/pt_'$T'_C{}.log 2>&1; R=$?; E=$(date +%s); echo "C{} exit=$R $((E-S))s $(grep -E "^PASS|^VIOLATION|^INCONCLUSIVE property" /tmp/pt_'$T'_C{}.log | head -2 | tr "\n" " ")" >> '$L
echo DONE >> $L
