#!/bin/bash
# usage: regress_seeds.sh <log> [filter]  -- for every kept seeded change: apply it in the scratch worktree /tmp/mutrepo3
# (checked out at /repo's HEAD) and run the FIRST harness of its caught_by list at the quick tier; logs STILL-CAUGHT / LOST.
L=$1; F=${2:-}; : > $L
M=/tmp/mutrepo3
git -C $M checkout -q --detach $(git -C /repo rev-parse HEAD) 2>/dev/null
for d in /verif/seeded/*$F*/; do
  id=$(basename $d)
  h=$(python3 -c "import json;m=json.load(open('$d/meta.json'));print(m['caught_by'][0] if m['caught_by'] else '')")
  [ -z "$h" ] && { echo "$id NO-HARNESS" >> $L; continue; }
  p=${h%%.*}
  git -C $M checkout -q -- . ; git -C $M clean -fdq
  if ! git -C $M apply $d/patch.diff 2>/dev/null; then echo "$id APPLY-FAILED (source drifted: fix commits since)" >> $L; continue; fi
  r=$(GOSYM_REPO=$M timeout 900 /verif/bin/gosym check $p --tier quick --harness $h --no-evidence 2>&1 | grep -cE '^violation in|^VIOLATION')
  if [ "$r" -gt 0 ]; then echo "$id STILL-CAUGHT $h" >> $L; else echo "$id LOST $h" >> $L; fi
done
git -C $M checkout -q -- . ; git -C $M clean -fdq
echo DONE >> $L
