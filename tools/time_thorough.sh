#!/bin/bash
# usage: time_thorough.sh <out log> [budget seconds]  -- runs every registered harness once at the thorough tier
OUT=$1; B=${2:-600}
python3 - <<'PY' > /tmp/harness_list.txt
import json
idx=json.load(open('/verif/harness/index.json'))
seen=set()
for pid in sorted(idx['properties']):
    for h in idx['properties'][pid]['harnesses']:
        key=(h['pkg'],h['entry'],json.dumps(h.get('thorough',{}),sort_keys=True))
        if key in seen: continue   # the same harness registered under several properties runs once here
        seen.add(key)
        print(pid,h['name'])
PY
while read P H; do
  S=$(date +%s)
  R=$(timeout $((B+120)) /verif/bin/gosym check $P --tier thorough --no-evidence --harness $H --budget $B 2>&1 | grep -E "^PASS|^VIOLATION|^INCONCLUSIVE property|^violation in|budget|UNWIND|solver died|unknown" | sort | uniq -c | head -4 | tr '\n' ';')
  E=$(date +%s)
  echo "$H $((E-S))s $R" >> $OUT
done < /tmp/harness_list.txt
echo "TIMING DONE" >> $OUT
