#!/bin/bash
# usage: fullquick.sh <log> [tier]  -- runs every property's check once (evidence written), prints PASS/other per property
L=$1; T=${2:-quick}; : > $L
for i in $(seq -w 1 20); do
  S=$(date +%s)
  /verif/bin/gosym check C$i --tier $T > /tmp/fq_C$i.log 2>&1; R=$?
  E=$(date +%s)
  echo "C$i exit=$R $((E-S))s $(grep -E '^PASS|^VIOLATION|^INCONCLUSIVE property' /tmp/fq_C$i.log | head -2 | tr '\n' ' ')" >> $L
done
echo DONE >> $L
