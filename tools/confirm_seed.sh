#!/bin/bash
# usage: confirm_seed.sh <seed dir with patch.diff, demo files, demo_path.txt> 
# Confirms in a scratch worktree: patch applies, builds, existing tests pass, demo fails with / passes without.
set -u
export GOFLAGS=-mod=mod GOPROXY=off GOSUMDB=off GOTOOLCHAIN=local
D=$1
W=/tmp/cfwt.$$
git -C /repo worktree add --detach $W HEAD -q || exit 2
cleanup() { git -C /repo worktree remove --force $W >/dev/null 2>&1; rm -rf $W; }
trap cleanup EXIT
cd $W
# place demo files
declare -a DEMOS=()
while read -r line; do
  p=$(echo "$line" | grep -oE '[A-Za-z0-9_.-]+(/[A-Za-z0-9_.-]+)+\.go' | grep -v '^_out' | head -1)
  [ -z "$p" ] && continue
  f=$(basename "$p")
  # "source.go -> target/path.go": the demo is stored under another name than it must be placed
  if echo "$line" | grep -q -- '->'; then
    src=$(echo "$line" | sed 's/ *->.*//' | grep -oE '[A-Za-z0-9_.-]+\.go' | tail -1)
    p=$(echo "$line" | sed 's/.*-> *//' | grep -oE '[A-Za-z0-9_.-]+(/[A-Za-z0-9_.-]+)+\.go' | head -1)
    [ -n "$src" ] && f=$src
  fi
  if [ -f "$D/$f" ]; then mkdir -p "$(dirname "$p")"; cp "$D/$f" "$p"; DEMOS+=("$p"); fi
done < "$D/demo_path.txt"
if [ ${#DEMOS[@]} -eq 0 ]; then echo "CONFIRM: no demo placed"; exit 2; fi
PK=$(for d in "${DEMOS[@]}"; do echo "./$(dirname $d)"; done | sort -u | tr '\n' ' ')
RUN=$(grep -ohE 'func (Test[A-Za-z0-9_]+)' "${DEMOS[@]}" | sed 's/func //' | tr '\n' '|' | sed 's/|$//')
echo "demo pkgs: $PK tests: $RUN"
go test -vet=off -count=1 -run "^($RUN)\$" $PK > /tmp/confirm_without.$$ 2>&1; R0=$?
git apply "$D/patch.diff" || { echo "CONFIRM: patch does not apply"; exit 2; }
go build ./... > /tmp/confirm_build.$$ 2>&1; RB=$?
go test -vet=off -count=1 -run "^($RUN)\$" $PK > /tmp/confirm_with.$$ 2>&1; R1=$?
# existing suite (without the demo files)
for d in "${DEMOS[@]}"; do rm -f "$d"; done
go test -vet=off -count=1 $(go list ./... | grep -v /test/e2e) > /tmp/confirm_suite.$$ 2>&1; RS=$?
echo "CONFIRM without-change demo exit=$R0 (want 0); build=$RB (want 0); with-change demo exit=$R1 (want !=0); existing suite exit=$RS (want 0)"
tail -3 /tmp/confirm_with.$$ | cut -c1-200
rm -f /tmp/confirm_*.$$
[ $R0 -eq 0 ] && [ $RB -eq 0 ] && [ $R1 -ne 0 ] && [ $RS -eq 0 ] && echo "CONFIRMED" || echo "NOT-CONFIRMED"
