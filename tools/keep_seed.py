#!/usr/bin/env python3
"""keep_seed.py <src dir> <seed id> <property> <caught_by (comma list or 'MISSED')> <needs...>"""
import sys, os, shutil, json, subprocess
src, sid, prop, caught = sys.argv[1:5]
needs = " ".join(sys.argv[5:])
dst = f"/verif/seeded/{sid}"
os.makedirs(dst, exist_ok=True)
for f in os.listdir(src):
    if f.endswith('.go') or f in ('patch.diff', 'demo_path.txt', 'notes.md'):
        shutil.copy(os.path.join(src, f), os.path.join(dst, f))
commit = subprocess.check_output(['git', '-C', '/repo', 'log', '--format=%h', '-1']).decode().strip()
meta = {
    "seed_id": sid, "property": prop, "needs_to_manifest": needs,
    "repo_commit_applied_on": commit,
    "confirmed": "tools/confirm_seed.sh in a scratch worktree: patch applies, go build ./... ok, existing tests pass, demo FAILS with the change and PASSES without",
    "checks_run": f"tools/try_seed.sh {dst}/patch.diff quick <props> (git apply on /repo, gosym check, git checkout -- .)",
    "caught_by": [] if caught == 'MISSED' else caught.split(','),
    "origin": "written by an independent sub-agent that saw only the property text and a scratch worktree",
}
json.dump(meta, open(os.path.join(dst, 'meta.json'), 'w'), indent=1)
print("kept", dst)
