#!/usr/bin/env python3
"""alias_harness.py <existing harness name> <new name Cxx.name> : registers the same harness (same entry, stubs,
bounds) under another property, because the behaviour it decides is also a clause of that property."""
import json, sys, copy
p = '/verif/harness/index.json'
idx = json.load(open(p))
src, new = sys.argv[1], sys.argv[2]
pid = new.split('.')[0]
found = None
for q in idx['properties']:
    for h in idx['properties'][q]['harnesses']:
        if h['name'] == src:
            found = h
if not found:
    sys.exit("no such harness " + src)
if any(h['name'] == new for h in idx['properties'][pid]['harnesses']):
    sys.exit("already there: " + new)
h = copy.deepcopy(found)
h['name'] = new
idx['properties'][pid]['harnesses'].append(h)
json.dump(idx, open(p, 'w'), indent=1)
print("registered", new, "=", src)
