#!/usr/bin/env python3
"""Regenerates, inside DESIGN.md, the harness table (8.2) and the seeded-change table (8.5) from
harness/index.json and seeded/*/meta.json, so the document cannot drift from what is registered.
Usage: gen_design_tables.py [--print]"""
import json, os, glob, sys, re
root = '/verif'
idx = json.load(open(f'{root}/harness/index.json'))
h = ["| harness | package / entry | bounds (quick → thorough parameters) | outside the claim |", "|---|---|---|---|"]
for pid in sorted(idx['properties']):
    for x in idx['properties'][pid]['harnesses']:
        q = ", ".join(f"{k}={v}" for k, v in x.get('quick', {}).items()) or "–"
        t = ", ".join(f"{k}={v}" for k, v in x.get('thorough', {}).items()) or "–"
        par = "" if q == t == "–" else f" [{q} → {t}]"
        h.append(f"| `{x['name']}` | `{x['pkg']}` `{x['entry']}` | {x.get('bounds','')}{par} | {x.get('outside','')} |")
s = ["| seeded change | property | what it needs to show | caught by |", "|---|---|---|---|"]
for d in sorted(glob.glob(f'{root}/seeded/*/meta.json')):
    m = json.load(open(d))
    c = ", ".join(f"`{x}`" for x in m['caught_by']) or "**missed**"
    s.append(f"| `{m['seed_id']}` | {m['property']} | {m['needs_to_manifest']} | {c} |")
if '--print' in sys.argv:
    print("\n".join(h)); print(); print("\n".join(s)); sys.exit(0)
doc = open(f'{root}/DESIGN.md').read()
def repl(doc, tag, lines):
    a, b = f'<!-- BEGIN GENERATED {tag} -->\n', f'<!-- END GENERATED {tag} -->'
    i, j = doc.index(a) + len(a), doc.index(b)
    return doc[:i] + "\n".join(lines) + "\n" + doc[j:]
doc = repl(doc, 'harness-table', h)
doc = repl(doc, 'seed-table', s)
open(f'{root}/DESIGN.md', 'w').write(doc)
print("DESIGN.md tables regenerated:", len(h) - 2, "harnesses,", len(s) - 2, "seeded changes")
