#!/usr/bin/env python3
"""Prints the markdown tables of DESIGN.md section 8.2 (harnesses) and 8.5 (seeded changes) from
harness/index.json and seeded/*/meta.json, so the document cannot drift from what is registered."""
import json, os, glob
idx = json.load(open('/verif/harness/index.json'))
print("| harness | package / entry | bounds (quick → thorough parameters) | outside the claim |")
print("|---|---|---|---|")
for pid in sorted(idx['properties']):
    for h in idx['properties'][pid]['harnesses']:
        q = ", ".join(f"{k}={v}" for k, v in h.get('quick', {}).items()) or "–"
        t = ", ".join(f"{k}={v}" for k, v in h.get('thorough', {}).items()) or "–"
        par = "" if q == t == "–" else f" [{q} → {t}]"
        print(f"| `{h['name']}` | `{h['pkg']}` `{h['entry']}` | {h.get('bounds','')}{par} | {h.get('outside','')} |")
print()
print("| seeded change | property | what it needs to show | caught by |")
print("|---|---|---|---|")
for d in sorted(glob.glob('/verif/seeded/*/meta.json')):
    m = json.load(open(d))
    c = ", ".join(f"`{x}`" for x in m['caught_by']) or "**missed**"
    print(f"| `{m['seed_id']}` | {m['property']} | {m['needs_to_manifest']} | {c} |")
