#!/usr/bin/env python3
"""keep_round.py <batch report> [round]: keeps the seeds of a round (already CONFIRMED in the report) as
/verif/seeded/<id>/ with the harnesses that reported a violation in the report."""
import sys, re, os, json, shutil, subprocess
names = {
 'C01-1':'muxer-keeps-write-deadline','C01-2':'client-limiter-close-noop','C01-3':'limit-mode-case-insensitive',
 'C02-1':'https2http-drops-xff-lines','C02-2':'connect-tunnel-write-deadline','C02-3':'max-conns-per-host',
 'C03-1':'client-reader-reuses-packet','C03-2':'server-udp-stale-sender','C03-3':'forwarder-drops-empty-reply',
 'C04-1':'authpass-from-the-wire','C04-2':'ping-liveness-before-verify','C04-3':'refused-workconn-left-open',
 'C05-1':'visitor-flags-swapped','C05-2':'selfsigned-drops-trusted-ca','C05-3':'quic-ca-needs-client-cert',
 'C06-1':'poolkey-request-user','C06-2':'canonical-dot-before-port','C06-3':'mux-user-before-host-level',
 'C07-1':'poolkey-without-route-user','C07-2':'tcpmux-group-password-ignored','C07-3':'httpproxy-connect-before-auth',
 'C08-1':'unknown-runid-as-legacy','C08-2':'nathole-session-before-allow','C08-3':'sudp-wrong-compression-flag',
 'C09-1':'quota-rollback-before-check','C09-2':'group-join-reports-requested-port','C09-3':'port-unfreed-on-failed-probe',
 'C10-1':'quota-kept-on-name-clash','C10-2':'http-subdomain-last-route-only','C10-3':'done-before-proxies-released',
 'C11-1':'http-start-loses-src','C11-2':'pool-capacity-unclamped','C11-3':'late-workconn-dangling',
 'C12-1':'loser-unpublishes-winner','C12-2':'async-newproxy-handler','C12-3':'client-runid-wiped-on-refusal',
 'C13-1':'group-port-zero-not-released','C13-2':'tcpmux-group-routeuser-ignored','C13-3':'http-group-first-member-stays',
 'C14-1':'unverified-ping-is-liveness','C14-2':'watchdog-armed-by-first-pong','C14-3':'relogin-config-snapshot',
 'C15-1':'close-notifications-share-object','C15-2':'plugin-lists-share-array','C15-3':'workconn-auth-on-preplugin-msg',
 'C16-1':'sendloop-stops-on-write-error','C16-2':'negative-limit-limiter','C16-3':'router-lock-narrowed',
 'C17-1':'json-tag-renamed-2','C17-2':'visitor-resp-through-bufio','C17-3':'accept-loop-returns-2',
 'C18-1':'strict-switch-sticky','C18-2':'env-values-with-equals','C18-3':'limit-mode-server-not-sent',
 'C19-1':'probe-deadline-is-interval','C19-2':'vupdate-ranges-running','C19-3':'newproxy-sent-after-unlock',
 'C20-1':'makehole-timeout-shrunk','C20-2':'first-mapped-addr-unchecked','C20-3':'recommand-returns-position',
}
rep = open(sys.argv[1]).read()
ROUND = int(sys.argv[2]) if len(sys.argv) > 2 else 2
OUT = f"/tmp/seed{ROUND}out"
def slug(title):
    t = re.sub(r'^[^A-Za-z]*(C\d\d\s*/?\s*)?(seeded\s+)?change\s*\d+\s*[-—:]*\s*', '', title, flags=re.I)
    t = re.sub(r'\(.*?\)|`', '', t)
    w = re.findall(r'[A-Za-z0-9]+', t.lower())
    stop = {'the','a','an','of','to','is','are','in','on','for','and','when','its','it','that','with','no','not','as','by','from','after','before','be','into','at','one','s'}
    w = [x for x in w if x not in stop][:6]
    return '-'.join(w)[:48]
commit = subprocess.check_output(['git','-C','/repo','log','--format=%h','-1']).decode().strip()
for blk in rep.split('=== ')[1:]:
    head, *rest = blk.split('\n')
    m = re.match(r'/tmp/seed\dout/(C\d\d)/(\d) \((.*)\)', head)
    if not m: continue
    P, k, props = m.groups()
    body = '\n'.join(rest)
    if 'NOT-CONFIRMED' in body or 'CONFIRMED' not in body:
        print("skip (not confirmed)", P, k); continue
    caught = sorted(set(re.findall(r'violation in (C\d\d\.[A-Za-z0-9_-]+):', body)) | set(re.findall(r'replay/C\d\d/(C\d\d\.[A-Za-z0-9_-]+?)-\d+\.json', body)))
    src = f"{OUT}/{P}/{k}"
    title0 = open(os.path.join(src,'notes.md')).readline()
    sid = f"{P}-r2-{names[P+'-'+k]}" if ROUND == 2 else f"{P}-r{ROUND}-{k}-{slug(title0)}"
    dst = f"/verif/seeded/{sid}"
    os.makedirs(dst, exist_ok=True)
    for f in os.listdir(src):
        if f.endswith('.go') or f in ('patch.diff','demo_path.txt','notes.md'):
            shutil.copy(os.path.join(src,f), os.path.join(dst,f))
    title = open(os.path.join(src,'notes.md')).readline().lstrip('# ').strip()
    meta = {"seed_id": sid, "property": P, "round": ROUND, "needs_to_manifest": title,
            "repo_commit_applied_on": commit,
            "confirmed": "tools/confirm_seed.sh in a scratch worktree: patch applies, go build ./... ok, existing tests pass, demo FAILS with the change and PASSES without",
            "checks_run": f"tools/seed_batch.sh: patch applied in the scratch worktree /tmp/mutrepo, `gosym check {props} --tier quick` against it (GOSYM_REPO), reverted",
            "caught_by": caught,
            "origin": "written by an independent sub-agent that saw only the property text and a scratch worktree"}
    json.dump(meta, open(os.path.join(dst,'meta.json'),'w'), indent=1)
    print(sid, '->', ','.join(caught) or 'MISSED')
