#!/usr/bin/env python3
"""add_harness.py <json file or -> : adds (or replaces by name) harness entries in harness/index.json.
Input: a JSON list of entries; each entry's property is the Cxx prefix of its name."""
import json, sys
ix = json.load(open('/verif/harness/index.json'))
new = json.load(sys.stdin if sys.argv[1] == '-' else open(sys.argv[1]))
for e in new:
    p = e['name'].split('.')[0]
    hs = ix['properties'][p]['harnesses']
    for i, h in enumerate(hs):
        if h['name'] == e['name']:
            hs[i] = e; break
    else:
        hs.append(e)
json.dump(ix, open('/verif/harness/index.json', 'w'), indent=1, ensure_ascii=False)
print("ok", [e['name'] for e in new])
