#!/bin/bash
# usage: seed_batch.sh <out report> <seeddir:prop[,prop...]> ...
# For each seed: confirm it (tools/confirm_seed.sh, own scratch worktree), then apply it in the scratch
# worktree /tmp/mutrepo and run the quick checks of the listed properties against THAT tree (GOSYM_REPO),
# so /repo is never touched. Nothing is written to /verif/evidence.
REPORT=$1; shift
export GOFLAGS=-mod=mod GOPROXY=off GOSUMDB=off GOTOOLCHAIN=local
M=${MUT:-/tmp/mutrepo}
[ -d $M ] || git -C /repo worktree add --detach $M HEAD -q
for item in "$@"; do
  D=${item%%:*}; PROPS=${item#*:}
  echo "=== $D ($PROPS)" >> $REPORT
  if [ -n "$NOCONFIRM" ]; then echo "CONFIRMED (earlier run, see DESIGN.md 8.5)" >> $REPORT; else
  /verif/tools/confirm_seed.sh $D 2>&1 | grep -E "CONFIRM|NOT-CONFIRMED" | tail -2 >> $REPORT; fi
  git -C $M checkout -q -- . ; git -C $M clean -fdq
  if ! git -C $M apply $D/patch.diff; then echo "APPLY-FAILED" >> $REPORT; continue; fi
  for p in $(echo $PROPS | tr ',' ' '); do
    GOSYM_REPO=$M timeout 1800 /verif/bin/gosym check $p --tier quick --no-evidence 2>&1 | grep -E "^violation in|^VIOLATION|^PASS|^INCONCLUSIVE property|LOAD-ERROR|^INCONCLUSIVE: .*unsupported" | cut -c1-220 | sort | uniq -c | head -24 >> $REPORT
  done
  git -C $M checkout -q -- . ; git -C $M clean -fdq
done
echo "=== BATCH DONE" >> $REPORT
