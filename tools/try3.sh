#!/bin/bash
# usage: try3.sh <seed dir> <prop> <harness> [tier]  -- applies the seed in /tmp/mutrepo3 and runs one harness against it
D=$1; P=$2; H=$3; T=${4:-quick}
cd /tmp/mutrepo3 && git checkout -q -- . && git clean -fdq && git apply $D/patch.diff || { echo APPLY-FAILED; exit 2; }
GOSYM_REPO=/tmp/mutrepo3 timeout 1200 /verif/bin/gosym check $P --tier $T --harness $H --no-evidence 2>&1 | grep -E '^violation in|^PASS|^INCONCLUSIVE|LOAD-ERROR' | cut -c1-220 | sort | uniq | head -8
git checkout -q -- . ; git clean -fdq
