#!/usr/bin/env python3
"""batch_status.py <batch log>... : per seed CAUGHT/MISSED/running, ignoring labels given with -x"""
import re, sys
skip=[a[2:] for a in sys.argv[1:] if a.startswith('-x')]
for f in [a for a in sys.argv[1:] if not a.startswith('-x')]:
    cur=None; res={}
    for l in open(f):
        if l.startswith('=== /'):
            cur=l.split()[1]; res[cur]=[]
        elif cur: res[cur].append(l.rstrip())
    for k,v in res.items():
        viol=[x for x in v if 'violation in' in x and not any(s in x for s in skip)]
        done=any('PASS' in x or 'VIOLATION' in x for x in v)
        bad=[x for x in v if 'NOT-CONFIRMED' in x or 'LOAD-ERROR' in x or 'INCONCLUSIVE' in x or 'APPLY-FAILED' in x]
        print(k, 'CAUGHT' if viol else ('MISSED' if done else 'running'), bad[:2], sorted(set(re.sub(r'.*violation in (\S+):.*',r'\1',x) for x in viol))[:5])
