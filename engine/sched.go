package main

import (
	"fmt"
	"go/types"

	"golang.org/x/tools/go/ssa"
)

// ------------------------------------------------------------ scheduling

func (m *Machine) runnable() []*Thread {
	var r []*Thread
	for _, t := range m.threads {
		if t.state == tsBlocked && t.blockCond != nil && t.blockCond() {
			t.state = tsRunnable
			t.blockCond = nil
		}
		if t.state == tsRunnable && t.top != nil {
			r = append(r, t)
		}
	}
	return r
}

func (m *Machine) pickThread() *Thread {
	if m.forceNext != nil {
		t := m.forceNext
		m.forceNext = nil
		if t.state == tsRunnable && t.top != nil {
			return t
		}
	}
	rs := m.runnable()
	if len(rs) == 0 {
		// quiescent: fire an abstract timer for a thread blocked in a select/recv with a timer case
		var ts []*Thread
		for _, t := range m.threads {
			if t.state == tsBlocked && t.timerWake != nil {
				ts = append(ts, t)
			}
		}
		if len(ts) == 0 {
			return nil
		}
		pick := 0
		if len(ts) > 1 {
			alts := make([]*Term, len(ts))
			for i := range alts {
				alts[i] = TrueT
			}
			pick = m.decide("timer-wake", alts)
		}
		t := ts[pick]
		t.timerWake()
		t.timerWake = nil
		t.state = tsRunnable
		t.blockCond = nil
		return t
	}
	for _, t := range rs {
		if t == m.cur {
			return t
		}
	}
	if len(rs) == 1 {
		return rs[0]
	}
	// several threads are runnable at a blocking point: the default is the lowest thread id;
	// any other choice is paid from the same budget as a forced preemption
	if m.ps.preempts >= m.cfgInt("preempt", 0) {
		return rs[0]
	}
	alts := make([]*Term, len(rs))
	for i := range alts {
		alts[i] = TrueT
	}
	ch := m.decide("sched-free", alts)
	if ch != 0 {
		m.ps.preempts++
	}
	return rs[ch]
}

// schedPoint is called after a synchronisation operation completed.
func (m *Machine) schedPoint(why string) {
	if len(m.threads) <= 1 {
		return
	}
	if m.ps.preempts >= m.cfgInt("preempt", 0) {
		return
	}
	var others []*Thread
	for _, t := range m.runnable() {
		if t != m.cur {
			others = append(others, t)
		}
	}
	if len(others) == 0 {
		return
	}
	if m.cur.state != tsRunnable || m.cur.top == nil {
		return // free switch handled by pickThread
	}
	alts := make([]*Term, 1+len(others))
	for i := range alts {
		alts[i] = TrueT
	}
	ch := m.decide("sched", alts)
	if ch == 0 {
		return
	}
	m.ps.preempts++
	m.forceNext = others[ch-1]
	panic(yieldSig{})
}

func (m *Machine) block(th *Thread, what string, cond func() bool) {
	th.waitOn = what
	th.blockCond = cond
	panic(blockedSig{})
}

// ------------------------------------------------------------ channels

func (m *Machine) chanOf(v Value) *ChanV {
	c, ok := v.(*ChanV)
	if !ok {
		if pv, isP := v.(PoisonV); isP {
			m.unsupported("channel op on poison: %s", pv.Why)
		}
		m.unsupported("channel op on %T", v)
	}
	return c
}

// Unbuffered channels are modelled with a one-slot hand-off buffer that only
// accepts a value when a receiver is waiting (recvWait > 0).
func (m *Machine) canSend(c *ChanV) bool {
	if c == nil {
		return false
	}
	if c.closed {
		return true // will panic
	}
	if c.cap > 0 {
		return len(c.buf) < c.cap
	}
	return c.recvWait > 0 && len(c.buf) == 0
}

func (m *Machine) canRecv(c *ChanV) bool {
	if c == nil {
		return false
	}
	if len(c.buf) > 0 || c.closed {
		return true
	}
	if c.timer {
		return false
	}
	if c.cap == 0 && c.sendWait > 0 {
		return false // sender will hand off once we are registered
	}
	return false
}

func (m *Machine) chanSend(th *Thread, cv Value, v Value) {
	c := m.chanOf(cv)
	if c == nil {
		m.block(th, "send on nil channel", func() bool { return false })
	}
	if c.closed {
		m.raise(m.runtimeErrorValue("send on closed channel"))
	}
	if c.cap > 0 {
		if len(c.buf) < c.cap {
			m.logUndoChan(c)
			c.buf = append(c.buf, copyValue(v))
			return
		}
		m.block(th, fmt.Sprintf("send on full chan#%d", c.id), func() bool { return c.closed || len(c.buf) < c.cap })
	}
	// unbuffered: rendezvous
	if c.recvWait > 0 && len(c.buf) == 0 {
		m.logUndoChan(c)
		c.buf = append(c.buf, copyValue(v))
		c.recvWait--
		return
	}
	m.logUndoChan(c)
	if !th.sendReg[c] {
		if th.sendReg == nil {
			th.sendReg = map[*ChanV]bool{}
		}
		th.sendReg[c] = true
		c.sendWait++
	}
	defer func() {
		// leaving via blockedSig: stay registered
	}()
	m.block(th, fmt.Sprintf("send on unbuffered chan#%d", c.id), func() bool { return c.closed || (c.recvWait > 0 && len(c.buf) == 0) })
}

func (m *Machine) unregSend(th *Thread, c *ChanV) {
	if th.sendReg[c] {
		delete(th.sendReg, c)
		c.sendWait--
	}
}

func (m *Machine) chanRecv(th *Thread, cv Value, commaOk bool, fr *Frame, in *ssa.UnOp) Value {
	c := m.chanOf(cv)
	if c == nil {
		m.block(th, "recv on nil channel", func() bool { return false })
	}
	mk := func(v Value, ok bool) Value {
		if commaOk {
			return TupleV{v, BoolC(ok)}
		}
		return v
	}
	if c.timer {
		// abstract timer: fires whenever the receiver asks
		return mk(m.timeValue(), true)
	}
	if len(c.buf) > 0 {
		m.logUndoChan(c)
		v := c.buf[0]
		c.buf = c.buf[1:]
		if th.recvReg[c] {
			delete(th.recvReg, c)
		} else if c.cap == 0 {
			// the value had been handed to a registered waiter (the sender counted it off); this
			// thread took it first, so that waiter is still waiting and counts again
			c.recvWait++
		}
		m.wantYield = "recv"
		return mk(v, true)
	}
	if c.closed {
		if th.recvReg[c] {
			delete(th.recvReg, c)
			c.recvWait--
		}
		return mk(zeroValue(c.elemT), false)
	}
	if c.cap == 0 {
		m.logUndoChan(c)
		if !th.recvReg[c] {
			if th.recvReg == nil {
				th.recvReg = map[*ChanV]bool{}
			}
			th.recvReg[c] = true
			c.recvWait++
		}
	}
	m.block(th, fmt.Sprintf("recv on empty chan#%d", c.id), func() bool { return len(c.buf) > 0 || c.closed })
	return nil
}

func (m *Machine) chanClose(cv Value) {
	c := m.chanOf(cv)
	if c == nil {
		m.raise(m.runtimeErrorValue("close of nil channel"))
	}
	if c.closed {
		m.raise(m.runtimeErrorValue("close of closed channel"))
	}
	m.logUndoChan(c)
	c.closed = true
}

// doSelect implements the select statement.
func (m *Machine) doSelect(th *Thread, fr *Frame, in *ssa.Select) {
	type cs struct {
		c    *ChanV
		send bool
		val  Value
	}
	states := make([]cs, len(in.States))
	for i, st := range in.States {
		states[i].c = m.chanOf(m.get(fr, st.Chan))
		if st.Dir == types.SendOnly {
			states[i].send = true
			states[i].val = m.get(fr, st.Send)
		}
	}
	var ready []int
	var timers []int
	for i, s := range states {
		if s.c == nil {
			continue
		}
		if s.send {
			if s.c.closed || (s.c.cap > 0 && len(s.c.buf) < s.c.cap) || (s.c.cap == 0 && s.c.recvWait > 0 && len(s.c.buf) == 0) {
				ready = append(ready, i)
			}
		} else {
			if s.c.timer {
				timers = append(timers, i)
			} else if len(s.c.buf) > 0 || s.c.closed {
				ready = append(ready, i)
			}
		}
	}
	fire := th.timerFired
	th.timerFired = false
	choose := func(opts []int) int {
		if len(opts) == 1 {
			return opts[0]
		}
		// Go picks uniformly among ready cases; a path explores that choice for its first
		// `selectForks` multi-ready selects and is then scheduled round-robin per select site
		// (fair: a case that stays ready is eventually taken), so that a loop around a select
		// with two permanently ready cases does not unfold without bound.
		if m.ps.selectForks >= m.cfgInt("selectForks", 6) {
			if m.ps.selectLast == nil {
				m.ps.selectLast = map[ssa.Instruction]int{}
			}
			k := (m.ps.selectLast[in] + 1) % len(opts)
			m.ps.selectLast[in] = k
			return opts[k]
		}
		m.ps.selectForks++
		alts := make([]*Term, len(opts))
		for i := range alts {
			alts[i] = TrueT
		}
		return opts[m.decide("select", alts)]
	}
	idx := -1
	// A sender that completed its send on an unbuffered channel did so because this select was
	// waiting on that channel: the hand-off has committed the select to that case, whatever else
	// became ready afterwards (otherwise the value would be delivered to nobody).
	handed := -1
	for i, s := range states {
		if s.c != nil && !s.send && !s.c.timer && s.c.cap == 0 && th.recvReg[s.c] && len(s.c.buf) > 0 {
			handed = i
			break
		}
	}
	switch {
	case handed >= 0:
		idx = handed
	case fire && len(timers) > 0:
		idx = choose(timers)
	case len(ready) > 0 && len(timers) > 0 && m.cfgInt("timersMayFireEarly", 1) == 1 && m.cfgInt("timersFireOnlyWhenIdle", 0) == 0:
		idx = choose(append(append([]int(nil), ready...), timers...))
	case len(ready) > 0:
		idx = choose(ready)
	case !in.Blocking:
		idx = -1
	default:
		// nothing ready: register as waiting receiver on unbuffered channels, then block
		for _, s := range states {
			if s.c == nil || s.send || s.c.timer {
				continue
			}
			if s.c.cap == 0 && !th.recvReg[s.c] {
				if th.recvReg == nil {
					th.recvReg = map[*ChanV]bool{}
				}
				m.logUndoChan(s.c)
				th.recvReg[s.c] = true
				s.c.recvWait++
			}
		}
		if len(timers) > 0 {
			// either the timer fires now, or we wait for another thread (decided when others can run)
			others := 0
			for _, t := range m.runnable() {
				if t != th {
					others++
				}
			}
			if others == 0 {
				idx = choose(timers)
				break
			}
			// timersFireOnlyWhenIdle=1: the timers of the harness are long compared with goroutine
			// scheduling: one fires only when no other thread can run any more (stated in the bounds)
			if m.cfgInt("timersFireOnlyWhenIdle", 0) == 0 && m.decide("timer", []*Term{TrueT, TrueT}) == 0 {
				idx = choose(timers)
				break
			}
			th.timerWake = func() { th.timerFired = true }
		}
		if idx < 0 {
			chs := states
			m.block(th, "select", func() bool {
				for _, s := range chs {
					if s.c == nil {
						continue
					}
					if s.send {
						if s.c.closed || (s.c.cap > 0 && len(s.c.buf) < s.c.cap) || (s.c.cap == 0 && s.c.recvWait > 0 && len(s.c.buf) == 0) {
							return true
						}
					} else if !s.c.timer && (len(s.c.buf) > 0 || s.c.closed) {
						return true
					}
				}
				return false
			})
		}
	}
	// a value taken from the hand-off slot of an unbuffered channel this thread was not registered on
	// had been counted off for another, still waiting receiver: that one counts again
	if idx >= 0 && !states[idx].send {
		if c := states[idx].c; c != nil && !c.timer && c.cap == 0 && len(c.buf) > 0 && !th.recvReg[c] {
			m.logUndoChan(c)
			c.recvWait++
		}
	}
	// unregister receiver registrations
	for c := range th.recvReg {
		if len(c.buf) == 0 || c.cap != 0 {
			c.recvWait--
		} else if idx >= 0 && states[idx].c != c {
			// a sender handed a value to this channel for us but we take another case:
			// cannot happen because hand-off consumed recvWait; keep value for next receiver
		}
		delete(th.recvReg, c)
	}
	th.timerWake = nil
	// build result tuple: (index, recvOk, recv values...)
	res := TupleV{BVC(64, uint64(int64(idx))), FalseT}
	for i, st := range in.States {
		if st.Dir == types.RecvOnly {
			var v Value = zeroValue(st.Chan.Type().Underlying().(*types.Chan).Elem())
			if i == idx {
				c := states[i].c
				switch {
				case c.timer:
					v = m.timeValue()
					res[1] = TrueT
				case len(c.buf) > 0:
					m.logUndoChan(c)
					v = c.buf[0]
					c.buf = c.buf[1:]
					res[1] = TrueT
				default: // closed
					res[1] = FalseT
				}
			}
			res = append(res, v)
		}
	}
	if idx >= 0 && states[idx].send {
		c := states[idx].c
		if c.closed {
			m.raise(m.runtimeErrorValue("send on closed channel"))
		}
		m.logUndoChan(c)
		c.buf = append(c.buf, copyValue(states[idx].val))
		if c.cap == 0 {
			c.recvWait--
		}
	}
	m.set(fr, in, res)
	fr.pc++
	m.wantYield = "select"
}

// ------------------------------------------------------------ locks

type lockState struct {
	writer  int // thread id holding write lock, -1 none
	readers map[int]int
}

func ptrKey(p *Ptr) string {
	if p.obj == nil {
		return "nil"
	}
	return fmt.Sprintf("%d%v", p.obj.id, p.path)
}

func (m *Machine) lockOf(p *Ptr) *lockState {
	k := ptrKey(p)
	ls := m.ps.locks[k]
	if ls == nil {
		ls = &lockState{writer: -1, readers: map[int]int{}}
		m.ps.locks[k] = ls
	}
	return ls
}

func (m *Machine) mutexLock(th *Thread, p *Ptr, write bool) {
	if p.IsNil() {
		m.nilDeref("lock of nil mutex")
	}
	ls := m.lockOf(p)
	if write {
		if ls.writer == -1 && len(ls.readers) == 0 {
			ls.writer = th.id
			m.wantYield = "lock"
			return
		}
		m.block(th, "mutex "+ptrKey(p), func() bool { return ls.writer == -1 && len(ls.readers) == 0 })
	}
	if ls.writer == -1 {
		ls.readers[th.id]++
		m.wantYield = "rlock"
		return
	}
	m.block(th, "rwmutex(r) "+ptrKey(p), func() bool { return ls.writer == -1 })
}

func (m *Machine) mutexTryLock(th *Thread, p *Ptr) bool {
	ls := m.lockOf(p)
	if ls.writer == -1 && len(ls.readers) == 0 {
		ls.writer = th.id
		return true
	}
	return false
}

func (m *Machine) mutexUnlock(th *Thread, p *Ptr, write bool) {
	ls := m.lockOf(p)
	if write {
		if ls.writer == -1 {
			panic(pathEnd{"crash", "fatal error: sync: unlock of unlocked mutex" + m.where()})
		}
		ls.writer = -1
		m.wantYield = "unlock"
		return
	}
	// a read lock may be released by any thread in Go; we track per-thread counts loosely
	if ls.readers[th.id] > 0 {
		ls.readers[th.id]--
		if ls.readers[th.id] == 0 {
			delete(ls.readers, th.id)
		}
	} else {
		found := false
		for k := range ls.readers {
			ls.readers[k]--
			if ls.readers[k] == 0 {
				delete(ls.readers, k)
			}
			found = true
			break
		}
		if !found {
			panic(pathEnd{"crash", "fatal error: sync: RUnlock of unlocked RWMutex" + m.where()})
		}
	}
	m.wantYield = "runlock"
}

func (m *Machine) holdsLock(th *Thread, p *Ptr, write bool) bool {
	ls := m.ps.locks[ptrKey(p)]
	if ls == nil {
		return false
	}
	if ls.writer == th.id {
		return true
	}
	if !write && ls.readers[th.id] > 0 {
		return true
	}
	return false
}

// mapAccess is the lock-discipline monitor hook (see locks.go).
func (m *Machine) mapAccess(mp *MapV, write bool) {
	if mp == nil || mp.guard == nil || !m.cfg.LockMonitor {
		return
	}
	m.monitorMapAccess(mp, write)
}
