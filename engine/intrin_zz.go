package main

import (
	"go/types"
	"reflect"
	"strings"

	"golang.org/x/tools/go/ssa"
)

const zzPkg = "github.com/fatedier/frp/zzverif."

func zz(name string, f intrinsicFn) { reg(zzPkg+name, f) }

func (m *Machine) concStr(v Value, what string) string {
	s := argStr(m, v)
	if !s.IsConst() {
		m.unsupported("%s must be a concrete string", what)
	}
	return s.Const()
}

func (m *Machine) concInt(v Value, what string) int {
	t := argTerm(m, v)
	if !t.IsConst() {
		return int(m.concretizeInt(t, what, 64))
	}
	return int(t.SVal())
}

func (m *Machine) boolArg(v Value) *Term {
	t := argTerm(m, v)
	if t.sort.K != SBool {
		m.unsupported("expected bool")
	}
	return t
}

func init() {
	mkInt := func(w int) intrinsicFn {
		return func(m *Machine, th *Thread, fn *ssa.Function, a []Value) (Value, bool) {
			return m.freshVar(m.concStr(a[0], "variable name"), BV(w)), true
		}
	}
	zz("Int", mkInt(64))
	zz("Int64", mkInt(64))
	zz("Uint64", mkInt(64))
	zz("Int32", mkInt(32))
	zz("Byte", mkInt(8))
	zz("Bool", func(m *Machine, th *Thread, fn *ssa.Function, a []Value) (Value, bool) {
		return m.freshVar(m.concStr(a[0], "variable name"), BoolSort), true
	})
	zz("IntRange", func(m *Machine, th *Thread, fn *ssa.Function, a []Value) (Value, bool) {
		v := m.freshVar(m.concStr(a[0], "variable name"), BV(64))
		m.assume(And(SLe(argTerm(m, a[1]), v), SLe(v, argTerm(m, a[2]))))
		return v, true
	})
	zz("Choice", func(m *Machine, th *Thread, fn *ssa.Function, a []Value) (Value, bool) {
		name := m.concStr(a[0], "variable name")
		n := m.concInt(a[1], "Choice n")
		v := m.freshVar(name, BV(64))
		m.assume(And(SLe(BVC(64, 0), v), SLt(v, BVC(64, uint64(n)))))
		c := m.concretizeInt(v, "choice "+name, n+1)
		return BVC(64, uint64(c)), true
	})
	bytesOf := func(m *Machine, name string, n int) []*Term {
		b := make([]*Term, n)
		for i := range b {
			b[i] = m.freshVar(name, BV(8))
		}
		return b
	}
	zz("Bytes", func(m *Machine, th *Thread, fn *ssa.Function, a []Value) (Value, bool) {
		n := m.concInt(a[1], "Bytes n")
		return m.bytesToSlice(bytesOf(m, m.concStr(a[0], "name"), n)), true
	})
	zz("String", func(m *Machine, th *Thread, fn *ssa.Function, a []Value) (Value, bool) {
		n := m.concInt(a[1], "String n")
		return &StrV{B: bytesOf(m, m.concStr(a[0], "name"), n)}, true
	})
	zz("ASCII", func(m *Machine, th *Thread, fn *ssa.Function, a []Value) (Value, bool) {
		n := m.concInt(a[1], "ASCII n")
		b := bytesOf(m, m.concStr(a[0], "name"), n)
		c := TrueT
		for _, x := range b {
			c = And(c, ULt(x, BVC(8, 0x80)))
		}
		m.assume(c)
		return &StrV{B: b}, true
	})
	zz("StringOf", func(m *Machine, th *Thread, fn *ssa.Function, a []Value) (Value, bool) {
		n := m.concInt(a[1], "StringOf n")
		alpha := m.concStr(a[2], "alphabet")
		b := bytesOf(m, m.concStr(a[0], "name"), n)
		c := TrueT
		for _, x := range b {
			o := FalseT
			for i := 0; i < len(alpha); i++ {
				o = Or(o, Eq(x, BVC(8, uint64(alpha[i]))))
			}
			c = And(c, o)
		}
		m.assume(c)
		return &StrV{B: b}, true
	})
	zz("Assume", func(m *Machine, th *Thread, fn *ssa.Function, a []Value) (Value, bool) {
		m.assume(m.boolArg(a[0]))
		return nil, true
	})
	zz("Assert", func(m *Machine, th *Thread, fn *ssa.Function, a []Value) (Value, bool) {
		m.assertProp(m.boolArg(a[0]), m.concStr(a[1], "assert label"))
		return nil, true
	})
	zz("Fail", func(m *Machine, th *Thread, fn *ssa.Function, a []Value) (Value, bool) {
		m.assertProp(FalseT, m.concStr(a[0], "assert label"))
		return nil, true
	})
	zz("Reach", func(m *Machine, th *Thread, fn *ssa.Function, a []Value) (Value, bool) {
		m.ps.reached[m.concStr(a[0], "reach label")] = true
		return nil, true
	})
	zz("Observe", func(m *Machine, th *Thread, fn *ssa.Function, a []Value) (Value, bool) {
		var sb strings.Builder
		sb.WriteString(m.concStr(a[0], "observe label"))
		sb.WriteString("=")
		for i, v := range m.sliceElems(a[1]) {
			if i > 0 {
				sb.WriteString(",")
			}
			sb.WriteString((&StrV{B: m.fmtArg("%v", v)}).Const())
		}
		m.ps.observes = append(m.ps.observes, sb.String())
		return nil, true
	})
	zz("Except", func(m *Machine, th *Thread, fn *ssa.Function, a []Value) (Value, bool) {
		id := m.concStr(a[0], "except id")
		cond := m.boolArg(a[1])
		m.ps.excepts[id] = cond
		switch m.cfg.ExceptMode[id] {
		case "exclude":
			m.assume(Not(cond))
		case "only":
			m.assume(cond)
		}
		return nil, true
	})
	zz("And", func(m *Machine, th *Thread, fn *ssa.Function, a []Value) (Value, bool) {
		return And(m.boolArg(a[0]), m.boolArg(a[1])), true
	})
	zz("Or", func(m *Machine, th *Thread, fn *ssa.Function, a []Value) (Value, bool) {
		return Or(m.boolArg(a[0]), m.boolArg(a[1])), true
	})
	zz("Not", func(m *Machine, th *Thread, fn *ssa.Function, a []Value) (Value, bool) {
		return Not(m.boolArg(a[0])), true
	})
	zz("Implies", func(m *Machine, th *Thread, fn *ssa.Function, a []Value) (Value, bool) {
		return Implies(m.boolArg(a[0]), m.boolArg(a[1])), true
	})
	zz("Iff", func(m *Machine, th *Thread, fn *ssa.Function, a []Value) (Value, bool) {
		return Eq(m.boolArg(a[0]), m.boolArg(a[1])), true
	})
	zz("IteInt", func(m *Machine, th *Thread, fn *ssa.Function, a []Value) (Value, bool) {
		return Ite(m.boolArg(a[0]), argTerm(m, a[1]), argTerm(m, a[2])), true
	})
	zz("StrEq", func(m *Machine, th *Thread, fn *ssa.Function, a []Value) (Value, bool) {
		return strEq(argStr(m, a[0]), argStr(m, a[1])), true
	})
	zz("BytesEq", func(m *Machine, th *Thread, fn *ssa.Function, a []Value) (Value, bool) {
		return bytesEq(m.byteTerms(a[0]), m.byteTerms(a[1])), true
	})
	zz("Param", func(m *Machine, th *Thread, fn *ssa.Function, a []Value) (Value, bool) {
		name := m.concStr(a[0], "param name")
		if v, ok := m.cfg.Params[name]; ok {
			return BVC(64, uint64(int64(v))), true
		}
		return a[1], true
	})
	zz("UF", func(m *Machine, th *Thread, fn *ssa.Function, a []Value) (Value, bool) {
		name := m.concStr(a[0], "uf name")
		outLen := m.concInt(a[1], "uf outLen")
		var args []*Term
		shape := ""
		for _, v := range m.sliceElems(a[2]) {
			iv := v.(*IfaceV)
			switch x := iv.V.(type) {
			case *Term:
				args = append(args, x)
				shape += "i"
			case *StrV:
				shape += "s" + itoa(len(x.B))
				args = append(args, x.B...)
			default:
				m.unsupported("UF argument %T", iv.V)
			}
		}
		out := make([]*Term, outLen)
		for i := range out {
			out[i] = UFApp("uf_"+name+"_"+shape+"_b"+itoa(i), BV(8), args...)
		}
		return &StrV{B: out}, true
	})
	zz("Yield", func(m *Machine, th *Thread, fn *ssa.Function, a []Value) (Value, bool) {
		m.wantYield = "yield"
		return nil, true
	})
	zz("Quiesce", func(m *Machine, th *Thread, fn *ssa.Function, a []Value) (Value, bool) {
		// let every other thread run until it blocks or finishes
		others := func() bool {
			for _, t := range m.threads {
				if t == th {
					continue
				}
				if t.state == tsBlocked && t.blockCond != nil && t.blockCond() {
					return true
				}
				if t.state == tsRunnable && t.top != nil {
					return true
				}
			}
			return false
		}
		if others() {
			if th.quiesced {
				th.quiesced = false
				return nil, true
			}
			th.quiesced = true
			m.block(th, "quiesce", func() bool { return !others() })
		}
		th.quiesced = false
		return nil, true
	})
	zz("Guard", func(m *Machine, th *Thread, fn *ssa.Function, a []Value) (Value, bool) {
		// Guard(mapValue any, mutexPtr any, name string): every later access to the map must hold the mutex
		mi, _ := a[0].(*IfaceV)
		pi, _ := a[1].(*IfaceV)
		if mi == nil || pi == nil {
			m.unsupported("Guard arguments")
		}
		mp, ok := mi.V.(*MapV)
		p, ok2 := pi.V.(*Ptr)
		if !ok || !ok2 || mp == nil || p.IsNil() {
			m.unsupported("Guard needs a non-nil map and a mutex pointer")
		}
		mp.guard, mp.guardPath, mp.owner = p.obj, p.path, m.concStr(a[2], "guard name")
		m.cfg.LockMonitor = true
		return nil, true
	})
	zz("SetMapOrderLimit", func(m *Machine, th *Thread, fn *ssa.Function, a []Value) (Value, bool) {
		m.cfg.Params["mapOrderLimit"] = m.concInt(a[0], "limit")
		return nil, true
	})
	zz("SetPreempt", func(m *Machine, th *Thread, fn *ssa.Function, a []Value) (Value, bool) {
		m.cfg.Params["preempt"] = m.concInt(a[0], "preempt")
		return nil, true
	})
	zz("Concretize", func(m *Machine, th *Thread, fn *ssa.Function, a []Value) (Value, bool) {
		t := argTerm(m, a[0])
		return BVC(64, uint64(m.concretizeInt(t, "Concretize", 256))), true
	})
	zz("FieldTags", func(m *Machine, th *Thread, fn *ssa.Function, a []Value) (Value, bool) {
		// the JSON field names of the dynamic struct type, read from the type information of
		// the current source: "GoField=jsonname[,omitempty];" per exported field, embedded
		// frp structs flattened the way encoding/json does
		iv, _ := a[0].(*IfaceV)
		if iv == nil || iv.T == nil {
			m.unsupported("FieldTags of nil interface")
		}
		return strConst(fieldTagsOf(iv.T)), true
	})
	zz("Note", func(m *Machine, th *Thread, fn *ssa.Function, a []Value) (Value, bool) {
		m.ps.notes = append(m.ps.notes, m.concStr(a[0], "note"))
		return nil, true
	})
	zz("AllocsLE", func(m *Machine, th *Thread, fn *ssa.Function, a []Value) (Value, bool) {
		b := argTerm(m, a[0])
		r := TrueT
		for _, al := range m.ps.allocs {
			r = And(r, SLe(al, b))
		}
		return r, true
	})
	zz("SymAllocs", func(m *Machine, th *Thread, fn *ssa.Function, a []Value) (Value, bool) {
		return BVC(64, uint64(len(m.ps.allocs))), true
	})
	zz("IsSymbolicRun", func(m *Machine, th *Thread, fn *ssa.Function, a []Value) (Value, bool) { return TrueT, true })
	zz("Unsupported", func(m *Machine, th *Thread, fn *ssa.Function, a []Value) (Value, bool) {
		m.unsupported("harness: %s", m.concStr(a[0], "msg"))
		return nil, true
	})
	zz("IsAssumeFailed", func(m *Machine, th *Thread, fn *ssa.Function, a []Value) (Value, bool) { return FalseT, true })
}

func itoa(i int) string {
	if i == 0 {
		return "0"
	}
	neg := i < 0
	if neg {
		i = -i
	}
	var b []byte
	for i > 0 {
		b = append([]byte{byte('0' + i%10)}, b...)
		i /= 10
	}
	if neg {
		return "-" + string(b)
	}
	return string(b)
}

var _ = types.Typ

func fieldTagsOf(t types.Type) string {
	if p, ok := t.Underlying().(*types.Pointer); ok {
		t = p.Elem()
	}
	st, ok := t.Underlying().(*types.Struct)
	if !ok {
		return "<not a struct>"
	}
	var sb strings.Builder
	for i := 0; i < st.NumFields(); i++ {
		f := st.Field(i)
		if !f.Exported() {
			continue
		}
		tag := reflect.StructTag(st.Tag(i)).Get("json")
		if f.Embedded() && tag == "" {
			sb.WriteString(fieldTagsOf(f.Type()))
			continue
		}
		if tag == "" {
			tag = f.Name()
		}
		sb.WriteString(f.Name() + "=" + tag + ";")
	}
	return sb.String()
}
