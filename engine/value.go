package main

import (
	"fmt"
	"go/types"
	"math"
	"strings"

	"golang.org/x/tools/go/ssa"
)

// Value is one of: *Term (bool/int), FloatV, *StrV, *Ptr, *SliceV, *StructV,
// *ArrayV, *IfaceV, *MapV, *ChanV, *FuncV, TupleV, PoisonV, ComplexV(unsupported).
type Value interface{}

type FloatV struct {
	F float64 // concrete value (when T == nil)
	W int     // 32 or 64
	// T != nil: a float64 holding EXACTLY the signed integer value of the 64-bit term T
	// ("exact-integer float"). Created by converting a symbolic integer whose magnitude is
	// shown to stay below 2^52; closed under multiplication by integer-valued constants,
	// addition/subtraction and comparison as long as magnitudes stay below 2^52 (each such
	// side condition is a verification condition: a path on which it can fail ends
	// INCONCLUSIVE, it is never assumed away). Anything else on such a value is unsupported.
	T *Term
}

type PoisonV struct{ Why string }

// StrV: string with concrete length and per-byte terms (BV8).
type StrV struct {
	B []*Term
}

// Obj is an addressable memory cell holding a value tree.
type Obj struct {
	id    int
	val   Value
	epoch int // 0 = persistent (init-time) ; >0 = path-local
	typ   types.Type
	name  string
	// lock-discipline monitor / misc tags
	tag interface{}
}

// Ptr: pointer to (obj, path). nil pointer is represented by Ptr{obj:nil}.
type Ptr struct {
	obj  *Obj
	path []int
	// fn pointers / unsafe pointer to string data etc.
	unsafeStr *StrV
	// symbolic element pointer: path ends in an array element selected by sym (64-bit index term)
	sym *Term
}

var NilPtr = &Ptr{}

func (p *Ptr) IsNil() bool { return p == nil || (p.obj == nil && p.unsafeStr == nil) }

type SliceV struct {
	arr *Obj // backing array object; val is *ArrayV
	off int
	len int
	cap int
	// symbolic length (only for lazily sized make([]T, n)); when non-nil, len is an upper
	// bound used for storage and slen is the actual length term.
	slen *Term
}

func (s *SliceV) IsNil() bool { return s == nil || s.arr == nil }

type StructV struct {
	F []Value
}

type ArrayV struct {
	E []Value
}

type IfaceV struct {
	T types.Type // dynamic type; nil for nil interface
	V Value
}

var NilIface = &IfaceV{}

type mapEntry struct {
	k, v    Value
	deleted bool
	repr    string // concrete key representation ("" if symbolic)
}

type MapV struct {
	id        int
	index     map[string]*mapEntry // concrete-key index
	symKeys   int                  // entries whose key is not concrete
	entries   []*mapEntry
	keyT      types.Type
	elemT     types.Type
	epoch     int
	guard     *Obj // mutex object guarding this map (lock-discipline monitor)
	guardPath []int
	owner     string
}

type ChanV struct {
	id     int
	cap    int
	buf    []Value
	closed bool
	elemT  types.Type
	epoch  int
	name   string
	// abstract timer channel: may fire at any time (time.After / Ticker)
	timer    bool
	recvWait int
	sendWait int
}

type FuncV struct {
	fn       *ssa.Function
	bindings []Value
	intrin   string // name of builtin/intrinsic when fn == nil
	recv     Value  // bound method receiver (for method values created by engine)
}

type TupleV []Value

// ---------------------------------------------------------------- helpers

func strConst(s string) *StrV {
	b := make([]*Term, len(s))
	for i := 0; i < len(s); i++ {
		b[i] = BVC(8, uint64(s[i]))
	}
	return &StrV{B: b}
}

func (s *StrV) IsConst() bool {
	for _, b := range s.B {
		if !b.IsConst() {
			return false
		}
	}
	return true
}

func (s *StrV) Const() string {
	var sb strings.Builder
	for _, b := range s.B {
		if b.IsConst() {
			sb.WriteByte(byte(b.c))
		} else {
			sb.WriteByte('?')
		}
	}
	return sb.String()
}

func strEq(a, b *StrV) *Term {
	if len(a.B) != len(b.B) {
		return FalseT
	}
	r := TrueT
	for i := range a.B {
		r = And(r, Eq(a.B[i], b.B[i]))
		if r.IsFalse() {
			return r
		}
	}
	return r
}

// strLess: lexicographic a < b (byte-wise unsigned).
func strLess(a, b *StrV) *Term {
	n := len(a.B)
	if len(b.B) < n {
		n = len(b.B)
	}
	// result if all common bytes equal: len(a) < len(b)
	r := BoolC(len(a.B) < len(b.B))
	for i := n - 1; i >= 0; i-- {
		r = Ite(Eq(a.B[i], b.B[i]), r, ULt(a.B[i], b.B[i]))
	}
	return r
}

func intWidth(t types.Type) (w int, signed bool) {
	b, ok := t.Underlying().(*types.Basic)
	if !ok {
		panic(fmt.Sprintf("intWidth of %v", t))
	}
	switch b.Kind() {
	case types.Int8:
		return 8, true
	case types.Int16:
		return 16, true
	case types.Int32:
		return 32, true
	case types.Int64, types.Int, types.UntypedInt, types.UntypedRune:
		return 64, true
	case types.Uint8:
		return 8, false
	case types.Uint16:
		return 16, false
	case types.Uint32:
		return 32, false
	case types.Uint64, types.Uint, types.Uintptr:
		return 64, false
	case types.UnsafePointer:
		return 64, false
	}
	panic(fmt.Sprintf("intWidth of %v", t))
}

func isIntType(t types.Type) bool {
	b, ok := t.Underlying().(*types.Basic)
	return ok && b.Info()&types.IsInteger != 0
}

func isBoolType(t types.Type) bool {
	b, ok := t.Underlying().(*types.Basic)
	return ok && b.Info()&types.IsBoolean != 0
}

func isFloatType(t types.Type) bool {
	b, ok := t.Underlying().(*types.Basic)
	return ok && b.Info()&types.IsFloat != 0
}

func isStringType(t types.Type) bool {
	b, ok := t.Underlying().(*types.Basic)
	return ok && b.Info()&types.IsString != 0
}

func floatWidth(t types.Type) int {
	b := t.Underlying().(*types.Basic)
	if b.Kind() == types.Float32 {
		return 32
	}
	return 64
}

// zeroValue returns the zero value for type t.
func zeroValue(t types.Type) Value {
	switch u := t.Underlying().(type) {
	case *types.Basic:
		switch {
		case u.Info()&types.IsBoolean != 0:
			return FalseT
		case u.Info()&types.IsInteger != 0:
			w, _ := intWidth(u)
			return BVC(w, 0)
		case u.Info()&types.IsFloat != 0:
			return FloatV{F: 0, W: floatWidth(u)}
		case u.Info()&types.IsString != 0:
			return &StrV{}
		case u.Kind() == types.UnsafePointer:
			return NilPtr
		case u.Kind() == types.UntypedNil:
			return NilPtr
		case u.Info()&types.IsComplex != 0:
			return PoisonV{"complex"}
		}
	case *types.Pointer:
		return NilPtr
	case *types.Slice:
		return (*SliceV)(nil)
	case *types.Map:
		return (*MapV)(nil)
	case *types.Chan:
		return (*ChanV)(nil)
	case *types.Signature:
		return (*FuncV)(nil)
	case *types.Interface:
		return NilIface
	case *types.Struct:
		f := make([]Value, u.NumFields())
		for i := range f {
			f[i] = zeroValue(u.Field(i).Type())
		}
		return &StructV{F: f}
	case *types.Array:
		n := int(u.Len())
		e := make([]Value, n)
		if n > 0 {
			z := zeroValue(u.Elem())
			for i := range e {
				if i == 0 {
					e[i] = z
				} else {
					e[i] = copyValue(z)
				}
			}
		}
		return &ArrayV{E: e}
	case *types.Tuple:
		tv := make(TupleV, u.Len())
		for i := range tv {
			tv[i] = zeroValue(u.At(i).Type())
		}
		return tv
	case *types.TypeParam:
		panic("zeroValue of type parameter " + t.String())
	}
	panic(fmt.Sprintf("zeroValue: unhandled type %v (%T)", t, t.Underlying()))
}

// copyValue deep-copies aggregates (struct/array); reference values are shared.
func copyValue(v Value) Value {
	switch x := v.(type) {
	case *StructV:
		f := make([]Value, len(x.F))
		for i, e := range x.F {
			f[i] = copyValue(e)
		}
		return &StructV{F: f}
	case *ArrayV:
		e := make([]Value, len(x.E))
		for i, a := range x.E {
			e[i] = copyValue(a)
		}
		return &ArrayV{E: e}
	case TupleV:
		e := make(TupleV, len(x))
		for i, a := range x {
			e[i] = copyValue(a)
		}
		return e
	}
	return v
}

func fmtValue(v Value) string {
	switch x := v.(type) {
	case nil:
		return "<nil-value>"
	case *Term:
		if x.IsConst() {
			if x.sort.K == SBool {
				return fmt.Sprint(x.c == 1)
			}
			return fmt.Sprint(x.SVal())
		}
		return "<sym:" + x.sort.String() + ">"
	case FloatV:
		return fmt.Sprint(x.F)
	case *StrV:
		return fmt.Sprintf("%q", x.Const())
	case *Ptr:
		if x.IsNil() {
			return "nil"
		}
		if x.obj == nil {
			return "&<unsafe-str>"
		}
		return fmt.Sprintf("&obj%d%v", x.obj.id, x.path)
	case *SliceV:
		if x.IsNil() {
			return "[]nil"
		}
		return fmt.Sprintf("slice(obj%d,%d,%d,%d)", x.arr.id, x.off, x.len, x.cap)
	case *StructV:
		var sb strings.Builder
		sb.WriteString("{")
		for i, f := range x.F {
			if i > 0 {
				sb.WriteString(" ")
			}
			sb.WriteString(fmtValue(f))
		}
		sb.WriteString("}")
		return sb.String()
	case *ArrayV:
		return fmt.Sprintf("[%d]array", len(x.E))
	case *IfaceV:
		if x.T == nil {
			return "nil-iface"
		}
		return fmt.Sprintf("iface(%v:%s)", x.T, fmtValue(x.V))
	case *MapV:
		if x == nil {
			return "nil-map"
		}
		return fmt.Sprintf("map#%d(%d)", x.id, len(x.entries))
	case *ChanV:
		if x == nil {
			return "nil-chan"
		}
		return fmt.Sprintf("chan#%d", x.id)
	case *FuncV:
		if x == nil {
			return "nil-func"
		}
		if x.fn != nil {
			return "func " + x.fn.String()
		}
		return "func " + x.intrin
	case TupleV:
		return fmt.Sprintf("tuple%d", len(x))
	case PoisonV:
		return "poison(" + x.Why + ")"
	}
	return fmt.Sprintf("%T", v)
}

func f2bits(f float64, w int) uint64 {
	if w == 32 {
		return uint64(math.Float32bits(float32(f)))
	}
	return math.Float64bits(f)
}

// keyRepr returns a canonical string for a fully concrete, comparable key.
func keyRepr(v Value) (string, bool) {
	switch x := v.(type) {
	case *Term:
		if x.IsConst() {
			return fmt.Sprintf("i%d:%d", x.sort.W, x.c), true
		}
	case *StrV:
		if x.IsConst() {
			return "s:" + x.Const(), true
		}
	case *Ptr:
		if x.IsNil() {
			return "p:nil", true
		}
		if x.obj != nil && x.sym == nil {
			return fmt.Sprintf("p:%d%v", x.obj.id, x.path), true
		}
	case *IfaceV:
		if x.T == nil {
			return "n:nil", true
		}
		if r, ok := keyRepr(x.V); ok {
			return "I:" + x.T.String() + "|" + r, true
		}
	case *StructV:
		var sb strings.Builder
		sb.WriteString("S{")
		for _, f := range x.F {
			r, ok := keyRepr(f)
			if !ok {
				return "", false
			}
			sb.WriteString(r)
			sb.WriteString(";")
		}
		sb.WriteString("}")
		return sb.String(), true
	case *ArrayV:
		var sb strings.Builder
		sb.WriteString("A[")
		for _, f := range x.E {
			r, ok := keyRepr(f)
			if !ok {
				return "", false
			}
			sb.WriteString(r)
			sb.WriteString(";")
		}
		sb.WriteString("]")
		return sb.String(), true
	case *ChanV:
		if x == nil {
			return "c:nil", true
		}
		return fmt.Sprintf("c:%d", x.id), true
	case FloatV:
		return fmt.Sprintf("f:%v", x.F), true
	}
	return "", false
}
