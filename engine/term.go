package main

// SMT term layer: bit-vectors and booleans with constant folding.
// Terms are immutable DAG nodes; constants carry their value so that
// concrete Go code runs without touching the solver.

import (
	"fmt"
	"math/bits"
	"strings"
)

type SortKind uint8

const (
	SBool SortKind = iota
	SBV
)

type Sort struct {
	K SortKind
	W int
}

var BoolSort = Sort{SBool, 0}

func BV(w int) Sort { return Sort{SBV, w} }

func (s Sort) String() string {
	if s.K == SBool {
		return "Bool"
	}
	return fmt.Sprintf("(_ BitVec %d)", s.W)
}

type Op uint8

const (
	OConst Op = iota
	OVar
	ONot
	OAnd
	OOr
	OEq
	OIte
	OAdd
	OSub
	OMul
	OUDiv
	OURem
	OSDiv
	OSRem
	OBAnd
	OBOr
	OBXor
	OShl
	OLShr
	OAShr
	ONeg
	OBNot
	OULt
	OULe
	OSLt
	OSLe
	OConcat
	OExtract
	OZExt
	OSExt
	OUF
)

var opNames = map[Op]string{
	ONot: "not", OAnd: "and", OOr: "or", OEq: "=", OIte: "ite",
	OAdd: "bvadd", OSub: "bvsub", OMul: "bvmul", OUDiv: "bvudiv", OURem: "bvurem",
	OSDiv: "bvsdiv", OSRem: "bvsrem", OBAnd: "bvand", OBOr: "bvor", OBXor: "bvxor",
	OShl: "bvshl", OLShr: "bvlshr", OAShr: "bvashr", ONeg: "bvneg", OBNot: "bvnot",
	OULt: "bvult", OULe: "bvule", OSLt: "bvslt", OSLe: "bvsle", OConcat: "concat",
}

type Term struct {
	op             Op
	sort           Sort
	args           []*Term
	c              uint64 // constant value (masked to width; bool: 0/1)
	name           string // var / uf name
	p1             int    // extract hi / extend amount
	p2             int    // extract lo
	id             uint64
	size           int // approximate dag size for printing decisions
	vs             []int32
	vsDone         bool
	pstr           string
	hard, hardDone bool
}

var termCounter uint64

func nextTermID() uint64 {
	termCounter++
	return termCounter
}

func mask(w int) uint64 {
	if w >= 64 {
		return ^uint64(0)
	}
	return (uint64(1) << uint(w)) - 1
}

var (
	TrueT  = &Term{op: OConst, sort: BoolSort, c: 1}
	FalseT = &Term{op: OConst, sort: BoolSort, c: 0}
)

func BoolC(b bool) *Term {
	if b {
		return TrueT
	}
	return FalseT
}

func BVC(w int, v uint64) *Term {
	return &Term{op: OConst, sort: BV(w), c: v & mask(w)}
}

func (t *Term) IsConst() bool { return t.op == OConst }
func (t *Term) IsTrue() bool  { return t.op == OConst && t.sort.K == SBool && t.c == 1 }
func (t *Term) IsFalse() bool { return t.op == OConst && t.sort.K == SBool && t.c == 0 }
func (t *Term) W() int        { return t.sort.W }

// Signed value of a constant.
func (t *Term) SVal() int64 {
	w := t.sort.W
	if w >= 64 {
		return int64(t.c)
	}
	if t.c&(uint64(1)<<uint(w-1)) != 0 {
		return int64(t.c | ^mask(w))
	}
	return int64(t.c)
}

func sext(v uint64, w int) int64 {
	if w >= 64 {
		return int64(v)
	}
	if v&(uint64(1)<<uint(w-1)) != 0 {
		return int64(v | ^mask(w))
	}
	return int64(v)
}

func mk(op Op, s Sort, args ...*Term) *Term {
	sz := 1
	for _, a := range args {
		sz += a.size
	}
	return &Term{op: op, sort: s, args: args, id: nextTermID(), size: sz}
}

func Var(name string, s Sort) *Term {
	return &Term{op: OVar, sort: s, name: name, id: nextTermID(), size: 1}
}

func Not(a *Term) *Term {
	if a.IsConst() {
		return BoolC(a.c == 0)
	}
	if a.op == ONot {
		return a.args[0]
	}
	return mk(ONot, BoolSort, a)
}

func And(a, b *Term) *Term {
	if a.IsConst() {
		if a.c == 0 {
			return FalseT
		}
		return b
	}
	if b.IsConst() {
		if b.c == 0 {
			return FalseT
		}
		return a
	}
	if a == b {
		return a
	}
	return mk(OAnd, BoolSort, a, b)
}

func Or(a, b *Term) *Term {
	if a.IsConst() {
		if a.c == 1 {
			return TrueT
		}
		return b
	}
	if b.IsConst() {
		if b.c == 1 {
			return TrueT
		}
		return a
	}
	if a == b {
		return a
	}
	return mk(OOr, BoolSort, a, b)
}

func Implies(a, b *Term) *Term { return Or(Not(a), b) }

func AndN(ts ...*Term) *Term {
	r := TrueT
	for _, t := range ts {
		r = And(r, t)
	}
	return r
}

func Eq(a, b *Term) *Term {
	if a.sort != b.sort {
		panic(fmt.Sprintf("Eq sort mismatch %v %v", a.sort, b.sort))
	}
	if a == b {
		return TrueT
	}
	if a.IsConst() && b.IsConst() {
		return BoolC(a.c == b.c)
	}
	if a.sort.K == SBool {
		if a.IsConst() {
			if a.c == 1 {
				return b
			}
			return Not(b)
		}
		if b.IsConst() {
			if b.c == 1 {
				return a
			}
			return Not(a)
		}
	}
	// ite(c, k1, k2) == k  with constants: fold
	if b.IsConst() && a.op == OIte && a.args[1].IsConst() && a.args[2].IsConst() {
		t1 := a.args[1].c == b.c
		t2 := a.args[2].c == b.c
		switch {
		case t1 && t2:
			return TrueT
		case t1 && !t2:
			return a.args[0]
		case !t1 && t2:
			return Not(a.args[0])
		default:
			return FalseT
		}
	}
	if a.IsConst() && b.op == OIte {
		return Eq(b, a)
	}
	return mk(OEq, BoolSort, a, b)
}

func Ite(c, a, b *Term) *Term {
	if a.sort != b.sort {
		panic(fmt.Sprintf("Ite sort mismatch %v %v", a.sort, b.sort))
	}
	if c.IsConst() {
		if c.c == 1 {
			return a
		}
		return b
	}
	if a == b {
		return a
	}
	if a.IsConst() && b.IsConst() && a.c == b.c {
		return a
	}
	if a.sort.K == SBool {
		if a.IsConst() && b.IsConst() {
			if a.c == 1 {
				return c
			}
			return Not(c)
		}
	}
	return mk(OIte, a.sort, c, a, b)
}

func binBV(op Op, a, b *Term) *Term {
	if a.sort != b.sort || a.sort.K != SBV {
		panic(fmt.Sprintf("bv op %v sort mismatch %v %v", op, a.sort, b.sort))
	}
	w := a.sort.W
	if a.IsConst() && b.IsConst() {
		x, y := a.c, b.c
		var r uint64
		switch op {
		case OAdd:
			r = x + y
		case OSub:
			r = x - y
		case OMul:
			r = x * y
		case OUDiv:
			if y == 0 {
				r = mask(w)
			} else {
				r = x / y
			}
		case OURem:
			if y == 0 {
				r = x
			} else {
				r = x % y
			}
		case OSDiv:
			sx, sy := sext(x, w), sext(y, w)
			if sy == 0 {
				if sx < 0 {
					r = 1
				} else {
					r = mask(w)
				}
			} else if sy == -1 {
				r = uint64(-sx)
			} else {
				r = uint64(sx / sy)
			}
		case OSRem:
			sx, sy := sext(x, w), sext(y, w)
			if sy == 0 {
				r = x
			} else if sy == -1 {
				r = 0
			} else {
				r = uint64(sx % sy)
			}
		case OBAnd:
			r = x & y
		case OBOr:
			r = x | y
		case OBXor:
			r = x ^ y
		case OShl:
			if y >= uint64(w) {
				r = 0
			} else {
				r = x << y
			}
		case OLShr:
			if y >= uint64(w) {
				r = 0
			} else {
				r = x >> y
			}
		case OAShr:
			sx := sext(x, w)
			if y >= uint64(w) {
				if sx < 0 {
					r = mask(w)
				} else {
					r = 0
				}
			} else {
				r = uint64(sx >> y)
			}
		}
		return BVC(w, r)
	}
	// identities
	switch op {
	case OAdd:
		if a.IsConst() && a.c == 0 {
			return b
		}
		if b.IsConst() && b.c == 0 {
			return a
		}
	case OSub:
		if b.IsConst() && b.c == 0 {
			return a
		}
		if a == b {
			return BVC(w, 0)
		}
	case OMul:
		if a.IsConst() && a.c == 1 {
			return b
		}
		if b.IsConst() && b.c == 1 {
			return a
		}
		if (a.IsConst() && a.c == 0) || (b.IsConst() && b.c == 0) {
			return BVC(w, 0)
		}
	case OBAnd:
		if a.IsConst() && a.c == 0 || b.IsConst() && b.c == 0 {
			return BVC(w, 0)
		}
		if a.IsConst() && a.c == mask(w) {
			return b
		}
		if b.IsConst() && b.c == mask(w) {
			return a
		}
		if a == b {
			return a
		}
	case OBOr:
		if a.IsConst() && a.c == 0 {
			return b
		}
		if b.IsConst() && b.c == 0 {
			return a
		}
		if a == b {
			return a
		}
	case OBXor:
		if a.IsConst() && a.c == 0 {
			return b
		}
		if b.IsConst() && b.c == 0 {
			return a
		}
	case OShl, OLShr, OAShr:
		if b.IsConst() && b.c == 0 {
			return a
		}
	}
	return mk(op, a.sort, a, b)
}

func Add(a, b *Term) *Term  { return binBV(OAdd, a, b) }
func Sub(a, b *Term) *Term  { return binBV(OSub, a, b) }
func Mul(a, b *Term) *Term  { return binBV(OMul, a, b) }
func UDiv(a, b *Term) *Term { return binBV(OUDiv, a, b) }
func URem(a, b *Term) *Term { return binBV(OURem, a, b) }
func SDiv(a, b *Term) *Term { return binBV(OSDiv, a, b) }
func SRem(a, b *Term) *Term { return binBV(OSRem, a, b) }
func BAnd(a, b *Term) *Term { return binBV(OBAnd, a, b) }
func BOr(a, b *Term) *Term  { return binBV(OBOr, a, b) }
func BXor(a, b *Term) *Term { return binBV(OBXor, a, b) }
func Shl(a, b *Term) *Term  { return binBV(OShl, a, b) }
func LShr(a, b *Term) *Term { return binBV(OLShr, a, b) }
func AShr(a, b *Term) *Term { return binBV(OAShr, a, b) }

func Neg(a *Term) *Term {
	if a.IsConst() {
		return BVC(a.sort.W, -a.c)
	}
	return mk(ONeg, a.sort, a)
}

func BNot(a *Term) *Term {
	if a.IsConst() {
		return BVC(a.sort.W, ^a.c)
	}
	return mk(OBNot, a.sort, a)
}

func cmpBV(op Op, a, b *Term) *Term {
	if a.sort != b.sort || a.sort.K != SBV {
		panic(fmt.Sprintf("bv cmp sort mismatch %v %v", a.sort, b.sort))
	}
	w := a.sort.W
	if a.IsConst() && b.IsConst() {
		switch op {
		case OULt:
			return BoolC(a.c < b.c)
		case OULe:
			return BoolC(a.c <= b.c)
		case OSLt:
			return BoolC(sext(a.c, w) < sext(b.c, w))
		case OSLe:
			return BoolC(sext(a.c, w) <= sext(b.c, w))
		}
	}
	if a == b {
		return BoolC(op == OULe || op == OSLe)
	}
	// trivial bounds
	switch op {
	case OULt:
		if b.IsConst() && b.c == 0 {
			return FalseT
		}
	case OULe:
		if a.IsConst() && a.c == 0 {
			return TrueT
		}
	}
	return mk(op, BoolSort, a, b)
}

func ULt(a, b *Term) *Term { return cmpBV(OULt, a, b) }
func ULe(a, b *Term) *Term { return cmpBV(OULe, a, b) }
func SLt(a, b *Term) *Term { return cmpBV(OSLt, a, b) }
func SLe(a, b *Term) *Term { return cmpBV(OSLe, a, b) }

func Extract(hi, lo int, a *Term) *Term {
	w := hi - lo + 1
	if lo == 0 && w == a.sort.W {
		return a
	}
	if a.IsConst() && a.sort.W <= 64 {
		return BVC(w, a.c>>uint(lo))
	}
	if a.op == OZExt || a.op == OSExt {
		inner := a.args[0]
		if hi < inner.sort.W {
			return Extract(hi, lo, inner)
		}
	}
	if a.op == OConcat {
		lw := a.args[1].sort.W
		if hi < lw {
			return Extract(hi, lo, a.args[1])
		}
		if lo >= lw {
			return Extract(hi-lw, lo-lw, a.args[0])
		}
	}
	t := mk(OExtract, BV(w), a)
	t.p1, t.p2 = hi, lo
	return t
}

func ZExt(a *Term, to int) *Term {
	if to == a.sort.W {
		return a
	}
	if to < a.sort.W {
		return Extract(to-1, 0, a)
	}
	if a.IsConst() {
		return BVC(to, a.c)
	}
	t := mk(OZExt, BV(to), a)
	t.p1 = to - a.sort.W
	return t
}

func SExt(a *Term, to int) *Term {
	if to == a.sort.W {
		return a
	}
	if to < a.sort.W {
		return Extract(to-1, 0, a)
	}
	if a.IsConst() {
		return BVC(to, uint64(sext(a.c, a.sort.W)))
	}
	t := mk(OSExt, BV(to), a)
	t.p1 = to - a.sort.W
	return t
}

func Concat(hi, lo *Term) *Term {
	w := hi.sort.W + lo.sort.W
	if hi.IsConst() && lo.IsConst() && w <= 64 {
		return BVC(w, hi.c<<uint(lo.sort.W)|lo.c)
	}
	return mk(OConcat, BV(w), hi, lo)
}

// UFApp: uninterpreted function application. The function symbol is named
// name and typed by the argument sorts and result sort.
func UFApp(name string, res Sort, args ...*Term) *Term {
	t := mk(OUF, res, args...)
	t.name = name
	return t
}

// ---------------------------------------------------------------- printing

type printer struct {
	sb    strings.Builder
	refs  map[*Term]int
	names map[*Term]string
	decls *declSet
	n     int
	lets  [][2]string
}

type declSet struct {
	vars map[string]Sort
	ufs  map[string]string
	out  []string // pending declarations to send
}

func newDeclSet() *declSet {
	return &declSet{vars: map[string]Sort{}, ufs: map[string]string{}}
}

func constStr(t *Term) string {
	if t.sort.K == SBool {
		if t.c == 1 {
			return "true"
		}
		return "false"
	}
	w := t.sort.W
	if w%4 == 0 {
		return fmt.Sprintf("#x%0*x", w/4, t.c)
	}
	return fmt.Sprintf("#b%0*b", w, t.c)
}

func (p *printer) count(t *Term) {
	if t.op == OConst || t.op == OVar {
		if t.op == OVar {
			p.declVar(t)
		}
		return
	}
	p.refs[t]++
	if p.refs[t] > 1 {
		return
	}
	if t.op == OUF {
		p.declUF(t)
	}
	for _, a := range t.args {
		p.count(a)
	}
}

func (p *printer) declVar(t *Term) {
	if p.decls == nil {
		return
	}
	if s, ok := p.decls.vars[t.name]; ok {
		if s != t.sort {
			panic(fmt.Sprintf("variable %s redeclared with sort %v (was %v)", t.name, t.sort, s))
		}
		return
	}
	p.decls.vars[t.name] = t.sort
	p.decls.out = append(p.decls.out, fmt.Sprintf("(declare-const %s %s)", smtName(t.name), t.sort))
}

func (p *printer) declUF(t *Term) {
	var sb strings.Builder
	sb.WriteString("(")
	for i, a := range t.args {
		if i > 0 {
			sb.WriteString(" ")
		}
		sb.WriteString(a.sort.String())
	}
	sb.WriteString(") ")
	sb.WriteString(t.sort.String())
	sig := sb.String()
	if p.decls == nil {
		return
	}
	if s, ok := p.decls.ufs[t.name]; ok {
		if s != sig {
			panic(fmt.Sprintf("uf %s redeclared %s vs %s", t.name, sig, s))
		}
		return
	}
	p.decls.ufs[t.name] = sig
	p.decls.out = append(p.decls.out, fmt.Sprintf("(declare-fun %s %s)", smtName(t.name), sig))
}

func smtName(n string) string {
	ok := true
	for _, r := range n {
		if !(r >= 'a' && r <= 'z' || r >= 'A' && r <= 'Z' || r >= '0' && r <= '9' || r == '_' || r == '.' || r == '!' || r == '-' || r == '$') {
			ok = false
		}
	}
	if ok && n != "" && !(n[0] >= '0' && n[0] <= '9') {
		return n
	}
	return "|" + strings.ReplaceAll(n, "|", "_") + "|"
}

// emit writes the body of t, let-binding shared subterms first.
func (p *printer) expr(t *Term) string {
	if t.op == OConst {
		return constStr(t)
	}
	if t.op == OVar {
		return smtName(t.name)
	}
	if n, ok := p.names[t]; ok {
		return n
	}
	var sb strings.Builder
	switch t.op {
	case OExtract:
		fmt.Fprintf(&sb, "((_ extract %d %d) %s)", t.p1, t.p2, p.expr(t.args[0]))
	case OZExt:
		fmt.Fprintf(&sb, "((_ zero_extend %d) %s)", t.p1, p.expr(t.args[0]))
	case OSExt:
		fmt.Fprintf(&sb, "((_ sign_extend %d) %s)", t.p1, p.expr(t.args[0]))
	case OUF:
		if len(t.args) == 0 {
			sb.WriteString(smtName(t.name))
		} else {
			sb.WriteString("(")
			sb.WriteString(smtName(t.name))
			for _, a := range t.args {
				sb.WriteString(" ")
				sb.WriteString(p.expr(a))
			}
			sb.WriteString(")")
		}
	default:
		sb.WriteString("(")
		sb.WriteString(opNames[t.op])
		for _, a := range t.args {
			sb.WriteString(" ")
			sb.WriteString(p.expr(a))
		}
		sb.WriteString(")")
	}
	s := sb.String()
	if p.refs[t] > 1 {
		// bind
		p.n++
		name := fmt.Sprintf("l!%d", p.n)
		p.names[t] = name
		p.lets = append(p.lets, [2]string{name, s})
		return name
	}
	return s
}

// Print returns an SMT-LIB expression for t. New declarations are appended to decls.out.
func PrintTerm(t *Term, decls *declSet) string {
	p := &printer{refs: map[*Term]int{}, names: map[*Term]string{}, decls: decls}
	p.count(t)
	body := p.expr(t)
	if len(p.lets) == 0 {
		return body
	}
	var sb strings.Builder
	for _, l := range p.lets {
		fmt.Fprintf(&sb, "(let ((%s %s)) ", l[0], l[1])
	}
	sb.WriteString(body)
	for range p.lets {
		sb.WriteString(")")
	}
	return sb.String()
}

// Eval evaluates t under a model (variable name -> value). UF applications
// are looked up in ufvals keyed by printed application; unknown => 0.
func EvalTerm(t *Term, model map[string]uint64, memo map[*Term]uint64) (uint64, bool) {
	if t.op == OConst {
		return t.c, true
	}
	if v, ok := memo[t]; ok {
		return v, true
	}
	var r uint64
	switch t.op {
	case OVar:
		v, ok := model[t.name]
		if !ok {
			v = 0
		}
		r = v & maskSort(t.sort)
	case OUF:
		return 0, false
	default:
		vals := make([]*Term, len(t.args))
		for i, a := range t.args {
			v, ok := EvalTerm(a, model, memo)
			if !ok {
				return 0, false
			}
			if a.sort.K == SBool {
				vals[i] = BoolC(v != 0)
			} else {
				if a.sort.W > 64 {
					return 0, false
				}
				vals[i] = BVC(a.sort.W, v)
			}
		}
		var x *Term
		switch t.op {
		case ONot:
			x = Not(vals[0])
		case OAnd:
			x = And(vals[0], vals[1])
		case OOr:
			x = Or(vals[0], vals[1])
		case OEq:
			x = Eq(vals[0], vals[1])
		case OIte:
			x = Ite(vals[0], vals[1], vals[2])
		case ONeg:
			x = Neg(vals[0])
		case OBNot:
			x = BNot(vals[0])
		case OULt, OULe, OSLt, OSLe:
			x = cmpBV(t.op, vals[0], vals[1])
		case OExtract:
			x = Extract(t.p1, t.p2, vals[0])
		case OZExt:
			x = ZExt(vals[0], t.sort.W)
		case OSExt:
			x = SExt(vals[0], t.sort.W)
		case OConcat:
			if t.sort.W > 64 {
				return 0, false
			}
			x = Concat(vals[0], vals[1])
		default:
			x = binBV(t.op, vals[0], vals[1])
		}
		if !x.IsConst() {
			return 0, false
		}
		r = x.c
	}
	memo[t] = r
	return r, true
}

func maskSort(s Sort) uint64 {
	if s.K == SBool {
		return 1
	}
	return mask(s.W)
}

var _ = bits.Len
