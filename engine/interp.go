package main

import (
	"fmt"
	"go/token"
	"go/types"
	"strings"

	"golang.org/x/tools/go/ssa"
)

// ------------------------------------------------------------ control signals (host panics)

type pathEnd struct {
	kind string // "done","assume-infeasible","violation","inconclusive","deadlock","crash"
	msg  string
}

type goPanic struct{ val Value } // panic inside interpreted program

type blockedSig struct{} // current instruction cannot proceed; thread blocks

type frameStatus uint8

const (
	stRunning frameStatus = iota
	stPanicking
	stRecovered
)

type deferred struct {
	fn   Value
	args []Value
	// invoke-mode deferred
	instr *ssa.Defer
}

type funcInfo struct {
	index map[ssa.Value]int
	n     int
}

type Frame struct {
	fn        *ssa.Function
	info      *funcInfo
	regs      []Value
	block     *ssa.BasicBlock
	prev      *ssa.BasicBlock
	pc        int
	defers    []*deferred
	caller    *Frame
	dest      ssa.Value // register in caller receiving result (nil if none)
	status    frameStatus
	panicVal  Value
	isDefer   bool // frame is a deferred call started by unwinder/RunDefers
	results   Value
	initFrame bool // package init frame in tolerant mode
	depth     int
	onReturn  func(res Value) // engine callback when frame returns (for intrinsics calling back)
	stubOf    string
}

type threadState uint8

const (
	tsRunnable threadState = iota
	tsBlocked
	tsDone
)

type Thread struct {
	id      int
	top     *Frame
	state   threadState
	waitOn  string
	name    string
	crashed bool
	// select/block bookkeeping
	blockCond  func() bool
	recvReg    map[*ChanV]bool
	sendReg    map[*ChanV]bool
	timerWake  func()
	timerFired bool
	quiesced   bool
	panicWhere string
}

type Machine struct {
	uniqueObjs map[string]*Obj // unique.Make interning (persistent, filled during package init)
	prog       *ssa.Program
	ld         *Loader
	cfg        *HarnessCfg
	solver     *Solver
	threads    []*Thread
	cur        *Thread
	nextObj    int
	globals    map[*ssa.Global]*Obj
	inited     map[*ssa.Package]int // 0 no, 1 running, 2 done
	finfo      map[*ssa.Function]*funcInfo
	persist    bool // allocations are persistent (package init)
	epoch      int
	undo       []undoRec
	steps      int64
	maxSteps   int64

	// path state
	ex *Explorer
	ps *pathState

	stubs        map[string]*ssa.Function
	methodC      map[methodKey]*ssa.Function
	funcsEncoded map[*ssa.Function]int64
	typeIDs      map[string]types.Type

	errTypeErrorString types.Type
	initDepth          int
	nowCounter         int
	trace              bool
	forceNext          *Thread
	wantYield          string
	pending            []workItem
	rtypes             map[string]*Obj
	poisonLog          map[string]string
	cacheHits          int64
	oneshot            *Solver
	fmtOpaqueInts      bool
	fixed              map[string]uint64 // replay mode: nondet variables take these values
	fixedDecs          []Decision
	fixedPos           int
	lastObserves       []string
	pushedFrame        bool
	curDest            ssa.Value
	intrinsicIsDefer   bool
}

type methodKey struct {
	t    types.Type
	name string
	pkg  *types.Package
}

type undoRec struct {
	obj  *Obj
	old  Value
	m    *MapV
	ents []*mapEntry
	ch   *ChanV
	chs  ChanV
}

func (m *Machine) unsupported(format string, a ...interface{}) {
	panic(pathEnd{"inconclusive", "unsupported: " + fmt.Sprintf(format, a...) + m.where()})
}

func (m *Machine) where() string {
	if m.cur == nil || m.cur.top == nil {
		return ""
	}
	var sb strings.Builder
	n := 0
	for f := m.cur.top; f != nil && n < 12; f = f.caller {
		sb.WriteString("\n    at ")
		sb.WriteString(f.fn.String())
		if f.block != nil && f.pc < len(f.block.Instrs) {
			pos := f.block.Instrs[f.pc].Pos()
			if pos == token.NoPos && f.pc > 0 {
				pos = f.block.Instrs[f.pc-1].Pos()
			}
			if pos != token.NoPos {
				sb.WriteString(" (" + m.prog.Fset.Position(pos).String() + ")")
			}
		}
		n++
	}
	return sb.String()
}

func (m *Machine) info(fn *ssa.Function) *funcInfo {
	if fi, ok := m.finfo[fn]; ok {
		return fi
	}
	fi := &funcInfo{index: map[ssa.Value]int{}}
	add := func(v ssa.Value) {
		fi.index[v] = fi.n
		fi.n++
	}
	for _, p := range fn.Params {
		add(p)
	}
	for _, fv := range fn.FreeVars {
		add(fv)
	}
	for _, b := range fn.Blocks {
		for _, in := range b.Instrs {
			if v, ok := in.(ssa.Value); ok {
				add(v)
			}
		}
	}
	m.finfo[fn] = fi
	return fi
}

func (m *Machine) newObj(v Value, t types.Type, name string) *Obj {
	m.nextObj++
	o := &Obj{id: m.nextObj, val: v, typ: t, name: name}
	if !m.persist {
		o.epoch = m.epoch
	}
	return o
}

// ------------------------------------------------------------ operand evaluation

func (m *Machine) get(fr *Frame, v ssa.Value) Value {
	switch x := v.(type) {
	case *ssa.Const:
		return m.constValue(x)
	case *ssa.Global:
		return &Ptr{obj: m.globalObj(x)}
	case *ssa.Function:
		return &FuncV{fn: x}
	case *ssa.Builtin:
		return &FuncV{intrin: "builtin:" + x.Name()}
	}
	idx, ok := fr.info.index[v]
	if !ok {
		m.unsupported("operand %v (%T) has no register in %v", v, v, fr.fn)
	}
	r := fr.regs[idx]
	if r == nil {
		m.unsupported("read of unset register %s in %s", v.Name(), fr.fn)
	}
	return r
}

func (m *Machine) set(fr *Frame, v ssa.Value, val Value) {
	fr.regs[fr.info.index[v]] = val
}

func (m *Machine) constValue(c *ssa.Const) Value {
	t := c.Type()
	if c.Value == nil {
		// zero value of t (nil pointer, nil slice, zero struct for generics...)
		if tp, ok := t.(*types.TypeParam); ok {
			_ = tp
			m.unsupported("const of type param")
		}
		return zeroValue(t)
	}
	switch u := t.Underlying().(type) {
	case *types.Basic:
		switch {
		case u.Info()&types.IsBoolean != 0:
			return BoolC(constBool(c))
		case u.Info()&types.IsInteger != 0:
			w, _ := intWidth(u)
			if u.Info()&types.IsUnsigned != 0 {
				return BVC(w, c.Uint64())
			}
			return BVC(w, uint64(c.Int64()))
		case u.Info()&types.IsFloat != 0:
			return FloatV{F: c.Float64(), W: floatWidth(u)}
		case u.Info()&types.IsString != 0:
			return strConst(constString(c))
		case u.Info()&types.IsComplex != 0:
			return PoisonV{"complex const"}
		}
	case *types.Interface:
		// constant in interface-typed context? (only nil handled above)
	}
	m.unsupported("constant %v of type %v", c, t)
	return nil
}

func (m *Machine) globalObj(g *ssa.Global) *Obj {
	if o, ok := m.globals[g]; ok {
		if g.Pkg != nil && m.inited[g.Pkg] == 0 {
			m.ensureInit(g.Pkg)
		}
		return o
	}
	save := m.persist
	m.persist = true
	et := g.Type().(*types.Pointer).Elem()
	o := m.newObj(zeroValue(et), et, g.String())
	m.persist = save
	m.globals[g] = o
	if g.Pkg != nil && m.inited[g.Pkg] == 0 {
		m.ensureInit(g.Pkg)
	}
	return o
}

// ------------------------------------------------------------ memory

func (m *Machine) logUndo(o *Obj) {
	if o.epoch == 0 && !m.persist {
		m.undo = append(m.undo, undoRec{obj: o, old: copyValue(o.val)})
	}
}

func (m *Machine) logUndoMap(mp *MapV) {
	if mp.epoch == 0 && !m.persist {
		ents := make([]*mapEntry, len(mp.entries))
		for i, e := range mp.entries {
			c := *e
			ents[i] = &c
		}
		m.undo = append(m.undo, undoRec{m: mp, ents: ents})
		mp.epoch = -1 // logged once per path (restored to 0 on rollback)
	}
}

func (m *Machine) logUndoChan(c *ChanV) {
	if c.epoch == 0 && !m.persist {
		cp := *c
		cp.buf = append([]Value(nil), c.buf...)
		m.undo = append(m.undo, undoRec{ch: c, chs: cp})
	}
}

func (m *Machine) rollback() {
	for i := len(m.undo) - 1; i >= 0; i-- {
		u := m.undo[i]
		switch {
		case u.obj != nil:
			u.obj.val = u.old
		case u.m != nil:
			u.m.entries = u.ents
			u.m.epoch = 0
			u.m.index, u.m.symKeys = nil, 0
			for _, e := range u.ents {
				if e.repr != "" {
					if u.m.index == nil {
						u.m.index = map[string]*mapEntry{}
					}
					u.m.index[e.repr] = e
				} else {
					u.m.symKeys++
				}
			}
		case u.ch != nil:
			*u.ch = u.chs
		}
	}
	m.undo = m.undo[:0]
}

func (m *Machine) nilDeref(what string) {
	m.raiseRuntime("invalid memory address or nil pointer dereference (" + what + ")")
}

func (m *Machine) load(p *Ptr) Value {
	if p.IsNil() {
		m.nilDeref("load")
	}
	if p.obj == nil {
		m.unsupported("load through unsafe string pointer")
	}
	if p.sym != nil {
		arr, ok := m.loadRaw(&Ptr{obj: p.obj, path: p.path}).(*ArrayV)
		if !ok {
			m.unsupported("symbolic element pointer into non-array")
		}
		return m.symSelect(arr.E, p.sym)
	}
	v := p.obj.val
	for _, i := range p.path {
		switch c := v.(type) {
		case *StructV:
			v = c.F[i]
		case *ArrayV:
			if i < 0 || i >= len(c.E) {
				m.unsupported("pointer path index %d out of range %d", i, len(c.E))
			}
			v = c.E[i]
		case PoisonV:
			m.unsupported("load from poisoned object: %s", c.Why)
		default:
			m.unsupported("load: bad path through %T", v)
		}
	}
	return copyValue(v)
}

func (m *Machine) store(p *Ptr, val Value) {
	if p.IsNil() {
		m.nilDeref("store")
	}
	if p.obj == nil {
		m.unsupported("store through unsafe string pointer")
	}
	m.logUndo(p.obj)
	if p.sym != nil {
		arr, ok := m.loadRaw(&Ptr{obj: p.obj, path: p.path}).(*ArrayV)
		nv, isT := val.(*Term)
		if !ok || !isT {
			m.unsupported("symbolic element store of %T", val)
		}
		for i := range arr.E {
			old, ok := arr.E[i].(*Term)
			if !ok {
				m.unsupported("symbolic element store into non-scalar array")
			}
			arr.E[i] = Ite(Eq(p.sym, BVC(64, uint64(i))), nv, old)
		}
		return
	}
	val = copyValue(val)
	if len(p.path) == 0 {
		p.obj.val = val
		return
	}
	v := p.obj.val
	for k, i := range p.path {
		last := k == len(p.path)-1
		switch c := v.(type) {
		case *StructV:
			if last {
				c.F[i] = val
				return
			}
			v = c.F[i]
		case *ArrayV:
			if i < 0 || i >= len(c.E) {
				m.unsupported("pointer path index %d out of range %d", i, len(c.E))
			}
			if last {
				c.E[i] = val
				return
			}
			v = c.E[i]
		case PoisonV:
			m.unsupported("store into poisoned object: %s", c.Why)
		default:
			m.unsupported("store: bad path through %T", v)
		}
	}
}

func ptrField(p *Ptr, i int) *Ptr {
	if p.sym != nil {
		panic(pathEnd{"inconclusive", "unsupported: field/index address through a symbolic element pointer"})
	}
	np := make([]int, len(p.path)+1)
	copy(np, p.path)
	np[len(p.path)] = i
	return &Ptr{obj: p.obj, path: np}
}

func ptrEq(a, b *Ptr) bool {
	if a.IsNil() || b.IsNil() {
		return a.IsNil() && b.IsNil()
	}
	if a.obj != b.obj || len(a.path) != len(b.path) {
		return false
	}
	if a.obj == nil {
		return a.unsafeStr == b.unsafeStr
	}
	for i := range a.path {
		if a.path[i] != b.path[i] {
			return false
		}
	}
	return true
}

// ------------------------------------------------------------ panics in the interpreted program

func (m *Machine) raise(v Value) {
	panic(goPanic{v})
}

func (m *Machine) raiseRuntime(msg string) {
	panic(goPanic{m.runtimeErrorValue("runtime error: " + msg)})
}

func (m *Machine) runtimeErrorValue(msg string) Value {
	// *errors.errorString{ s: msg }
	t := m.errorStringType()
	st := &StructV{F: []Value{strConst(msg)}}
	o := m.newObj(st, t.(*types.Pointer).Elem(), "runtime-error")
	return &IfaceV{T: t, V: &Ptr{obj: o}}
}

func (m *Machine) errorStringType() types.Type {
	if m.errTypeErrorString != nil {
		return m.errTypeErrorString
	}
	pkg := m.prog.ImportedPackage("errors")
	if pkg == nil {
		panic(pathEnd{"inconclusive", "package errors not loaded"})
	}
	tn := pkg.Type("errorString")
	m.errTypeErrorString = types.NewPointer(tn.Type())
	return m.errTypeErrorString
}

// newError creates an error interface value with a concrete message.
func (m *Machine) newError(msg string) *IfaceV {
	t := m.errorStringType()
	st := &StructV{F: []Value{strConst(msg)}}
	o := m.newObj(st, t.(*types.Pointer).Elem(), "error")
	return &IfaceV{T: t, V: &Ptr{obj: o}}
}

// ------------------------------------------------------------ frames & threads

func (m *Machine) pushFrame(th *Thread, fn *ssa.Function, args []Value, bindings []Value, dest ssa.Value) *Frame {
	if fn.Blocks == nil {
		m.unsupported("call of function without body: %s", fn)
	}
	fi := m.info(fn)
	fr := &Frame{fn: fn, info: fi, regs: make([]Value, fi.n), block: fn.Blocks[0], caller: th.top, dest: dest}
	if th.top != nil {
		fr.depth = th.top.depth + 1
		if fr.depth > 400 {
			m.unsupported("call depth exceeded in %s", fn)
		}
	}
	if len(args) != len(fn.Params) {
		m.unsupported("arity mismatch calling %s: %d args, %d params", fn, len(args), len(fn.Params))
	}
	for i, p := range fn.Params {
		fr.regs[fi.index[p]] = args[i]
	}
	for i, fv := range fn.FreeVars {
		if i >= len(bindings) {
			m.unsupported("missing closure binding for %s", fn)
		}
		fr.regs[fi.index[fv]] = bindings[i]
	}
	th.top = fr
	m.funcsEncoded[fn]++
	return fr
}

func (m *Machine) newThread(name string) *Thread {
	th := &Thread{id: len(m.threads), name: name}
	m.threads = append(m.threads, th)
	return th
}

// returnFromFrame pops the top frame delivering res to the caller.
func (m *Machine) returnFromFrame(th *Thread, res Value) {
	fr := th.top
	th.top = fr.caller
	if fr.onReturn != nil {
		fr.onReturn(res)
	}
	if fr.caller == nil {
		th.state = tsDone
		fr.results = res
		return
	}
	c := fr.caller
	if fr.isDefer {
		// the caller sits on RunDefers or is being unwound; do not advance
		return
	}
	if fr.dest != nil {
		c.regs[c.info.index[fr.dest]] = res
	}
	c.pc++
}

// run executes thread scheduling until all threads are done or blocked.
func (m *Machine) run() {
	for {
		th := m.pickThread()
		if th == nil {
			return
		}
		m.cur = th
		m.runThread(th)
	}
}

// runThread runs th until it finishes, blocks or yields at a scheduling point.
func (m *Machine) runThread(th *Thread) {
	for th.state == tsRunnable && th.top != nil {
		if m.stepGuard(th) {
			return // yield to scheduler
		}
	}
	if th.top == nil {
		th.state = tsDone
	}
}

// stepGuard executes one step, translating host panics into interpreter state.
// Returns true if the thread should yield to the scheduler.
func (m *Machine) stepGuard(th *Thread) (yield bool) {
	defer func() {
		if r := recover(); r != nil {
			switch s := r.(type) {
			case goPanic:
				m.startPanic(th, s.val)
			case blockedSig:
				th.state = tsBlocked
				yield = true
			case yieldSig:
				yield = true
			default:
				panic(r)
			}
		}
	}()
	m.steps++
	if m.steps > m.maxSteps {
		panic(pathEnd{"inconclusive", fmt.Sprintf("step budget %d exceeded%s", m.maxSteps, m.where())})
	}
	fr := th.top
	if fr.status != stRunning {
		m.unwindStep(th)
		return false
	}
	m.step(th, fr)
	if m.wantYield != "" {
		w := m.wantYield
		m.wantYield = ""
		m.schedPoint(w)
	}
	return false
}

type yieldSig struct{}

func (m *Machine) startPanic(th *Thread, val Value) {
	fr := th.top
	if fr == nil {
		panic(pathEnd{"inconclusive", "panic with no frame"})
	}
	if fr.initFrame || m.initDepth > 0 {
		// in tolerant init mode a Go-level panic poisons
		panic(initAbort{fmt.Sprintf("panic during init: %s", m.panicString(val))})
	}
	fr.status = stPanicking
	fr.panicVal = val
	th.panicWhere = m.where()
}

// unwindStep advances panic unwinding by one action.
func (m *Machine) unwindStep(th *Thread) {
	fr := th.top
	if n := len(fr.defers); n > 0 {
		d := fr.defers[n-1]
		fr.defers = fr.defers[:n-1]
		m.callDeferred(th, fr, d)
		return
	}
	if fr.status == stRecovered {
		// all defers ran; resume at Recover block or return zero values
		fr.status = stRunning
		if fr.fn.Recover != nil {
			fr.block = fr.fn.Recover
			fr.prev = nil
			fr.pc = 0
			return
		}
		var res Value
		rt := fr.fn.Signature.Results()
		switch rt.Len() {
		case 0:
		case 1:
			res = zeroValue(rt.At(0).Type())
		default:
			res = zeroValue(rt)
		}
		m.returnFromFrame(th, res)
		return
	}
	// still panicking: propagate to caller
	pv := fr.panicVal
	th.top = fr.caller
	if fr.caller == nil {
		th.state = tsDone
		th.crashed = true
		panic(pathEnd{"crash", "unrecovered panic in goroutine " + th.name + ": " + m.panicString(pv) + "\n  panic raised" + th.panicWhere})
	}
	if fr.onReturn != nil {
		// engine-initiated call: treat as propagating into caller too
	}
	fr.caller.status = stPanicking
	fr.caller.panicVal = pv
}

func (m *Machine) panicString(v Value) string {
	iv, ok := v.(*IfaceV)
	if !ok {
		return fmtValue(v)
	}
	if iv.T == nil {
		return "nil"
	}
	if p, ok := iv.V.(*Ptr); ok && !p.IsNil() && p.obj != nil {
		if st, ok := p.obj.val.(*StructV); ok && len(st.F) > 0 {
			if s, ok := st.F[0].(*StrV); ok {
				return iv.T.String() + ": " + s.Const()
			}
		}
	}
	if s, ok := iv.V.(*StrV); ok {
		return s.Const()
	}
	return iv.T.String() + " " + fmtValue(iv.V)
}

func (m *Machine) callDeferred(th *Thread, fr *Frame, d *deferred) {
	nf := m.invokeValue(th, d.fn, d.args, nil, true)
	_ = nf
}

// ------------------------------------------------------------ the step function

func (m *Machine) step(th *Thread, fr *Frame) {
	if fr.block == nil {
		m.unsupported("frame without block")
	}
	if fr.pc >= len(fr.block.Instrs) {
		m.unsupported("pc past end of block in %s", fr.fn)
	}
	instr := fr.block.Instrs[fr.pc]
	if m.trace {
		fmt.Printf("[t%d] %s: %s\n", th.id, fr.fn.Name(), instr)
	}
	switch in := instr.(type) {
	case *ssa.DebugRef:
		fr.pc++
	case *ssa.UnOp:
		m.set(fr, in, m.unop(fr, in))
		fr.pc++
	case *ssa.BinOp:
		x, y := m.get(fr, in.X), m.get(fr, in.Y)
		m.set(fr, in, m.binop(in.Op, in.X.Type(), in.Y.Type(), x, y))
		fr.pc++
	case *ssa.Call:
		m.doCall(th, fr, in, in)
	case *ssa.ChangeInterface:
		m.set(fr, in, m.get(fr, in.X))
		fr.pc++
	case *ssa.ChangeType:
		m.set(fr, in, m.get(fr, in.X))
		fr.pc++
	case *ssa.Convert:
		m.set(fr, in, m.convert(in.X.Type(), in.Type(), m.get(fr, in.X)))
		fr.pc++
	case *ssa.MultiConvert:
		m.set(fr, in, m.convert(in.X.Type(), in.Type(), m.get(fr, in.X)))
		fr.pc++
	case *ssa.SliceToArrayPointer:
		s := m.get(fr, in.X).(*SliceV)
		n := int(in.Type().(*types.Pointer).Elem().Underlying().(*types.Array).Len())
		if s.IsNil() {
			if n == 0 {
				m.set(fr, in, NilPtr)
				fr.pc++
				return
			}
			m.raiseRuntime("cannot convert slice with length 0 to array or pointer to array")
		}
		if s.len < n {
			m.raiseRuntime("cannot convert slice to array pointer: length too short")
		}
		if s.off != 0 || len(s.arr.val.(*ArrayV).E) != n {
			// view object sharing the backing store window
			base := s.arr.val.(*ArrayV)
			view := m.newObj(&ArrayV{E: base.E[s.off : s.off+n : s.off+n]}, nil, "array-view")
			view.epoch = s.arr.epoch
			m.set(fr, in, &Ptr{obj: view})
			fr.pc++
			return
		}
		m.set(fr, in, &Ptr{obj: s.arr})
		fr.pc++
	case *ssa.MakeInterface:
		m.set(fr, in, &IfaceV{T: in.X.Type(), V: m.get(fr, in.X)})
		fr.pc++
	case *ssa.Extract:
		t := m.get(fr, in.Tuple)
		tv, ok := t.(TupleV)
		if !ok {
			if pv, isP := t.(PoisonV); isP {
				m.set(fr, in, pv)
				fr.pc++
				return
			}
			m.unsupported("extract from %T", t)
		}
		m.set(fr, in, tv[in.Index])
		fr.pc++
	case *ssa.Slice:
		m.set(fr, in, m.sliceOp(fr, in))
		fr.pc++
	case *ssa.Return:
		var res Value
		switch len(in.Results) {
		case 0:
		case 1:
			res = m.get(fr, in.Results[0])
		default:
			tv := make(TupleV, len(in.Results))
			for i, r := range in.Results {
				tv[i] = m.get(fr, r)
			}
			res = tv
		}
		m.returnFromFrame(th, res)
	case *ssa.RunDefers:
		if n := len(fr.defers); n > 0 {
			d := fr.defers[n-1]
			fr.defers = fr.defers[:n-1]
			m.callDeferred(th, fr, d)
			return
		}
		fr.pc++
	case *ssa.Panic:
		m.raise(m.get(fr, in.X))
	case *ssa.Send:
		m.chanSend(th, m.get(fr, in.Chan), m.get(fr, in.X))
		fr.pc++
		m.schedPoint("send")
	case *ssa.Store:
		p, ok := m.get(fr, in.Addr).(*Ptr)
		if !ok {
			m.unsupported("store to %T", m.get(fr, in.Addr))
		}
		m.store(p, m.get(fr, in.Val))
		fr.pc++
	case *ssa.If:
		c := m.get(fr, in.Cond)
		ct, ok := c.(*Term)
		if !ok {
			m.unsupported("if on %T", c)
		}
		var taken bool
		if ct.IsConst() {
			taken = ct.c == 1
		} else {
			taken = m.branch(ct)
		}
		succ := 1
		if taken {
			succ = 0
		}
		fr.prev = fr.block
		fr.block = fr.block.Succs[succ]
		fr.pc = 0
		m.phis(fr)
	case *ssa.Jump:
		fr.prev = fr.block
		fr.block = fr.block.Succs[0]
		fr.pc = 0
		m.phis(fr)
	case *ssa.Defer:
		d := &deferred{instr: in}
		d.fn, d.args = m.prepareCall(fr, in.Common())
		fr.defers = append(fr.defers, d)
		fr.pc++
	case *ssa.Go:
		fn, args := m.prepareCall(fr, in.Common())
		m.spawn(th, fr, in, fn, args)
		fr.pc++
		m.schedPoint("go")
	case *ssa.MakeChan:
		sz := m.get(fr, in.Size).(*Term)
		sz64 := sextTo64(sz, in.Size.Type())
		if m.branchVC(SLt(sz64, BVC(64, 0)), "makechan negative size") {
			m.raiseRuntime("makechan: size out of range")
		}
		n := m.concretizeInt(sz64, "makechan size", 32)
		if n < 0 {
			m.raiseRuntime("makechan: size out of range")
		}
		if n > 1<<20 {
			m.unsupported("makechan: huge size %d", n)
		}
		m.nextObj++
		ch := &ChanV{id: m.nextObj, cap: int(n), elemT: in.Type().Underlying().(*types.Chan).Elem()}
		if !m.persist {
			ch.epoch = m.epoch
		}
		m.set(fr, in, ch)
		fr.pc++
	case *ssa.Alloc:
		et := in.Type().(*types.Pointer).Elem()
		if in.Heap {
			o := m.newObj(zeroValue(et), et, in.Comment)
			m.set(fr, in, &Ptr{obj: o})
		} else {
			// local: re-zeroed on each execution (loop iterations get fresh cells too)
			o := m.newObj(zeroValue(et), et, in.Comment)
			m.set(fr, in, &Ptr{obj: o})
		}
		fr.pc++
	case *ssa.MakeSlice:
		m.set(fr, in, m.makeSlice(fr, in))
		fr.pc++
	case *ssa.MakeMap:
		mt := in.Type().Underlying().(*types.Map)
		m.nextObj++
		mp := &MapV{id: m.nextObj, keyT: mt.Key(), elemT: mt.Elem()}
		if !m.persist {
			mp.epoch = m.epoch
		}
		m.set(fr, in, mp)
		fr.pc++
	case *ssa.Range:
		m.set(fr, in, m.makeRange(m.get(fr, in.X), in.X.Type()))
		fr.pc++
	case *ssa.Next:
		m.set(fr, in, m.rangeNext(m.get(fr, in.Iter), in))
		fr.pc++
	case *ssa.FieldAddr:
		p, ok := m.get(fr, in.X).(*Ptr)
		if !ok {
			m.unsupported("FieldAddr on %T", m.get(fr, in.X))
		}
		if p.IsNil() {
			m.nilDeref("field address")
		}
		m.set(fr, in, ptrField(p, in.Field))
		fr.pc++
	case *ssa.Field:
		sv := m.get(fr, in.X)
		st, ok := sv.(*StructV)
		if !ok {
			m.unsupported("Field on %T", sv)
		}
		m.set(fr, in, copyValue(st.F[in.Field]))
		fr.pc++
	case *ssa.IndexAddr:
		m.set(fr, in, m.indexAddr(fr, in))
		fr.pc++
	case *ssa.Index:
		m.set(fr, in, m.indexOp(fr, in))
		fr.pc++
	case *ssa.Lookup:
		m.set(fr, in, m.lookup(fr, in))
		fr.pc++
	case *ssa.MapUpdate:
		mv := m.get(fr, in.Map)
		mp, ok := mv.(*MapV)
		if !ok {
			m.unsupported("MapUpdate on %T", mv)
		}
		if mp == nil {
			m.raise(m.runtimeErrorValue("assignment to entry in nil map"))
		}
		m.mapSet(mp, m.get(fr, in.Key), m.get(fr, in.Value))
		fr.pc++
	case *ssa.TypeAssert:
		m.set(fr, in, m.typeAssert(in, m.get(fr, in.X)))
		fr.pc++
	case *ssa.MakeClosure:
		b := make([]Value, len(in.Bindings))
		for i, x := range in.Bindings {
			b[i] = m.get(fr, x)
		}
		m.set(fr, in, &FuncV{fn: in.Fn.(*ssa.Function), bindings: b})
		fr.pc++
	case *ssa.Phi:
		// handled by phis() on block entry
		fr.pc++
	case *ssa.Select:
		m.doSelect(th, fr, in)
	default:
		m.unsupported("instruction %T: %s", instr, instr)
	}
}

// phis evaluates all phi nodes of the new block simultaneously.
func (m *Machine) phis(fr *Frame) {
	b := fr.block
	if len(b.Instrs) == 0 {
		return
	}
	if _, ok := b.Instrs[0].(*ssa.Phi); !ok {
		return
	}
	idx := -1
	for i, p := range b.Preds {
		if p == fr.prev {
			idx = i
			break
		}
	}
	if idx < 0 {
		m.unsupported("phi: predecessor not found")
	}
	var vals []Value
	var phis []*ssa.Phi
	for _, in := range b.Instrs {
		p, ok := in.(*ssa.Phi)
		if !ok {
			break
		}
		phis = append(phis, p)
		vals = append(vals, m.get(fr, p.Edges[idx]))
	}
	for i, p := range phis {
		m.set(fr, p, vals[i])
	}
	fr.pc = len(phis)
}

func constBool(c *ssa.Const) bool {
	return c.Value.String() == "true"
}

func constString(c *ssa.Const) string {
	return constantStringVal(c)
}
