package main

import (
	"fmt"
	"go/constant"
	"go/token"
	"go/types"
	"math"
	"unicode/utf8"

	"golang.org/x/tools/go/ssa"
)

func constantStringVal(c *ssa.Const) string {
	if c.Value.Kind() == constant.String {
		return constant.StringVal(c.Value)
	}
	// int -> string conversion constant
	if c.Value.Kind() == constant.Int {
		v, _ := constant.Int64Val(c.Value)
		return string(rune(v))
	}
	return c.Value.String()
}

// ------------------------------------------------------------ equality

func (m *Machine) valuesEqual(a, b Value) *Term {
	switch x := a.(type) {
	case *Term:
		y, ok := b.(*Term)
		if !ok {
			m.unsupported("== between %T and %T", a, b)
		}
		return Eq(x, y)
	case FloatV:
		y := b.(FloatV)
		if x.T != nil || y.T != nil {
			xt, yt := m.floatAsInt(x), m.floatAsInt(y)
			return Eq(xt, yt)
		}
		return BoolC(x.F == y.F)
	case *StrV:
		y, ok := b.(*StrV)
		if !ok {
			m.unsupported("== between %T and %T", a, b)
		}
		return strEq(x, y)
	case *Ptr:
		y, ok := b.(*Ptr)
		if !ok {
			m.unsupported("== between %T and %T", a, b)
		}
		return BoolC(ptrEq(x, y))
	case *IfaceV:
		y, ok := b.(*IfaceV)
		if !ok {
			m.unsupported("== between %T and %T", a, b)
		}
		if x.T == nil || y.T == nil {
			return BoolC(x.T == nil && y.T == nil)
		}
		if !types.Identical(x.T, y.T) {
			return FalseT
		}
		if !types.Comparable(x.T) {
			m.raiseRuntime("comparing uncomparable type " + x.T.String())
		}
		return m.valuesEqual(x.V, y.V)
	case *StructV:
		y := b.(*StructV)
		r := TrueT
		for i := range x.F {
			r = And(r, m.valuesEqual(x.F[i], y.F[i]))
		}
		return r
	case *ArrayV:
		y := b.(*ArrayV)
		r := TrueT
		for i := range x.E {
			r = And(r, m.valuesEqual(x.E[i], y.E[i]))
		}
		return r
	case *ChanV:
		y := b.(*ChanV)
		return BoolC(x == y)
	case *MapV:
		y, ok := b.(*MapV)
		if ok && (x == nil || y == nil) {
			return BoolC(x == nil && y == nil)
		}
	case *SliceV:
		y, ok := b.(*SliceV)
		if ok && (x.IsNil() || y.IsNil()) {
			return BoolC(x.IsNil() && y.IsNil())
		}
	case *FuncV:
		y, ok := b.(*FuncV)
		if ok && (x == nil || y == nil) {
			return BoolC(x == nil && y == nil)
		}
	case PoisonV:
		m.unsupported("comparison with poisoned value: %s", x.Why)
	}
	m.unsupported("== between %T and %T", a, b)
	return nil
}

// ------------------------------------------------------------ unary / binary

func (m *Machine) unop(fr *Frame, in *ssa.UnOp) Value {
	x := m.get(fr, in.X)
	switch in.Op {
	case token.MUL: // load
		p, ok := x.(*Ptr)
		if !ok {
			if pv, isP := x.(PoisonV); isP {
				m.unsupported("deref of poison: %s", pv.Why)
			}
			m.unsupported("deref of %T", x)
		}
		return m.load(p)
	case token.NOT:
		return Not(x.(*Term))
	case token.SUB:
		switch v := x.(type) {
		case *Term:
			return Neg(v)
		case FloatV:
			if v.T != nil {
				return FloatV{T: Neg(v.T), W: v.W}
			}
			return FloatV{F: -v.F, W: v.W}
		}
	case token.XOR:
		return BNot(x.(*Term))
	case token.ARROW:
		return m.chanRecv(m.cur, x, in.CommaOk, fr, in)
	}
	m.unsupported("unop %v on %T", in.Op, x)
	return nil
}

func (m *Machine) binop(op token.Token, xt, yt types.Type, x, y Value) Value {
	switch op {
	case token.EQL:
		return m.valuesEqual(x, y)
	case token.NEQ:
		return Not(m.valuesEqual(x, y))
	}
	switch a := x.(type) {
	case *Term:
		b, ok := y.(*Term)
		if !ok {
			m.unsupported("binop %v between %T and %T", op, x, y)
		}
		if a.sort.K == SBool {
			switch op {
			case token.AND, token.LAND:
				return And(a, b)
			case token.OR, token.LOR:
				return Or(a, b)
			}
			m.unsupported("bool binop %v", op)
		}
		_, signed := intWidth(xt)
		switch op {
		case token.ADD:
			return Add(a, b)
		case token.SUB:
			return Sub(a, b)
		case token.MUL:
			return Mul(a, b)
		case token.QUO:
			m.divCheck(b)
			if signed {
				return SDiv(a, b)
			}
			return UDiv(a, b)
		case token.REM:
			m.divCheck(b)
			if signed {
				return SRem(a, b)
			}
			return URem(a, b)
		case token.AND:
			return BAnd(a, b)
		case token.OR:
			return BOr(a, b)
		case token.XOR:
			return BXor(a, b)
		case token.AND_NOT:
			return BAnd(a, BNot(b))
		case token.SHL, token.SHR:
			cnt := m.shiftCount(b, yt, a.sort.W)
			if op == token.SHL {
				return Shl(a, cnt)
			}
			if signed {
				return AShr(a, cnt)
			}
			return LShr(a, cnt)
		case token.LSS:
			if signed {
				return SLt(a, b)
			}
			return ULt(a, b)
		case token.LEQ:
			if signed {
				return SLe(a, b)
			}
			return ULe(a, b)
		case token.GTR:
			if signed {
				return SLt(b, a)
			}
			return ULt(b, a)
		case token.GEQ:
			if signed {
				return SLe(b, a)
			}
			return ULe(b, a)
		}
	case FloatV:
		b, ok := y.(FloatV)
		if !ok {
			m.unsupported("float binop with %T", y)
		}
		if a.T != nil || b.T != nil {
			return m.exactFloatBinop(op, a, b)
		}
		r := func(f float64) Value {
			if a.W == 32 {
				return FloatV{F: float64(float32(f)), W: 32}
			}
			return FloatV{F: f, W: 64}
		}
		switch op {
		case token.ADD:
			return r(a.F + b.F)
		case token.SUB:
			return r(a.F - b.F)
		case token.MUL:
			return r(a.F * b.F)
		case token.QUO:
			return r(a.F / b.F)
		case token.LSS:
			return BoolC(a.F < b.F)
		case token.LEQ:
			return BoolC(a.F <= b.F)
		case token.GTR:
			return BoolC(a.F > b.F)
		case token.GEQ:
			return BoolC(a.F >= b.F)
		}
	case *StrV:
		b, ok := y.(*StrV)
		if !ok {
			m.unsupported("string binop with %T", y)
		}
		switch op {
		case token.ADD:
			nb := make([]*Term, 0, len(a.B)+len(b.B))
			nb = append(nb, a.B...)
			nb = append(nb, b.B...)
			return &StrV{B: nb}
		case token.LSS:
			return strLess(a, b)
		case token.GTR:
			return strLess(b, a)
		case token.LEQ:
			return Not(strLess(b, a))
		case token.GEQ:
			return Not(strLess(a, b))
		}
	case PoisonV:
		m.unsupported("binop on poison: %s", a.Why)
	}
	m.unsupported("binop %v on %T, %T", op, x, y)
	return nil
}

func (m *Machine) divCheck(b *Term) {
	z := Eq(b, BVC(b.sort.W, 0))
	if z.IsFalse() {
		return
	}
	if z.IsTrue() || m.branchVC(z, "division by zero") {
		m.raiseRuntime("integer divide by zero")
	}
}

func (m *Machine) shiftCount(b *Term, yt types.Type, w int) *Term {
	bw, signed := intWidth(yt)
	if signed {
		neg := SLt(b, BVC(bw, 0))
		if !neg.IsFalse() {
			if neg.IsTrue() || m.branchVC(neg, "negative shift") {
				m.raiseRuntime("negative shift amount")
			}
		}
	}
	if bw == w {
		return b
	}
	if bw < w {
		return ZExt(b, w)
	}
	// wider count: saturate
	big := ULe(BVC(bw, uint64(w)), b)
	return Ite(big, BVC(w, uint64(w)), Extract(w-1, 0, b))
}

// ------------------------------------------------------------ conversions

func (m *Machine) convert(from, to types.Type, x Value) Value {
	fu, tu := from.Underlying(), to.Underlying()
	if pv, ok := x.(PoisonV); ok {
		return pv
	}
	// type-parameter core types
	if tp, ok := fu.(*types.Interface); ok {
		_ = tp
	}
	switch t := tu.(type) {
	case *types.Basic:
		switch {
		case t.Info()&types.IsInteger != 0:
			tw, _ := intWidth(t)
			switch v := x.(type) {
			case *Term:
				_, fs := intWidth(fu)
				if tw <= v.sort.W {
					return Extract(tw-1, 0, v)
				}
				if fs {
					return SExt(v, tw)
				}
				return ZExt(v, tw)
			case FloatV:
				if v.T != nil {
					if tw <= 64 && t.Info()&types.IsUnsigned == 0 {
						if tw == 64 {
							return v.T
						}
						m.exactRange(v.T, int64(1)<<(tw-1)-1, "float to int"+itoa(tw)+" conversion")
						return Extract(tw-1, 0, v.T)
					}
					m.unsupported("exact-integer float to unsigned conversion")
				}
				f := v.F
				if t.Info()&types.IsUnsigned != 0 {
					return BVC(tw, uint64(f))
				}
				return BVC(tw, uint64(int64(f)))
			case *Ptr: // unsafe.Pointer -> uintptr
				if v.IsNil() {
					return BVC(tw, 0)
				}
				m.unsupported("pointer to integer conversion")
			}
		case t.Info()&types.IsFloat != 0:
			switch v := x.(type) {
			case *Term:
				if !v.IsConst() {
					_, fs := intWidth(fu)
					if !fs || floatWidth(t) != 64 {
						m.unsupported("symbolic unsigned int / float32 conversion")
					}
					w := v
					if v.sort.W < 64 {
						w = SExt(v, 64)
					}
					m.exactRange(w, exactFloatLimit, "int to float64 conversion")
					return FloatV{T: w, W: 64}
				}
				_, fs := intWidth(fu)
				var f float64
				if fs {
					f = float64(v.SVal())
				} else {
					f = float64(v.c)
				}
				if floatWidth(t) == 32 {
					f = float64(float32(f))
				}
				return FloatV{F: f, W: floatWidth(t)}
			case FloatV:
				if floatWidth(t) == 32 {
					return FloatV{F: float64(float32(v.F)), W: 32}
				}
				return FloatV{F: v.F, W: 64}
			}
		case t.Info()&types.IsString != 0:
			switch v := x.(type) {
			case *StrV:
				return v
			case *Term: // rune/int -> string
				if !v.IsConst() {
					// ASCII assumption for symbolic runes
					lt := ULt(v, BVC(v.sort.W, 0x80))
					if !lt.IsTrue() {
						if m.branchVC(Not(lt), "non-ASCII rune to string") {
							m.unsupported("symbolic non-ASCII rune to string")
						}
					}
					return &StrV{B: []*Term{Extract(7, 0, v)}}
				}
				return strConst(string(rune(v.SVal())))
			case *SliceV:
				// []byte or []rune -> string
				et := fu.(*types.Slice).Elem().Underlying().(*types.Basic)
				if v.IsNil() {
					return &StrV{}
				}
				arr := v.arr.val.(*ArrayV)
				n := m.sliceLen(v)
				if et.Kind() == types.Uint8 {
					b := make([]*Term, n)
					for i := 0; i < n; i++ {
						b[i] = arr.E[v.off+i].(*Term)
					}
					return &StrV{B: b}
				}
				// runes
				var out []*Term
				for i := 0; i < n; i++ {
					r := arr.E[v.off+i].(*Term)
					if r.IsConst() {
						out = append(out, strConst(string(rune(r.SVal()))).B...)
					} else {
						lt := ULt(r, BVC(r.sort.W, 0x80))
						if !lt.IsTrue() && m.branchVC(Not(lt), "non-ASCII rune") {
							m.unsupported("symbolic non-ASCII rune in []rune->string")
						}
						out = append(out, Extract(7, 0, r))
					}
				}
				return &StrV{B: out}
			}
		case t.Kind() == types.UnsafePointer:
			switch v := x.(type) {
			case *Ptr:
				return v
			case *Term:
				if v.IsConst() && v.c == 0 {
					return NilPtr
				}
				m.unsupported("integer to unsafe.Pointer")
			}
		case t.Info()&types.IsBoolean != 0:
			return x
		}
	case *types.Slice:
		if s, ok := x.(*StrV); ok {
			eb := t.Elem().Underlying().(*types.Basic)
			if eb.Kind() == types.Uint8 {
				e := make([]Value, len(s.B))
				for i, b := range s.B {
					e[i] = b
				}
				o := m.newObj(&ArrayV{E: e}, types.NewArray(t.Elem(), int64(len(e))), "[]byte(str)")
				return &SliceV{arr: o, off: 0, len: len(e), cap: len(e)}
			}
			// []rune
			var e []Value
			if s.IsConst() {
				for _, r := range s.Const2() {
					e = append(e, BVC(32, uint64(r)))
				}
			} else {
				for _, b := range s.B {
					lt := ULt(b, BVC(8, 0x80))
					if !lt.IsTrue() && m.branchVC(Not(lt), "non-ASCII byte") {
						m.unsupported("symbolic non-ASCII string to []rune")
					}
					e = append(e, ZExt(b, 32))
				}
			}
			o := m.newObj(&ArrayV{E: e}, types.NewArray(t.Elem(), int64(len(e))), "[]rune(str)")
			return &SliceV{arr: o, off: 0, len: len(e), cap: len(e)}
		}
		return x
	case *types.Pointer:
		return x // unsafe.Pointer -> *T
	}
	// identical underlying / named conversions
	return x
}

func (s *StrV) Const2() []rune {
	return []rune(s.Const())
}

// ------------------------------------------------------------ slices, arrays, strings

func (m *Machine) sliceLen(s *SliceV) int {
	if s == nil {
		return 0
	}
	if s.slen != nil {
		n := m.concretizeInt(s.slen, "slice length", 64)
		s.len = int(n)
		s.slen = nil
	}
	return s.len
}

func (m *Machine) makeSlice(fr *Frame, in *ssa.MakeSlice) Value {
	lt := m.get(fr, in.Len).(*Term)
	ct := m.get(fr, in.Cap).(*Term)
	et := in.Type().Underlying().(*types.Slice).Elem()
	if phys := m.cfgInt("symMake", 0); phys > 0 && !lt.IsConst() && (in.Cap == in.Len || ct == lt) {
		// lazily sized allocation: symbolic length over a physical store of `phys` elements
		l64 := sextTo64(lt, in.Len.Type())
		if m.branchVC(SLt(l64, BVC(64, 0)), "makeslice negative len") {
			m.raiseRuntime("makeslice: len out of range")
		}
		if m.branchVC(SLt(BVC(64, 1<<40), l64), "makeslice huge len") {
			m.raiseRuntime("makeslice: len out of range")
		}
		m.ps.allocs = append(m.ps.allocs, l64)
		sl := m.newSlice(et, phys, phys)
		sl.slen = l64
		return sl
	}
	ln := m.concretizeInt(sextTo64(lt, in.Len.Type()), "make len", m.cfgInt("maxMakeForks", 16))
	var cp int64
	if in.Cap == in.Len || ct == lt {
		cp = ln
	} else {
		cp = m.concretizeInt(sextTo64(ct, in.Cap.Type()), "make cap", m.cfgInt("maxMakeForks", 16))
	}
	if ln < 0 {
		m.raiseRuntime("makeslice: len out of range")
	}
	if cp < ln {
		m.raiseRuntime("makeslice: cap out of range")
	}
	if cp > int64(m.cfgInt("maxAlloc", 1<<20)) {
		m.unsupported("makeslice: size %d beyond engine limit", cp)
	}
	return m.newSlice(et, int(ln), int(cp))
}

func sextTo64(t *Term, ty types.Type) *Term {
	if t.sort.W == 64 {
		return t
	}
	_, s := intWidth(ty)
	if s {
		return SExt(t, 64)
	}
	return ZExt(t, 64)
}

func (m *Machine) newSlice(et types.Type, ln, cp int) *SliceV {
	e := make([]Value, cp)
	if cp > 0 {
		z := zeroValue(et)
		_, agg := z.(*StructV)
		_, agg2 := z.(*ArrayV)
		for i := range e {
			if agg || agg2 {
				e[i] = copyValue(z)
			} else {
				e[i] = z
			}
		}
	}
	o := m.newObj(&ArrayV{E: e}, types.NewArray(et, int64(cp)), "makeslice")
	return &SliceV{arr: o, off: 0, len: ln, cap: cp}
}

func (m *Machine) intOperand(fr *Frame, v ssa.Value, what string) int {
	if v == nil {
		return -1
	}
	t := m.get(fr, v).(*Term)
	return int(m.concretizeInt(sextTo64(t, v.Type()), what, 64))
}

func (m *Machine) sliceOp(fr *Frame, in *ssa.Slice) Value {
	x := m.get(fr, in.X)
	lo, hi, mx := 0, -1, -1
	if in.Low != nil {
		lo = m.intOperand(fr, in.Low, "slice low")
	}
	if in.High != nil {
		hi = m.intOperand(fr, in.High, "slice high")
	}
	if in.Max != nil {
		mx = m.intOperand(fr, in.Max, "slice max")
	}
	switch v := x.(type) {
	case *StrV:
		n := len(v.B)
		if in.High == nil {
			hi = n
		}
		if lo < 0 || hi < lo || hi > n {
			m.raiseRuntime(fmt.Sprintf("slice bounds out of range [%d:%d] with length %d", lo, hi, n))
		}
		return &StrV{B: v.B[lo:hi]}
	case *SliceV:
		if v.IsNil() {
			if in.High == nil {
				hi = 0
			}
			if in.Max == nil {
				mx = 0
			}
			if lo != 0 || hi != 0 || mx != 0 {
				m.raiseRuntime("slice bounds out of range on nil slice")
			}
			return (*SliceV)(nil)
		}
		if v.slen != nil && in.Max == nil {
			if in.High == nil {
				// s[lo:] keeps the symbolic length
				if m.branchVC(Or(SLt(BVC(64, uint64(int64(lo))), BVC(64, 0)), SLt(v.slen, BVC(64, uint64(int64(lo))))), "slice bounds") {
					m.raiseRuntime("slice bounds out of range (symbolic length)")
				}
				if lo > v.len {
					m.unsupported("slice offset %d beyond physical store of lazily sized slice", lo)
				}
				return &SliceV{arr: v.arr, off: v.off + lo, len: v.len - lo, cap: v.cap - lo, slen: Sub(v.slen, BVC(64, uint64(int64(lo))))}
			}
			// s[lo:hi] with concrete hi: ordinary slice once hi <= len is established
			if lo < 0 || hi < lo {
				m.raiseRuntime("slice bounds out of range")
			}
			if m.branchVC(SLt(v.slen, BVC(64, uint64(int64(hi)))), "slice bounds") {
				m.raiseRuntime("slice bounds out of range (symbolic length)")
			}
			if hi > v.len {
				m.unsupported("slice bound %d beyond physical store of lazily sized slice", hi)
			}
			return &SliceV{arr: v.arr, off: v.off + lo, len: hi - lo, cap: hi - lo}
		}
		ln := m.sliceLen(v)
		if in.High == nil {
			hi = ln
		}
		if in.Max == nil {
			mx = v.cap
		}
		if lo < 0 || hi < lo || mx < hi || mx > v.cap {
			m.raiseRuntime(fmt.Sprintf("slice bounds out of range [%d:%d:%d] with capacity %d", lo, hi, mx, v.cap))
		}
		return &SliceV{arr: v.arr, off: v.off + lo, len: hi - lo, cap: mx - lo}
	case *Ptr: // pointer to array
		if v.IsNil() {
			m.nilDeref("slice of nil array pointer")
		}
		arrV, ok := m.loadRaw(v).(*ArrayV)
		if !ok {
			m.unsupported("slice of pointer to %T", m.loadRaw(v))
		}
		n := len(arrV.E)
		if in.High == nil {
			hi = n
		}
		if in.Max == nil {
			mx = n
		}
		if lo < 0 || hi < lo || mx < hi || mx > n {
			m.raiseRuntime("slice bounds out of range")
		}
		if len(v.path) != 0 {
			// array embedded in a larger object: give the slice a view object sharing the ArrayV
			o := m.viewObj(v, arrV)
			return &SliceV{arr: o, off: lo, len: hi - lo, cap: mx - lo}
		}
		return &SliceV{arr: v.obj, off: lo, len: hi - lo, cap: mx - lo}
	}
	m.unsupported("slice of %T", x)
	return nil
}

// loadRaw returns the value at p without copying.
func (m *Machine) loadRaw(p *Ptr) Value {
	v := p.obj.val
	for _, i := range p.path {
		switch c := v.(type) {
		case *StructV:
			v = c.F[i]
		case *ArrayV:
			v = c.E[i]
		default:
			m.unsupported("loadRaw path through %T", v)
		}
	}
	return v
}

// viewObj creates (or reuses) an object aliasing an embedded array.
func (m *Machine) viewObj(p *Ptr, arr *ArrayV) *Obj {
	if p.obj.tag == nil {
		p.obj.tag = map[*ArrayV]*Obj{}
	}
	tm, ok := p.obj.tag.(map[*ArrayV]*Obj)
	if !ok {
		m.unsupported("viewObj: tag in use")
	}
	if o, ok := tm[arr]; ok {
		return o
	}
	o := m.newObj(arr, nil, "array-view")
	o.epoch = p.obj.epoch
	tm[arr] = o
	return o
}

func (m *Machine) boundsCheck(idx *Term, ity types.Type, n int, what string) int {
	i64 := sextTo64(idx, ity)
	if i64.IsConst() {
		i := i64.SVal()
		if i < 0 || i >= int64(n) {
			m.raiseRuntime(fmt.Sprintf("index out of range [%d] with length %d", i, n))
		}
		return int(i)
	}
	oob := Or(SLt(i64, BVC(64, 0)), SLe(BVC(64, uint64(n)), i64))
	if m.branchVC(oob, "index out of range") {
		m.raiseRuntime(fmt.Sprintf("index out of range [sym] with length %d (%s)", n, what))
	}
	return -1
}

func (m *Machine) indexAddr(fr *Frame, in *ssa.IndexAddr) Value {
	x := m.get(fr, in.X)
	idx := m.get(fr, in.Index).(*Term)
	switch v := x.(type) {
	case *SliceV:
		if v.slen != nil && idx.IsConst() {
			i := int(sextTo64(idx, in.Index.Type()).SVal())
			if i < 0 || m.branchVC(SLe(v.slen, BVC(64, uint64(int64(i)))), "index out of range") {
				m.raiseRuntime("index out of range (symbolic length)")
			}
			if i >= v.len {
				m.unsupported("index %d beyond physical store of lazily sized slice", i)
			}
			return &Ptr{obj: v.arr, path: []int{v.off + i}}
		}
		n := m.sliceLen(v)
		i := m.boundsCheck(idx, in.Index.Type(), n, "slice")
		if i < 0 {
			if isScalarType(in.Type().(*types.Pointer).Elem()) && n <= 512 && v.off == 0 && n == len(v.arr.val.(*ArrayV).E) {
				return &Ptr{obj: v.arr, sym: sextTo64(idx, in.Index.Type())}
			}
			i = int(m.concretizeInt(sextTo64(idx, in.Index.Type()), "slice index", 64))
		}
		return &Ptr{obj: v.arr, path: []int{v.off + i}}
	case *Ptr:
		if v.IsNil() {
			m.nilDeref("index of nil array pointer")
		}
		arr, ok := m.loadRaw(v).(*ArrayV)
		if !ok {
			m.unsupported("IndexAddr on pointer to %T", m.loadRaw(v))
		}
		i := m.boundsCheck(idx, in.Index.Type(), len(arr.E), "array")
		if i < 0 {
			if isScalarType(in.Type().(*types.Pointer).Elem()) && len(arr.E) <= 512 {
				return &Ptr{obj: v.obj, path: v.path, sym: sextTo64(idx, in.Index.Type())}
			}
			i = int(m.concretizeInt(sextTo64(idx, in.Index.Type()), "array index", 64))
		}
		return ptrField(v, i)
	}
	m.unsupported("IndexAddr on %T", x)
	return nil
}

func (m *Machine) indexOp(fr *Frame, in *ssa.Index) Value {
	x := m.get(fr, in.X)
	idx := m.get(fr, in.Index).(*Term)
	switch v := x.(type) {
	case *ArrayV:
		i := m.boundsCheck(idx, in.Index.Type(), len(v.E), "array")
		if i < 0 {
			return m.symSelect(v.E, sextTo64(idx, in.Index.Type()))
		}
		return copyValue(v.E[i])
	case *StrV:
		i := m.boundsCheck(idx, in.Index.Type(), len(v.B), "string")
		if i < 0 {
			i64 := sextTo64(idx, in.Index.Type())
			r := v.B[len(v.B)-1]
			for k := len(v.B) - 2; k >= 0; k-- {
				r = Ite(Eq(i64, BVC(64, uint64(k))), v.B[k], r)
			}
			return r
		}
		return v.B[i]
	}
	m.unsupported("Index on %T", x)
	return nil
}

func isScalarType(t types.Type) bool {
	b, ok := t.Underlying().(*types.Basic)
	return ok && b.Info()&(types.IsInteger|types.IsBoolean) != 0
}

// symSelect builds an ite chain over scalar elements, or concretizes.
func (m *Machine) symSelect(e []Value, idx *Term) Value {
	allTerm := true
	for _, v := range e {
		if _, ok := v.(*Term); !ok {
			allTerm = false
		}
	}
	if allTerm && len(e) > 0 && len(e) <= 512 {
		r := e[len(e)-1].(*Term)
		for k := len(e) - 2; k >= 0; k-- {
			r = Ite(Eq(idx, BVC(64, uint64(k))), e[k].(*Term), r)
		}
		return r
	}
	i := m.concretizeInt(idx, "array index", 64)
	return copyValue(e[i])
}

// ------------------------------------------------------------ maps

func (m *Machine) mapFind(mp *MapV, k Value, forWrite bool) *mapEntry {
	if mp == nil {
		return nil
	}
	m.mapAccess(mp, forWrite)
	// indexed fast path: concrete key and no symbolic keys in the map
	if r, ok := keyRepr(k); ok && mp.symKeys == 0 && mp.index != nil {
		return mp.index[r]
	}
	// fast path: all concrete comparisons
	var symIdx []int
	var symCond []*Term
	for i, e := range mp.entries {
		if e.deleted {
			continue
		}
		c := m.valuesEqual(e.k, k)
		if c.IsTrue() {
			if len(symIdx) == 0 {
				return e
			}
			symIdx = append(symIdx, i)
			symCond = append(symCond, c)
			break
		}
		if c.IsFalse() {
			continue
		}
		symIdx = append(symIdx, i)
		symCond = append(symCond, c)
	}
	if len(symIdx) == 0 {
		return nil
	}
	// decision: which entry (first match wins; keys in a map are pairwise distinct, so at most one matches)
	alts := make([]*Term, 0, len(symIdx)+1)
	none := TrueT
	for _, c := range symCond {
		alts = append(alts, And(none, c))
		none = And(none, Not(c))
	}
	alts = append(alts, none)
	ch := m.decide("mapkey", alts)
	if ch == len(symIdx) {
		return nil
	}
	return mp.entries[symIdx[ch]]
}

func (m *Machine) mapSet(mp *MapV, k, v Value) {
	e := m.mapFind(mp, k, true)
	m.logUndoMap(mp)
	if e != nil {
		// entries may have been copied by logUndoMap; find again by identity of key value
		for _, e2 := range mp.entries {
			if e2 == e {
				e2.v = copyValue(v)
				return
			}
		}
		e.v = copyValue(v)
		return
	}
	ne := &mapEntry{k: copyValue(k), v: copyValue(v)}
	if r, ok := keyRepr(k); ok {
		ne.repr = r
		if mp.index == nil {
			mp.index = map[string]*mapEntry{}
		}
		mp.index[r] = ne
	} else {
		mp.symKeys++
	}
	mp.entries = append(mp.entries, ne)
}

func (m *Machine) mapDelete(mp *MapV, k Value) {
	if mp == nil {
		return
	}
	e := m.mapFind(mp, k, true)
	if e == nil {
		return
	}
	m.logUndoMap(mp)
	out := mp.entries[:0:0]
	for _, e2 := range mp.entries {
		if e2 != e {
			out = append(out, e2)
		}
	}
	mp.entries = out
	if e.repr != "" {
		delete(mp.index, e.repr)
	} else {
		mp.symKeys--
	}
}

func (m *Machine) mapLen(mp *MapV) int {
	if mp == nil {
		return 0
	}
	m.mapAccess(mp, false)
	return len(mp.entries)
}

func (m *Machine) lookup(fr *Frame, in *ssa.Lookup) Value {
	x := m.get(fr, in.X)
	switch v := x.(type) {
	case *StrV:
		idx := m.get(fr, in.Index).(*Term)
		i := m.boundsCheck(idx, in.Index.Type(), len(v.B), "string")
		if i < 0 {
			i64 := sextTo64(idx, in.Index.Type())
			r := v.B[len(v.B)-1]
			for k := len(v.B) - 2; k >= 0; k-- {
				r = Ite(Eq(i64, BVC(64, uint64(k))), v.B[k], r)
			}
			return r
		}
		return v.B[i]
	case *MapV:
		k := m.get(fr, in.Index)
		e := m.mapFind(v, k, false)
		et := in.X.Type().Underlying().(*types.Map).Elem()
		var val Value
		if e != nil {
			val = copyValue(e.v)
		} else {
			val = zeroValue(et)
		}
		if in.CommaOk {
			return TupleV{val, BoolC(e != nil)}
		}
		return val
	case PoisonV:
		m.unsupported("lookup in poisoned map: %s", v.Why)
	}
	m.unsupported("Lookup on %T", x)
	return nil
}

// ------------------------------------------------------------ range

type rangeIter struct {
	str   *StrV
	pos   int
	mp    *MapV
	ents  []*mapEntry
	order bool
}

func (m *Machine) makeRange(x Value, t types.Type) Value {
	switch v := x.(type) {
	case *StrV:
		return &rangeIter{str: v}
	case *MapV:
		it := &rangeIter{mp: v}
		if v != nil {
			m.mapAccess(v, false)
			it.ents = append(it.ents, v.entries...)
			if len(it.ents) > 1 && len(it.ents) <= m.cfgInt("mapOrderLimit", 0) {
				it.order = true
			}
		}
		return it
	case PoisonV:
		m.unsupported("range over poison: %s", v.Why)
	}
	m.unsupported("range over %T", x)
	return nil
}

func (m *Machine) rangeNext(itv Value, in *ssa.Next) Value {
	it := itv.(*rangeIter)
	if in.IsString {
		if it.pos >= len(it.str.B) {
			return TupleV{FalseT, BVC(64, 0), BVC(32, 0)}
		}
		b := it.str.B[it.pos]
		idx := BVC(64, uint64(it.pos))
		if b.IsConst() {
			if b.c < 0x80 {
				it.pos++
				return TupleV{TrueT, idx, BVC(32, b.c)}
			}
			// decode concrete multi-byte sequence
			var buf []byte
			for k := it.pos; k < len(it.str.B) && k < it.pos+4; k++ {
				if !it.str.B[k].IsConst() {
					break
				}
				buf = append(buf, byte(it.str.B[k].c))
			}
			r, sz := utf8.DecodeRune(buf)
			it.pos += sz
			return TupleV{TrueT, idx, BVC(32, uint64(r))}
		}
		lt := ULt(b, BVC(8, 0x80))
		if m.branchVC(Not(lt), "non-ASCII symbolic byte in range over string") {
			m.unsupported("range over string with symbolic non-ASCII byte")
		}
		it.pos++
		return TupleV{TrueT, idx, ZExt(b, 32)}
	}
	// map
	for len(it.ents) > 0 {
		pick := 0
		if it.order && len(it.ents) > 1 {
			alts := make([]*Term, len(it.ents))
			for i := range alts {
				alts[i] = TrueT
			}
			pick = m.decide("maporder", alts)
		}
		e := it.ents[pick]
		it.ents = append(it.ents[:pick:pick], it.ents[pick+1:]...)
		// skip entries deleted during iteration
		live := false
		for _, e2 := range it.mp.entries {
			if e2 == e || (e2.k == e.k) {
				live = true
				e = e2
				break
			}
		}
		if !live {
			continue
		}
		return TupleV{TrueT, copyValue(e.k), copyValue(e.v)}
	}
	mt := it.mp
	var kz, vz Value
	if mt != nil {
		kz, vz = zeroValue(mt.keyT), zeroValue(mt.elemT)
	} else {
		tt := in.Type().(*types.Tuple)
		kz, vz = zeroOrNil(tt.At(1).Type()), zeroOrNil(tt.At(2).Type())
	}
	return TupleV{FalseT, kz, vz}
}

func zeroOrNil(t types.Type) Value {
	if b, ok := t.(*types.Basic); ok && b.Kind() == types.Invalid {
		return FalseT
	}
	return zeroValue(t)
}

// ------------------------------------------------------------ type assertions

func (m *Machine) implements(t types.Type, iface *types.Interface) bool {
	return types.Implements(t, iface)
}

func (m *Machine) typeAssert(in *ssa.TypeAssert, x Value) Value {
	iv, ok := x.(*IfaceV)
	if !ok {
		if pv, isP := x.(PoisonV); isP {
			m.unsupported("type assert on poison: %s", pv.Why)
		}
		m.unsupported("type assert on %T", x)
	}
	var okk bool
	var res Value
	at := in.AssertedType
	if it, isI := at.Underlying().(*types.Interface); isI {
		if iv.T != nil && m.implements(iv.T, it) {
			okk = true
			res = iv
		}
	} else {
		if iv.T != nil && types.Identical(iv.T, at) {
			okk = true
			res = iv.V
		}
	}
	if in.CommaOk {
		if !okk {
			res = zeroValue(at)
		}
		return TupleV{res, BoolC(okk)}
	}
	if !okk {
		tn := "nil"
		if iv.T != nil {
			tn = iv.T.String()
		}
		m.raiseRuntime(fmt.Sprintf("interface conversion: interface is %s, not %s", tn, at))
	}
	return res
}

var _ = math.MaxInt64

// ------------------------------------------------------------ exact-integer floats

const exactFloatLimit = int64(1) << 52

// exactRange demands |t| <= lim on every continuation of the current path; a path on which
// the bound can be exceeded ends INCONCLUSIVE (the exact-integer float fragment does not
// cover it).
func (m *Machine) exactRange(t *Term, lim int64, what string) {
	bad := Or(SLt(t, BVC(64, uint64(-lim))), SLt(BVC(64, uint64(lim)), t))
	if bad.IsConst() {
		if bad.c == 1 {
			m.unsupported("%s outside the exact float range", what)
		}
		return
	}
	if m.branchVC(bad, "exact-float") {
		m.unsupported("%s: magnitude may exceed %d, outside the exact-integer float fragment", what, lim)
	}
}

func (m *Machine) floatAsInt(f FloatV) *Term {
	if f.T != nil {
		return f.T
	}
	if f.F != math.Trunc(f.F) || math.Abs(f.F) > float64(exactFloatLimit) {
		m.unsupported("exact-integer float combined with the non-integer constant %v", f.F)
	}
	return BVC(64, uint64(int64(f.F)))
}

func (m *Machine) exactFloatBinop(op token.Token, a, b FloatV) Value {
	switch op {
	case token.MUL:
		// one side must be an integer-valued constant
		var t *Term
		var c FloatV
		switch {
		case a.T != nil && b.T == nil:
			t, c = a.T, b
		case b.T != nil && a.T == nil:
			t, c = b.T, a
		default:
			m.unsupported("product of two symbolic floats")
		}
		k := m.floatAsInt(c).SVal()
		if k == 0 {
			return FloatV{F: 0, W: 64}
		}
		ak := k
		if ak < 0 {
			ak = -ak
		}
		if ak > 1<<20 {
			m.unsupported("exact-integer float times large constant")
		}
		m.exactRange(t, exactFloatLimit/ak, "float product")
		return FloatV{T: Mul(t, BVC(64, uint64(k))), W: 64}
	case token.ADD, token.SUB:
		x, y := m.floatAsInt(a), m.floatAsInt(b)
		m.exactRange(x, exactFloatLimit/2, "float sum")
		m.exactRange(y, exactFloatLimit/2, "float sum")
		if op == token.ADD {
			return FloatV{T: Add(x, y), W: 64}
		}
		return FloatV{T: Sub(x, y), W: 64}
	case token.LSS, token.LEQ, token.GTR, token.GEQ, token.EQL, token.NEQ:
		// comparison with a non-integer constant c: x < c  <=>  x < ceil(c) etc.
		x, y := a, b
		if x.T == nil && x.F != math.Trunc(x.F) || y.T == nil && y.F != math.Trunc(y.F) {
			return m.exactFloatCmpFrac(op, x, y)
		}
		xt, yt := m.floatAsInt(x), m.floatAsInt(y)
		switch op {
		case token.LSS:
			return SLt(xt, yt)
		case token.LEQ:
			return SLe(xt, yt)
		case token.GTR:
			return SLt(yt, xt)
		case token.GEQ:
			return SLe(yt, xt)
		case token.EQL:
			return Eq(xt, yt)
		case token.NEQ:
			return Not(Eq(xt, yt))
		}
	}
	m.unsupported("float operation %s on an exact-integer float", op)
	return nil
}

// comparison of an exact-integer float with a fractional constant
func (m *Machine) exactFloatCmpFrac(op token.Token, x, y FloatV) Value {
	flip := false
	if x.T == nil {
		x, y, flip = y, x, true
	}
	if y.T != nil || math.Abs(y.F) > float64(exactFloatLimit) {
		m.unsupported("float comparison outside the exact-integer fragment")
	}
	if flip {
		switch op {
		case token.LSS:
			op = token.GTR
		case token.LEQ:
			op = token.GEQ
		case token.GTR:
			op = token.LSS
		case token.GEQ:
			op = token.LEQ
		}
	}
	fl := BVC(64, uint64(int64(math.Floor(y.F))))
	switch op {
	case token.LSS, token.LEQ: // x < c <=> x <= floor(c)
		return SLe(x.T, fl)
	case token.GTR, token.GEQ: // x > c <=> x > floor(c)
		return SLt(fl, x.T)
	case token.EQL:
		return FalseT
	case token.NEQ:
		return TrueT
	}
	m.unsupported("float comparison")
	return nil
}
