package main

// Lock-discipline monitor: maps that live in a struct next to a sync.(RW)Mutex are
// tagged (by the harness, via zzverif.Guard) with the mutex object; every access
// checks that the executing thread holds it.
func (m *Machine) monitorMapAccess(mp *MapV, write bool) {
	m.ps.asserts["lock-discipline:"+mp.owner]++
	g := mp.guard
	p := &Ptr{obj: g, path: mp.guardPath}
	if m.holdsLock(m.cur, p, write) {
		return
	}
	kind := "read"
	if write {
		kind = "write"
	}
	m.reportViolation("race", "lock-discipline", "unguarded map "+kind+" of "+mp.owner+" (guarding mutex not held)", nil)
}
