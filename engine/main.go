package main

import (
	"bufio"
	"encoding/json"
	"flag"
	"fmt"
	"os"
	"path/filepath"
	"runtime"
	"sort"
	"strconv"
	"strings"
	"sync"
	"time"

	"golang.org/x/tools/go/ssa"
)

func main() {
	if len(os.Args) < 2 {
		fmt.Fprintln(os.Stderr, "usage: gosym check <property> [--tier quick|thorough] | selftest | list")
		os.Exit(2)
	}
	if v := os.Getenv("VERIF_ROOT"); v != "" {
		verifRoot = v
	}
	switch os.Args[1] {
	case "check":
		os.Exit(cmdCheck(os.Args[2:]))
	case "selftest":
		os.Exit(cmdSelftest(os.Args[2:]))
	case "replay":
		os.Exit(cmdReplay(os.Args[2:]))
	case "list":
		idx, err := loadIndex()
		if err != nil {
			fmt.Fprintln(os.Stderr, err)
			os.Exit(2)
		}
		var ps []string
		for p := range idx.Properties {
			ps = append(ps, p)
		}
		sort.Strings(ps)
		for _, p := range ps {
			for _, h := range idx.Properties[p].Harnesses {
				fmt.Printf("%s %s %s.%s\n", p, h.Name, h.Pkg, h.Entry)
			}
		}
	default:
		fmt.Fprintln(os.Stderr, "unknown command", os.Args[1])
		os.Exit(2)
	}
}

type knownFinding struct {
	Kind, Prop, ID, Harness, Text string
}

func loadKnownFindings() []knownFinding {
	f, err := os.Open(filepath.Join(verifRoot, "known_findings.txt"))
	if err != nil {
		return nil
	}
	defer f.Close()
	var out []knownFinding
	sc := bufio.NewScanner(f)
	for sc.Scan() {
		line := strings.TrimSpace(sc.Text())
		if line == "" || strings.HasPrefix(line, "#") {
			continue
		}
		var k knownFinding
		switch {
		case strings.HasPrefix(line, "finding:"):
			k.Kind = "finding"
			line = strings.TrimSpace(line[len("finding:"):])
		case strings.HasPrefix(line, "fixed:"):
			k.Kind = "fixed"
			line = strings.TrimSpace(line[len("fixed:"):])
		default:
			continue
		}
		fields := strings.Fields(line)
		rest := []string{}
		for _, fl := range fields {
			switch {
			case strings.HasPrefix(fl, "property=") && k.Prop == "":
				k.Prop = fl[len("property="):]
			case strings.HasPrefix(fl, "id=") && k.ID == "":
				k.ID = fl[len("id="):]
			case strings.HasPrefix(fl, "harness=") && k.Harness == "":
				k.Harness = fl[len("harness="):]
			default:
				rest = append(rest, fl)
			}
		}
		k.Text = strings.Join(rest, " ")
		out = append(out, k)
	}
	return out
}

type harnessResult struct {
	cfg       *HarnessCfg
	ex        *Explorer
	wall      time.Duration
	err       string
	mode      string // main | confirm:<id>
	poison    map[string]string
	solverCmd string
}

func cmdCheck(args []string) int {
	fs := flag.NewFlagSet("check", flag.ExitOnError)
	tier := fs.String("tier", "", "quick|thorough")
	only := fs.String("harness", "", "run only this harness")
	workers := fs.Int("workers", runtime.NumCPU(), "total workers")
	trace := fs.Bool("trace", false, "trace instructions")
	timeoutMs := fs.Int("solver-timeout-ms", 30000, "per-query solver timeout")
	noEvidence := fs.Bool("no-evidence", false, "do not write evidence")
	progress := fs.Bool("progress", false, "print progress every 10s")
	budget := fs.Int("budget", 0, "wall-clock budget per harness in seconds (0 = from harness config / 3000)")
	var prop string
	if len(args) > 0 && !strings.HasPrefix(args[0], "-") {
		prop = args[0]
		args = args[1:]
	}
	fs.Parse(args)
	if prop == "" && fs.NArg() > 0 {
		prop = fs.Arg(0)
	}
	if *tier == "" {
		*tier = os.Getenv("VERIF_TIER")
	}
	if *tier == "" {
		*tier = "quick"
	}
	seed := 0
	if s := os.Getenv("VERIF_SEED"); s != "" {
		seed, _ = strconv.Atoi(s)
	}
	t0 := time.Now()
	idx, err := loadIndex()
	if err != nil {
		fmt.Fprintln(os.Stderr, "cannot load harness index:", err)
		return 2
	}
	pc := idx.Properties[prop]
	if pc == nil {
		fmt.Fprintln(os.Stderr, "unknown property", prop)
		return 2
	}
	var hs []*HarnessCfg
	pats := map[string]bool{}
	for _, h := range pc.Harnesses {
		if *only != "" && h.Name != *only {
			continue
		}
		if h.TierOnly != "" && h.TierOnly != *tier {
			continue
		}
		hs = append(hs, h)
		pats["./"+h.Pkg] = true
	}
	if len(hs) == 0 {
		fmt.Fprintln(os.Stderr, "no harness selected")
		return 2
	}
	var patl []string
	for p := range pats {
		patl = append(patl, p)
	}
	sort.Strings(patl)
	ld, err := Load(patl)
	if err != nil {
		fmt.Fprintln(os.Stderr, "LOAD-ERROR:", err)
		fmt.Println("INCONCLUSIVE property=" + prop + " reason=load-error")
		return 2
	}
	fmt.Printf("loaded %d packages in %.1fs\n", len(ld.prog.AllPackages()), ld.loadDur.Seconds())

	kf := loadKnownFindings()
	findingIDs := map[string]knownFinding{}
	for _, k := range kf {
		if k.Kind == "finding" && k.Prop == prop {
			findingIDs[k.ID] = k
		}
	}

	// jobs: main pass per harness + confirm pass per (harness, finding id)
	type job struct {
		cfg  *HarnessCfg
		mode string
	}
	var jobs []job
	for _, h := range hs {
		jobs = append(jobs, job{h, "main"})
		for _, id := range h.Excepts {
			if _, ok := findingIDs[id]; ok {
				jobs = append(jobs, job{h, "confirm:" + id})
			}
		}
	}
	perJob := *workers / len(jobs)
	if perJob < 2 {
		perJob = 2
	}
	if perJob > 16 {
		perJob = 16
	}
	results := make([]*harnessResult, len(jobs))
	var wg sync.WaitGroup
	sem := make(chan struct{}, maxInt(1, *workers/perJob))
	for i, j := range jobs {
		wg.Add(1)
		go func(i int, j job) {
			defer wg.Done()
			sem <- struct{}{}
			defer func() { <-sem }()
			c := *j.cfg
			c.Params = map[string]int{}
			tp := c.Quick
			if *tier == "thorough" && c.Thorough != nil {
				tp = map[string]int{}
				for k, v := range c.Quick {
					tp[k] = v
				}
				for k, v := range c.Thorough {
					tp[k] = v
				}
			}
			for k, v := range tp {
				c.Params[k] = v
			}
			c.ExceptMode = map[string]string{}
			for _, id := range c.Excepts {
				if _, ok := findingIDs[id]; ok {
					c.ExceptMode[id] = "exclude"
				}
			}
			if strings.HasPrefix(j.mode, "confirm:") {
				c.ExceptMode[j.mode[len("confirm:"):]] = "only"
			}
			w := perJob
			if c.Workers > 0 {
				w = c.Workers
			}
			results[i] = runHarness(ld, &c, w, j.mode, *trace, *timeoutMs, *progress, *budget)
		}(i, j)
	}
	wg.Wait()

	// ------------------------------------------------------------ verdict
	exit := 0
	var violLines, kfLines, inconc []string
	nviol := 0
	replayDir := filepath.Join(verifRoot, "out", "replay", prop)
	os.MkdirAll(replayDir, 0o755)
	for _, r := range results {
		name := r.cfg.Name
		if r.err != "" {
			inconc = append(inconc, name+": "+r.err)
			continue
		}
		ex := r.ex
		if strings.HasPrefix(r.mode, "confirm:") {
			id := r.mode[len("confirm:"):]
			if len(ex.violations) > 0 {
				kfLines = append(kfLines, fmt.Sprintf("KNOWN-FINDING: property=%s id=%s harness=%s %s", prop, id, name, findingIDs[id].Text))
			} else {
				fmt.Printf("NOTE: listed finding %s no longer reproduces in %s (Except region has no violation)\n", id, name)
			}
			continue
		}
		for _, s := range ex.inconclusive {
			inconc = append(inconc, name+": "+s)
		}
		for n, v := range ex.violations {
			nviol++
			path := filepath.Join(replayDir, fmt.Sprintf("%s-%d.json", name, n))
			rp := map[string]interface{}{"property": prop, "harness": name, "entry": r.cfg.Pkg + "." + r.cfg.Entry, "label": v.Label, "kind": v.Kind, "msg": v.Msg,
				"model": v.Model, "var_order": v.VarOrder, "decisions": v.Decisions, "params": r.cfg.Params, "where": v.Where, "tier": *tier}
			b, _ := json.MarshalIndent(rp, "", " ")
			os.WriteFile(path, b, 0o644)
			fmt.Printf("violation in %s: [%s] %s\n%s\n  model: %s\n", name, v.Label, v.Msg, v.Where, compactModel(v))
			violLines = append(violLines, fmt.Sprintf("VIOLATION property=%s replay=%s", prop, path))
		}
		// vacuity
		if len(ex.violations) == 0 {
			if ex.pathKinds["done"] == 0 {
				inconc = append(inconc, name+": VACUOUS: no path ran to completion "+fmt.Sprint(ex.pathKinds))
			}
			for _, l := range r.cfg.RequiredReach {
				if ex.reached[l] == 0 {
					inconc = append(inconc, name+": VACUOUS: required label "+l+" never reached")
				}
			}
			if len(ex.asserts) == 0 {
				inconc = append(inconc, name+": VACUOUS: no assertion evaluated")
			}
		}
	}
	// translator validation on solver-produced models: native build vs interpreter
	validated, vmsgs := validateNative(ld, results, *tier)
	for _, s := range vmsgs {
		inconc = append(inconc, s)
	}
	for _, l := range kfLines {
		fmt.Println(l)
	}
	wall := time.Since(t0)
	if !*noEvidence {
		writeEvidence(prop, *tier, seed, results, pc, wall, nviol, inconc, ld, validated)
	}
	for _, r := range results {
		if r.ex != nil {
			fmt.Printf("  %-22s %-12s paths=%d %v decisions=%d queries=%d (unknown %d, cache hits %d) solver=%.1fs wall=%.1fs\n", r.cfg.Name, r.mode, r.ex.paths, r.ex.pathKinds, r.ex.decisions, r.ex.queries, r.ex.unknowns, r.ex.cacheHits, r.ex.solveTime.Seconds(), r.wall.Seconds())
		}
	}
	if len(violLines) > 0 {
		for _, l := range violLines {
			fmt.Println(l)
		}
		exit = 1
	} else if len(inconc) > 0 {
		for _, s := range inconc {
			fmt.Println("INCONCLUSIVE:", s)
		}
		fmt.Printf("INCONCLUSIVE property=%s (no verdict; see messages above)\n", prop)
		exit = 2
	} else {
		fmt.Printf("PASS property=%s tier=%s: no violation within the stated bounds (%.1fs)\n", prop, *tier, wall.Seconds())
	}
	return exit
}

func maxInt(a, b int) int {
	if a > b {
		return a
	}
	return b
}

func compactModel(v *Violation) string {
	var sb strings.Builder
	for i, n := range v.VarOrder {
		if i > 40 {
			sb.WriteString(" ...")
			break
		}
		fmt.Fprintf(&sb, " %s=%d", n, v.Model[n])
	}
	return sb.String()
}

func findFunc(ld *Loader, pkgDir, name string) *ssa.Function {
	path := "github.com/fatedier/frp/" + pkgDir
	p := ld.Package(path)
	if p == nil {
		return nil
	}
	return p.Func(name)
}

func newMachine(ld *Loader, cfg *HarnessCfg, backend string, timeoutMs int) (*Machine, error) {
	incRl := 0
	if os.Getenv("GOSYM_ONESHOT") != "0" && (backend == "" || strings.HasPrefix(backend, "z3")) {
		incRl = 400000
		if v, ok := cfg.Params["incRlimit"]; ok {
			incRl = v
		}
	}
	incMs := timeoutMs
	if v, ok := cfg.Params["incTimeoutMs"]; ok {
		incMs = v
	}
	s, err := NewSolverOpts(backend, incMs, incRl, false)
	if err != nil {
		return nil, err
	}
	c := *cfg
	c.Params = map[string]int{}
	for k, v := range cfg.Params {
		c.Params[k] = v
	}
	m := &Machine{prog: ld.prog, ld: ld, cfg: &c, solver: s, globals: map[*ssa.Global]*Obj{}, inited: map[*ssa.Package]int{},
		finfo: map[*ssa.Function]*funcInfo{}, stubs: map[string]*ssa.Function{}, methodC: map[methodKey]*ssa.Function{},
		funcsEncoded: map[*ssa.Function]int64{}, maxSteps: 20000000, rtypes: map[string]*Obj{}}
	if v, ok := c.Params["maxSteps"]; ok {
		m.maxSteps = int64(v)
	}
	if os.Getenv("GOSYM_ONESHOT") != "0" {
		m.oneshot, err = NewSolverOpts(backend, timeoutMs, 0, true)
		if err != nil {
			return nil, err
		}
	}
	for target, hname := range cfg.Stubs {
		f := findFunc(ld, cfg.Pkg, hname)
		if f == nil {
			return nil, fmt.Errorf("stub function %s not found in %s", hname, cfg.Pkg)
		}
		m.stubs[target] = f
	}
	return m, nil
}

func runHarness(ld *Loader, cfg *HarnessCfg, nworkers int, mode string, trace bool, timeoutMs int, progress bool, budget int) *harnessResult {
	t0 := time.Now()
	res := &harnessResult{cfg: cfg, mode: mode}
	entry := findFunc(ld, cfg.Pkg, cfg.Entry)
	if entry == nil {
		res.err = fmt.Sprintf("harness entry %s.%s not found", cfg.Pkg, cfg.Entry)
		return res
	}
	ex := NewExplorer(nworkers)
	res.ex = ex
	var wg sync.WaitGroup
	var mu sync.Mutex
	if budget == 0 {
		budget = cfg.Params["budgetS"]
	}
	if budget == 0 {
		budget = 3000
	}
	doneCh := make(chan struct{})
	go func() {
		tick := time.NewTicker(10 * time.Second)
		defer tick.Stop()
		for {
			select {
			case <-doneCh:
				return
			case <-tick.C:
				ex.mu.Lock()
				if progress {
					fmt.Printf("  .. %s %s: %.0fs paths=%d %v queue=%d violations=%d\n", cfg.Name, mode, time.Since(t0).Seconds(), ex.paths, ex.pathKinds, len(ex.queue), len(ex.violations))
				}
				if time.Since(t0) > time.Duration(budget)*time.Second && !ex.stop {
					ex.stop = true
					ex.inconclusive = append(ex.inconclusive, fmt.Sprintf("wall-clock budget of %ds exceeded after %d paths (bound too large for this tier)", budget, ex.paths))
					ex.cond.Broadcast()
				}
				ex.mu.Unlock()
			}
		}
	}()
	defer close(doneCh)
	for w := 0; w < nworkers; w++ {
		wg.Add(1)
		go func(w int) {
			defer wg.Done()
			m, err := newMachine(ld, cfg, cfg.Solver, timeoutMs)
			if err != nil {
				ex.noteInconclusive("machine: " + err.Error())
				ex.mu.Lock()
				ex.idle++ // never participates
				if ex.idle == ex.nworkers {
					ex.done = true
					ex.cond.Broadcast()
				}
				ex.mu.Unlock()
				return
			}
			m.trace = trace
			defer m.solver.Close()
			if m.oneshot != nil {
				defer m.oneshot.Close()
			}
			func() {
				defer func() {
					if r := recover(); r != nil {
						buf := make([]byte, 8192)
						n := runtime.Stack(buf, false)
						ex.noteInconclusive(fmt.Sprintf("engine panic: %v%s\n%s", r, m.where(), buf[:n]))
						ex.mu.Lock()
						ex.stop = true
						ex.cond.Broadcast()
						ex.mu.Unlock()
					}
				}()
				m.exploreWorker(ex, entry)
			}()
			mu.Lock()
			ex.queries += m.solver.Queries
			ex.definite += m.solver.Definite
			ex.unknowns += m.solver.Unknowns
			ex.solveTime += m.solver.SolveTime
			if m.oneshot != nil {
				ex.queries += m.oneshot.Queries
				ex.definite += m.oneshot.Definite
				ex.unknowns += m.oneshot.Unknowns
				ex.retried += m.oneshot.Retries
				ex.solveTime += m.oneshot.SolveTime
			}
			ex.cacheHits += m.cacheHits
			for f, n := range m.funcsEncoded {
				ex.funcs[f.String()] += n
			}
			if res.poison == nil {
				res.poison = map[string]string{}
			}
			for k, v := range m.poisonLog {
				res.poison[k] = v
			}
			mu.Unlock()
		}(w)
	}
	wg.Wait()
	res.wall = time.Since(t0)
	return res
}

// validateNative replays sampled path models of native-capable harnesses against the
// real build and compares observations and assertion outcomes with the interpreter's.
func validateNative(ld *Loader, results []*harnessResult, tier string) (int, []string) {
	var entries []selfEntry
	type exp struct {
		obs []string
		h   string
	}
	want := map[string]exp{}
	tmp, err := os.MkdirTemp("", "gosym-samples-")
	if err != nil {
		return 0, nil
	}
	defer os.RemoveAll(tmp)
	limit := 3
	if tier == "thorough" {
		limit = 10
	}
	for ri, r := range results {
		if r.ex == nil || r.mode != "main" || !r.cfg.Native {
			continue
		}
		for si, s := range r.ex.natSamples {
			if si >= limit {
				break
			}
			tag := fmt.Sprintf("h%ds%d", ri, si)
			f := filepath.Join(tmp, tag+".json")
			b, _ := json.Marshal(map[string]interface{}{"model": s.Model, "params": r.cfg.Params})
			os.WriteFile(f, b, 0o644)
			entries = append(entries, selfEntry{Pkg: r.cfg.Pkg, Entry: r.cfg.Entry, Replay: f, Tag: tag})
			want[tag] = exp{s.Observes, r.cfg.Name}
		}
	}
	if len(entries) == 0 {
		return 0, nil
	}
	obs, fails, err := nativeRun(ld, entries, "")
	if err != nil {
		return 0, []string{"native translator validation could not run: " + err.Error()}
	}
	var msgs []string
	ok := 0
	for tag, w := range want {
		good := len(fails[tag]) == 0 && len(obs[tag]) == len(w.obs)
		if good {
			for i := range w.obs {
				if obs[tag][i] != w.obs[i] {
					good = false
				}
			}
		}
		if good {
			ok++
		} else {
			msgs = append(msgs, fmt.Sprintf("%s: TRANSLATOR-MISMATCH on a sampled path model: native observed %v failures %v, interpreter observed %v", w.h, obs[tag], fails[tag], w.obs))
		}
	}
	return ok, msgs
}
