package main

import (
	"fmt"
	"go/types"

	"golang.org/x/tools/go/ssa"
)

// An intrinsic returns (result, mode): mode 0 = not handled (fall through to the
// real body), 1 = done (result delivered), 2 = a frame was pushed by the
// intrinsic (result delivered when it returns).
type intrinsicFn func(m *Machine, th *Thread, fn *ssa.Function, args []Value) (Value, bool)

var intrinsics = map[string]intrinsicFn{}

func reg(name string, f intrinsicFn) { intrinsics[name] = f }

func regAll(names []string, f intrinsicFn) {
	for _, n := range names {
		intrinsics[n] = f
	}
}

func argPtr(m *Machine, v Value) *Ptr {
	p, ok := v.(*Ptr)
	if !ok {
		m.unsupported("intrinsic expected pointer, got %T", v)
	}
	return p
}

func argTerm(m *Machine, v Value) *Term {
	t, ok := v.(*Term)
	if !ok {
		m.unsupported("intrinsic expected scalar, got %T", v)
	}
	return t
}

func argStr(m *Machine, v Value) *StrV {
	s, ok := v.(*StrV)
	if !ok {
		m.unsupported("intrinsic expected string, got %T", v)
	}
	return s
}

func (m *Machine) sliceElems(v Value) []Value {
	s, ok := v.(*SliceV)
	if !ok {
		m.unsupported("intrinsic expected slice, got %T", v)
	}
	if s.IsNil() {
		return nil
	}
	n := m.sliceLen(s)
	return s.arr.val.(*ArrayV).E[s.off : s.off+n]
}

func (m *Machine) byteTerms(v Value) []*Term {
	switch x := v.(type) {
	case *StrV:
		return x.B
	case *SliceV:
		es := m.sliceElems(x)
		r := make([]*Term, len(es))
		for i, e := range es {
			r[i] = e.(*Term)
		}
		return r
	}
	m.unsupported("byteTerms of %T", v)
	return nil
}

func indexByteTerm(b []*Term, c *Term) *Term {
	r := BVC(64, ^uint64(0))
	for i := len(b) - 1; i >= 0; i-- {
		r = Ite(Eq(b[i], c), BVC(64, uint64(i)), r)
	}
	return r
}

func lastIndexByteTerm(b []*Term, c *Term) *Term {
	r := BVC(64, ^uint64(0))
	for i := 0; i < len(b); i++ {
		r = Ite(Eq(b[i], c), BVC(64, uint64(i)), r)
	}
	return r
}

func indexTerm(a, sub []*Term) *Term {
	r := BVC(64, ^uint64(0))
	if len(sub) == 0 {
		return BVC(64, 0)
	}
	for i := len(a) - len(sub); i >= 0; i-- {
		eq := TrueT
		for j := range sub {
			eq = And(eq, Eq(a[i+j], sub[j]))
		}
		r = Ite(eq, BVC(64, uint64(i)), r)
	}
	return r
}

func compareTerm(a, b []*Term) *Term {
	n := len(a)
	if len(b) < n {
		n = len(b)
	}
	var r *Term
	switch {
	case len(a) < len(b):
		r = BVC(64, ^uint64(0))
	case len(a) > len(b):
		r = BVC(64, 1)
	default:
		r = BVC(64, 0)
	}
	for i := n - 1; i >= 0; i-- {
		r = Ite(Eq(a[i], b[i]), r, Ite(ULt(a[i], b[i]), BVC(64, ^uint64(0)), BVC(64, 1)))
	}
	return r
}

func bytesEq(a, b []*Term) *Term {
	if len(a) != len(b) {
		return FalseT
	}
	r := TrueT
	for i := range a {
		r = And(r, Eq(a[i], b[i]))
	}
	return r
}

func lowerByte(c *Term) *Term {
	isUp := And(ULe(BVC(8, 'A'), c), ULe(c, BVC(8, 'Z')))
	return Ite(isUp, Add(c, BVC(8, 32)), c)
}

func upperByte(c *Term) *Term {
	isLo := And(ULe(BVC(8, 'a'), c), ULe(c, BVC(8, 'z')))
	return Ite(isLo, Sub(c, BVC(8, 32)), c)
}

// asciiOrFallback returns true if all symbolic bytes are provably ASCII on this path
// (forking: the non-ASCII side is reported unsupported).
func (m *Machine) requireASCII(b []*Term, what string) bool {
	allConst := true
	for _, t := range b {
		if t.IsConst() {
			if t.c >= 0x80 {
				return false
			}
		} else {
			allConst = false
		}
	}
	if allConst {
		return true
	}
	bad := FalseT
	for _, t := range b {
		if !t.IsConst() {
			bad = Or(bad, ULe(BVC(8, 0x80), t))
		}
	}
	if m.branchVC(bad, "non-ASCII symbolic byte in "+what) {
		m.unsupported("%s on symbolic non-ASCII bytes (harness must bound bytes < 0x80)", what)
	}
	return true
}

func (m *Machine) bytesToSlice(b []*Term) *SliceV {
	e := make([]Value, len(b))
	for i, t := range b {
		e[i] = t
	}
	o := m.newObj(&ArrayV{E: e}, nil, "bytes")
	return &SliceV{arr: o, len: len(e), cap: len(e)}
}

func init() {
	// ---------------------------------------------------------------- sync
	reg("(*sync.Mutex).Lock", func(m *Machine, th *Thread, fn *ssa.Function, a []Value) (Value, bool) {
		m.mutexLock(th, argPtr(m, a[0]), true)
		return nil, true
	})
	reg("(*sync.Mutex).Unlock", func(m *Machine, th *Thread, fn *ssa.Function, a []Value) (Value, bool) {
		m.mutexUnlock(th, argPtr(m, a[0]), true)
		return nil, true
	})
	reg("(*sync.Mutex).TryLock", func(m *Machine, th *Thread, fn *ssa.Function, a []Value) (Value, bool) {
		return BoolC(m.mutexTryLock(th, argPtr(m, a[0]))), true
	})
	reg("(*sync.RWMutex).Lock", func(m *Machine, th *Thread, fn *ssa.Function, a []Value) (Value, bool) {
		m.mutexLock(th, argPtr(m, a[0]), true)
		return nil, true
	})
	reg("(*sync.RWMutex).Unlock", func(m *Machine, th *Thread, fn *ssa.Function, a []Value) (Value, bool) {
		m.mutexUnlock(th, argPtr(m, a[0]), true)
		return nil, true
	})
	reg("(*sync.RWMutex).RLock", func(m *Machine, th *Thread, fn *ssa.Function, a []Value) (Value, bool) {
		m.mutexLock(th, argPtr(m, a[0]), false)
		return nil, true
	})
	reg("(*sync.RWMutex).RUnlock", func(m *Machine, th *Thread, fn *ssa.Function, a []Value) (Value, bool) {
		m.mutexUnlock(th, argPtr(m, a[0]), false)
		return nil, true
	})
	reg("(*sync.Once).Do", func(m *Machine, th *Thread, fn *ssa.Function, a []Value) (Value, bool) {
		p := argPtr(m, a[0])
		k := ptrKey(p)
		switch m.ps.onces[k] {
		case 2:
			return nil, true
		case 1:
			m.block(th, "sync.Once in progress", func() bool { return m.ps.onces[k] == 2 })
		}
		m.ps.onces[k] = 1
		ps := m.ps
		nf := m.invokeValue(th, a[1], nil, nil, m.intrinsicIsDefer)
		if nf == nil {
			// intrinsic f completed and already advanced the caller pc; undo the double advance
			ps.onces[k] = 2
			m.pushedFrame = true
			return nil, true
		}
		nf.onReturn = func(Value) { ps.onces[k] = 2 }
		m.pushedFrame = true
		return nil, true
	})
	reg("(*sync.WaitGroup).Add", func(m *Machine, th *Thread, fn *ssa.Function, a []Value) (Value, bool) {
		k := ptrKey(argPtr(m, a[0]))
		d := argTerm(m, a[1])
		n := m.concretizeInt(sextTo64(d, types.Typ[types.Int]), "WaitGroup.Add", 4)
		m.ps.wgs[k] += int(n)
		if m.ps.wgs[k] < 0 {
			m.raise(m.runtimeErrorValue("sync: negative WaitGroup counter"))
		}
		return nil, true
	})
	reg("(*sync.WaitGroup).Done", func(m *Machine, th *Thread, fn *ssa.Function, a []Value) (Value, bool) {
		k := ptrKey(argPtr(m, a[0]))
		m.ps.wgs[k]--
		if m.ps.wgs[k] < 0 {
			m.raise(m.runtimeErrorValue("sync: negative WaitGroup counter"))
		}
		m.wantYield = "wg.Done"
		return nil, true
	})
	reg("(*sync.WaitGroup).Wait", func(m *Machine, th *Thread, fn *ssa.Function, a []Value) (Value, bool) {
		k := ptrKey(argPtr(m, a[0]))
		ps := m.ps
		if ps.wgs[k] > 0 {
			m.block(th, "WaitGroup.Wait", func() bool { return ps.wgs[k] <= 0 })
		}
		return nil, true
	})
	reg("(*sync.Pool).Get", func(m *Machine, th *Thread, fn *ssa.Function, a []Value) (Value, bool) {
		p := argPtr(m, a[0])
		st := m.loadRaw(p).(*StructV)
		// New is the last field
		nf, _ := st.F[len(st.F)-1].(*FuncV)
		if nf == nil {
			return NilIface, true
		}
		f := m.invokeValue(th, nf, nil, m.curDest, m.intrinsicIsDefer)
		if f == nil {
			m.pushedFrame = true
			return nil, true
		}
		m.pushedFrame = true
		return nil, true
	})
	reg("(*sync.Pool).Put", func(m *Machine, th *Thread, fn *ssa.Function, a []Value) (Value, bool) { return nil, true })

	// ---------------------------------------------------------------- sync/atomic
	atomicLoad := func(m *Machine, th *Thread, fn *ssa.Function, a []Value) (Value, bool) {
		// a load is a scheduling point too: check-then-act on an atomic (Load ... Store) is a race
		// that only shows when another thread runs between the two
		m.wantYield = "atomic"
		return m.load(argPtr(m, a[0])), true
	}
	atomicStore := func(m *Machine, th *Thread, fn *ssa.Function, a []Value) (Value, bool) {
		m.store(argPtr(m, a[0]), a[1])
		m.wantYield = "atomic"
		return nil, true
	}
	atomicSwap := func(m *Machine, th *Thread, fn *ssa.Function, a []Value) (Value, bool) {
		p := argPtr(m, a[0])
		old := m.load(p)
		m.store(p, a[1])
		m.wantYield = "atomic"
		return old, true
	}
	atomicAdd := func(m *Machine, th *Thread, fn *ssa.Function, a []Value) (Value, bool) {
		p := argPtr(m, a[0])
		old := m.load(p).(*Term)
		nv := Add(old, argTerm(m, a[1]))
		m.store(p, nv)
		m.wantYield = "atomic"
		return nv, true
	}
	atomicCAS := func(m *Machine, th *Thread, fn *ssa.Function, a []Value) (Value, bool) {
		p := argPtr(m, a[0])
		old := m.load(p)
		eq := m.valuesEqual(old, a[1])
		var taken bool
		if eq.IsConst() {
			taken = eq.c == 1
		} else {
			taken = m.branch(eq)
		}
		if taken {
			m.store(p, a[2])
		}
		m.wantYield = "atomic"
		return BoolC(taken), true
	}
	atomicBit := func(and bool) intrinsicFn {
		return func(m *Machine, th *Thread, fn *ssa.Function, a []Value) (Value, bool) {
			p := argPtr(m, a[0])
			old := m.load(p).(*Term)
			if and {
				m.store(p, BAnd(old, argTerm(m, a[1])))
			} else {
				m.store(p, BOr(old, argTerm(m, a[1])))
			}
			return old, true
		}
	}
	for _, t := range []string{"Int32", "Int64", "Uint32", "Uint64", "Uintptr", "Pointer"} {
		reg("sync/atomic.Load"+t, atomicLoad)
		reg("sync/atomic.Store"+t, atomicStore)
		reg("sync/atomic.Swap"+t, atomicSwap)
		reg("sync/atomic.CompareAndSwap"+t, atomicCAS)
		if t != "Pointer" {
			reg("sync/atomic.Add"+t, atomicAdd)
			reg("sync/atomic.And"+t, atomicBit(true))
			reg("sync/atomic.Or"+t, atomicBit(false))
		}
	}
	// atomic.Value: field 0 "v any"
	reg("(*sync/atomic.Value).Load", func(m *Machine, th *Thread, fn *ssa.Function, a []Value) (Value, bool) {
		return m.load(ptrField(argPtr(m, a[0]), 0)), true
	})
	reg("(*sync/atomic.Value).Store", func(m *Machine, th *Thread, fn *ssa.Function, a []Value) (Value, bool) {
		if iv, ok := a[1].(*IfaceV); ok && iv.T == nil {
			m.raise(m.runtimeErrorValue("sync/atomic: store of nil value into Value"))
		}
		m.store(ptrField(argPtr(m, a[0]), 0), a[1])
		m.wantYield = "atomic"
		return nil, true
	})
	reg("(*sync/atomic.Value).Swap", func(m *Machine, th *Thread, fn *ssa.Function, a []Value) (Value, bool) {
		p := ptrField(argPtr(m, a[0]), 0)
		old := m.load(p)
		m.store(p, a[1])
		return old, true
	})
	reg("(*sync/atomic.Value).CompareAndSwap", func(m *Machine, th *Thread, fn *ssa.Function, a []Value) (Value, bool) {
		p := ptrField(argPtr(m, a[0]), 0)
		old := m.load(p)
		eq := m.valuesEqual(old, a[1])
		taken := false
		if eq.IsConst() {
			taken = eq.c == 1
		} else {
			taken = m.branch(eq)
		}
		if taken {
			m.store(p, a[2])
		}
		return BoolC(taken), true
	})

	// ---------------------------------------------------------------- internal/bytealg
	reg("internal/bytealg.IndexByte", func(m *Machine, th *Thread, fn *ssa.Function, a []Value) (Value, bool) {
		return indexByteTerm(m.byteTerms(a[0]), argTerm(m, a[1])), true
	})
	reg("internal/bytealg.IndexByteString", intrinsics["internal/bytealg.IndexByte"])
	reg("internal/bytealg.LastIndexByte", func(m *Machine, th *Thread, fn *ssa.Function, a []Value) (Value, bool) {
		return lastIndexByteTerm(m.byteTerms(a[0]), argTerm(m, a[1])), true
	})
	reg("internal/bytealg.LastIndexByteString", intrinsics["internal/bytealg.LastIndexByte"])
	reg("internal/bytealg.Count", func(m *Machine, th *Thread, fn *ssa.Function, a []Value) (Value, bool) {
		c := argTerm(m, a[1])
		r := BVC(64, 0)
		for _, b := range m.byteTerms(a[0]) {
			r = Add(r, Ite(Eq(b, c), BVC(64, 1), BVC(64, 0)))
		}
		return r, true
	})
	reg("internal/bytealg.CountString", intrinsics["internal/bytealg.Count"])
	reg("internal/bytealg.Equal", func(m *Machine, th *Thread, fn *ssa.Function, a []Value) (Value, bool) {
		return bytesEq(m.byteTerms(a[0]), m.byteTerms(a[1])), true
	})
	reg("internal/bytealg.Compare", func(m *Machine, th *Thread, fn *ssa.Function, a []Value) (Value, bool) {
		return compareTerm(m.byteTerms(a[0]), m.byteTerms(a[1])), true
	})
	reg("internal/bytealg.CompareString", intrinsics["internal/bytealg.Compare"])
	reg("internal/bytealg.Index", func(m *Machine, th *Thread, fn *ssa.Function, a []Value) (Value, bool) {
		return indexTerm(m.byteTerms(a[0]), m.byteTerms(a[1])), true
	})
	reg("internal/bytealg.IndexString", intrinsics["internal/bytealg.Index"])
	reg("internal/bytealg.MakeNoZero", func(m *Machine, th *Thread, fn *ssa.Function, a []Value) (Value, bool) {
		n := m.concretizeInt(argTerm(m, a[0]), "MakeNoZero", 16)
		return m.newSlice(types.Typ[types.Uint8], int(n), int(n)), true
	})
	reg("internal/stringslite.Index", func(m *Machine, th *Thread, fn *ssa.Function, a []Value) (Value, bool) {
		return indexTerm(m.byteTerms(a[0]), m.byteTerms(a[1])), true
	})
	reg("strings.Index", intrinsics["internal/stringslite.Index"])
	reg("strings.IndexByte", intrinsics["internal/bytealg.IndexByte"])
	reg("strings.LastIndexByte", intrinsics["internal/bytealg.LastIndexByte"])
	reg("bytes.IndexByte", intrinsics["internal/bytealg.IndexByte"])
	reg("bytes.Equal", intrinsics["internal/bytealg.Equal"])
	reg("bytes.Compare", intrinsics["internal/bytealg.Compare"])
	reg("strings.Compare", intrinsics["internal/bytealg.Compare"])
	reg("strings.Contains", func(m *Machine, th *Thread, fn *ssa.Function, a []Value) (Value, bool) {
		return SLe(BVC(64, 0), indexTerm(m.byteTerms(a[0]), m.byteTerms(a[1]))), true
	})
	reg("strings.HasPrefix", func(m *Machine, th *Thread, fn *ssa.Function, a []Value) (Value, bool) {
		s, p := m.byteTerms(a[0]), m.byteTerms(a[1])
		if len(s) < len(p) {
			return FalseT, true
		}
		return bytesEq(s[:len(p)], p), true
	})
	reg("strings.HasSuffix", func(m *Machine, th *Thread, fn *ssa.Function, a []Value) (Value, bool) {
		s, p := m.byteTerms(a[0]), m.byteTerms(a[1])
		if len(s) < len(p) {
			return FalseT, true
		}
		return bytesEq(s[len(s)-len(p):], p), true
	})
	reg("strings.ToLower", func(m *Machine, th *Thread, fn *ssa.Function, a []Value) (Value, bool) {
		s := argStr(m, a[0])
		if !m.requireASCII(s.B, "strings.ToLower") {
			return nil, false
		}
		out := make([]*Term, len(s.B))
		for i, b := range s.B {
			out[i] = lowerByte(b)
		}
		return &StrV{B: out}, true
	})
	reg("strings.ToUpper", func(m *Machine, th *Thread, fn *ssa.Function, a []Value) (Value, bool) {
		s := argStr(m, a[0])
		if !m.requireASCII(s.B, "strings.ToUpper") {
			return nil, false
		}
		out := make([]*Term, len(s.B))
		for i, b := range s.B {
			out[i] = upperByte(b)
		}
		return &StrV{B: out}, true
	})
	reg("strings.EqualFold", func(m *Machine, th *Thread, fn *ssa.Function, a []Value) (Value, bool) {
		s, t := argStr(m, a[0]), argStr(m, a[1])
		if !m.requireASCII(s.B, "strings.EqualFold") || !m.requireASCII(t.B, "strings.EqualFold") {
			return nil, false
		}
		if len(s.B) != len(t.B) {
			return FalseT, true
		}
		r := TrueT
		for i := range s.B {
			r = And(r, Eq(lowerByte(s.B[i]), lowerByte(t.B[i])))
		}
		return r, true
	})
	reg("(*strings.Builder).String", func(m *Machine, th *Thread, fn *ssa.Function, a []Value) (Value, bool) {
		p := argPtr(m, a[0])
		st := m.loadRaw(p).(*StructV)
		// fields: addr *Builder, buf []byte
		buf := st.F[1]
		return &StrV{B: m.byteTerms(buf)}, true
	})
	reg("(*strings.Builder).copyCheck", func(m *Machine, th *Thread, fn *ssa.Function, a []Value) (Value, bool) { return nil, true })
	reg("crypto/subtle.ConstantTimeCompare", func(m *Machine, th *Thread, fn *ssa.Function, a []Value) (Value, bool) {
		x, y := m.byteTerms(a[0]), m.byteTerms(a[1])
		return Ite(bytesEq(x, y), BVC(64, 1), BVC(64, 0)), true
	})

	// ---------------------------------------------------------------- runtime / misc
	reg("runtime.Gosched", func(m *Machine, th *Thread, fn *ssa.Function, a []Value) (Value, bool) {
		m.wantYield = "gosched"
		return nil, true
	})
	reg("runtime.KeepAlive", func(m *Machine, th *Thread, fn *ssa.Function, a []Value) (Value, bool) { return nil, true })
	reg("runtime.SetFinalizer", func(m *Machine, th *Thread, fn *ssa.Function, a []Value) (Value, bool) { return nil, true })
	reg("runtime/debug.Stack", func(m *Machine, th *Thread, fn *ssa.Function, a []Value) (Value, bool) {
		return (*SliceV)(nil), true
	})
	reg("runtime/debug.PrintStack", func(m *Machine, th *Thread, fn *ssa.Function, a []Value) (Value, bool) { return nil, true })
	reg("os.Exit", func(m *Machine, th *Thread, fn *ssa.Function, a []Value) (Value, bool) {
		panic(pathEnd{"crash", "os.Exit called" + m.where()})
	})
	reg("internal/race.Enable", func(m *Machine, th *Thread, fn *ssa.Function, a []Value) (Value, bool) { return nil, true })
	reg("internal/race.Disable", func(m *Machine, th *Thread, fn *ssa.Function, a []Value) (Value, bool) { return nil, true })
}

// unsafe builtins
func (m *Machine) unsafeBuiltin(name string, args []Value) (Value, bool) {
	switch name {
	case "builtin:SliceData":
		s := args[0].(*SliceV)
		if s.IsNil() {
			return NilPtr, true
		}
		return &Ptr{obj: s.arr, path: []int{s.off}}, true
	case "builtin:StringData":
		return &Ptr{unsafeStr: args[0].(*StrV)}, true
	case "builtin:String":
		p := args[0].(*Ptr)
		n := int(m.concretizeInt(args[1].(*Term), "unsafe.String len", 8))
		if n == 0 {
			return &StrV{}, true
		}
		if p.unsafeStr != nil {
			return &StrV{B: p.unsafeStr.B[:n]}, true
		}
		if p.IsNil() {
			m.raiseRuntime("unsafe.String: ptr is nil and len is not zero")
		}
		arr, ok := p.obj.val.(*ArrayV)
		if !ok || len(p.path) != 1 {
			m.unsupported("unsafe.String on non-slice data pointer")
		}
		b := make([]*Term, n)
		for i := 0; i < n; i++ {
			b[i] = arr.E[p.path[0]+i].(*Term)
		}
		return &StrV{B: b}, true
	case "builtin:Slice":
		p := args[0].(*Ptr)
		n := int(m.concretizeInt(args[1].(*Term), "unsafe.Slice len", 8))
		if p.unsafeStr != nil {
			return m.bytesToSlice(p.unsafeStr.B[:n]), true
		}
		if p.IsNil() {
			if n == 0 {
				return (*SliceV)(nil), true
			}
			m.raiseRuntime("unsafe.Slice: ptr is nil and len is not zero")
		}
		if _, ok := p.obj.val.(*ArrayV); ok && len(p.path) == 1 {
			return &SliceV{arr: p.obj, off: p.path[0], len: n, cap: n}, true
		}
		m.unsupported("unsafe.Slice on %s", fmtValue(p))
	}
	return nil, false
}

var _ = fmt.Sprint
