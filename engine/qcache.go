package main

// Query slicing and caching (constraint independence, as in KLEE): a query
// sat(pc ∧ q) is decided from the sub-conjunction of pc that shares variables
// (transitively) with q; since the rest of pc is satisfiable and variable-disjoint
// the answer is the same. Results are cached under the printed slice, so the same
// sub-problem met on another path costs no solver call.

import (
	"sort"
	"strings"
	"sync"
)

var (
	varIDs   sync.Map // name -> int32
	varIDMu  sync.Mutex
	varIDNxt int32
	qcache   sync.Map // key string -> Result
)

func varID(name string) int32 {
	if v, ok := varIDs.Load(name); ok {
		return v.(int32)
	}
	varIDMu.Lock()
	defer varIDMu.Unlock()
	if v, ok := varIDs.Load(name); ok {
		return v.(int32)
	}
	varIDNxt++
	varIDs.Store(name, varIDNxt)
	varNames.Store(varIDNxt, name)
	return varIDNxt
}

// termVars returns the sorted set of variable / uninterpreted-function ids in t.
func termVars(t *Term) []int32 {
	if t.vsDone {
		return t.vs
	}
	switch t.op {
	case OConst:
	case OVar:
		t.vs = []int32{varID(t.name)}
	default:
		var acc []int32
		if t.op == OUF {
			acc = append(acc, varID("uf:"+t.name))
		}
		for _, a := range t.args {
			acc = mergeSorted(acc, termVars(a))
		}
		t.vs = acc
	}
	t.vsDone = true
	return t.vs
}

func mergeSorted(a, b []int32) []int32 {
	if len(a) == 0 {
		return b
	}
	if len(b) == 0 {
		return a
	}
	out := make([]int32, 0, len(a)+len(b))
	i, j := 0, 0
	for i < len(a) && j < len(b) {
		switch {
		case a[i] < b[j]:
			out = append(out, a[i])
			i++
		case a[i] > b[j]:
			out = append(out, b[j])
			j++
		default:
			out = append(out, a[i])
			i++
			j++
		}
	}
	out = append(out, a[i:]...)
	out = append(out, b[j:]...)
	return out
}

func intersects(a, b []int32) bool {
	i, j := 0, 0
	for i < len(a) && j < len(b) {
		switch {
		case a[i] < b[j]:
			i++
		case a[i] > b[j]:
			j++
		default:
			return true
		}
	}
	return false
}

func termKey(t *Term) string {
	if t.pstr == "" {
		t.pstr = PrintTerm(t, nil)
	}
	return t.pstr
}

// addPC records a path-condition conjunct (split at top-level conjunctions).
func (ps *pathState) addPC(t *Term) {
	if t.IsTrue() {
		return
	}
	if t.op == OAnd {
		ps.addPC(t.args[0])
		ps.addPC(t.args[1])
		return
	}
	ps.pc = append(ps.pc, t)
}

type qres struct {
	r     Result
	model map[string]uint64 // values of the slice's variables when r == Sat (nil if unavailable)
}

var varNames sync.Map // id -> name

// query decides sat(pc ∧ q) using the slice cache, falling back to the solver
// (whose stack holds the full pc). For Sat it also returns values for the
// variables of the slice: the current model overridden by them satisfies pc ∧ q.
func (m *Machine) query(q *Term) (Result, map[string]uint64) {
	if q.IsFalse() {
		return Unsat, nil
	}
	ps := m.ps
	rel := termVars(q)
	used := make([]bool, len(ps.pc))
	var slice []string
	var sliceTerms []*Term
	for changed := true; changed; {
		changed = false
		for i, c := range ps.pc {
			if used[i] {
				continue
			}
			cv := termVars(c)
			if len(cv) == 0 || intersects(cv, rel) {
				used[i] = true
				rel = mergeSorted(rel, cv)
				slice = append(slice, termKey(c))
				sliceTerms = append(sliceTerms, c)
				changed = true
			}
		}
	}
	sort.Strings(slice)
	key := strings.Join(slice, "\n") + "\n|-" + termKey(q)
	if r, ok := qcache.Load(key); ok {
		m.cacheHits++
		qr := r.(qres)
		return qr.r, qr.model
	}
	// names of the slice variables (all must be nondet variables of this path to build a model)
	var names []string
	var sorts []Sort
	okModel := true
	for _, id := range rel {
		n, _ := varNames.Load(id)
		name, _ := n.(string)
		srt, known := ps.varSorts[name]
		if !known {
			okModel = false
			break
		}
		names = append(names, name)
		sorts = append(sorts, srt)
	}
	var model map[string]uint64
	var r Result
	// arithmetic-heavy slices (mul/div/rem) go to the one-shot solver (z3's full
	// bit-blasting pipeline, wall-clock limited); the rest to the incremental solver
	hard := termHard(q)
	for _, c := range sliceTerms {
		hard = hard || termHard(c)
	}
	if hard && m.oneshot != nil {
		if !okModel {
			names, sorts = nil, nil
		} else if names == nil {
			names = []string{}
		}
		r, model = m.oneshot.OneShot(append(sliceTerms, q), names, sorts)
	} else if okModel {
		r, model = m.solver.CheckWithModel(q, names, sorts)
	} else {
		r = m.solver.CheckWith(q)
	}
	if r != Unknown {
		qcache.Store(key, qres{r, model})
	}
	return r, model
}

func mergeModel(base, over map[string]uint64) map[string]uint64 {
	if base == nil || over == nil {
		return nil
	}
	out := make(map[string]uint64, len(base)+len(over))
	for k, v := range base {
		out[k] = v
	}
	for k, v := range over {
		out[k] = v
	}
	return out
}

// termHard: does t contain multiplication / division / remainder (memoised)?
func termHard(t *Term) bool {
	if t.hardDone {
		return t.hard
	}
	h := false
	switch t.op {
	case OMul, OUDiv, OURem, OSDiv, OSRem:
		h = true
	}
	for _, a := range t.args {
		if h {
			break
		}
		h = termHard(a)
	}
	t.hard, t.hardDone = h, true
	return h
}
