package main

import (
	"fmt"
	"os"
	"path/filepath"
	"sort"
	"strings"
	"time"

	"golang.org/x/tools/go/packages"
	"golang.org/x/tools/go/ssa"
	"golang.org/x/tools/go/ssa/ssautil"
)

// repoRoot is /repo; GOSYM_REPO points the loader at another checkout of the same module (used
// only by tools/seed_batch.sh to try seeded changes in a scratch worktree, never by the
// registered commands).
var repoRoot = func() string {
	if r := os.Getenv("GOSYM_REPO"); r != "" {
		return r
	}
	return "/repo"
}()

var verifRoot = "/verif"

type Loader struct {
	prog    *ssa.Program
	pkgs    []*packages.Package
	ssaPkgs []*ssa.Package
	loadDur time.Duration
	overlay map[string][]byte
}

// harnessOverlay maps every file under /verif/harness/** to the same relative path under /repo.
func harnessOverlay() (map[string][]byte, error) {
	ov := map[string][]byte{}
	root := filepath.Join(verifRoot, "harness")
	err := filepath.Walk(root, func(p string, info os.FileInfo, err error) error {
		if err != nil {
			return err
		}
		if info.IsDir() || !strings.HasSuffix(p, ".go") {
			return nil
		}
		rel, _ := filepath.Rel(root, p)
		b, err := os.ReadFile(p)
		if err != nil {
			return err
		}
		ov[filepath.Join(repoRoot, rel)] = b
		return nil
	})
	return ov, err
}

func Load(patterns []string) (*Loader, error) {
	t0 := time.Now()
	ov, err := harnessOverlay()
	if err != nil {
		return nil, err
	}
	cfg := &packages.Config{
		Mode:       packages.LoadAllSyntax,
		Dir:        repoRoot,
		Overlay:    ov,
		BuildFlags: []string{"-tags=verif"},
		Env:        append(os.Environ(), "GOFLAGS=-mod=mod", "GOPROXY=off", "GOSUMDB=off", "GOTOOLCHAIN=local", "CGO_ENABLED=0"),
	}
	pats := append([]string{"./zzverif"}, patterns...)
	pkgs, err := packages.Load(cfg, pats...)
	if err != nil {
		return nil, err
	}
	var errs []string
	packages.Visit(pkgs, nil, func(p *packages.Package) {
		for _, e := range p.Errors {
			errs = append(errs, e.Error())
		}
	})
	if len(errs) > 0 {
		sort.Strings(errs)
		if len(errs) > 15 {
			errs = errs[:15]
		}
		return nil, fmt.Errorf("package load errors (the tree or a harness does not compile):\n  %s", strings.Join(errs, "\n  "))
	}
	prog, spkgs := ssautil.AllPackages(pkgs, ssa.InstantiateGenerics)
	// build every package up front: lazily building dependencies from several workers
	// races with go/ssa's two-phase package build (members first, instances last)
	prog.Build()
	return &Loader{prog: prog, pkgs: pkgs, ssaPkgs: spkgs, loadDur: time.Since(t0), overlay: ov}, nil
}

func (l *Loader) Package(path string) *ssa.Package {
	for _, p := range l.prog.AllPackages() {
		if p.Pkg.Path() == path {
			return p
		}
	}
	return nil
}
