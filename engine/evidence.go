package main

import (
	"encoding/json"
	"fmt"
	"os"
	"path/filepath"
	"sort"
	"strings"
	"time"
)

func writeEvidence(prop, tier string, seed int, results []*harnessResult, pc *PropCfg, wall time.Duration, nviol int, inconc []string, ld *Loader, validated int) {
	var states, transitions, obligations, discharged int64
	var solverS float64
	var samples []interface{}
	harnesses := []interface{}{}
	funcs := map[string]bool{}
	stubs := map[string]bool{}
	assume := map[string]bool{}
	for _, a := range pc.Assume {
		assume[a] = true
	}
	var steps int64
	for _, r := range results {
		if r.ex == nil {
			continue
		}
		ex := r.ex
		states += ex.paths
		transitions += ex.decisions
		obligations += int64(ex.queries)
		discharged += int64(ex.definite)
		solverS += ex.solveTime.Seconds()
		steps += ex.steps
		for _, s := range ex.samples {
			if len(samples) < 6 {
				samples = append(samples, s)
			}
		}
		var frp, golib, std, other []string
		for f := range ex.funcs {
			funcs[f] = true
			switch {
			case strings.Contains(f, "github.com/fatedier/frp/") && !strings.Contains(f, "zzverif"):
				frp = append(frp, f)
			case strings.Contains(f, "github.com/fatedier/golib"):
				golib = append(golib, f)
			case strings.Contains(f, "github.com/") || strings.Contains(f, "golang.org/"):
				other = append(other, f)
			default:
				std = append(std, f)
			}
		}
		sort.Strings(frp)
		sort.Strings(golib)
		sort.Strings(std)
		sort.Strings(other)
		var st []string
		for k := range r.cfg.Stubs {
			st = append(st, k)
			stubs[k] = true
		}
		sort.Strings(st)
		h := map[string]interface{}{
			"harness": r.cfg.Name, "mode": r.mode, "entry": r.cfg.Pkg + "." + r.cfg.Entry,
			"paths": ex.paths, "path_kinds": ex.pathKinds, "decisions": ex.decisions,
			"solver_queries": ex.queries, "sliced_query_cache_hits": ex.cacheHits, "solver_definite": ex.definite, "solver_unknown": ex.unknowns, "solver_retried_with_larger_limit": ex.retried,
			"solver_time_s": round2(ex.solveTime.Seconds()), "wall_s": round2(r.wall.Seconds()), "ssa_instructions": ex.steps,
			"bounds": r.cfg.Bounds, "bound_params": r.cfg.Params, "outside_claim": r.cfg.Outside,
			"functions_encoded_frp": frp, "functions_encoded_golib": golib, "functions_encoded_other_deps": other, "functions_encoded_stdlib_count": len(std),
			"stubs": st, "stub_calls": ex.stubCalls, "assertions_evaluated": ex.asserts, "reach_labels": ex.reached,
			"concretisations": ex.concretis, "go_sites": ex.goSites, "violations": len(ex.violations), "notes": ex.notes,
			"solver_backend": solverName(r.cfg.Solver),
		}
		if len(r.poison) > 0 {
			h["init_poisoned"] = len(r.poison)
		}
		harnesses = append(harnesses, h)
	}
	for k := range stubs {
		assume["stub (arbitrary value within its documented contract): "+k] = true
	}
	assume["go/ssa (x/tools v0.29.0) represents /repo's source faithfully; gosym instruction semantics; z3 4.8.12 (cvc5 where stated)"] = true
	assume["all results are bounded: see coverage.harnesses[*].bounds / bound_params; nothing is claimed outside them"] = true
	var al []string
	for k := range assume {
		al = append(al, k)
	}
	sort.Strings(al)
	if len(samples) == 0 {
		samples = append(samples, map[string]interface{}{"note": "no completed path with symbolic inputs to sample"})
	}
	ev := map[string]interface{}{
		"property_id": prop, "tier": tier, "seed": seed, "level": "model_checking",
		"coverage": map[string]interface{}{
			"states": states, "transitions": transitions, "traces_validated_against_impl": validated,
			"samples": samples, "obligations": obligations, "discharged": discharged,
			"explanation":   "bounded symbolic execution of the go/ssa form of /repo's current working tree (re-loaded on this run); states = feasible paths completed, transitions = fork decisions, obligations/discharged = SMT queries asked / answered sat-or-unsat",
			"harnesses":     harnesses,
			"solver_time_s": round2(solverS), "ssa_instructions_interpreted": steps, "functions_encoded_total": len(funcs),
			"package_load_s": round2(ld.loadDur.Seconds()), "inconclusive": inconc, "exhaustive": len(inconc) == 0,
		},
		"assumptions": al,
		"wall_s":      round2(wall.Seconds()),
		"violations":  nviol,
	}
	b, _ := json.MarshalIndent(ev, "", " ")
	dir := filepath.Join(verifRoot, "evidence")
	os.MkdirAll(dir, 0o755)
	if err := os.WriteFile(filepath.Join(dir, prop+".json"), b, 0o644); err != nil {
		fmt.Fprintln(os.Stderr, "cannot write evidence:", err)
	}
}

func round2(f float64) float64 { return float64(int64(f*100+0.5)) / 100 }

func solverName(s string) string {
	if s == "" {
		return "z3 -in (4.8.12)"
	}
	return s
}
