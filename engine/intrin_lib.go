package main

import (
	"fmt"
	"go/types"
	"strings"

	"golang.org/x/tools/go/ssa"
)

// ---------------------------------------------------------------- fmt

// fmtArg renders one argument for a verb; returns byte terms.
func (m *Machine) fmtArg(verb string, v Value) []*Term {
	lit := func(s string) []*Term { return strConst(s).B }
	last := verb[len(verb)-1]
	switch x := v.(type) {
	case *IfaceV:
		if x.T == nil {
			if last == 'v' || last == 's' || last == 'w' {
				return lit("<nil>")
			}
			return lit("%!" + string(last) + "(<nil>)")
		}
		// error / Stringer values
		if s, ok := m.errorMessage(x); ok {
			return s.B
		}
		switch x.V.(type) {
		case *Term, *StrV, FloatV, *SliceV:
			return m.fmtArgTyped(verb, x.V, x.T)
		}
		return lit("<" + x.T.String() + ">")
	}
	return m.fmtArgTyped(verb, v, nil)
}

func (m *Machine) fmtArgTyped(verb string, v Value, t types.Type) []*Term {
	lit := func(s string) []*Term { return strConst(s).B }
	last := verb[len(verb)-1]
	switch x := v.(type) {
	case *StrV:
		if last == 's' || last == 'v' {
			if verb == "%s" || verb == "%v" || verb == "%+v" {
				return x.B
			}
		}
		if x.IsConst() {
			return lit(fmt.Sprintf(verb, x.Const()))
		}
		if last == 'q' {
			out := lit("\"")
			out = append(out, x.B...)
			return append(out, lit("\"")...)
		}
		return x.B
	case *Term:
		if x.sort.K == SBool {
			if x.IsConst() {
				return lit(fmt.Sprintf(verb, x.c == 1))
			}
			if m.branch(x) {
				return lit(fmt.Sprintf(verb, true))
			}
			return lit(fmt.Sprintf(verb, false))
		}
		signed := true
		if t != nil && isIntType(t) {
			_, signed = intWidth(t)
		}
		var n int64
		if x.IsConst() {
			n = x.SVal()
		} else if m.fmtOpaqueInts {
			return lit("<int>")
		} else if verb == "%d" || verb == "%v" {
			return m.itoaSym(sextOrZext(x, signed), signed)
		} else {
			n = m.concretizeInt(sextOrZext(x, signed), "fmt integer argument", m.cfgInt("maxFmtForks", 16))
		}
		if last == 's' || last == 'q' && t == nil {
			return lit(fmt.Sprintf(verb, n))
		}
		if signed {
			return lit(fmt.Sprintf(verb, n))
		}
		return lit(fmt.Sprintf(verb, uint64(n)&mask(x.sort.W)))
	case FloatV:
		if x.T != nil {
			return lit("<float>")
		}
		return lit(fmt.Sprintf(verb, x.F))
	case *Ptr:
		if x.IsNil() {
			return lit("<nil>")
		}
		return lit("0xc000000000")
	case *SliceV:
		if t != nil {
			if st, ok := t.Underlying().(*types.Slice); ok {
				if b, ok := st.Elem().Underlying().(*types.Basic); ok && b.Kind() == types.Uint8 && (last == 's' || last == 'x') {
					bs := m.byteTerms(x)
					if last == 's' {
						return bs
					}
					return m.hexBytes(bs)
				}
			}
		}
		if x.IsNil() {
			return lit("[]")
		}
		out := lit("[")
		for i, e := range m.sliceElems(x) {
			if i > 0 {
				out = append(out, lit(" ")...)
			}
			out = append(out, m.fmtArg("%v", e)...)
		}
		return append(out, lit("]")...)
	case *StructV:
		return lit("{struct}")
	case *MapV:
		return lit("map[...]")
	case PoisonV:
		return lit("<poison>")
	}
	return lit(fmt.Sprintf("<%T>", v))
}

func sextOrZext(x *Term, signed bool) *Term {
	if x.sort.W == 64 {
		return x
	}
	if signed {
		return SExt(x, 64)
	}
	return ZExt(x, 64)
}

func (m *Machine) hexBytes(bs []*Term) []*Term {
	hexd := func(n *Term) *Term { // n: BV8 in 0..15
		return Ite(ULt(n, BVC(8, 10)), Add(n, BVC(8, '0')), Add(n, BVC(8, 'a'-10)))
	}
	var out []*Term
	for _, b := range bs {
		out = append(out, hexd(LShr(b, BVC(8, 4))), hexd(BAnd(b, BVC(8, 15))))
	}
	return out
}

// errorMessage extracts the message of well-known error implementations.
func (m *Machine) errorMessage(iv *IfaceV) (*StrV, bool) {
	p, ok := iv.V.(*Ptr)
	if !ok || p.IsNil() || p.obj == nil {
		return nil, false
	}
	ts := iv.T.String()
	switch ts {
	case "*errors.errorString", "*fmt.wrapError", "*fmt.wrapErrors":
		st, ok := m.loadRaw(p).(*StructV)
		if ok {
			if s, ok := st.F[0].(*StrV); ok {
				return s, true
			}
		}
	}
	return nil, false
}

// sprintf formats with a concrete format string.
func (m *Machine) sprintf(format *StrV, args []Value) (*StrV, *IfaceV) {
	if !format.IsConst() {
		m.unsupported("fmt with symbolic format string")
	}
	f := format.Const()
	var out []*Term
	var wrapped *IfaceV
	ai := 0
	for i := 0; i < len(f); i++ {
		c := f[i]
		if c != '%' {
			out = append(out, BVC(8, uint64(c)))
			continue
		}
		j := i + 1
		for j < len(f) && strings.ContainsRune("+-# 0123456789.*", rune(f[j])) {
			j++
		}
		if j >= len(f) {
			out = append(out, strConst("%!(NOVERB)").B...)
			break
		}
		verb := f[i : j+1]
		i = j
		if f[j] == '%' {
			out = append(out, BVC(8, '%'))
			continue
		}
		if ai >= len(args) {
			out = append(out, strConst("%!"+string(f[j])+"(MISSING)").B...)
			continue
		}
		a := args[ai]
		ai++
		if f[j] == 'w' {
			if iv, ok := a.(*IfaceV); ok {
				wrapped = iv
			}
			verb = verb[:len(verb)-1] + "v"
		}
		if f[j] == 'T' {
			if iv, ok := a.(*IfaceV); ok && iv.T != nil {
				out = append(out, strConst(iv.T.String()).B...)
			} else {
				out = append(out, strConst("<nil>").B...)
			}
			continue
		}
		out = append(out, m.fmtArg(verb, a)...)
	}
	if ai < len(args) {
		out = append(out, strConst("%!(EXTRA)").B...)
	}
	return &StrV{B: out}, wrapped
}

func (m *Machine) sprint(args []Value, ln bool) *StrV {
	var out []*Term
	for i, a := range args {
		if i > 0 && ln {
			out = append(out, BVC(8, ' '))
		}
		out = append(out, m.fmtArg("%v", a)...)
	}
	if ln {
		out = append(out, BVC(8, '\n'))
	}
	return &StrV{B: out}
}

func (m *Machine) newWrapError(msg *StrV, inner *IfaceV) *IfaceV {
	pkg := m.prog.ImportedPackage("fmt")
	if pkg == nil {
		return m.newErrorStr(msg)
	}
	tn := pkg.Type("wrapError")
	t := types.NewPointer(tn.Type())
	o := m.newObj(&StructV{F: []Value{msg, inner}}, tn.Type(), "wrapError")
	return &IfaceV{T: t, V: &Ptr{obj: o}}
}

func (m *Machine) newErrorStr(msg *StrV) *IfaceV {
	t := m.errorStringType()
	o := m.newObj(&StructV{F: []Value{msg}}, t.(*types.Pointer).Elem(), "error")
	return &IfaceV{T: t, V: &Ptr{obj: o}}
}

func init() {
	reg("fmt.Sprintf", func(m *Machine, th *Thread, fn *ssa.Function, a []Value) (Value, bool) {
		s, _ := m.sprintf(argStr(m, a[0]), m.sliceElems(a[1]))
		return s, true
	})
	reg("fmt.Errorf", func(m *Machine, th *Thread, fn *ssa.Function, a []Value) (Value, bool) {
		// error texts are never the subject of a property: symbolic integers are rendered opaquely
		m.fmtOpaqueInts = true
		defer func() { m.fmtOpaqueInts = false }()
		s, w := m.sprintf(argStr(m, a[0]), m.sliceElems(a[1]))
		if w != nil {
			return m.newWrapError(s, w), true
		}
		return m.newErrorStr(s), true
	})
	reg("fmt.Sprint", func(m *Machine, th *Thread, fn *ssa.Function, a []Value) (Value, bool) {
		return m.sprint(m.sliceElems(a[0]), false), true
	})
	reg("fmt.Sprintln", func(m *Machine, th *Thread, fn *ssa.Function, a []Value) (Value, bool) {
		return m.sprint(m.sliceElems(a[0]), true), true
	})
	regAll([]string{"fmt.Printf", "fmt.Println", "fmt.Print", "fmt.Fprintln", "fmt.Fprint"}, func(m *Machine, th *Thread, fn *ssa.Function, a []Value) (Value, bool) {
		return TupleV{BVC(64, 0), NilIface}, true
	})

	// ---------------------------------------------------------------- errors
	reg("errors.Is", func(m *Machine, th *Thread, fn *ssa.Function, a []Value) (Value, bool) {
		err, _ := a[0].(*IfaceV)
		target, _ := a[1].(*IfaceV)
		if err == nil || target == nil {
			m.unsupported("errors.Is on %T", a[0])
		}
		if err.T == nil || target.T == nil {
			return BoolC(err.T == nil && target.T == nil), true
		}
		r := FalseT
		for depth := 0; err != nil && err.T != nil && depth < 16; depth++ {
			if types.Identical(err.T, target.T) && types.Comparable(err.T) {
				r = Or(r, m.valuesEqual(err.V, target.V))
			}
			// unwrap well-known wrappers
			p, ok := err.V.(*Ptr)
			if ok && !p.IsNil() && err.T.String() == "*fmt.wrapError" {
				st := m.loadRaw(p).(*StructV)
				err, _ = st.F[1].(*IfaceV)
				continue
			}
			if ms := m.prog.MethodSets.MethodSet(err.T); ms.Lookup(nil, "Unwrap") != nil || ms.Lookup(nil, "Is") != nil {
				return nil, false // run the real implementation
			}
			break
		}
		return r, true
	})
	reg("errors.Unwrap", func(m *Machine, th *Thread, fn *ssa.Function, a []Value) (Value, bool) {
		err, _ := a[0].(*IfaceV)
		if err == nil || err.T == nil {
			return NilIface, true
		}
		if p, ok := err.V.(*Ptr); ok && !p.IsNil() && err.T.String() == "*fmt.wrapError" {
			st := m.loadRaw(p).(*StructV)
			return st.F[1], true
		}
		if ms := m.prog.MethodSets.MethodSet(err.T); ms.Lookup(nil, "Unwrap") != nil {
			return nil, false
		}
		return NilIface, true
	})
	reg("internal/reflectlite.TypeOf", func(m *Machine, th *Thread, fn *ssa.Function, a []Value) (Value, bool) {
		m.unsupported("internal/reflectlite.TypeOf (errors.As / context.WithValue path) not modelled")
		return nil, true
	})

	// ---------------------------------------------------------------- time (abstract clock)
	reg("time.Now", func(m *Machine, th *Thread, fn *ssa.Function, a []Value) (Value, bool) {
		return m.timeValue(), true
	})
	reg("time.Since", func(m *Machine, th *Thread, fn *ssa.Function, a []Value) (Value, bool) {
		now := m.timeValue().(*StructV)
		return Sub(now.F[1].(*Term), a[0].(*StructV).F[1].(*Term)), true
	})
	reg("time.Until", func(m *Machine, th *Thread, fn *ssa.Function, a []Value) (Value, bool) {
		now := m.timeValue().(*StructV)
		return Sub(a[0].(*StructV).F[1].(*Term), now.F[1].(*Term)), true
	})
	reg("(time.Time).Sub", func(m *Machine, th *Thread, fn *ssa.Function, a []Value) (Value, bool) {
		return Sub(a[0].(*StructV).F[1].(*Term), a[1].(*StructV).F[1].(*Term)), true
	})
	reg("(time.Time).Add", func(m *Machine, th *Thread, fn *ssa.Function, a []Value) (Value, bool) {
		t := copyValue(a[0]).(*StructV)
		t.F[1] = Add(t.F[1].(*Term), argTerm(m, a[1]))
		return t, true
	})
	regAll([]string{"(time.Time).Unix", "(time.Time).UnixNano", "(time.Time).UnixMilli", "(time.Time).UnixMicro"}, func(m *Machine, th *Thread, fn *ssa.Function, a []Value) (Value, bool) {
		// abstract: a fresh value per call site occurrence (no calendar arithmetic modelled)
		return m.freshVar("unix", BV(64)), true
	})
	regAll([]string{"(time.Time).Format", "(time.Time).String"}, func(m *Machine, th *Thread, fn *ssa.Function, a []Value) (Value, bool) {
		return strConst("<time>"), true
	})
	// the process environment is outside the model: empty unless a harness stubs these by name
	reg("os.Getenv", func(m *Machine, th *Thread, fn *ssa.Function, a []Value) (Value, bool) {
		return strConst(""), true
	})
	reg("os.LookupEnv", func(m *Machine, th *Thread, fn *ssa.Function, a []Value) (Value, bool) {
		return TupleV{strConst(""), FalseT}, true
	})
	reg("time.Sleep", func(m *Machine, th *Thread, fn *ssa.Function, a []Value) (Value, bool) {
		m.wantYield = "sleep"
		return nil, true
	})
	reg("time.After", func(m *Machine, th *Thread, fn *ssa.Function, a []Value) (Value, bool) {
		return m.newTimerChan(), true
	})
	reg("time.Tick", intrinsics["time.After"])
	reg("time.NewTimer", func(m *Machine, th *Thread, fn *ssa.Function, a []Value) (Value, bool) {
		rt := fn.Signature.Results().At(0).Type().(*types.Pointer).Elem()
		st := zeroValue(rt).(*StructV)
		st.F[0] = m.newTimerChan()
		return &Ptr{obj: m.newObj(st, rt, "timer")}, true
	})
	reg("time.NewTicker", intrinsics["time.NewTimer"])
	regAll([]string{"(*time.Timer).Stop", "(*time.Timer).Reset"}, func(m *Machine, th *Thread, fn *ssa.Function, a []Value) (Value, bool) {
		return TrueT, true
	})
	regAll([]string{"(*time.Ticker).Stop", "(*time.Ticker).Reset"}, func(m *Machine, th *Thread, fn *ssa.Function, a []Value) (Value, bool) {
		return nil, true
	})
	reg("time.AfterFunc", func(m *Machine, th *Thread, fn *ssa.Function, a []Value) (Value, bool) {
		rt := fn.Signature.Results().At(0).Type().(*types.Pointer).Elem()
		st := zeroValue(rt).(*StructV)
		fv, _ := a[1].(*FuncV)
		name := "time.AfterFunc"
		if fv != nil && fv.fn != nil {
			name = "time.AfterFunc:" + fv.fn.String()
		}
		pol := m.goPolicy("time.AfterFunc", name)
		m.ps.goSites["time.AfterFunc→"+name+" ["+pol+"]"]++
		if pol == "run" && fv != nil {
			nt := m.newThread(name)
			save := m.cur
			m.cur = nt
			nf := m.invokeValue(nt, fv, nil, nil, false)
			m.cur = save
			if nf == nil {
				nt.state = tsDone
			}
		}
		return &Ptr{obj: m.newObj(st, rt, "timer")}, true
	})

	// ---------------------------------------------------------------- context
	reg("context.WithValue", func(m *Machine, th *Thread, fn *ssa.Function, a []Value) (Value, bool) {
		pkg := m.prog.ImportedPackage("context")
		tn := pkg.Type("valueCtx")
		st := &StructV{F: []Value{a[0], a[1], a[2]}}
		o := m.newObj(st, tn.Type(), "valueCtx")
		return &IfaceV{T: types.NewPointer(tn.Type()), V: &Ptr{obj: o}}, true
	})
	redirectCancel := func(m *Machine, th *Thread, fn *ssa.Function, a []Value) (Value, bool) {
		pkg := m.prog.ImportedPackage("context")
		wc := pkg.Func("WithCancel")
		nf := m.invokeValue(th, &FuncV{fn: wc}, []Value{a[0]}, m.curDest, m.intrinsicIsDefer)
		_ = nf
		m.pushedFrame = true
		return nil, true
	}
	reg("context.WithTimeout", redirectCancel)
	reg("context.WithDeadline", redirectCancel)

	// ---------------------------------------------------------------- randomness
	randInt := func(bound bool) intrinsicFn {
		return func(m *Machine, th *Thread, fn *ssa.Function, a []Value) (Value, bool) {
			rt := fn.Signature.Results().At(0).Type()
			w, _ := intWidth(rt)
			v := m.freshVar("rand", BV(w))
			if bound {
				n := argTerm(m, a[len(a)-1])
				le0 := SLe(n, BVC(w, 0))
				if m.branchVC(le0, "rand bound <= 0") {
					m.raise(m.runtimeErrorValue("invalid argument to Intn"))
				}
				m.assume(And(SLe(BVC(w, 0), v), SLt(v, n)))
			} else {
				m.assume(SLe(BVC(w, 0), v))
			}
			return v, true
		}
	}
	regAll([]string{"math/rand.Intn", "math/rand.Int63n", "math/rand.Int31n", "math/rand/v2.IntN", "math/rand/v2.Int64N", "(*math/rand.Rand).Intn", "(*math/rand.Rand).Int63n"}, randInt(true))
	regAll([]string{"math/rand.Int", "math/rand.Int63", "math/rand.Int31", "math/rand/v2.Int", "math/rand/v2.Int64", "(*math/rand.Rand).Int63", "(*math/rand.Rand).Int"}, randInt(false))
	reg("crypto/rand.Read", func(m *Machine, th *Thread, fn *ssa.Function, a []Value) (Value, bool) {
		s := a[0].(*SliceV)
		if !s.IsNil() {
			m.logUndo(s.arr)
			arr := s.arr.val.(*ArrayV)
			n := m.sliceLen(s)
			for i := 0; i < n; i++ {
				arr.E[s.off+i] = m.freshVar("crand", BV(8))
			}
			return TupleV{BVC(64, uint64(n)), NilIface}, true
		}
		return TupleV{BVC(64, 0), NilIface}, true
	})
}

// timeValue returns an abstract time.Time{wall:0, ext:now, loc:nil} with a fresh,
// monotonically non-decreasing "now".
func (m *Machine) timeValue() Value {
	now := m.freshVar("now", BV(64))
	lo := BVC(64, 1)
	if m.ps.now != nil {
		lo = m.ps.now
	}
	m.assume(And(SLe(lo, now), SLt(now, BVC(64, 1<<62))))
	m.ps.now = now
	return &StructV{F: []Value{BVC(64, 0), now, NilPtr}}
}

func (m *Machine) newTimerChan() *ChanV {
	m.nextObj++
	return &ChanV{id: m.nextObj, cap: 1, timer: true, epoch: m.epoch}
}

// freshVar creates a path-deterministic nondet variable.
func (m *Machine) freshVar(name string, s Sort) *Term {
	ps := m.ps
	k := ps.varCount[name]
	ps.varCount[name] = k + 1
	full := name
	if k > 0 {
		full = fmt.Sprintf("%s#%d", name, k)
	}
	if s.K == SBool {
		full += "?b"
	} else {
		full += fmt.Sprintf("?%d", s.W)
	}
	ps.vars = append(ps.vars, full)
	ps.varSorts[full] = s
	if m.fixed != nil {
		v := m.fixed[full]
		if s.K == SBool {
			return BoolC(v != 0)
		}
		return BVC(s.W, v)
	}
	return Var(full, s)
}

// itoaSym renders a symbolic 64-bit integer in decimal: the engine forks on sign and
// number of digits only; every digit is a term (v / 10^k) % 10 + '0'.
func (m *Machine) itoaSym(v *Term, signed bool) []*Term {
	var out []*Term
	u := v
	if signed {
		if m.branch(SLt(v, BVC(64, 0))) {
			out = append(out, BVC(8, '-'))
			u = Neg(v)
		}
	}
	k := 1
	pow := uint64(10)
	for ; k < 20; k++ {
		if m.branch(ULt(u, BVC(64, pow))) {
			break
		}
		pow *= 10
	}
	// k digits
	div := uint64(1)
	for i := 1; i < k; i++ {
		div *= 10
	}
	for i := 0; i < k; i++ {
		d := URem(UDiv(u, BVC(64, div)), BVC(64, 10))
		out = append(out, Add(Extract(7, 0, d), BVC(8, '0')))
		div /= 10
	}
	return out
}

func init() {
	itoa := func(m *Machine, th *Thread, fn *ssa.Function, a []Value) (Value, bool) {
		t := argTerm(m, a[0])
		if t.IsConst() {
			return nil, false
		}
		if len(a) > 1 {
			b := argTerm(m, a[1])
			if !b.IsConst() || b.c != 10 {
				return nil, false
			}
		}
		return &StrV{B: m.itoaSym(sextTo64(t, fn.Signature.Params().At(0).Type()), true)}, true
	}
	reg("strconv.Itoa", itoa)
	reg("strconv.FormatInt", itoa)
}
