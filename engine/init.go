package main

import (
	"fmt"
	"strings"

	"golang.org/x/tools/go/ssa"
)

type initAbort struct{ why string }

// ensureInit runs the package initializer of pkg (once per machine) in
// persistent, tolerant mode: anything the engine cannot execute poisons the
// value being computed instead of failing the run; a later *use* of a poisoned
// value is reported as INCONCLUSIVE.
func (m *Machine) ensureInit(pkg *ssa.Package) {
	if m.inited[pkg] != 0 {
		return
	}
	m.inited[pkg] = 1
	initFn := pkg.Func("init")
	if initFn == nil {
		m.inited[pkg] = 2
		return
	}
	pkg.Build()
	if initFn.Blocks == nil {
		m.inited[pkg] = 2
		return
	}
	// save machine context
	saveCur, savePersist, saveThreads, saveSteps, saveMax := m.cur, m.persist, m.threads, m.steps, m.maxSteps
	saveForce, saveYield := m.forceNext, m.wantYield
	m.persist = true
	m.initDepth++
	m.steps = 0
	m.maxSteps = int64(m.cfgInt("initSteps", 3000000))
	th := &Thread{id: 1000 + m.initDepth, name: "init:" + pkg.Pkg.Path()}
	m.threads = []*Thread{th}
	m.cur = th
	defer func() {
		m.cur, m.persist, m.threads, m.steps, m.maxSteps = saveCur, savePersist, saveThreads, saveSteps, saveMax
		m.forceNext, m.wantYield = saveForce, saveYield
		m.initDepth--
		m.inited[pkg] = 2
	}()
	root := m.pushFrame(th, initFn, nil, nil, nil)
	root.initFrame = true
	for th.top != nil {
		m.initStep(th, root)
	}
}

func (m *Machine) initStep(th *Thread, root *Frame) {
	defer func() {
		if r := recover(); r != nil {
			var why string
			switch s := r.(type) {
			case pathEnd:
				why = s.kind + ": " + s.msg
			case initAbort:
				why = s.why
			case goPanic:
				why = "panic: " + m.panicString(s.val)
			case blockedSig:
				why = "blocked during init"
			case yieldSig:
				return
			default:
				// engine bug (type assertion etc.): treat as poison but remember
				why = fmt.Sprint(r)
			}
			// unwind to the nearest init frame and poison the pending instruction
			fr := th.top
			for fr != nil && !fr.initFrame {
				fr = fr.caller
			}
			if fr == nil {
				th.top = nil
				return
			}
			th.top = fr
			m.notePoison(fr.fn.String(), why)
			if fr.block != nil && fr.pc < len(fr.block.Instrs) {
				in := fr.block.Instrs[fr.pc]
				if v, ok := in.(ssa.Value); ok {
					fr.regs[fr.info.index[v]] = PoisonV{Why: shortWhy(why)}
				}
				switch in.(type) {
				case *ssa.If, *ssa.Jump, *ssa.Return, *ssa.Panic:
					// cannot continue this init function
					th.top = fr.caller
					if c := fr.caller; c != nil {
						// the abandoned call yields poison in the caller, never a zero value
						if c.block != nil && c.pc < len(c.block.Instrs) {
							if v, ok := c.block.Instrs[c.pc].(ssa.Value); ok {
								c.regs[c.info.index[v]] = PoisonV{Why: shortWhy(why)}
							}
						}
						c.pc++
					}
					return
				}
				fr.pc++
			}
		}
	}()
	m.steps++
	if m.steps > m.maxSteps {
		m.steps = 0
		panic(initAbort{"init step budget exceeded"})
	}
	fr := th.top
	// user init functions (init#1...) called from the synthetic init get tolerant frames too
	if fr.caller != nil && fr.caller.initFrame && fr.caller.fn.Synthetic == "package initializer" && strings.HasPrefix(fr.fn.Name(), "init#") {
		fr.initFrame = true
	}
	if fr.status != stRunning {
		m.unwindStep(th)
		return
	}
	m.step(th, fr)
	m.wantYield = ""
}

func shortWhy(s string) string {
	if len(s) > 160 {
		return s[:160]
	}
	return s
}

func (m *Machine) notePoison(fn, why string) {
	if m.poisonLog == nil {
		m.poisonLog = map[string]string{}
	}
	if _, ok := m.poisonLog[fn]; !ok {
		m.poisonLog[fn] = shortWhy(why)
	}
}
