package main

// Translator validation and native replay: harness functions are ordinary Go, so the
// same function is run by the real toolchain (go test -overlay) and by the symbolic
// interpreter; the values passed to zzverif.Observe must agree.

import (
	"encoding/json"
	"fmt"
	"os"
	"os/exec"
	"path/filepath"
	"sort"
	"strings"
)

type selfEntry struct {
	Pkg    string `json:"pkg"`
	Entry  string `json:"entry"`
	Replay string `json:"-"` // optional replay file (model + params)
	Tag    string `json:"-"` // result key (defaults to Entry)
}

func (e selfEntry) key() string {
	if e.Tag != "" {
		return e.Tag
	}
	return e.Entry
}

func goEnv() []string {
	return append(os.Environ(), "GOFLAGS=-mod=mod", "GOPROXY=off", "GOSUMDB=off", "GOTOOLCHAIN=local", "CGO_ENABLED=0")
}

// nativeRun runs the given entries natively; replayFile (optional) supplies nondet values.
// Returns per entry: observations, failed assertion labels.
func nativeRun(ld *Loader, entries []selfEntry, replayFile string) (map[string][]string, map[string][]string, error) {
	tmp, err := os.MkdirTemp("", "gosym-native-")
	if err != nil {
		return nil, nil, err
	}
	defer os.RemoveAll(tmp)
	ov := map[string]string{}
	// harness overlay files are already on disk under /verif/harness
	for virt := range ld.overlay {
		rel, _ := filepath.Rel(repoRoot, virt)
		ov[virt] = filepath.Join(verifRoot, "harness", rel)
	}
	byPkg := map[string][]selfEntry{}
	for _, e := range entries {
		byPkg[e.Pkg] = append(byPkg[e.Pkg], e)
	}
	var pats []string
	for pkg, es := range byPkg {
		sp := ld.Package("github.com/fatedier/frp/" + pkg)
		if sp == nil {
			return nil, nil, fmt.Errorf("package %s not loaded", pkg)
		}
		var sb strings.Builder
		fmt.Fprintf(&sb, "//go:build verif\n\npackage %s\n\nimport (\n\t\"fmt\"\n\t\"os\"\n\t\"testing\"\n\n\t\"github.com/fatedier/frp/zzverif\"\n)\n\nvar _ = os.Setenv\n\n", sp.Pkg.Name())
		for _, e := range es {
			k := e.key()
			fmt.Fprintf(&sb, "func TestZZNative_%s(t *testing.T) {\n\tos.Setenv(\"VERIF_REPLAY\", %q)\n\tzzverif.Reset()\n\tfunc() {\n\t\tdefer func() {\n\t\t\tif r := recover(); r != nil {\n\t\t\t\tif zzverif.IsAssumeFailed(r) {\n\t\t\t\t\tfmt.Println(\"ZZ %s ASSUME-FAILED\")\n\t\t\t\t\treturn\n\t\t\t\t}\n\t\t\t\tfmt.Printf(\"ZZ %s PANIC %%v\\n\", r)\n\t\t\t}\n\t\t}()\n\t\t%s()\n\t}()\n\tfor _, o := range zzverif.Observed {\n\t\tfmt.Printf(\"ZZ %s OBS %%q\\n\", o)\n\t}\n\tfor _, f := range zzverif.Failures {\n\t\tfmt.Printf(\"ZZ %s FAIL %%s\\n\", f)\n\t}\n}\n\n", k, e.Replay, k, k, e.Entry, k, k)
		}
		f := filepath.Join(tmp, strings.ReplaceAll(pkg, "/", "_")+"_zz_native_test.go")
		if err := os.WriteFile(f, []byte(sb.String()), 0o644); err != nil {
			return nil, nil, err
		}
		ov[filepath.Join(repoRoot, pkg, "zz_native_test.go")] = f
		pats = append(pats, "./"+pkg)
	}
	sort.Strings(pats)
	ovf := filepath.Join(tmp, "overlay.json")
	b, _ := json.Marshal(map[string]interface{}{"Replace": ov})
	os.WriteFile(ovf, b, 0o644)
	args := append([]string{"test", "-tags", "verif", "-vet=off", "-count=1", "-timeout", "300s", "-overlay", ovf, "-run", "TestZZNative_", "-v"}, pats...)
	cmd := exec.Command("go", args...)
	cmd.Dir = repoRoot
	cmd.Env = goEnv()
	if replayFile != "" {
		cmd.Env = append(cmd.Env, "VERIF_REPLAY="+replayFile)
	}
	out, err := cmd.CombinedOutput()
	obs := map[string][]string{}
	fails := map[string][]string{}
	for _, line := range strings.Split(string(out), "\n") {
		if !strings.HasPrefix(line, "ZZ ") {
			continue
		}
		parts := strings.SplitN(line, " ", 4)
		if len(parts) < 3 {
			continue
		}
		name, kind := parts[1], parts[2]
		rest := ""
		if len(parts) == 4 {
			rest = parts[3]
		}
		switch kind {
		case "OBS":
			var s string
			fmt.Sscanf(rest, "%q", &s)
			obs[name] = append(obs[name], s)
		case "FAIL":
			fails[name] = append(fails[name], rest)
		case "PANIC":
			fails[name] = append(fails[name], "PANIC: "+rest)
		case "ASSUME-FAILED":
			fails[name] = append(fails[name], "ASSUME-FAILED")
		}
	}
	if err != nil && len(obs) == 0 && len(fails) == 0 {
		return nil, nil, fmt.Errorf("native run failed: %v\n%s", err, tail(string(out), 2000))
	}
	return obs, fails, nil
}

func tail(s string, n int) string {
	if len(s) > n {
		return s[len(s)-n:]
	}
	return s
}

// interpRun executes entry concretely in the interpreter (model fixes all nondets) and
// returns its observations and failed assertion labels.
func interpRun(ld *Loader, cfg *HarnessCfg, model map[string]uint64, decisions []Decision) ([]string, []string, string) {
	c := *cfg
	c.Params = map[string]int{}
	for k, v := range cfg.Params {
		c.Params[k] = v
	}
	m, err := newMachine(ld, &c, cfg.Solver, 30000)
	if err != nil {
		return nil, nil, err.Error()
	}
	defer m.solver.Close()
	if m.oneshot != nil {
		defer m.oneshot.Close()
	}
	entry := findFunc(ld, cfg.Pkg, cfg.Entry)
	if entry == nil {
		return nil, nil, "entry not found"
	}
	ex := NewExplorer(1)
	ex.maxViol = 1000
	m.ex = ex
	m.fixed = model
	if m.fixed == nil {
		m.fixed = map[string]uint64{}
	}
	m.fixedDecs = decisions
	m.trace = os.Getenv("GOSYM_TRACE") != ""
	m.solver.Push()
	m.runPath(entry, nil, -1, nil)
	var fails []string
	for _, v := range ex.violations {
		fails = append(fails, v.Label)
	}
	msg := ""
	if len(ex.inconclusive) > 0 {
		msg = ex.inconclusive[0]
	}
	if len(m.pending) > 0 {
		msg += fmt.Sprintf(" [concrete run forked: %d pending alternatives]", len(m.pending))
	}
	return m.lastObserves, fails, msg
}

func cmdSelftest(args []string) int {
	idxb, err := os.ReadFile(filepath.Join(verifRoot, "harness", "index.json"))
	if err != nil {
		fmt.Println("selftest:", err)
		return 2
	}
	var raw struct {
		Selftest []selfEntry `json:"selftest"`
	}
	json.Unmarshal(idxb, &raw)
	if len(raw.Selftest) == 0 {
		fmt.Println("selftest: no kernels registered")
		return 0
	}
	pats := map[string]bool{}
	for _, e := range raw.Selftest {
		pats["./"+e.Pkg] = true
	}
	var pl []string
	for p := range pats {
		pl = append(pl, p)
	}
	sort.Strings(pl)
	ld, err := Load(pl)
	if err != nil {
		fmt.Println("SELFTEST LOAD-ERROR:", err)
		return 2
	}
	nobs, nfails, err := nativeRun(ld, raw.Selftest, "")
	if err != nil {
		fmt.Println("SELFTEST native run error:", err)
		return 2
	}
	bad := 0
	total := 0
	for _, e := range raw.Selftest {
		cfg := &HarnessCfg{Name: "selftest:" + e.Entry, Pkg: e.Pkg, Entry: e.Entry, Params: map[string]int{}}
		iobs, ifails, msg := interpRun(ld, cfg, nil, nil)
		no := nobs[e.Entry]
		ok := msg == "" && len(iobs) == len(no) && len(ifails) == 0 && len(nfails[e.Entry]) == 0
		if ok {
			for i := range no {
				if no[i] != iobs[i] {
					ok = false
				}
			}
		}
		total += len(no)
		if !ok {
			bad++
			fmt.Printf("SELFTEST-MISMATCH %s.%s: interpreter and native build disagree (%s)\n", e.Pkg, e.Entry, msg)
			for i := 0; i < len(no) || i < len(iobs); i++ {
				var a, b string
				if i < len(no) {
					a = no[i]
				}
				if i < len(iobs) {
					b = iobs[i]
				}
				if a != b {
					fmt.Printf("   #%d native=%q interp=%q\n", i, a, b)
				}
			}
		} else {
			fmt.Printf("selftest ok   %s.%s (%d observations agree)\n", e.Pkg, e.Entry, len(no))
		}
	}
	if bad > 0 {
		fmt.Printf("SELFTEST FAILED: %d kernel(s) disagree — the translator cannot be trusted\n", bad)
		return 2
	}
	fmt.Printf("selftest: %d kernels, %d observations agree between gosym and the native build\n", len(raw.Selftest), total)
	return 0
}

// cmdReplay re-runs a recorded counterexample: concretely in the interpreter and, for
// harnesses marked native, against the real build.
func cmdReplay(args []string) int {
	if len(args) < 1 {
		fmt.Println("usage: gosym replay <file>")
		return 2
	}
	b, err := os.ReadFile(args[0])
	if err != nil {
		fmt.Println(err)
		return 2
	}
	var rp struct {
		Property  string            `json:"property"`
		Harness   string            `json:"harness"`
		Label     string            `json:"label"`
		Model     map[string]uint64 `json:"model"`
		Decisions []Decision        `json:"decisions"`
		Params    map[string]int    `json:"params"`
	}
	if err := json.Unmarshal(b, &rp); err != nil {
		fmt.Println(err)
		return 2
	}
	idx, err := loadIndex()
	if err != nil {
		fmt.Println(err)
		return 2
	}
	var hc *HarnessCfg
	if pc := idx.Properties[rp.Property]; pc != nil {
		for _, h := range pc.Harnesses {
			if h.Name == rp.Harness {
				hc = h
			}
		}
	}
	if hc == nil {
		fmt.Println("harness not found:", rp.Harness)
		return 2
	}
	ld, err := Load([]string{"./" + hc.Pkg})
	if err != nil {
		fmt.Println("LOAD-ERROR:", err)
		return 2
	}
	c := *hc
	c.Params = rp.Params
	_, fails, msg := interpRun(ld, &c, rp.Model, rp.Decisions)
	rep := false
	for _, f := range fails {
		if f == rp.Label {
			rep = true
		}
	}
	fmt.Printf("interpreter replay (all inputs fixed to the model): failed=%v reproduced=%v %s\n", fails, rep, msg)
	if hc.Native {
		_, nf, err := nativeRun(ld, []selfEntry{{Pkg: hc.Pkg, Entry: hc.Entry, Replay: args[0]}}, "")
		if err != nil {
			fmt.Println("native replay error:", err)
			return 2
		}
		nrep := false
		for _, f := range nf[hc.Entry] {
			if f == rp.Label || strings.HasPrefix(f, "PANIC") && rp.Label == "no-crash" {
				nrep = true
			}
		}
		fmt.Printf("native replay against the real build: failed=%v reproduced=%v\n", nf[hc.Entry], nrep)
		rep = rep && nrep
	}
	if rep {
		fmt.Printf("VIOLATION property=%s replay=%s\n", rp.Property, args[0])
		return 1
	}
	fmt.Println("not reproduced")
	return 0
}
