package main

import (
	"fmt"
	"go/types"
	"strings"

	"golang.org/x/tools/go/ssa"
)

// prepareCall evaluates the callee and its arguments for a call site.
// For invoke-mode calls the receiver's method is resolved dynamically.
func (m *Machine) prepareCall(fr *Frame, c *ssa.CallCommon) (Value, []Value) {
	var args []Value
	var fn Value
	if c.IsInvoke() {
		recv := m.get(fr, c.Value)
		iv, ok := recv.(*IfaceV)
		if !ok {
			if pv, isP := recv.(PoisonV); isP {
				m.unsupported("invoke on poison: %s", pv.Why)
			}
			m.unsupported("invoke on %T", recv)
		}
		if iv.T == nil {
			m.nilDeref("method call on nil interface: " + c.Method.Name())
		}
		f := m.lookupMethod(iv.T, c.Method)
		fn = &FuncV{fn: f}
		args = append(args, iv.V)
	} else {
		fn = m.get(fr, c.Value)
	}
	for _, a := range c.Args {
		args = append(args, m.get(fr, a))
	}
	return fn, args
}

func (m *Machine) lookupMethod(t types.Type, meth *types.Func) *ssa.Function {
	key := methodKey{t, meth.Name(), meth.Pkg()}
	if f, ok := m.methodC[key]; ok {
		return f
	}
	// linear scan for identical types (types.Type keys are pointer-identity)
	ms := m.prog.MethodSets.MethodSet(t)
	sel := ms.Lookup(meth.Pkg(), meth.Name())
	if sel == nil {
		m.unsupported("method %s not found on %v", meth.Name(), t)
	}
	f := m.prog.MethodValue(sel)
	if f == nil {
		m.unsupported("no ssa function for method %s on %v (interface method?)", meth.Name(), t)
	}
	m.methodC[key] = f
	return f
}

func (m *Machine) doCall(th *Thread, fr *Frame, in ssa.CallInstruction, dest ssa.Value) {
	fn, args := m.prepareCall(fr, in.Common())
	m.invokeValue(th, fn, args, dest, false)
}

// invokeValue calls fn with args. For ssa functions with bodies a frame is pushed
// (the result is delivered on return); intrinsics complete immediately.
func (m *Machine) invokeValue(th *Thread, fnv Value, args []Value, dest ssa.Value, isDefer bool) *Frame {
	fv, ok := fnv.(*FuncV)
	if !ok {
		if pv, isP := fnv.(PoisonV); isP {
			m.unsupported("call of poisoned function value: %s", pv.Why)
		}
		m.unsupported("call of %T", fnv)
	}
	if fv == nil {
		m.nilDeref("call of nil func")
	}
	caller := th.top
	deliver := func(res Value) {
		if isDefer {
			return
		}
		if dest != nil {
			caller.regs[caller.info.index[dest]] = res
		}
		caller.pc++
	}
	if fv.fn == nil {
		// builtin
		res := m.callBuiltin(th, fv.intrin, args, caller, isDefer)
		deliver(res)
		return nil
	}
	fn := fv.fn
	name := fn.String()
	// 1. harness stubs
	if stub, ok := m.stubs[name]; ok && (caller == nil || !m.insideStub(caller, name)) {
		m.ps.stubCalls[name]++
		nf := m.pushFrame(th, stub, m.adaptStubArgs(stub, fn, args), nil, dest)
		nf.isDefer = isDefer
		nf.stubOf = name
		return nf
	}
	// 2a. unique.Make[T]: the runtime's interning table (weak pointers, hash tries) is replaced
	// by a canonical object per distinct concrete value, which is all Handle equality observes
	if strings.HasPrefix(name, "unique.Make[") && len(args) == 1 {
		key, ok := keyRepr(args[0])
		if !ok {
			m.unsupported("unique.Make of a symbolic value")
		}
		key = name + "|" + key
		if m.uniqueObjs == nil {
			m.uniqueObjs = map[string]*Obj{}
		}
		o := m.uniqueObjs[key]
		if o == nil {
			if !m.persist {
				m.unsupported("unique.Make of a new value outside package initialisation")
			}
			o = m.newObj(copyValue(args[0]), fn.Signature.Params().At(0).Type(), "unique")
			m.uniqueObjs[key] = o
		}
		deliver(&StructV{F: []Value{&Ptr{obj: o}}})
		return nil
	}
	// 2. intrinsics
	if h, ok := intrinsics[name]; ok {
		m.pushedFrame, m.curDest, m.intrinsicIsDefer = false, dest, isDefer
		res, handled := h(m, th, fn, args)
		if handled {
			if m.pushedFrame {
				m.pushedFrame = false
				return nil
			}
			deliver(res)
			return nil
		}
	}
	// 3. no-op summaries by package prefix
	if m.isNoop(fn) {
		res := m.noopResult(fn)
		// a logging helper that derives a context (xlog.NewContext) hands its parent back
		if rt := fn.Signature.Results(); rt.Len() == 1 && rt.At(0).Type().String() == "context.Context" {
			for i, p := range fn.Params {
				if i < len(args) && p.Type().String() == "context.Context" {
					res = args[i]
					break
				}
			}
		}
		deliver(res)
		return nil
	}
	if fn.Blocks == nil {
		// try to build
		if fn.Pkg != nil {
			fn.Pkg.Build()
		}
		if fn.Blocks == nil {
			og := ""
			if o := fn.Origin(); o != nil {
				og = fmt.Sprintf(" origin=%s originBlocks=%d", o, len(o.Blocks))
			}
			m.unsupported("call of external function without intrinsic: %s (synthetic=%q pkg=%v%s)", name, fn.Synthetic, fn.Pkg, og)
		}
	}
	if fn.Synthetic == "package initializer" {
		// explicit dependency init call inside an init function: lazily handled
		deliver(nil)
		return nil
	}
	nf := m.pushFrame(th, fn, args, fv.bindings, dest)
	nf.isDefer = isDefer
	return nf
}

func (m *Machine) insideStub(fr *Frame, name string) bool {
	for f := fr; f != nil; f = f.caller {
		if f.stubOf == name {
			return true
		}
	}
	return false
}

// adaptStubArgs: stubs for methods take the receiver as first parameter.
func (m *Machine) adaptStubArgs(stub, orig *ssa.Function, args []Value) []Value {
	if len(stub.Params) == len(args) {
		// a method promoted from an embedded first field (e.g. (*net.conn).Write called on a
		// *net.UDPConn) is stubbed with the outer type as receiver: the receiver pointer to
		// field 0 is turned back into the pointer to the enclosing object
		if len(args) > 0 && len(orig.Params) > 0 {
			if sp, ok := stub.Params[0].Type().Underlying().(*types.Pointer); ok && !types.Identical(stub.Params[0].Type(), orig.Params[0].Type()) {
				if st, ok := sp.Elem().Underlying().(*types.Struct); ok && st.NumFields() > 0 && st.Field(0).Embedded() {
					if op, ok := orig.Params[0].Type().Underlying().(*types.Pointer); ok && types.Identical(op.Elem(), st.Field(0).Type()) {
						if p, ok := args[0].(*Ptr); ok && !p.IsNil() && p.sym == nil && len(p.path) > 0 && p.path[len(p.path)-1] == 0 {
							na := append([]Value(nil), args...)
							na[0] = &Ptr{obj: p.obj, path: append([]int(nil), p.path[:len(p.path)-1]...)}
							return na
						}
					}
				}
			}
		}
		return args
	}
	if len(stub.Params) == 0 {
		return nil
	}
	m.unsupported("stub %s has %d params, callee %s passes %d", stub, len(stub.Params), orig, len(args))
	return nil
}

func (m *Machine) isNoop(fn *ssa.Function) bool {
	if fn.Pkg == nil {
		// methods of instantiated generics etc: use receiver package via object
		if fn.Object() != nil && fn.Object().Pkg() != nil {
			return m.noopPkg(fn.Object().Pkg().Path(), fn)
		}
		return false
	}
	return m.noopPkg(fn.Pkg.Pkg.Path(), fn)
}

var noopPrefixes = []string{
	"github.com/fatedier/frp/pkg/util/log",
	"github.com/fatedier/frp/pkg/util/xlog",
	"github.com/fatedier/golib/log",
	"log",
}

func (m *Machine) noopPkg(path string, fn *ssa.Function) bool {
	for _, p := range noopPrefixes {
		if path == p {
			return true
		}
	}
	for _, p := range m.cfg.NoopPkgs {
		if path == p {
			return true
		}
	}
	return false
}

func (m *Machine) noopResult(fn *ssa.Function) Value {
	rt := fn.Signature.Results()
	switch rt.Len() {
	case 0:
		return nil
	case 1:
		return zeroValue(rt.At(0).Type())
	}
	return zeroValue(rt)
}

// spawn starts a goroutine.
func (m *Machine) spawn(th *Thread, fr *Frame, in *ssa.Go, fnv Value, args []Value) {
	fv, ok := fnv.(*FuncV)
	if !ok || fv == nil {
		m.unsupported("go of %T", fnv)
	}
	name := "builtin"
	if fv.fn != nil {
		name = fv.fn.String()
	}
	site := fr.fn.String() + "→" + name
	policy := m.goPolicy(fr.fn.String(), name)
	m.ps.goSites[site+" ["+policy+"]"]++
	if policy == "ignore" {
		return
	}
	nt := m.newThread(name)
	save := m.cur
	m.cur = nt
	defer func() { m.cur = save }()
	nf := m.invokeValue(nt, fnv, args, nil, false)
	if nf == nil {
		nt.state = tsDone
	}
}

func (m *Machine) goPolicy(from, callee string) string {
	for _, g := range m.cfg.GoIgnore {
		if strings.Contains(callee, g) || strings.Contains(from+"→"+callee, g) {
			return "ignore"
		}
	}
	if m.cfg.GoDefault == "ignore" {
		for _, g := range m.cfg.GoRun {
			if strings.Contains(callee, g) || strings.Contains(from+"→"+callee, g) {
				return "run"
			}
		}
		return "ignore"
	}
	return "run"
}

// ------------------------------------------------------------ builtins

func (m *Machine) callBuiltin(th *Thread, name string, args []Value, caller *Frame, isDefer bool) Value {
	if r, ok := m.unsafeBuiltin(name, args); ok {
		return r
	}
	switch name {
	case "builtin:len":
		switch v := args[0].(type) {
		case *StrV:
			return BVC(64, uint64(len(v.B)))
		case *SliceV:
			if v != nil && v.slen != nil {
				return v.slen
			}
			return BVC(64, uint64(m.sliceLen(v)))
		case *MapV:
			return BVC(64, uint64(m.mapLen(v)))
		case *ChanV:
			if v == nil {
				return BVC(64, 0)
			}
			return BVC(64, uint64(len(v.buf)))
		case *ArrayV:
			return BVC(64, uint64(len(v.E)))
		case *Ptr:
			if a, ok := m.loadRaw(v).(*ArrayV); ok {
				return BVC(64, uint64(len(a.E)))
			}
		}
	case "builtin:cap":
		switch v := args[0].(type) {
		case *SliceV:
			if v == nil {
				return BVC(64, 0)
			}
			return BVC(64, uint64(v.cap))
		case *ChanV:
			if v == nil {
				return BVC(64, 0)
			}
			return BVC(64, uint64(v.cap))
		case *ArrayV:
			return BVC(64, uint64(len(v.E)))
		case *Ptr:
			if a, ok := m.loadRaw(v).(*ArrayV); ok {
				return BVC(64, uint64(len(a.E)))
			}
		}
	case "builtin:append":
		return m.builtinAppend(args[0], args[1])
	case "builtin:copy":
		return m.builtinCopy(args[0], args[1])
	case "builtin:delete":
		mp, ok := args[0].(*MapV)
		if !ok {
			m.unsupported("delete on %T", args[0])
		}
		m.mapDelete(mp, args[1])
		return nil
	case "builtin:close":
		m.chanClose(args[0])
		m.wantYield = "close" // (a direct schedPoint here would re-execute the close after a preemption)
		return nil
	case "builtin:panic":
		m.raise(args[0])
	case "builtin:recover":
		return m.doRecover(th)
	case "builtin:print", "builtin:println":
		return nil
	case "builtin:min", "builtin:max":
		r := args[0]
		for _, a := range args[1:] {
			switch x := r.(type) {
			case *Term:
				y := a.(*Term)
				// signedness unknown here: determine from caller's instruction type
				signed := true
				if caller != nil {
					if ci, ok := caller.block.Instrs[caller.pc].(ssa.Value); ok {
						if isIntType(ci.Type()) {
							_, signed = intWidth(ci.Type())
						}
					}
				}
				var lt *Term
				if signed {
					lt = SLt(y, x)
				} else {
					lt = ULt(y, x)
				}
				if name == "builtin:max" {
					lt = Not(Or(lt, Eq(x, y)))
					r = Ite(lt, y, x)
				} else {
					r = Ite(lt, y, x)
				}
			default:
				m.unsupported("min/max on %T", r)
			}
		}
		return r
	case "builtin:clear":
		switch v := args[0].(type) {
		case *MapV:
			if v != nil {
				m.mapAccess(v, true)
				m.logUndoMap(v)
				v.entries = nil
				v.index, v.symKeys = nil, 0
			}
			return nil
		case *SliceV:
			if v.IsNil() {
				return nil
			}
			if v.slen != nil {
				m.unsupported("clear of a lazily sized slice")
			}
			var elem types.Type
			if v.arr.typ != nil {
				if at, ok := v.arr.typ.Underlying().(*types.Array); ok {
					elem = at.Elem()
				}
			}
			for i := 0; i < v.len; i++ {
				p := &Ptr{obj: v.arr, path: []int{v.off + i}}
				if elem != nil {
					m.store(p, zeroValue(elem))
				} else {
					m.store(p, zeroLike(m.load(p)))
				}
			}
			return nil
		}
	case "builtin:ssa:wrapnilchk":
		if p, ok := args[0].(*Ptr); ok && p.IsNil() {
			m.nilDeref("wrapnilchk")
		}
		return args[0]
	}
	m.unsupported("builtin %s on %T", name, args[0])
	return nil
}

func (m *Machine) doRecover(th *Thread) Value {
	// recover() is effective only when called directly by a deferred function
	// while its caller frame is panicking.
	g := th.top
	if g != nil && g.isDefer && g.caller != nil && g.caller.status == stPanicking {
		f := g.caller
		f.status = stRecovered
		pv := f.panicVal
		f.panicVal = nil
		if pv == nil {
			return NilIface
		}
		return pv
	}
	return NilIface
}

func (m *Machine) builtinAppend(a, b Value) Value {
	s, _ := a.(*SliceV)
	var add []Value
	switch v := b.(type) {
	case *SliceV:
		if !v.IsNil() {
			arr := v.arr.val.(*ArrayV)
			n := m.sliceLen(v)
			add = arr.E[v.off : v.off+n]
		}
	case *StrV:
		for _, t := range v.B {
			add = append(add, t)
		}
	default:
		m.unsupported("append of %T", b)
	}
	if len(add) == 0 {
		if s == nil {
			return (*SliceV)(nil)
		}
		return s
	}
	sl := 0
	if !s.IsNil() {
		sl = m.sliceLen(s)
	}
	if !s.IsNil() && sl+len(add) <= s.cap {
		m.logUndo(s.arr)
		arr := s.arr.val.(*ArrayV)
		for i, v := range add {
			arr.E[s.off+sl+i] = copyValue(v)
		}
		return &SliceV{arr: s.arr, off: s.off, len: sl + len(add), cap: s.cap}
	}
	// grow: new backing array
	ncap := sl + len(add)
	if ncap < 2*sl {
		ncap = 2 * sl
	}
	e := make([]Value, ncap)
	if !s.IsNil() {
		arr := s.arr.val.(*ArrayV)
		for i := 0; i < sl; i++ {
			e[i] = copyValue(arr.E[s.off+i])
		}
	}
	for i, v := range add {
		e[sl+i] = copyValue(v)
	}
	if ncap > sl+len(add) {
		var z Value
		// zero for remaining capacity: derive from an existing element
		z = zeroLike(add[0])
		for i := sl + len(add); i < ncap; i++ {
			e[i] = copyValue(z)
		}
	}
	o := m.newObj(&ArrayV{E: e}, nil, "append")
	return &SliceV{arr: o, off: 0, len: sl + len(add), cap: ncap}
}

func zeroLike(v Value) Value {
	switch x := v.(type) {
	case *Term:
		if x.sort.K == SBool {
			return FalseT
		}
		return BVC(x.sort.W, 0)
	case FloatV:
		return FloatV{F: 0, W: x.W}
	case *StrV:
		return &StrV{}
	case *Ptr:
		return NilPtr
	case *SliceV:
		return (*SliceV)(nil)
	case *MapV:
		return (*MapV)(nil)
	case *ChanV:
		return (*ChanV)(nil)
	case *FuncV:
		return (*FuncV)(nil)
	case *IfaceV:
		return NilIface
	case *StructV:
		f := make([]Value, len(x.F))
		for i := range f {
			f[i] = zeroLike(x.F[i])
		}
		return &StructV{F: f}
	case *ArrayV:
		e := make([]Value, len(x.E))
		for i := range e {
			e[i] = zeroLike(x.E[i])
		}
		return &ArrayV{E: e}
	}
	return v
}

func (m *Machine) builtinCopy(a, b Value) Value {
	d, _ := a.(*SliceV)
	var src []Value
	switch v := b.(type) {
	case *SliceV:
		if !v.IsNil() {
			arr := v.arr.val.(*ArrayV)
			src = arr.E[v.off : v.off+m.sliceLen(v)]
		}
	case *StrV:
		for _, t := range v.B {
			src = append(src, t)
		}
	default:
		m.unsupported("copy from %T", b)
	}
	if d.IsNil() {
		return BVC(64, 0)
	}
	n := m.sliceLen(d)
	if len(src) < n {
		n = len(src)
	}
	if n == 0 {
		return BVC(64, 0)
	}
	m.logUndo(d.arr)
	arr := d.arr.val.(*ArrayV)
	tmp := make([]Value, n)
	for i := 0; i < n; i++ {
		tmp[i] = copyValue(src[i])
	}
	copy(arr.E[d.off:d.off+n], tmp)
	return BVC(64, uint64(n))
}

var _ = fmt.Sprint
