package main

import (
	"encoding/json"
	"os"
	"path/filepath"
)

// HarnessCfg is one entry of harness/index.json plus the tier parameters.
type HarnessCfg struct {
	Name          string            `json:"name"`
	Pkg           string            `json:"pkg"`   // repo-relative dir, e.g. "pkg/util/limit"
	Entry         string            `json:"entry"` // harness function name
	Stubs         map[string]string `json:"stubs"` // ssa function name -> harness function name
	Quick         map[string]int    `json:"quick"`
	Thorough      map[string]int    `json:"thorough"`
	GoIgnore      []string          `json:"go_ignore"`
	GoRun         []string          `json:"go_run"`
	GoDefault     string            `json:"go_default"` // "run" (default) or "ignore"
	NoopPkgs      []string          `json:"noop_pkgs"`
	RequiredReach []string          `json:"required_reach"`
	Solver        string            `json:"solver"`
	AllowDeadlock bool              `json:"allow_deadlock"`
	LockMonitor   bool              `json:"lock_monitor"`
	Native        bool              `json:"native"`
	Excepts       []string          `json:"excepts"` // known-finding ids whose Except regions live in this harness
	TierOnly      string            `json:"tier_only"`
	Bounds        string            `json:"bounds"`  // human description of bounds
	Outside       string            `json:"outside"` // what lies outside the claim
	Workers       int               `json:"workers"`

	Params     map[string]int    `json:"-"`
	ExceptMode map[string]string `json:"-"`
}

type PropCfg struct {
	Harnesses []*HarnessCfg `json:"harnesses"`
	Assume    []string      `json:"assumptions"`
}

type Index struct {
	Properties map[string]*PropCfg `json:"properties"`
}

func loadIndex() (*Index, error) {
	b, err := os.ReadFile(filepath.Join(verifRoot, "harness", "index.json"))
	if err != nil {
		return nil, err
	}
	var idx Index
	if err := json.Unmarshal(b, &idx); err != nil {
		return nil, err
	}
	return &idx, nil
}

func (m *Machine) cfgInt(name string, def int) int {
	if v, ok := m.cfg.Params[name]; ok {
		return v
	}
	return def
}
