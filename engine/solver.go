package main

// Incremental SMT solver process (z3 -in / cvc5 --incremental) with push/pop.

import (
	"bufio"
	"fmt"
	"io"
	"os"
	"os/exec"
	"strconv"
	"strings"
	"time"
)

type Result int

const (
	Unsat Result = iota
	Sat
	Unknown
)

func (r Result) String() string { return [...]string{"unsat", "sat", "unknown"}[r] }

type Solver struct {
	backend string
	cmd     *exec.Cmd
	in      io.WriteCloser
	out     *bufio.Reader
	decls   *declSet
	level   int
	// statistics
	Queries     int
	Definite    int
	Unknowns    int
	Retried     int
	Restarts    int
	Rlimit      int
	oneShotMode bool
	noRetry     bool // this instance is itself the retry of an unknown answer
	Retries     int
	Errors      int
	SolveTime   time.Duration
	log         io.Writer
	timeoutMs   int
	lastErr     string
}

func NewSolver(backend string, timeoutMs int) (*Solver, error) {
	return NewSolverOpts(backend, timeoutMs, 0, false)
}

func NewSolverOpts(backend string, timeoutMs int, rlimit int, oneShot bool) (*Solver, error) {
	var cmd *exec.Cmd
	switch backend {
	case "", "z3":
		backend = "z3"
		cmd = exec.Command("z3", "-in")
	case "z3-new":
		cmd = exec.Command("z3-new", "-in")
	case "cvc5":
		cmd = exec.Command("cvc5", "--incremental", "--lang=smt2", "--produce-models", fmt.Sprintf("--tlimit-per=%d", timeoutMs))
	case "cvc5-int":
		cmd = exec.Command("cvc5", "--incremental", "--lang=smt2", "--produce-models", "--solve-bv-as-int=sum", fmt.Sprintf("--tlimit-per=%d", timeoutMs))
	default:
		return nil, fmt.Errorf("unknown solver backend %q", backend)
	}
	in, err := cmd.StdinPipe()
	if err != nil {
		return nil, err
	}
	out, err := cmd.StdoutPipe()
	if err != nil {
		return nil, err
	}
	cmd.Stderr = cmd.Stdout
	if err := cmd.Start(); err != nil {
		return nil, err
	}
	s := &Solver{backend: backend, cmd: cmd, in: in, out: bufio.NewReaderSize(out, 1<<20), decls: newDeclSet(), timeoutMs: timeoutMs, Rlimit: rlimit, oneShotMode: oneShot}
	if d := os.Getenv("GOSYM_SOLVERLOG"); d != "" && !oneShot {
		f, _ := os.CreateTemp(d, "z3log-*.smt2")
		s.log = f
	}
	s.send("(set-option :global-declarations true)")
	if strings.HasPrefix(backend, "z3") {
		s.sendLimits()
		s.send("(set-option :produce-models true)")
	} else {
		s.send("(set-logic ALL)")
	}
	return s, nil
}

// sendLimits: the incremental solver is bounded by a deterministic resource limit (z3's
// timer-based :timeout can cancel the *next* command - "push canceled" - and corrupt the
// assertion stack); the one-shot solver additionally carries a wall-clock safety net.
func (s *Solver) sendLimits() {
	// The incremental solver runs without z3-side limits: both :timeout and :rlimit leave
	// z3 4.8.12 in a cancelled state that fails the *next* command ("push canceled") and
	// corrupts the assertion stack. Hard (arithmetic) queries are routed to the one-shot
	// solver instead, which is limited by :timeout and simply restarted after an error; a
	// Go-side watchdog kills an incremental check that exceeds watchdogS seconds.
	if s.oneShotMode {
		s.send(fmt.Sprintf("(set-option :timeout %d)", s.timeoutMs))
	}
}

// restart respawns the solver process (one-shot solvers only: no stack to rebuild).
func (s *Solver) restart() error {
	s.Close()
	n, err := NewSolverOpts(s.backend, s.timeoutMs, s.Rlimit, s.oneShotMode)
	if err != nil {
		return err
	}
	n.Queries, n.Definite, n.Unknowns, n.Retried, n.SolveTime, n.Restarts = s.Queries, s.Definite, s.Unknowns, s.Retried, s.SolveTime, s.Restarts+1
	*s = *n
	return nil
}

func (s *Solver) Close() {
	if s.cmd != nil {
		s.in.Close()
		s.cmd.Process.Kill()
		s.cmd.Wait()
		s.cmd = nil
	}
}

func (s *Solver) send(line string) {
	if s.log != nil {
		fmt.Fprintln(s.log, line)
	}
	io.WriteString(s.in, line)
	io.WriteString(s.in, "\n")
}

func (s *Solver) flushDecls() {
	for _, d := range s.decls.out {
		s.send(d)
	}
	s.decls.out = s.decls.out[:0]
}

func (s *Solver) Push() {
	s.send("(push 1)")
	s.level++
}

func (s *Solver) Pop(n int) {
	if n <= 0 {
		return
	}
	s.send(fmt.Sprintf("(pop %d)", n))
	s.level -= n
}

func (s *Solver) Assert(t *Term) {
	if t.IsTrue() {
		return
	}
	txt := PrintTerm(t, s.decls)
	s.flushDecls()
	s.send("(assert " + txt + ")")
}

// Check runs check-sat under the current assertion stack.
func (s *Solver) Check() Result {
	s.Queries++
	t0 := time.Now()
	s.send("(check-sat)")
	var wd *time.Timer
	if !s.oneShotMode {
		proc := s.cmd.Process
		wd = time.AfterFunc(120*time.Second, func() { proc.Kill() })
	}
	r := s.readResult()
	if wd != nil {
		wd.Stop()
	}
	s.SolveTime += time.Since(t0)
	if r == Unknown {
		s.Unknowns++
	} else {
		s.Definite++
	}
	return r
}

// CheckWith checks satisfiability of stack ∧ extra without leaving extra asserted.
func (s *Solver) CheckWith(extra *Term) Result {
	if extra.IsFalse() {
		return Unsat
	}
	s.Push()
	s.Assert(extra)
	r := s.Check()
	s.Pop(1)
	return r
}

// resync: after a resource/time-limited check z3 4.8.12 leaves its cancel flag set and
// fails the next command ("push canceled"); a trivially unsat check clears the flag.
func (s *Solver) resync(r Result) {
	if r != Unknown || !strings.HasPrefix(s.backend, "z3") || s.oneShotMode || s.Errors > 0 {
		return
	}
	s.send("(check-sat-assuming (false))")
	s.readResult()
}

func (s *Solver) readResult() Result {
	res := Unknown
	got := false
	for !got {
		line, err := s.out.ReadString('\n')
		if err != nil {
			s.Errors++
			s.lastErr = "solver died: " + err.Error()
			return Unknown
		}
		line = strings.TrimSpace(line)
		switch {
		case line == "sat":
			res, got = Sat, true
		case line == "unsat":
			res, got = Unsat, true
		case line == "unknown" || line == "timeout":
			res, got = Unknown, true
		case strings.HasPrefix(line, "(error"):
			s.Errors++
			s.lastErr = line
			if os.Getenv("GOSYM_DEBUG") != "" {
				fmt.Fprintln(os.Stderr, "SOLVER-ERROR:", line)
			}
			// keep reading: a result line still follows check-sat
		case line == "":
		default:
			// unsupported / warnings
			if strings.Contains(line, "unsupported") {
				s.Errors++
				s.lastErr = line
			}
		}
	}
	if s.Errors > 0 {
		return Unknown
	}
	return res
}

// Values asks for the model values of the given variable names (after a Sat).
func (s *Solver) Values(names []string, sorts []Sort) (map[string]uint64, error) {
	res := map[string]uint64{}
	for i, n := range names {
		if _, ok := s.decls.vars[n]; !ok && i < len(sorts) {
			s.decls.vars[n] = sorts[i]
			s.send(fmt.Sprintf("(declare-const %s %s)", smtName(n), sorts[i]))
		}
	}
	const batch = 64
	for i := 0; i < len(names); i += batch {
		j := i + batch
		if j > len(names) {
			j = len(names)
		}
		var sb strings.Builder
		sb.WriteString("(get-value (")
		for _, n := range names[i:j] {
			sb.WriteString(smtName(n))
			sb.WriteString(" ")
		}
		sb.WriteString("))")
		s.send(sb.String())
		txt, err := s.readSexp()
		if err != nil {
			return nil, err
		}
		if strings.HasPrefix(strings.TrimSpace(txt), "(error") {
			return nil, fmt.Errorf("get-value: %s", txt)
		}
		toks := tokenize(txt)
		// ( ( name val ) ( name val ) ... )
		k := 0
		for p := 0; p < len(toks); p++ {
			if toks[p] == "(" || toks[p] == ")" {
				continue
			}
			// name
			name := toks[p]
			if strings.HasPrefix(name, "|") {
				name = strings.Trim(name, "|")
			}
			p++
			if p >= len(toks) {
				break
			}
			val := toks[p]
			if val == "(" { // (_ bvN w)
				if p+2 < len(toks) && toks[p+1] == "_" && strings.HasPrefix(toks[p+2], "bv") {
					v, _ := strconv.ParseUint(toks[p+2][2:], 10, 64)
					res[name] = v
					p += 4
				}
				k++
				continue
			}
			res[name] = parseValue(val)
			k++
		}
	}
	return res, nil
}

func parseValue(v string) uint64 {
	switch {
	case v == "true":
		return 1
	case v == "false":
		return 0
	case strings.HasPrefix(v, "#x"):
		x := v[2:]
		if len(x) > 16 {
			x = x[len(x)-16:]
		}
		u, _ := strconv.ParseUint(x, 16, 64)
		return u
	case strings.HasPrefix(v, "#b"):
		x := v[2:]
		if len(x) > 64 {
			x = x[len(x)-64:]
		}
		u, _ := strconv.ParseUint(x, 2, 64)
		return u
	}
	return 0
}

func tokenize(s string) []string {
	var toks []string
	i := 0
	for i < len(s) {
		c := s[i]
		switch {
		case c == '(' || c == ')':
			toks = append(toks, string(c))
			i++
		case c == ' ' || c == '\n' || c == '\t' || c == '\r':
			i++
		case c == '|':
			j := i + 1
			for j < len(s) && s[j] != '|' {
				j++
			}
			toks = append(toks, s[i:j+1])
			i = j + 1
		default:
			j := i
			for j < len(s) && !strings.ContainsRune("() \n\t\r", rune(s[j])) {
				j++
			}
			toks = append(toks, s[i:j])
			i = j
		}
	}
	return toks
}

// readSexp reads one balanced s-expression from solver output.
func (s *Solver) readSexp() (string, error) {
	var sb strings.Builder
	depth := 0
	started := false
	for {
		line, err := s.out.ReadString('\n')
		if err != nil {
			return "", err
		}
		inBar := false
		for _, c := range line {
			if c == '|' {
				inBar = !inBar
			}
			if inBar {
				continue
			}
			if c == '(' {
				depth++
				started = true
			} else if c == ')' {
				depth--
			}
		}
		sb.WriteString(line)
		if started && depth <= 0 {
			return sb.String(), nil
		}
	}
}

// TermValue returns the model value of a bit-vector/bool term (after Sat).
func (s *Solver) TermValue(t *Term) (uint64, error) {
	txt := PrintTerm(t, s.decls)
	s.flushDecls()
	s.send("(get-value (" + txt + "))")
	out, err := s.readSexp()
	if err != nil {
		return 0, err
	}
	if strings.Contains(out, "(error") {
		return 0, fmt.Errorf("get-value: %s", strings.TrimSpace(out))
	}
	toks := tokenize(out)
	// last value token(s) before the closing parens
	for i := len(toks) - 1; i >= 0; i-- {
		tk := toks[i]
		if tk == ")" || tk == "(" {
			continue
		}
		if strings.HasPrefix(tk, "#") || tk == "true" || tk == "false" {
			return parseValue(tk), nil
		}
		// (_ bvN w): tokens "_" "bvN" "w"
		if i >= 1 && strings.HasPrefix(toks[i-1], "bv") {
			v, _ := strconv.ParseUint(toks[i-1][2:], 10, 64)
			return v, nil
		}
		break
	}
	return 0, fmt.Errorf("cannot parse get-value output %q", out)
}

// CheckWithModel is CheckWith that also returns values of the named variables on Sat.
func (s *Solver) CheckWithModel(extra *Term, names []string, sorts []Sort) (Result, map[string]uint64) {
	if extra.IsFalse() {
		return Unsat, nil
	}
	s.Push()
	s.Assert(extra)
	r := s.Check()
	var model map[string]uint64
	if r == Sat {
		if len(names) == 0 {
			model = map[string]uint64{}
		} else if vals, err := s.Values(names, sorts); err == nil {
			model = vals
		}
	}
	s.Pop(1)
	return r, model
}

// OneShot decides the conjunction of the given terms in a fresh context
// ((reset) first), so that z3 uses its full preprocessing/bit-blasting pipeline
// rather than the incremental core. Returns values of names on Sat.
// OneShot decides one self-contained query. The limit of the one-shot solver is a wall-clock timer, so
// on a loaded machine a query that normally takes a second can run into it: an unknown answer is
// therefore asked once more with four times the limit (fresh process) before it is reported.
func (s *Solver) OneShot(terms []*Term, names []string, sorts []Sort) (Result, map[string]uint64) {
	r, model := s.oneShotOnce(terms, names, sorts)
	if r != Unknown || s.noRetry || os.Getenv("GOSYM_NO_RETRY") == "1" {
		return r, model
	}
	s2, err := NewSolverOpts(s.backend, s.timeoutMs*4, 0, true)
	if err != nil {
		return r, model
	}
	s2.noRetry = true
	defer s2.Close()
	r2, model2 := s2.oneShotOnce(terms, names, sorts)
	s.SolveTime += s2.SolveTime
	s.Retries++
	if r2 != Unknown {
		// the first attempt was counted as unknown: it is answered now
		s.Unknowns--
		s.Definite++
	}
	return r2, model2
}

func (s *Solver) oneShotOnce(terms []*Term, names []string, sorts []Sort) (Result, map[string]uint64) {
	ds := newDeclSet()
	var asserts []string
	for _, t := range terms {
		asserts = append(asserts, "(assert "+PrintTerm(t, ds)+")")
	}
	s.Queries++
	t0 := time.Now()
	s.send("(reset)")
	if strings.HasPrefix(s.backend, "z3") {
		s.sendLimits()
		s.send("(set-option :produce-models true)")
	} else {
		s.send("(set-logic ALL)")
	}
	for i, n := range names {
		if _, ok := ds.vars[n]; !ok {
			ds.vars[n] = sorts[i]
			ds.out = append(ds.out, fmt.Sprintf("(declare-const %s %s)", smtName(n), sorts[i]))
		}
	}
	for _, d := range ds.out {
		s.send(d)
	}
	for _, a := range asserts {
		s.send(a)
	}
	s.send("(check-sat)")
	r := s.readResult()
	var model map[string]uint64
	if r == Sat && names != nil {
		if len(names) == 0 {
			model = map[string]uint64{}
		} else {
			save := s.decls
			s.decls = ds
			if vals, err := s.Values(names, sorts); err == nil {
				model = vals
			}
			s.decls = save
		}
	}
	s.SolveTime += time.Since(t0)
	if s.Errors > 0 {
		// a timer-cancelled command or similar: this query is unknown, the process is replaced
		r, model = Unknown, nil
		_ = s.restart()
	}
	if r == Unknown {
		s.Unknowns++
	} else {
		s.Definite++
	}
	return r, model
}
