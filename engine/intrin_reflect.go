package main

import (
	"go/types"

	"golang.org/x/tools/go/ssa"
)

// reflect.Type values are *reflect.rtype pointers to one canonical persistent
// object per Go type (tag = the types.Type token).

func (m *Machine) rtypePtrType() types.Type {
	pkg := m.prog.ImportedPackage("reflect")
	if pkg == nil {
		m.unsupported("package reflect not loaded")
	}
	return types.NewPointer(pkg.Type("rtype").Type())
}

func (m *Machine) rtypeObj(t types.Type) *Obj {
	key := types.TypeString(t, nil)
	if o, ok := m.rtypes[key]; ok {
		return o
	}
	save := m.persist
	m.persist = true
	o := m.newObj(&StructV{}, nil, "rtype:"+key)
	m.persist = save
	o.tag = t
	m.rtypes[key] = o
	return o
}

func (m *Machine) reflectTypeValue(t types.Type) Value {
	if t == nil {
		return NilIface
	}
	return &IfaceV{T: m.rtypePtrType(), V: &Ptr{obj: m.rtypeObj(t)}}
}

func (m *Machine) typeOfRtype(v Value) types.Type {
	switch x := v.(type) {
	case *IfaceV:
		if x.T == nil {
			m.nilDeref("nil reflect.Type")
		}
		return m.typeOfRtype(x.V)
	case *Ptr:
		if x.IsNil() {
			m.nilDeref("nil *rtype")
		}
		if t, ok := x.obj.tag.(types.Type); ok {
			return t
		}
	}
	m.unsupported("not a modelled reflect.Type: %s", fmtValue(v))
	return nil
}

func (m *Machine) newReflectValue(fn *ssa.Function, t types.Type, val Value) Value {
	box := m.newObj(val, t, "reflect.Value")
	return &StructV{F: []Value{&Ptr{obj: m.rtypeObj(t)}, &Ptr{obj: box}, BVC(64, 1)}}
}

func (m *Machine) reflectValueParts(v Value) (types.Type, Value) {
	st, ok := v.(*StructV)
	if !ok || len(st.F) != 3 {
		m.unsupported("not a modelled reflect.Value")
	}
	tp, ok := st.F[0].(*Ptr)
	if !ok || tp.IsNil() {
		m.unsupported("zero reflect.Value")
	}
	t := tp.obj.tag.(types.Type)
	box := st.F[1].(*Ptr)
	return t, box.obj.val
}

// deepEqual: structural equality as a symbolic boolean.
func (m *Machine) deepEqual(a, b Value, depth int) *Term {
	if depth > 50 {
		m.unsupported("reflect.DeepEqual: too deep / cyclic")
	}
	switch x := a.(type) {
	case *Term:
		y, ok := b.(*Term)
		if !ok || x.sort != y.sort {
			return FalseT
		}
		return Eq(x, y)
	case FloatV:
		y, ok := b.(FloatV)
		if ok && (x.T != nil || y.T != nil) {
			m.unsupported("reflect.DeepEqual on an exact-integer float")
		}
		return BoolC(ok && x.F == y.F)
	case *StrV:
		y, ok := b.(*StrV)
		if !ok {
			return FalseT
		}
		return strEq(x, y)
	case *Ptr:
		y, ok := b.(*Ptr)
		if !ok {
			return FalseT
		}
		if x.IsNil() || y.IsNil() {
			return BoolC(x.IsNil() && y.IsNil())
		}
		if ptrEq(x, y) {
			return TrueT
		}
		if x.obj == nil || y.obj == nil {
			return FalseT
		}
		return m.deepEqual(m.loadRaw(x), m.loadRaw(y), depth+1)
	case *IfaceV:
		y, ok := b.(*IfaceV)
		if !ok {
			return FalseT
		}
		if x.T == nil || y.T == nil {
			return BoolC(x.T == nil && y.T == nil)
		}
		if !types.Identical(x.T, y.T) {
			return FalseT
		}
		return m.deepEqual(x.V, y.V, depth+1)
	case *StructV:
		y, ok := b.(*StructV)
		if !ok || len(x.F) != len(y.F) {
			return FalseT
		}
		r := TrueT
		for i := range x.F {
			r = And(r, m.deepEqual(x.F[i], y.F[i], depth+1))
			if r.IsFalse() {
				return r
			}
		}
		return r
	case *ArrayV:
		y, ok := b.(*ArrayV)
		if !ok || len(x.E) != len(y.E) {
			return FalseT
		}
		r := TrueT
		for i := range x.E {
			r = And(r, m.deepEqual(x.E[i], y.E[i], depth+1))
		}
		return r
	case *SliceV:
		y, ok := b.(*SliceV)
		if !ok {
			return FalseT
		}
		if x.IsNil() != y.IsNil() {
			return FalseT
		}
		if x.IsNil() {
			return TrueT
		}
		ex, ey := m.sliceElems(x), m.sliceElems(y)
		if len(ex) != len(ey) {
			return FalseT
		}
		r := TrueT
		for i := range ex {
			r = And(r, m.deepEqual(ex[i], ey[i], depth+1))
		}
		return r
	case *MapV:
		y, ok := b.(*MapV)
		if !ok {
			return FalseT
		}
		if (x == nil) != (y == nil) {
			return FalseT
		}
		if x == nil {
			return TrueT
		}
		if len(x.entries) != len(y.entries) {
			return FalseT
		}
		// every key of x has an equal value in y (keys compared symbolically)
		r := TrueT
		for _, e := range x.entries {
			found := FalseT
			for _, f := range y.entries {
				found = Or(found, And(m.valuesEqual(e.k, f.k), m.deepEqual(e.v, f.v, depth+1)))
			}
			r = And(r, found)
		}
		return r
	case *FuncV:
		y, ok := b.(*FuncV)
		return BoolC(ok && x == nil && y == nil)
	case *ChanV:
		y, ok := b.(*ChanV)
		return BoolC(ok && x == y)
	case PoisonV:
		m.unsupported("DeepEqual on poison")
	}
	m.unsupported("reflect.DeepEqual on %T", a)
	return nil
}

func init() {
	reg("reflect.TypeOf", func(m *Machine, th *Thread, fn *ssa.Function, a []Value) (Value, bool) {
		iv, ok := a[0].(*IfaceV)
		if !ok {
			m.unsupported("reflect.TypeOf of %T", a[0])
		}
		return m.reflectTypeValue(iv.T), true
	})
	reg("(*reflect.rtype).Elem", func(m *Machine, th *Thread, fn *ssa.Function, a []Value) (Value, bool) {
		t := m.typeOfRtype(a[0])
		switch u := t.Underlying().(type) {
		case *types.Pointer:
			return m.reflectTypeValue(u.Elem()), true
		case *types.Slice:
			return m.reflectTypeValue(u.Elem()), true
		case *types.Array:
			return m.reflectTypeValue(u.Elem()), true
		case *types.Map:
			return m.reflectTypeValue(u.Elem()), true
		case *types.Chan:
			return m.reflectTypeValue(u.Elem()), true
		}
		m.raise(m.runtimeErrorValue("reflect: Elem of invalid type " + t.String()))
		return nil, true
	})
	reg("(*reflect.rtype).Name", func(m *Machine, th *Thread, fn *ssa.Function, a []Value) (Value, bool) {
		t := m.typeOfRtype(a[0])
		if n, ok := t.(*types.Named); ok {
			return strConst(n.Obj().Name()), true
		}
		if b, ok := t.(*types.Basic); ok {
			return strConst(b.Name()), true
		}
		return strConst(""), true
	})
	reg("(*reflect.rtype).String", func(m *Machine, th *Thread, fn *ssa.Function, a []Value) (Value, bool) {
		t := m.typeOfRtype(a[0])
		return strConst(types.TypeString(t, func(p *types.Package) string { return p.Name() })), true
	})
	reg("(*reflect.rtype).Kind", func(m *Machine, th *Thread, fn *ssa.Function, a []Value) (Value, bool) {
		t := m.typeOfRtype(a[0])
		k := 0
		switch u := t.Underlying().(type) {
		case *types.Basic:
			switch u.Kind() {
			case types.Bool:
				k = 1
			case types.Int:
				k = 2
			case types.Int8:
				k = 3
			case types.Int16:
				k = 4
			case types.Int32:
				k = 5
			case types.Int64:
				k = 6
			case types.Uint:
				k = 7
			case types.Uint8:
				k = 8
			case types.Uint16:
				k = 9
			case types.Uint32:
				k = 10
			case types.Uint64:
				k = 11
			case types.Uintptr:
				k = 12
			case types.Float32:
				k = 13
			case types.Float64:
				k = 14
			case types.String:
				k = 24
			case types.UnsafePointer:
				k = 26
			}
		case *types.Array:
			k = 17
		case *types.Chan:
			k = 18
		case *types.Signature:
			k = 19
		case *types.Interface:
			k = 20
		case *types.Map:
			k = 21
		case *types.Pointer:
			k = 22
		case *types.Slice:
			k = 23
		case *types.Struct:
			k = 25
		}
		return BVC(64, uint64(k)), true
	})
	reg("reflect.New", func(m *Machine, th *Thread, fn *ssa.Function, a []Value) (Value, bool) {
		t := m.typeOfRtype(a[0])
		o := m.newObj(zeroValue(t), t, "reflect.New")
		return m.newReflectValue(fn, types.NewPointer(t), &Ptr{obj: o}), true
	})
	reg("reflect.ValueOf", func(m *Machine, th *Thread, fn *ssa.Function, a []Value) (Value, bool) {
		iv, ok := a[0].(*IfaceV)
		if !ok || iv.T == nil {
			m.unsupported("reflect.ValueOf(nil)")
		}
		return m.newReflectValue(fn, iv.T, iv.V), true
	})
	reg("(reflect.Value).Interface", func(m *Machine, th *Thread, fn *ssa.Function, a []Value) (Value, bool) {
		t, v := m.reflectValueParts(a[0])
		if _, isI := t.Underlying().(*types.Interface); isI {
			return v, true
		}
		return &IfaceV{T: t, V: v}, true
	})
	reg("(reflect.Value).Type", func(m *Machine, th *Thread, fn *ssa.Function, a []Value) (Value, bool) {
		t, _ := m.reflectValueParts(a[0])
		return m.reflectTypeValue(t), true
	})
	reg("(reflect.Value).IsNil", func(m *Machine, th *Thread, fn *ssa.Function, a []Value) (Value, bool) {
		_, v := m.reflectValueParts(a[0])
		switch x := v.(type) {
		case *Ptr:
			return BoolC(x.IsNil()), true
		case *MapV:
			return BoolC(x == nil), true
		case *SliceV:
			return BoolC(x.IsNil()), true
		case *IfaceV:
			return BoolC(x.T == nil), true
		case *FuncV:
			return BoolC(x == nil), true
		case *ChanV:
			return BoolC(x == nil), true
		}
		m.unsupported("reflect.Value.IsNil on %T", v)
		return nil, true
	})
	reg("(reflect.Value).Elem", func(m *Machine, th *Thread, fn *ssa.Function, a []Value) (Value, bool) {
		t, v := m.reflectValueParts(a[0])
		switch x := v.(type) {
		case *Ptr:
			if x.IsNil() {
				m.unsupported("reflect.Value.Elem of nil pointer")
			}
			et := t.Underlying().(*types.Pointer).Elem()
			if len(x.path) == 0 && x.sym == nil && x.unsafeStr == nil {
				// addressable: the box of the new Value is the pointee itself (flag 3), so that Set
				// writes through
				return &StructV{F: []Value{&Ptr{obj: m.rtypeObj(et)}, &Ptr{obj: x.obj}, BVC(64, 3)}}, true
			}
			return m.newReflectValue(fn, et, m.load(x)), true
		case *IfaceV:
			if x.T == nil {
				m.unsupported("reflect.Value.Elem of nil interface")
			}
			return m.newReflectValue(fn, x.T, x.V), true
		}
		m.unsupported("reflect.Value.Elem on %T", v)
		return nil, true
	})
	reg("(reflect.Value).Set", func(m *Machine, th *Thread, fn *ssa.Function, a []Value) (Value, bool) {
		st, ok := a[0].(*StructV)
		if !ok || len(st.F) != 3 {
			m.unsupported("reflect.Value.Set on a value that is not modelled")
		}
		fl, isT := st.F[2].(*Term)
		if !isT || !fl.IsConst() || fl.c != 3 {
			m.unsupported("reflect.Value.Set on a value that is not addressable in the model")
		}
		_, v := m.reflectValueParts(a[1])
		box := st.F[1].(*Ptr)
		m.store(&Ptr{obj: box.obj}, copyValue(v))
		return nil, true
	})
	reg("reflect.DeepEqual", func(m *Machine, th *Thread, fn *ssa.Function, a []Value) (Value, bool) {
		return m.deepEqual(a[0], a[1], 0), true
	})
}
