package main

import (
	"fmt"
	"os"
	"sort"
	"strings"
	"sync"
	"time"

	"golang.org/x/tools/go/ssa"
)

// Decision: one fork point on a path.
type Decision struct {
	Kind   string `json:"k"`
	Choice int    `json:"c"`
	NAlts  int    `json:"n"`
	Val    int64  `json:"v,omitempty"` // payload for concretisation decisions
}

type pathState struct {
	prefix []Decision // decisions to replay
	kept   int        // number of leading decisions whose constraints are still on the solver stack; -1 = fresh job
	ndec   int
	decs   []Decision // decisions taken on this path

	vars        []string // nondet variable names created on this path (in order)
	varSorts    map[string]Sort
	varCount    map[string]int
	reached     map[string]bool
	asserts     map[string]int
	stubCalls   map[string]int
	goSites     map[string]int
	preempts    int
	locks       map[string]*lockState
	onces       map[string]int
	wgs         map[string]int
	observes    []string
	unknown     bool
	now         *Term
	ghost       map[string]Value
	excepts     map[string]*Term
	notes       []string
	model       map[string]uint64
	noModel     bool
	pendAsserts []pendingAssert
	pc          []*Term
	startModel  map[string]uint64
	allocs      []*Term
	selectForks int
	selectLast  map[ssa.Instruction]int
}

func newPathState(prefix []Decision, kept int) *pathState {
	return &pathState{prefix: prefix, kept: kept, varSorts: map[string]Sort{}, varCount: map[string]int{},
		reached: map[string]bool{}, asserts: map[string]int{}, stubCalls: map[string]int{}, goSites: map[string]int{},
		locks: map[string]*lockState{}, onces: map[string]int{}, wgs: map[string]int{}, ghost: map[string]Value{}, excepts: map[string]*Term{}}
}

func (ps *pathState) live() bool { return ps.ndec > ps.kept }

type Violation struct {
	Label     string            `json:"label"`
	Kind      string            `json:"kind"`
	Msg       string            `json:"msg"`
	Model     map[string]uint64 `json:"model"`
	VarOrder  []string          `json:"var_order"`
	Decisions []Decision        `json:"decisions"`
	Harness   string            `json:"harness"`
	Where     string            `json:"where,omitempty"`
	Except    string            `json:"except,omitempty"`
}

// Explorer coordinates the DFS over decision prefixes for one harness job.
type Explorer struct {
	mu       sync.Mutex
	queue    []workItem // global work queue (prefixes)
	idle     int
	nworkers int
	done     bool

	// results
	paths         int64
	pathKinds     map[string]int64
	decisions     int64
	violations    []*Violation
	inconclusive  []string
	reached       map[string]int64
	asserts       map[string]int64
	stubCalls     map[string]int64
	goSites       map[string]int64
	funcs         map[string]int64
	samples       []map[string]interface{}
	queries       int
	definite      int
	unknowns      int
	retried       int // unknown one-shot answers asked again with a larger limit
	solveTime     time.Duration
	steps         int64
	maxViol       int
	dupViolations int64
	cacheHits     int64
	natSamples    []natSample
	concretis     map[string]int64
	notes         map[string]int64
	stop          bool
	cond          *sync.Cond
}

func NewExplorer(n int) *Explorer {
	ex := &Explorer{nworkers: n, pathKinds: map[string]int64{}, reached: map[string]int64{}, asserts: map[string]int64{},
		stubCalls: map[string]int64{}, goSites: map[string]int64{}, funcs: map[string]int64{}, maxViol: 8, concretis: map[string]int64{}, notes: map[string]int64{}}
	ex.cond = sync.NewCond(&ex.mu)
	ex.queue = append(ex.queue, workItem{}) // the root prefix
	return ex
}

// take blocks until a prefix is available or exploration is finished.
type natSample struct {
	Model    map[string]uint64
	Observes []string
	Decs     []Decision
}

type workItem struct {
	prefix []Decision
	model  map[string]uint64 // satisfies the path condition of prefix (nil: unknown)
}

func (ex *Explorer) take() (workItem, bool) {
	ex.mu.Lock()
	defer ex.mu.Unlock()
	for {
		if ex.stop {
			return workItem{}, false
		}
		if n := len(ex.queue); n > 0 {
			p := ex.queue[n-1]
			ex.queue = ex.queue[:n-1]
			return p, true
		}
		ex.idle++
		if ex.idle == ex.nworkers {
			ex.done = true
			ex.cond.Broadcast()
			return workItem{}, false
		}
		ex.cond.Wait()
		ex.idle--
		if ex.done {
			ex.idle++
			return workItem{}, false
		}
	}
}

func (ex *Explorer) wantsWork() bool {
	ex.mu.Lock()
	defer ex.mu.Unlock()
	return len(ex.queue) < ex.nworkers && ex.nworkers > 1
}

func (ex *Explorer) donate(p workItem) {
	ex.mu.Lock()
	ex.queue = append(ex.queue, p)
	ex.mu.Unlock()
	ex.cond.Signal()
}

// ------------------------------------------------------------ decisions in the machine

func (m *Machine) decide(kind string, alts []*Term) int {
	return m.decideV(kind, alts, 0)
}

func (m *Machine) decideV(kind string, alts []*Term, payload int64) int {
	ps := m.ps
	i := ps.ndec
	if i >= m.cfgInt("maxDecisions", 4000) {
		panic(pathEnd{"inconclusive", fmt.Sprintf("UNWIND-EXCEEDED: more than %d decisions on one path%s", i, m.where())})
	}
	if m.fixed != nil && i >= len(ps.prefix) {
		// replay mode: schedule / map-order / select decisions follow the recording
		for m.fixedPos < len(m.fixedDecs) {
			d := m.fixedDecs[m.fixedPos]
			m.fixedPos++
			if d.Kind == kind && d.NAlts == len(alts) {
				ps.prefix = append(ps.prefix, d)
				break
			}
		}
	}
	if i < len(ps.prefix) {
		d := ps.prefix[i]
		if d.Kind != kind || d.NAlts != len(alts) {
			panic(pathEnd{"inconclusive", fmt.Sprintf("engine nondeterminism: replay expected %s/%d, got %s/%d%s", d.Kind, d.NAlts, kind, len(alts), m.where())})
		}
		if i >= ps.kept {
			m.solver.Push()
			m.solver.Assert(alts[d.Choice])
		}
		ps.addPC(alts[d.Choice])
		ps.model = nil
		if i == len(ps.prefix)-1 {
			ps.model = ps.startModel
		}
		ps.ndec++
		ps.decs = append(ps.decs, d)
		return d.Choice
	}
	// new decision: find feasible alternatives
	var feas []int
	altModels := map[int]map[string]uint64{}
	allTrue := true
	for _, a := range alts {
		if !a.IsTrue() {
			allTrue = false
		}
	}
	modelAlt := -1
	if allTrue {
		for j := range alts {
			feas = append(feas, j)
		}
	} else {
		// the alternative satisfied by the current model is feasible without a query
		if m.haveModel() {
			for j, a := range alts {
				if m.modelTrue(a) {
					modelAlt = j
					break
				}
			}
		}
		for j, a := range alts {
			if a.IsFalse() {
				continue
			}
			if j == modelAlt {
				feas = append(feas, j)
				continue
			}
			if j == len(alts)-1 && len(feas) == 0 && kindExhaustive(kind) {
				// the alternatives partition the path condition, which is satisfiable
				feas = append(feas, j)
				break
			}
			r, sm := m.query(a)
			switch r {
			case Sat:
				feas = append(feas, j)
				altModels[j] = sm
			case Unknown:
				ps.unknown = true
				m.ex.noteInconclusive(fmt.Sprintf("solver unknown on %s alternative (%s)%s", kind, m.solver.lastErr, m.where()))
				feas = append(feas, j) // keep exploring; the check is INCONCLUSIVE anyway
			}
		}
	}
	if len(feas) == 0 {
		panic(pathEnd{"inconclusive", "no feasible alternative at decision " + kind + " (path condition unsat?)" + m.where()})
	}
	choice := feas[0]
	if modelAlt >= 0 {
		choice = modelAlt // follow the model: it stays valid
	}
	base := append([]Decision(nil), ps.decs...)
	// pending alternatives in reverse so that the lowest index is explored next
	for k := len(feas) - 1; k >= 0; k-- {
		if feas[k] == choice {
			continue
		}
		p := append(append([]Decision(nil), base...), Decision{Kind: kind, Choice: feas[k], NAlts: len(alts), Val: payload})
		var pm map[string]uint64
		if allTrue {
			pm = ps.model
		} else {
			pm = mergeModel(ps.model, altModels[feas[k]])
		}
		m.pending = append(m.pending, workItem{p, pm})
	}
	if modelAlt < 0 && !allTrue {
		ps.model = mergeModel(ps.model, altModels[choice])
	}
	d := Decision{Kind: kind, Choice: choice, NAlts: len(alts), Val: payload}
	m.solver.Push()
	m.solver.Assert(alts[choice])
	ps.addPC(alts[choice])
	ps.ndec++
	ps.decs = append(ps.decs, d)
	return choice
}

// haveModel makes sure ps.model satisfies the current path condition (one
// check-sat + get-value when it has to be recomputed).
func (m *Machine) haveModel() bool {
	ps := m.ps
	if ps.model != nil {
		return true
	}
	if ps.noModel || !ps.live() {
		return false
	}
	if len(ps.vars) == 0 {
		ps.model = map[string]uint64{}
		return true
	}
	names := ps.vars
	sorts := make([]Sort, len(names))
	for i, n := range names {
		sorts[i] = ps.varSorts[n]
	}
	if m.pcHard() && m.oneshot != nil {
		_, vals := m.oneshot.OneShot(append([]*Term(nil), ps.pc...), names, sorts)
		if vals == nil {
			ps.noModel = true
			return false
		}
		ps.model = vals
		return true
	}
	r := m.solver.Check()
	if r == Unknown && m.oneshot != nil && m.solver.Errors == 0 {
		m.solver.Unknowns--
		m.solver.Retried++
		_, vals := m.oneshot.OneShot(append([]*Term(nil), ps.pc...), names, sorts)
		if vals == nil {
			ps.noModel = true
			return false
		}
		ps.model = vals
		return true
	}
	if r != Sat {
		ps.noModel = true
		return false
	}
	vals, err := m.solver.Values(names, sorts)
	if err != nil {
		ps.noModel = true
		return false
	}
	ps.model = vals
	return true
}

func (m *Machine) pcHard() bool {
	for _, c := range m.ps.pc {
		if termHard(c) {
			return true
		}
	}
	return false
}

func (m *Machine) modelTrue(t *Term) bool {
	if t.IsConst() {
		return t.c == 1
	}
	v, ok := EvalTerm(t, m.ps.model, map[*Term]uint64{})
	return ok && v == 1
}

func kindExhaustive(kind string) bool {
	switch kind {
	case "br", "vc", "mapkey":
		return true
	}
	return strings.HasPrefix(kind, "conc")
}

// branch forks on a symbolic boolean; returns the side taken.
func (m *Machine) branch(c *Term) bool {
	return m.decide("br", []*Term{c, Not(c)}) == 0
}

// branchVC forks on a failure condition (explores the failing side first).
func (m *Machine) branchVC(bad *Term, what string) bool {
	if bad.IsConst() {
		return bad.c == 1
	}
	return m.decide("vc", []*Term{bad, Not(bad)}) == 0
}

// concretizeInt enumerates the feasible values of t (signed 64-bit view) as decisions.
func (m *Machine) concretizeInt(t *Term, what string, maxN int) int64 {
	if t.IsConst() {
		return t.SVal()
	}
	ps := m.ps
	for n := 0; ; n++ {
		if n >= maxN {
			panic(pathEnd{"inconclusive", fmt.Sprintf("concretisation of %s needs more than %d values%s", what, maxN, m.where())})
		}
		var v int64
		i := ps.ndec
		if i < len(ps.prefix) {
			v = ps.prefix[i].Val
		} else {
			got := false
			if m.haveModel() {
				if u, ok := EvalTerm(t, ps.model, map[*Term]uint64{}); ok {
					v, got = sext(u, t.sort.W), true
				}
			}
			if !got {
				r := m.solver.Check()
				if r != Sat {
					panic(pathEnd{"inconclusive", "concretisation: path condition not sat (" + r.String() + ")" + m.where()})
				}
				u, err := m.solver.TermValue(t)
				if err != nil {
					panic(pathEnd{"inconclusive", "concretisation: " + err.Error()})
				}
				v = sext(u, t.sort.W)
			}
		}
		eq := Eq(t, BVC(t.sort.W, uint64(v)))
		ch := m.decideV("conc:"+what, []*Term{eq, Not(eq)}, v)
		if ch == 0 {
			m.ex.noteConc(what)
			return v
		}
	}
}

func (m *Machine) assume(c *Term) {
	if c.IsTrue() {
		return
	}
	if !m.ps.live() {
		if c.IsFalse() {
			panic(pathEnd{"assume-infeasible", ""})
		}
		m.ps.addPC(c)
		return
	}
	// assumptions are not retroactive: assertions made so far are decided first
	m.flushAsserts()
	if c.IsFalse() {
		panic(pathEnd{"assume-infeasible", ""})
	}
	if m.haveModel() && m.modelTrue(c) {
		m.solver.Assert(c)
		m.ps.addPC(c)
		return
	}
	r, sm := m.query(c)
	switch r {
	case Unsat:
		panic(pathEnd{"assume-infeasible", ""})
	case Unknown:
		m.ps.unknown = true
		m.ex.noteInconclusive("solver unknown on assume (" + m.solver.lastErr + ")" + m.where())
	}
	m.solver.Assert(c)
	m.ps.addPC(c)
	m.ps.model = mergeModel(m.ps.model, sm)
}

type pendingAssert struct {
	label string
	bad   *Term
	where string
}

// assertProp records a property assertion; assertions are decided in one query
// when the path ends (or before the next assumption).
func (m *Machine) assertProp(c *Term, label string) {
	m.ps.asserts[label]++
	if c.IsTrue() || !m.ps.live() {
		return
	}
	m.ps.pendAsserts = append(m.ps.pendAsserts, pendingAssert{label, Not(c), m.where()})
	if c.IsFalse() {
		m.flushAsserts()
	}
}

func (m *Machine) flushAsserts() {
	ps := m.ps
	if len(ps.pendAsserts) == 0 {
		return
	}
	pend := ps.pendAsserts
	ps.pendAsserts = nil
	reported := map[string]bool{}
	for i := range pend {
		p := &pend[i]
		if reported[p.label] {
			continue
		}
		// each assertion is decided on its own slice of the path condition (cache friendly)
		r := Sat
		if !p.bad.IsTrue() {
			r, _ = m.query(p.bad)
			if r != Sat && m.haveModel() && m.modelTrue(p.bad) {
				// the path model claims a violation the solver refutes: engine self-check
				m.ex.noteInconclusive(fmt.Sprintf("ENGINE-SELFCHECK: model evaluation and solver disagree on assertion %s (solver: %s)", p.label, r))
				if os.Getenv("GOSYM_DEBUG") != "" {
					fmt.Fprintf(os.Stderr, "DISAGREE %s\nterm: %s\nmodel: %v\n", p.label, PrintTerm(p.bad, nil), ps.model)
				}
			}
		}
		switch r {
		case Unsat:
			continue
		case Unknown:
			ps.unknown = true
			m.ex.noteInconclusive("solver unknown on assertion " + p.label + " (" + m.solver.lastErr + ")")
			continue
		}
		reported[p.label] = true
		m.reportViolationAt("assert", p.label, "assertion "+p.label+" can fail", p.bad, p.where)
		if m.ex.stopped() {
			return
		}
	}
}

func (m *Machine) reportViolation(kind, label, msg string, extra *Term) {
	m.reportViolationAt(kind, label, msg, extra, m.where())
}

func (m *Machine) reportViolationAt(kind, label, msg string, extra *Term, where string) {
	v := &Violation{Label: label, Kind: kind, Msg: msg, Harness: m.cfg.Name, Decisions: append([]Decision(nil), m.ps.decs...), Where: where}
	// model
	if extra != nil && !extra.IsTrue() {
		m.solver.Push()
		m.solver.Assert(extra)
	}
	var chk Result
	if m.pcHard() && m.oneshot != nil {
		chk = Unknown
		m.solver.Unknowns++
	} else {
		chk = m.solver.Check()
	}
	if chk == Unknown && m.oneshot != nil && m.solver.Errors == 0 {
		m.solver.Unknowns--
		m.solver.Retried++
		terms := append([]*Term(nil), m.ps.pc...)
		if extra != nil {
			terms = append(terms, extra)
		}
		names := append([]string(nil), m.ps.vars...)
		sorts := make([]Sort, len(names))
		for i, n := range names {
			sorts[i] = m.ps.varSorts[n]
		}
		r2, vals := m.oneshot.OneShot(terms, names, sorts)
		if r2 == Sat && vals != nil {
			if extra != nil && !extra.IsTrue() {
				m.solver.Pop(1)
			}
			v.Model = vals
			v.VarOrder = names
			for id, cond := range m.ps.excepts {
				if val, ok := EvalTerm(cond, v.Model, map[*Term]uint64{}); ok && val == 1 {
					v.Except = id
				}
			}
			m.ex.addViolation(v)
			return
		}
		chk = r2
	}
	if chk != Sat {
		if extra != nil && !extra.IsTrue() {
			m.solver.Pop(1)
		}
		m.ps.unknown = true
		m.ex.noteInconclusive(fmt.Sprintf("candidate violation %s not confirmed: path condition is %s on the full solver (not reported)", label, chk))
		return
	}
	if chk == Sat {
		names := append([]string(nil), m.ps.vars...)
		sorts := make([]Sort, len(names))
		for i, n := range names {
			sorts[i] = m.ps.varSorts[n]
		}
		if vals, err := m.solver.Values(names, sorts); err == nil {
			v.Model = vals
		} else {
			m.ex.noteInconclusive("model extraction failed: " + err.Error())
		}
		v.VarOrder = names
	}
	if extra != nil && !extra.IsTrue() {
		m.solver.Pop(1)
	}
	// known-finding except regions: which of them cover this model?
	for id, cond := range m.ps.excepts {
		if v.Model != nil {
			if val, ok := EvalTerm(cond, v.Model, map[*Term]uint64{}); ok && val == 1 {
				v.Except = id
			}
		}
	}
	m.ex.addViolation(v)
}

func (ex *Explorer) addViolation(v *Violation) {
	ex.mu.Lock()
	defer ex.mu.Unlock()
	for _, o := range ex.violations {
		if o.Label == v.Label && o.Kind == v.Kind && o.Except == v.Except {
			ex.dupViolations++
			return
		}
	}
	ex.violations = append(ex.violations, v)
	if len(ex.violations) >= ex.maxViol {
		ex.stop = true
		ex.cond.Broadcast()
	}
}

func (ex *Explorer) noteInconclusive(s string) {
	ex.mu.Lock()
	defer ex.mu.Unlock()
	if len(ex.inconclusive) < 20 {
		ex.inconclusive = append(ex.inconclusive, s)
	}
}

func (ex *Explorer) noteConc(what string) {
	ex.mu.Lock()
	ex.concretis[what]++
	ex.mu.Unlock()
}

// ------------------------------------------------------------ worker loop

type Worker struct {
	m  *Machine
	ex *Explorer
}

// runJob explores all paths of the harness entry function.
func (m *Machine) exploreWorker(ex *Explorer, entry *ssa.Function) {
	m.ex = ex
	for {
		item, ok := ex.take()
		if !ok {
			return
		}
		prefix, startModel := item.prefix, item.model
		// fresh job: reset solver stack to base
		m.solver.Pop(m.solver.level)
		m.solver.Push() // job base level
		m.pending = m.pending[:0]
		kept := -1
		for {
			m.runPath(entry, prefix, kept, startModel)
			if ex.stopped() {
				return
			}
			// donate pending work if others are idle
			for len(m.pending) > 1 && ex.wantsWork() {
				ex.donate(m.pending[0])
				m.pending = m.pending[1:]
			}
			n := len(m.pending)
			if n == 0 {
				break
			}
			prefix, startModel = m.pending[n-1].prefix, m.pending[n-1].model
			m.pending = m.pending[:n-1]
			kept = len(prefix) - 1
			// solver levels: 1 (job base) + decisions
			cur := m.solver.level - 1
			if cur > kept {
				m.solver.Pop(cur - kept)
			}
		}
	}
}

func (ex *Explorer) stopped() bool {
	ex.mu.Lock()
	defer ex.mu.Unlock()
	return ex.stop
}

// runPath executes the harness once following prefix.
func (m *Machine) runPath(entry *ssa.Function, prefix []Decision, kept int, startModel map[string]uint64) {
	m.ps = newPathState(prefix, kept)
	m.ps.startModel = startModel
	m.epoch++
	m.threads = m.threads[:0]
	m.steps = 0
	m.cur = nil
	m.forceNext = nil
	m.wantYield = ""
	kind, msg := "done", ""
	func() {
		defer func() {
			if r := recover(); r != nil {
				pe, ok := r.(pathEnd)
				if !ok {
					if ia, isIA := r.(initAbort); isIA {
						pe = pathEnd{"inconclusive", "init abort escaped: " + ia.why}
					} else {
						panic(r)
					}
				}
				kind, msg = pe.kind, pe.msg
			}
		}()
		th := m.newThread("main")
		m.cur = th
		m.pushFrame(th, entry, nil, nil, nil)
		m.run()
		// all threads done or blocked
		if m.threads[0].state != tsDone {
			panic(pathEnd{"deadlock", "main thread blocked forever: " + m.threads[0].waitOn + m.whereThread(m.threads[0])})
		}
	}()
	func() {
		defer func() {
			if r := recover(); r != nil {
				if _, ok := r.(pathEnd); !ok {
					panic(r)
				}
			}
		}()
		m.flushAsserts()
	}()
	switch kind {
	case "crash":
		if m.ps.live() || true {
			m.reportViolation("crash", "no-crash", msg, nil)
		}
	case "deadlock":
		if !m.cfg.AllowDeadlock {
			m.reportViolation("deadlock", "no-wedge", msg, nil)
		}
	case "inconclusive":
		m.ex.noteInconclusive(msg)
	}
	m.lastObserves = m.ps.observes
	m.finishPath(kind)
	m.rollback()
}

func (m *Machine) whereThread(th *Thread) string {
	save := m.cur
	m.cur = th
	s := m.where()
	m.cur = save
	return s
}

func (m *Machine) finishPath(kind string) {
	ex := m.ex
	ps := m.ps
	ex.mu.Lock()
	defer ex.mu.Unlock()
	ex.paths++
	ex.pathKinds[kind]++
	ex.decisions += int64(len(ps.decs))
	ex.steps += m.steps
	for k := range ps.reached {
		ex.reached[k]++
	}
	for k, v := range ps.asserts {
		ex.asserts[k] += int64(v)
	}
	for k, v := range ps.stubCalls {
		ex.stubCalls[k] += int64(v)
	}
	for k, v := range ps.goSites {
		ex.goSites[k] += int64(v)
	}
	for _, n := range ps.notes {
		ex.notes[n]++
	}
	if kind == "done" && m.cfg.Native && len(ex.natSamples) < 12 && len(ps.vars) > 0 && (ex.paths&(ex.paths-1)) == 0 {
		// power-of-two spaced sample for native translator validation
		names := ps.vars
		sorts := make([]Sort, len(names))
		for i, n := range names {
			sorts[i] = ps.varSorts[n]
		}
		if !m.pcHard() && m.solver.Check() == Sat {
			if vals, err := m.solver.Values(names, sorts); err == nil {
				ex.natSamples = append(ex.natSamples, natSample{vals, append([]string(nil), ps.observes...), append([]Decision(nil), ps.decs...)})
			}
		}
	}
	if kind == "done" && len(ex.samples) < 3 && len(ps.vars) > 0 {
		// sample: model of a completed path
		if !m.pcHard() && m.solver.Check() == Sat {
			names := ps.vars
			if len(names) > 40 {
				names = names[:40]
			}
			sorts := make([]Sort, len(names))
			for i, n := range names {
				sorts[i] = ps.varSorts[n]
			}
			if vals, err := m.solver.Values(names, sorts); err == nil {
				s := map[string]interface{}{"harness": m.cfg.Name, "path_decisions": len(ps.decs), "inputs": vals, "observed": ps.observes}
				ex.samples = append(ex.samples, s)
			}
		}
	}
}

func sortedKeys(m map[string]int64) []string {
	var ks []string
	for k := range m {
		ks = append(ks, k)
	}
	sort.Strings(ks)
	return ks
}
