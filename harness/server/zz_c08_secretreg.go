//go:build verif

package server

import (
	"context"

	"github.com/fatedier/frp/pkg/msg"
	"github.com/fatedier/frp/zzverif"
)

// VerifC08SecretRegistration: what a secret proxy (stcp, sudp, xtcp) registers at the admission
// tables through the real RegisterProxy: its own secret, and as allowed users exactly the configured
// list - or the owner alone when none is configured. The admission decision on those tables is
// decided by C08.conn / C08.nat.
func VerifC08SecretRegistration() {
	typ := []string{"stcp", "sudp", "xtcp"}[zzverif.Choice("type", 3)]
	owner := []string{"alice", ""}[zzverif.Choice("owner", 2)]
	lists := [][]string{nil, {}, {"*"}, {"bob"}, {"bob", "carol"}, {"alice"}}
	allow := lists[zzverif.Choice("allowUsers", len(lists))]
	sk := zzverif.StringUpTo("sk", 1, "s")
	svr, _ := zzFullService(false, false, false, "")
	zzNetReset()
	conn := &zzConn{name: "ctl"}
	ctl, err := NewControl(context.Background(), svr.rc, svr.pxyManager, svr.pluginManager, svr.authVerifier, conn, false, &msg.Login{RunID: "r1", User: owner}, svr.cfg)
	zzverif.Assume(err == nil)
	svr.ctlManager.Add("r1", ctl)
	name := "p"
	_, rerr := ctl.RegisterProxy(&msg.NewProxy{ProxyName: name, ProxyType: typ, Sk: sk, AllowUsers: allow})
	zzverif.Assume(rerr == nil)
	full := name // (the client sends the name already prefixed with its user)
	var gotSk string
	var got []string
	var ok bool
	if typ == "xtcp" {
		gotSk, got, ok = svr.rc.NatHoleController.ZZAllow(full)
	} else {
		gotSk, got, ok = svr.rc.VisitorManager.ZZAllow(full)
	}
	zzverif.Assert(ok, "C08.secretreg.registered-under-its-own-name")
	if !ok {
		return
	}
	zzverif.Assert(zzverif.StrEq(gotSk, sk), "C08.secretreg.registered-with-its-own-secret")
	want := allow
	if len(allow) == 0 {
		want = []string{owner}
		zzverif.Reach("C08.secretreg.default-owner-only")
	} else {
		zzverif.Reach("C08.secretreg.explicit-list")
	}
	same := len(got) == len(want)
	if same {
		for i := range want {
			if got[i] != want[i] {
				same = false
			}
		}
	}
	zzverif.Assert(same, "C08.secretreg.allowed-users-exactly-as-configured-or-owner-only")
	_ = ctl.CloseProxy(&msg.CloseProxy{ProxyName: name})
}
