//go:build verif

package server

import (
	"io"

	"github.com/fatedier/frp/pkg/msg"
	netpkg "github.com/fatedier/frp/pkg/util/net"
	"github.com/fatedier/frp/server/visitor"
	"github.com/fatedier/frp/zzverif"
)

// ideal keyed digest H(secret, ts)
func c08sStubAuthKey(sk string, ts int64) string { return zzverif.UF("authkey", 8, sk, ts) }

type c08sLayer struct {
	kind  string
	key   string
	inner io.ReadWriteCloser
}

func (l *c08sLayer) Read(p []byte) (int, error)  { return l.inner.Read(p) }
func (l *c08sLayer) Write(p []byte) (int, error) { return l.inner.Write(p) }
func (l *c08sLayer) Close() error                { return l.inner.Close() }

func c08sStubWithEncryption(rwc io.ReadWriteCloser, key []byte) (io.ReadWriteCloser, error) {
	return &c08sLayer{kind: "enc", key: string(key), inner: rwc}, nil
}
func c08sStubWithCompression(rwc io.ReadWriteCloser) io.ReadWriteCloser {
	return &c08sLayer{kind: "comp", inner: rwc}
}

// VerifC08RegisterVisitorConn: the server's entry point for visitor streams: the run id must name
// a live session (or be absent, legacy), the user checked against the allow list is that
// session's user, and the stream is wrapped exactly as the visitor declared.
func VerifC08RegisterVisitorConn() {
	svr := zzService(&zzVerifier{}, zzNoPlugins())
	vm := visitor.NewManager()
	svr.rc.VisitorManager = vm
	zzControl(svr, "r1", 0) // logged in as user "u"
	allow := [][]string{{"u"}, {"*"}, {""}, {"other"}}[zzverif.Choice("allow", 4)]
	l, err := vm.Listen("p1", "secret", allow)
	zzverif.Assume(err == nil)
	ts := zzverif.Int64("ts")
	sign := zzverif.String("sign", 8)
	valid := zzverif.StrEq(sign, c08sStubAuthKey("secret", ts))
	runID := []string{"", "r1", "nosuch"}[zzverif.Choice("runID", 3)]
	enc, comp := zzverif.Bool("enc"), zzverif.Bool("comp")
	conn := &zzConn{name: "visitor"}
	err = svr.RegisterVisitorConn(conn, &msg.NewVisitorConn{RunID: runID, ProxyName: "p1", SignKey: sign, Timestamp: ts, UseEncryption: enc, UseCompression: comp})

	user := ""
	if runID == "r1" {
		user = "u"
	}
	allowed := allow[0] == "*" || allow[0] == user
	if runID == "nosuch" {
		zzverif.Assert(err != nil && l.ZZPending() == 0, "C08.register.unknown-run-id-refused")
		zzverif.Reach("C08.register.unknown-run-id")
		return
	}
	if err != nil {
		zzverif.Assert(l.ZZPending() == 0, "C08.register.refused-not-queued")
		zzverif.Assert(!(valid && allowed), "C08.register.valid-allowed-request-admitted")
		zzverif.Reach("C08.register.refused")
		return
	}
	zzverif.Assert(valid, "C08.register.admitted-only-with-valid-signature")
	zzverif.Assert(allowed, "C08.register.admitted-only-session-user-allowed")
	zzverif.Assert(l.ZZPending() == 1, "C08.register.queued-once")
	got := l.ZZTake()
	kinds, key := "", ""
	var cur interface{} = got
	for i := 0; i < 6; i++ {
		switch x := cur.(type) {
		case *c08sLayer:
			kinds += x.kind + ","
			if x.kind == "enc" {
				key = x.key
			}
			cur = x.inner
		case *netpkg.WrapReadWriteCloserConn:
			cur = x.ReadWriteCloser
		default:
			i = 6
		}
	}
	want := ""
	if enc {
		want = "enc,"
	}
	if comp {
		want = "comp," + want
	}
	zzverif.Assert(kinds == want, "C08.register.stream-wrapped-exactly-as-the-visitor-declared")
	if enc {
		zzverif.Assert(key == "secret", "C08.register.encryption-keyed-by-the-proxy-secret")
		if !comp {
			zzverif.Reach("C08.register.encrypted-only")
		}
	}
	zzverif.Reach("C08.register.admitted")
}
