//go:build verif

package server

import (
	"github.com/fatedier/frp/pkg/msg"
	plugin "github.com/fatedier/frp/pkg/plugin/server"
	"github.com/fatedier/frp/zzverif"
)

// VerifC15SessionEnd: close-proxy notifications reach the plugins exactly once for every proxy,
// those closed by an explicit CloseProxy message as well as those stopped by the end of the
// session, each naming its own proxy.
func VerifC15SessionEnd() {
	zzverif.SetPreempt(zzverif.Param("preempt", 0))
	pm := plugin.NewManager()
	p := &zzPlugin{name: "p0", tag: "+p0", outcome: 0, ops: map[string]bool{plugin.OpCloseProxy: true}}
	pm.Register(p)
	svr, _, _ := zzPortService()
	svr.pluginManager, svr.rc.PluginManager = pm, pm
	zzNetReset()
	zzProbeAnswer = true
	ctl, conn := zzControl(svr, "r1", 0)
	names := []string{"a", "b"}
	n := 1 + zzverif.Choice("proxies", 2)
	for i := 0; i < n; i++ {
		conn.script = append(conn.script, &msg.NewProxy{ProxyName: names[i], ProxyType: "tcp", RemotePort: 1000 + i})
	}
	explicit := zzverif.Bool("closeFirstExplicitly")
	if explicit {
		conn.script = append(conn.script, &msg.CloseProxy{ProxyName: "a"})
	}
	if zzverif.Bool("endedByARelogin") {
		// the session does not lose its connection: a second login with the same run id replaces it
		conn.closeCh = make(chan struct{})
		go ctl.worker()
		zzverif.Quiesce() // every message handled, the reader waits for more
		successor, _ := zzControl(svr, "r1b", 0)
		ctl.Replaced(successor)
		zzverif.Quiesce()
		zzverif.Reach("C15.end.replaced")
	} else {
		ctl.worker() // the script runs dry, the connection drops, the session ends
		zzverif.Quiesce()
	}
	zzverif.Assert(len(p.closed) == n, "C15.end.one-close-notification-per-proxy")
	for i := 0; i < n; i++ {
		cnt := 0
		for _, c := range p.closed {
			if c == names[i] {
				cnt++
			}
		}
		zzverif.Assert(cnt == 1, "C15.end.each-proxy-announced-exactly-once-by-its-own-name")
	}
	if n >= 2 {
		zzverif.Reach("C15.end.several-proxies")
	}
	if explicit {
		zzverif.Reach("C15.end.explicit-close")
	}
}
