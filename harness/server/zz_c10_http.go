//go:build verif

package server

import (
	"github.com/fatedier/frp/pkg/msg"
	"github.com/fatedier/frp/zzverif"
)

// VerifC10HTTPConflict: an http registration that fails part-way (a later route conflicts
// with another proxy's route) releases exactly what it had taken and leaves the other
// proxy's routes untouched; closing a proxy removes only its own routes.
func VerifC10HTTPConflict() {
	svr, routers := zzFullService(true, false, false, "x.com")
	other, _ := zzControl(svr, "r0", 0)
	ctl, _ := zzControl(svr, "r1", 0)
	doms := []string{"a.com", "b.com"}
	locs := []string{"/", "/x"}
	// the other session owns one of the routes the new proxy is going to ask for (or none)
	conflict := zzverif.Choice("conflictAt", 5)
	if conflict < 4 {
		_, err := other.RegisterProxy(&msg.NewProxy{ProxyName: "victim", ProxyType: "http", CustomDomains: []string{doms[conflict/2]}, Locations: []string{locs[conflict%2]}, HTTPUser: "other"})
		zzverif.Assume(err == nil)
	}
	nd := 1 + zzverif.Choice("domains", 2)
	nl := 1 + zzverif.Choice("locations", 2)
	m := &msg.NewProxy{ProxyName: "p", ProxyType: "http", CustomDomains: doms[:nd], Locations: locs[:nl], HTTPUser: "mine"}
	if zzverif.Bool("withSubdomain") {
		m.SubDomain = "s"
	}
	before := routers.ZZCount()
	_, err := ctl.RegisterProxy(m)
	hits := conflict < 4 && conflict/2 < nd && conflict%2 < nl
	zzverif.Assert((err != nil) == hits, "C10.http.refused-iff-route-taken")
	victimOK := func(label string) {
		if conflict < 4 {
			u, ok := routers.ZZRouteUsername(doms[conflict/2], locs[conflict%2], "")
			zzverif.Assert(ok && u == "other", label)
		}
	}
	if err != nil {
		zzverif.Reach("C10.http.partial-failure")
		zzverif.Assert(routers.ZZCount() == before, "C10.http.failed-registration-releases-its-routes")
		victimOK("C10.http.failed-registration-leaves-other-proxy's-route")
		_, ok := svr.pxyManager.GetByName("p")
		zzverif.Assert(!ok, "C10.http.failed-registration-releases-name")
		return
	}
	want := nd * nl
	if m.SubDomain != "" {
		want += nl
	}
	zzverif.Assert(routers.ZZCount() == before+want, "C10.http.all-routes-registered")
	_ = ctl.CloseProxy(&msg.CloseProxy{ProxyName: "p"})
	zzverif.Assert(routers.ZZCount() == before, "C10.http.close-releases-exactly-its-routes")
	victimOK("C10.http.close-leaves-other-proxy's-route")
	_, err = ctl.RegisterProxy(m)
	zzverif.Assert(err == nil, "C10.http.identical-registration-after-close-succeeds")
	zzverif.Reach("C10.http.cycle")
}
