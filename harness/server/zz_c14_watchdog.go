//go:build verif

package server

import (
	"time"

	"github.com/fatedier/frp/zzverif"
)

var zzWD struct {
	fn      func()
	period  time.Duration
	elapsed time.Duration
	started int
}

// stub for wait.Until: captures the periodic function and its period
func zzStubUntil(f func(), period time.Duration, stopCh <-chan struct{}) {
	zzWD.fn, zzWD.period = f, period
	zzWD.started++
}

// stub for time.Since: the elapsed time since the last heartbeat is symbolic
func zzStubSince(t time.Time) time.Duration { return zzWD.elapsed }

// VerifC14ServerWatchdog: one tick of the server's liveness watchdog.
func VerifC14ServerWatchdog() {
	svr := zzService(&zzVerifier{}, zzNoPlugins())
	t := zzverif.IntRange("timeoutSeconds", -2, 1<<20)
	svr.cfg.Transport.HeartbeatTimeout = int64(t)
	ctl, conn := zzControl(svr, "r1", 0)
	zzWD.fn, zzWD.started = nil, 0
	// elapsed = s whole seconds + r nanoseconds
	s := zzverif.IntRange("elapsedSeconds", 0, 1<<21)
	r := zzverif.IntRange("elapsedNanos", 0, 999999999)
	zzWD.elapsed = time.Duration(s)*time.Second + time.Duration(r)

	ctl.heartbeatWorker()
	zzverif.Quiesce()

	if t <= 0 {
		zzverif.Assert(zzWD.started == 0, "C14.wd.disabled-when-timeout-not-positive")
		zzverif.Reach("C14.wd.disabled")
		return
	}
	zzverif.Assert(zzWD.started == 1 && zzWD.fn != nil, "C14.wd.started")
	zzverif.Assert(zzWD.period == time.Second, "C14.wd.checked-every-second")
	zzWD.fn() // one tick
	// division-free reference: elapsed > t seconds  <=>  s > t, or s == t and r > 0
	dead := zzverif.Or(s > t, zzverif.And(s == t, r > 0))
	zzverif.Assert(zzverif.Iff(conn.closed >= 1, dead), "C14.wd.torn-down-iff-silent-longer-than-timeout")
	if conn.closed >= 1 {
		zzverif.Reach("C14.wd.torn-down")
	} else {
		zzverif.Reach("C14.wd.kept")
	}
}
