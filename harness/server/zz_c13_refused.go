//go:build verif

package server

import (
	"context"

	"github.com/fatedier/frp/pkg/config"
	"github.com/fatedier/frp/pkg/msg"
	"github.com/fatedier/frp/server/proxy"
	"github.com/fatedier/frp/zzverif"
)

// VerifC13RefusedJoin: a join that is refused (wrong key, other route) leaves the http group
// exactly as it was, also when the refused proxy carries the name of a live member (two sessions
// can get that far with one name when they register at the same moment).
func VerifC13RefusedJoin() {
	svr, routers := zzFullService(true, false, false, "")
	zzNetReset()
	ctl, _ := zzControl(svr, "r0", 0)
	first := &msg.NewProxy{ProxyName: "p", ProxyType: "http", CustomDomains: []string{"a.com"}, Group: "g", GroupKey: "k"}
	_, err := ctl.RegisterProxy(first)
	zzverif.Assume(err == nil)
	zzverif.Assert(len(svr.rc.HTTPGroupCtl.ZZMembers("g")) == 1 && routers.ZZCount() == 1, "C13.refused.group-created")

	// the second proxy goes straight to Run (as it does when its name check raced with the first)
	name := []string{"p", "q"}[zzverif.Choice("name", 2)]
	key := []string{"k", "wrong"}[zzverif.Choice("key", 2)]
	domain := []string{"a.com", "b.com"}[zzverif.Choice("domain", 2)]
	m := &msg.NewProxy{ProxyName: name, ProxyType: "http", CustomDomains: []string{domain}, Group: "g", GroupKey: key}
	cfg, err := config.NewProxyConfigurerFromMsg(m, svr.cfg)
	zzverif.Assume(err == nil)
	pxy, err := proxy.NewProxy(context.Background(), &proxy.Options{Configurer: cfg, ServerCfg: svr.cfg, ResourceController: svr.rc, LoginMsg: &msg.Login{}})
	zzverif.Assume(err == nil)
	_, err = pxy.Run()
	okJoin := key == "k" && domain == "a.com" && name != "p"
	if key == "k" && domain == "a.com" && name == "p" {
		// same name, same parameters: the group refuses a member name it already has or replaces it;
		// either way the group keeps exactly one member of that name
		zzverif.Assert(len(svr.rc.HTTPGroupCtl.ZZMembers("g")) == 1, "C13.refused.one-member-per-name")
		return
	}
	zzverif.Assert((err == nil) == okJoin, "C13.refused.join-iff-key-and-route-match")
	ms := svr.rc.HTTPGroupCtl.ZZMembers("g")
	if err != nil {
		zzverif.Assert(len(ms) == 1 && ms[0] == "p", "C13.refused.refused-join-leaves-the-group-unchanged")
		zzverif.Assert(routers.ZZCount() == 1, "C13.refused.refused-join-leaves-the-route")
		if name == "p" {
			zzverif.Reach("C13.refused.same-name")
		}
		zzverif.Reach("C13.refused.refused")
	} else {
		zzverif.Assert(len(ms) == 2, "C13.refused.accepted-join-adds-one-member")
		zzverif.Reach("C13.refused.joined")
	}
}
