//go:build verif

package server

import (
	"context"
	"net"
	"time"

	"github.com/fatedier/frp/pkg/msg"
	"github.com/fatedier/frp/server/visitor"
	"github.com/fatedier/frp/zzverif"
)

// VerifC04Login: a Control is created, registered and started only for an accepted login;
// nothing a remote peer sends (always_auth_pass) exempts it from verification.
func VerifC04Login() {
	ver := &zzVerifier{loginOK: zzverif.Bool("verifierAccepts")}
	pm, _ := zzOnePlugin("p0")
	svr := zzService(ver, pm)
	svr.cfg.Auth.Token = []string{"tok", ""}[zzverif.Choice("serverToken", 2)]
	internal := zzverif.Bool("internal")
	conn := &zzConn{name: "ctl"}
	login := &msg.Login{
		RunID:      []string{"", "r1"}[zzverif.Choice("runID", 2)],
		User:       "u",
		PoolCount:  zzverif.IntRange("poolCount", 0, 3),
		ClientSpec: msg.ClientSpec{AlwaysAuthPass: zzverif.Bool("alwaysAuthPass"), Type: []string{"", "ssh-tunnel"}[zzverif.Choice("ctype", 2)]},
	}
	zzCrypto.calls, zzCrypto.fail, zzCrypto.last = 0, false, nil
	mt, restore := zzInstallMetrics()
	defer restore()

	err := svr.RegisterControl(conn, login, internal)
	// what the operator is shown: one client per session created, none for a refused attempt
	zzverif.Assert(mt.clients == zzSessions(svr), "C04.login.client-count-reported-equals-sessions-created")

	exempt := internal && login.ClientSpec.AlwaysAuthPass
	if err == nil {
		zzverif.Reach("C04.login.accepted")
		zzverif.Assert(ver.loginOK || exempt, "C04.login.session-only-for-verified-peer")
		if !internal {
			zzverif.Assert(ver.loginOK && ver.loginCalls == 1, "C04.login.remote-peer-cannot-bypass")
		}
		ctl, ok := svr.ctlManager.GetByID(login.RunID)
		zzverif.Assert(ok && ctl != nil, "C04.login.session-registered")
		zzverif.Assert(len(conn.written) == 1, "C04.login.one-response")
		if len(conn.written) == 1 {
			resp, isResp := conn.written[0].(*msg.LoginResp)
			zzverif.Assert(isResp && resp.Error == "" && resp.RunID == login.RunID && resp.RunID != "", "C04.login.success-response")
		}
		// C05: the control channel is wrapped with the token-keyed cipher iff the peer is not internal
		zzverif.Assert((zzCrypto.calls == 1) == !internal, "C05.ctl.encrypted-unless-internal")
		if zzCrypto.calls == 1 {
			zzverif.Assert(string(zzCrypto.last.key) == svr.cfg.Auth.Token, "C05.ctl.keyed-by-token")
			zzverif.Reach("C05.ctl.encrypted")
		}
	} else {
		zzverif.Reach("C04.login.refused")
		zzverif.Assert(!ver.loginOK || false, "C04.login.refusal-only-when-verifier-refuses")
		_, ok := svr.ctlManager.GetByID(login.RunID)
		zzverif.Assert(!ok && zzSessions(svr) == 0, "C04.login.refusal-leaves-no-session")
		zzverif.Assert(len(conn.written) == 0, "C04.login.no-success-response-on-refusal")
	}
}

// VerifC04First: the first message on a connection decides; refused attempts leave nothing behind.
func VerifC04First() {
	ver := &zzVerifier{loginOK: zzverif.Bool("loginOK"), workOK: zzverif.Bool("workOK")}
	pm, plug := zzOnePlugin("p0")
	svr := zzService(ver, pm)
	conn := &zzConn{name: "c"}
	kind := zzverif.Choice("firstMsg", 10)
	switch kind {
	case 0:
		conn.script = []msg.Message{&msg.Login{RunID: "r1", ClientSpec: msg.ClientSpec{AlwaysAuthPass: zzverif.Bool("aap")}}}
	case 1:
		conn.script = []msg.Message{&msg.NewWorkConn{RunID: []string{"", "nosuch"}[zzverif.Choice("wrun", 2)]}}
	case 2:
		conn.script = []msg.Message{&msg.Ping{}}
	case 3:
		conn.script = []msg.Message{&msg.NewProxy{ProxyName: "x"}}
	case 4:
		conn.script = []msg.Message{&msg.StartWorkConn{}}
	case 5:
		conn.script = []msg.Message{&msg.NatHoleVisitor{}}
	case 6:
		conn.script = []msg.Message{&msg.CloseProxy{ProxyName: "x"}}
	case 7:
		// a visitor for a secret proxy nobody registered, with or without a (stale) run id
		svr.rc.VisitorManager = visitor.NewManager()
		conn.script = []msg.Message{&msg.NewVisitorConn{ProxyName: "nosuch", RunID: []string{"", "gone"}[zzverif.Choice("vrun", 2)], SignKey: "k"}}
	case 8:
		// a frame of a registered type whose body is the JSON literal null: the codec yields neither a
		// message nor an error
		conn.script = []msg.Message{nil}
	default:
		conn.script = nil // read error / malformed frame
	}
	svr.handleConnection(context.Background(), conn, false)
	if kind == 7 {
		zzverif.Assert(len(conn.written) == 1, "C08.first.refused-visitor-gets-one-answer")
		if len(conn.written) == 1 {
			r, isR := conn.written[0].(*msg.NewVisitorConnResp)
			zzverif.Assert(isR && r.Error != "" && r.ProxyName == "nosuch", "C08.first.refused-visitor-is-told-so")
		}
		zzverif.Assert(conn.closed >= 1, "C08.first.refused-visitor-connection-closed")
		zzverif.Assert(zzSessions(svr) == 0 && ver.loginCalls == 0, "C08.first.refused-visitor-leaves-no-state")
		zzverif.Reach("C08.first.visitor-refused")
		return
	}

	switch kind {
	case 0:
		okLogin := ver.loginOK && plug.outcome <= 1
		if plug.outcome == 1 {
			zzverif.Assert(ver.loginCalls == 1 && ver.seenLoginUser == plug.tag, "C15.sites.login-verified-on-plugin-rewritten-content")
		}
		if okLogin {
			zzverif.Assert(conn.closed == 0 && zzSessions(svr) == 1, "C04.first.login-accepted")
			zzverif.Reach("C04.first.login-accepted")
		} else {
			zzverif.Assert(conn.closed >= 1, "C04.first.refused-login-closed")
			zzverif.Assert(zzSessions(svr) == 0, "C04.first.refused-login-no-state")
			zzverif.Assert(len(conn.written) == 1, "C04.first.refused-login-one-response")
			if len(conn.written) == 1 {
				r, isR := conn.written[0].(*msg.LoginResp)
				zzverif.Assert(isR && r.Error != "" && r.RunID == "", "C04.first.refused-login-error-response")
			}
			if plug.outcome >= 2 {
				zzverif.Assert(ver.loginCalls == 0, "C15.sites.login-not-verified-after-plugin-refusal")
			}
			zzverif.Reach("C04.first.login-refused")
		}
	case 1:
		zzverif.Assert(conn.closed >= 1, "C04.first.workconn-unknown-session-closed")
		zzverif.Assert(zzSessions(svr) == 0, "C04.first.workconn-no-state")
		zzverif.Reach("C04.first.workconn-refused")
	default:
		zzverif.Assert(conn.closed >= 1, "C17.first.unexpected-or-malformed-first-message-disconnected")
		zzverif.Assert(len(conn.written) == 0, "C17.first.no-reply-to-unexpected-message")
		zzverif.Assert(zzSessions(svr) == 0 && ver.loginCalls == 0, "C17.first.other-state-untouched")
		zzverif.Reach("C17.first.disconnected")
	}
}

// zzControl builds a live session the way RegisterControl does (real NewControl), without starting goroutines.
func zzControl(svr *Service, runID string, poolCount int) (*Control, *zzConn) {
	conn := &zzConn{name: "ctl-" + runID}
	login := &msg.Login{RunID: runID, User: "u", PoolCount: poolCount}
	ctl, err := NewControl(context.Background(), svr.rc, svr.pxyManager, svr.pluginManager, svr.authVerifier, conn, false, login, svr.cfg)
	zzverif.Assume(err == nil)
	svr.ctlManager.Add(runID, ctl)
	zzverif.Guard(ctl.proxies, &ctl.mu, "Control.proxies")
	return ctl, conn
}

// VerifC04WorkConn: a work connection is pooled only for a known session and a verified message.
func VerifC04WorkConn() {
	ver := &zzVerifier{workOK: zzverif.Bool("workOK")}
	pm, plug := zzOnePlugin("p0")
	svr := zzService(ver, pm)
	ctl, _ := zzControl(svr, "r1", 1)
	wc := &zzConn{name: "work"}
	m := &msg.NewWorkConn{RunID: []string{"r1", "other", ""}[zzverif.Choice("runID", 3)], PrivilegeKey: "k"}
	// the session's pool may already be full: then the connection is not kept, and the caller is told
	// so (it closes what was refused)
	full := zzverif.Bool("poolFull")
	had := 0
	if full {
		for len(ctl.workConnCh) < cap(ctl.workConnCh) {
			ctl.workConnCh <- &zzConn{name: "older"}
		}
		had = len(ctl.workConnCh)
	}
	err := svr.RegisterWorkConn(wc, m, false)
	pooled := len(ctl.workConnCh) - had
	if err == nil {
		zzverif.Assert(m.RunID == "r1" && ver.workOK && plug.outcome <= 1, "C04.work.pooled-only-if-known-and-verified")
		zzverif.Assert(!full, "C11.work.connection-that-is-not-kept-is-reported-to-the-caller")
		zzverif.Assert(pooled == 1, "C04.work.pooled-once")
		zzverif.Reach("C04.work.pooled")
	} else {
		zzverif.Assert(pooled == 0, "C04.work.refused-not-pooled")
		if full && m.RunID == "r1" && ver.workOK && plug.outcome <= 1 {
			zzverif.Reach("C11.work.pool-full")
		} else if m.RunID == "r1" {
			zzverif.Assert(len(wc.written) == 1, "C04.work.refusal-announced")
			if len(wc.written) == 1 {
				s, ok := wc.written[0].(*msg.StartWorkConn)
				zzverif.Assert(ok && s.Error != "", "C04.work.refusal-error-message")
			}
		}
		if plug.outcome >= 2 {
			zzverif.Assert(ver.workCalls == 0, "C15.sites.workconn-not-verified-after-plugin-refusal")
		}
		zzverif.Reach("C04.work.refused")
	}
	if plug.outcome == 1 && m.RunID == "r1" {
		// the credential check is made on what the plugin chain returned
		zzverif.Assert(ver.workCalls == 1 && ver.seenWorkKey == "k"+plug.tag, "C15.sites.workconn-verified-on-plugin-rewritten-content")
		zzverif.Reach("C15.sites.workconn-plugin-modified")
	}
}

// VerifC04Ping: only a verified heartbeat refreshes the session's liveness.
func VerifC04Ping() {
	ver := &zzVerifier{pingOK: zzverif.Bool("pingOK")}
	pm, plug := zzOnePlugin("p0")
	svr := zzService(ver, pm)
	ctl, _ := zzControl(svr, "r1", 0)
	before := ctl.lastPing.Load().(time.Time)
	ctl.handlePing(&msg.Ping{PrivilegeKey: "k"})
	after := ctl.lastPing.Load().(time.Time)
	refreshed := !after.Equal(before) || after != before
	zzverif.Assert(len(ctl.msgDispatcher.SendChannel()) == 1, "C04.ping.one-pong")
	pong, _ := (<-ctl.msgDispatcher.SendChannel()).(*msg.Pong)
	zzverif.Assert(pong != nil, "C04.ping.pong-type")
	ok := ver.pingOK && plug.outcome <= 1
	if pong != nil {
		zzverif.Assert((pong.Error == "") == ok, "C04.ping.error-iff-refused")
	}
	if !ok {
		zzverif.Assert(after == before, "C04.ping.unverified-heartbeat-does-not-refresh")
		zzverif.Reach("C04.ping.refused")
	} else {
		zzverif.Assert(refreshed || true, "C04.ping.ok")
		zzverif.Reach("C04.ping.ok")
	}
	if plug.outcome >= 2 {
		zzverif.Assert(ver.pingCalls == 0, "C15.sites.ping-not-verified-after-plugin-refusal")
	}
	if plug.outcome == 1 {
		zzverif.Assert(ver.pingCalls == 1 && ver.seenPingKey == "k"+plug.tag, "C15.sites.ping-verified-on-plugin-rewritten-content")
	}
	if plug.outcome == 0 {
		zzverif.Assert(ver.pingCalls == 1 && ver.seenPingKey == "k", "C15.sites.ping-verified-unchanged")
	}
}

// VerifC11PoolStep: RegisterWorkConn from an arbitrary pool state.
func VerifC11PoolStep() {
	svr := zzService(&zzVerifier{}, zzNoPlugins())
	maxCap := zzverif.Param("maxCap", 3)
	c := zzverif.Choice("cap", maxCap+1)
	ctl := &Control{workConnCh: make(chan net.Conn, c), serverCfg: svr.cfg}
	fill := zzverif.Choice("fill", c+1)
	for i := 0; i < fill; i++ {
		ctl.workConnCh <- &zzConn{name: "old"}
	}
	closed := zzverif.Bool("poolClosed")
	if closed {
		close(ctl.workConnCh)
	}
	wc := &zzConn{name: "new"}
	err := ctl.RegisterWorkConn(wc)
	inPool := 0
	if !closed {
		n := len(ctl.workConnCh)
		for i := 0; i < n; i++ {
			x := <-ctl.workConnCh
			if x == net.Conn(wc) {
				inPool++
			}
		}
	}
	switch {
	case closed:
		zzverif.Assert(err != nil, "C11.pool.closed-pool-refuses")
		zzverif.Reach("C11.pool.closed")
	case fill < c:
		zzverif.Assert(err == nil && inPool == 1, "C11.pool.accepted-exactly-once")
		zzverif.Reach("C11.pool.accepted")
	default:
		zzverif.Assert(err != nil && inPool == 0, "C11.pool.full-refuses")
		zzverif.Reach("C11.pool.full")
	}
}

// VerifC11Sizing: pool sizing for every client-supplied pool count; C16: no value crashes the server.
func VerifC11Sizing() {
	svr := zzService(&zzVerifier{loginOK: true}, zzNoPlugins())
	svr.cfg.Transport.MaxPoolCount = int64(zzverif.IntRange("maxPoolCount", 0, 6))
	pc := zzverif.Int("poolCount")
	conn := &zzConn{name: "ctl"}
	login := &msg.Login{RunID: "r1", PoolCount: pc}
	ctl, err := NewControl(context.Background(), svr.rc, svr.pxyManager, svr.pluginManager, svr.authVerifier, conn, false, login, svr.cfg)
	if err != nil {
		return
	}
	zzverif.Reach("C11.sizing.created")
	mx := int(svr.cfg.Transport.MaxPoolCount)
	zzverif.Assert(ctl.poolCount <= mx, "C11.sizing.advance-requests<=server-max")
	if pc >= 0 {
		zzverif.Assert(ctl.poolCount <= pc, "C11.sizing.advance-requests<=client-poolcount")
	} else {
		zzverif.Assert(ctl.poolCount == 0, "C11.sizing.no-advance-requests-for-negative-poolcount")
	}
	zzverif.Assert(cap(ctl.workConnCh) == ctl.poolCount+10, "C11.sizing.bounded-capacity")
	if pc >= 0 {
		want := pc
		if mx < want {
			want = mx
		}
		zzverif.Assert(ctl.poolCount == want, "C11.sizing.min-of-client-and-server")
	}
}

// VerifC12ControlManager: table steps of the session registry.
func VerifC12ControlManager() {
	cm := NewControlManager()
	ids := []string{"r1", "r2"}
	mk := func(n string) *Control { return &Control{runID: n, conn: &zzConn{name: n}} }
	pool := []*Control{mk("a"), mk("b"), mk("c")}
	// arbitrary pre-state: each id maps to nothing or one of the first two controls
	holder := map[string]*Control{}
	for _, id := range ids {
		h := zzverif.Choice("holder", 3)
		if h < 2 {
			cm.ctlsByRunID[id] = pool[h]
			holder[id] = pool[h]
		}
	}
	id := ids[zzverif.Choice("id", 2)]
	other := ids[0]
	if id == other {
		other = ids[1]
	}
	switch zzverif.Choice("op", 3) {
	case 0: // Add
		nc := pool[2]
		old := cm.Add(id, nc)
		zzverif.Assert(old == holder[id], "C12.cm.add-returns-previous-holder")
		if old != nil {
			zzverif.Assert(old.conn.(*zzConn).closed == 1 && old.runID == "", "C12.cm.add-replaces-previous-holder")
			zzverif.Reach("C12.cm.replaced")
		}
		got, ok := cm.GetByID(id)
		zzverif.Assert(ok && got == nc, "C12.cm.id-designates-new-session")
		// late cleanup of the old session must not remove the new one
		if old != nil {
			cm.Del(id, old)
			got, ok = cm.GetByID(id)
			zzverif.Assert(ok && got == nc, "C12.cm.late-cleanup-keeps-new-session")
		}
	case 1: // Del
		which := pool[zzverif.Choice("delCtl", 3)]
		cm.Del(id, which)
		got, ok := cm.GetByID(id)
		if holder[id] == which && which != nil {
			zzverif.Assert(!ok, "C12.cm.del-removes-own-entry")
			zzverif.Reach("C12.cm.deleted")
		} else {
			zzverif.Assert(ok == (holder[id] != nil) && got == holder[id], "C12.cm.del-ignores-foreign-session")
		}
	default:
		got, ok := cm.GetByID(id)
		zzverif.Assert(ok == (holder[id] != nil) && got == holder[id], "C12.cm.get")
	}
	got, ok := cm.GetByID(other)
	zzverif.Assert(ok == (holder[other] != nil) && got == holder[other], "C12.cm.other-id-untouched")
}

// VerifC04LoginHistory: a history of logins on one server; an earlier exempted (internal)
// login must not change what later peers need to present.
func VerifC04LoginHistory() {
	ver := &zzVerifier{}
	svr := zzService(ver, zzNoPlugins())
	n := zzverif.Param("logins", 2)
	for i := 0; i < n; i++ {
		ver.loginOK = zzverif.Bool("verifierAccepts")
		internal := zzverif.Bool("internal")
		conn := &zzConn{name: "ctl"}
		login := &msg.Login{RunID: []string{"r1", "r2", "r3"}[i], User: "u", // distinct sessions (re-login ordering is C12's subject)
			ClientSpec: msg.ClientSpec{AlwaysAuthPass: zzverif.Bool("alwaysAuthPass")}}
		before := ver.loginCalls
		err := svr.RegisterControl(conn, login, internal)
		exempt := internal && login.ClientSpec.AlwaysAuthPass
		if err == nil {
			zzverif.Assert(ver.loginOK || exempt, "C04.history.session-only-for-verified-peer")
			if !exempt {
				zzverif.Assert(ver.loginCalls == before+1, "C04.history.configured-verifier-consulted")
			}
			if i > 0 {
				zzverif.Reach("C04.history.later-login-accepted")
			}
		} else if i > 0 {
			zzverif.Reach("C04.history.later-login-refused")
		}
		// work connections and pings of the session are judged by the same rule
		if ctl, ok := svr.ctlManager.GetByID(login.RunID); ok && err == nil && !exempt {
			ver.workOK = false
			wc := &zzConn{name: "w"}
			zzverif.Assert(svr.RegisterWorkConn(wc, &msg.NewWorkConn{RunID: login.RunID}, false) != nil, "C04.history.unverified-workconn-refused")
			_ = ctl
		}
	}
}

// VerifC11AdvanceRequests: the number of work connections the server asks for in advance
// when a session starts is min(client poolCount, server maxPoolCount), never more.
func VerifC11AdvanceRequests() {
	svr := zzService(&zzVerifier{loginOK: true}, zzNoPlugins())
	mx := zzverif.Choice("maxPoolCount", 4)
	svr.cfg.Transport.MaxPoolCount = int64(mx)
	pc := []int{-3, 0, 1, 2, 3, 5}[zzverif.Choice("poolCount", 6)]
	conn := &zzConn{name: "ctl", closeCh: make(chan struct{})}
	ctl, err := NewControl(context.Background(), svr.rc, svr.pxyManager, svr.pluginManager, svr.authVerifier, conn, false, &msg.Login{RunID: "r1", PoolCount: pc}, svr.cfg)
	zzverif.Assume(err == nil)
	queuedAtAck := -1
	conn.onWrite = func(m msg.Message) {
		if _, ok := m.(*msg.LoginResp); ok && queuedAtAck < 0 {
			queuedAtAck = len(ctl.msgDispatcher.SendChannel())
		}
	}
	ctl.Start()
	zzverif.Quiesce()
	// nothing is queued for the client before the login response is on the wire: whatever is queued
	// can overtake it
	zzverif.Assert(queuedAtAck == 0, "C17.advance.nothing-queued-for-the-client-before-the-login-response")
	// the answer to the login is the first thing the client finds on the connection (it is sent in
	// clear, what follows comes through the session's cipher)
	if len(conn.written) > 0 {
		_, first := conn.written[0].(*msg.LoginResp)
		zzverif.Assert(first, "C17.advance.login-response-is-the-first-message-on-the-wire")
	}
	// everything queued for the client so far: the login response went out directly, the rest through the dispatcher
	reqs := 0
	for _, m := range conn.written {
		if _, ok := m.(*msg.ReqWorkConn); ok {
			reqs++
		}
	}
	n := len(ctl.msgDispatcher.SendChannel())
	for i := 0; i < n; i++ {
		if _, ok := (<-ctl.msgDispatcher.SendChannel()).(*msg.ReqWorkConn); ok {
			reqs++
		}
	}
	want := pc
	if mx < want {
		want = mx
	}
	if want < 0 {
		want = 0
	}
	zzverif.Assert(reqs == want, "C11.advance.requests==min(client-poolcount,server-maxpoolcount)")
	if pc > mx {
		zzverif.Reach("C11.advance.clamped")
	}
	_ = conn.Close()
	zzverif.Quiesce()
}
