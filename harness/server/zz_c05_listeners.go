//go:build verif

package server

import (
	"context"
	"crypto/tls"
	"crypto/x509"
	"net"

	gomux "github.com/fatedier/golib/net/mux"
	"github.com/quic-go/quic-go"

	"github.com/fatedier/frp/pkg/config/types"
	v1 "github.com/fatedier/frp/pkg/config/v1"
	netpkg "github.com/fatedier/frp/pkg/util/net"
	"github.com/fatedier/frp/zzverif"
)

var zzTLS struct {
	pool    *x509.CertPool
	quicCfg *tls.Config
	quicN   int
	kcpN    int
}

func zzStubRandomKeyPair() *tls.Certificate                          { return &tls.Certificate{} }
func zzStubCustomKeyPair(cert, key string) (*tls.Certificate, error) { return &tls.Certificate{}, nil }
func zzStubCertPool(ca string) (*x509.CertPool, error) {
	zzTLS.pool = &x509.CertPool{}
	return zzTLS.pool, nil
}
func zzStubQuicListenAddr(addr string, tlsConf *tls.Config, config *quic.Config) (*quic.Listener, error) {
	zzTLS.quicCfg = tlsConf
	zzTLS.quicN++
	return &quic.Listener{}, nil
}
func zzStubListenKcp(address string) (net.Listener, error) {
	zzTLS.kcpN++
	return &zzListener{addr: address}, nil
}

// VerifC05Listeners: every TLS-terminating listener NewService creates carries the peer
// verification settings that the trusted CA implies (TCP/websocket share svr.tlsConfig; QUIC
// gets its own copy).
func VerifC05Listeners() {
	cfg := &v1.ServerConfig{BindAddr: "0.0.0.0", BindPort: 7000, ProxyBindAddr: "0.0.0.0"}
	cfg.AllowPorts = []types.PortsRange{{Start: 1000, End: 1001}} // (an empty list seeds 65535 ports twice: irrelevant here)
	hasCA := zzverif.Bool("trustedCA")
	if hasCA {
		cfg.Transport.TLS.TrustedCaFile = "/ca.pem"
	}
	if zzverif.Bool("ownCert") {
		cfg.Transport.TLS.CertFile, cfg.Transport.TLS.KeyFile = "/c.pem", "/k.pem"
	}
	quicOn := zzverif.Bool("quic")
	if quicOn {
		cfg.QUICBindPort = 7001
	}
	if zzverif.Bool("kcp") {
		cfg.KCPBindPort = 7002
	}
	cfg.Complete()
	zzNetReset()
	zzTLS.pool, zzTLS.quicCfg, zzTLS.quicN, zzTLS.kcpN = nil, nil, 0, 0
	svr, err := NewService(cfg)
	zzverif.Assert(err == nil && svr != nil, "C05.listeners.service-created")
	if err != nil {
		return
	}
	if hasCA {
		zzverif.Assert(cfg.Transport.TLS.Force, "C05.listeners.ca-forces-tls")
		zzverif.Assert(svr.tlsConfig.ClientAuth == tls.RequireAndVerifyClientCert && svr.tlsConfig.ClientCAs == zzTLS.pool && zzTLS.pool != nil, "C05.listeners.tcp-requires-verified-client-cert")
	}
	if quicOn {
		zzverif.Assert(zzTLS.quicN == 1 && zzTLS.quicCfg != nil, "C05.listeners.quic-created")
		if zzTLS.quicCfg != nil {
			zzverif.Assert(len(zzTLS.quicCfg.Certificates) == 1, "C05.listeners.quic-has-certificate")
			if hasCA {
				zzverif.Assert(zzTLS.quicCfg.ClientAuth == tls.RequireAndVerifyClientCert && zzTLS.quicCfg.ClientCAs == zzTLS.pool, "C05.listeners.quic-requires-verified-client-cert")
				zzverif.Reach("C05.listeners.quic-mutual")
			}
		}
	}
	_ = context.Background
	zzverif.Reach("C05.listeners.done")
}

// stub for (*golib mux.Mux).Listen (uses reflection-based sort.Slice)
func zzStubMuxListen(m *gomux.Mux, priority int, needBytesNum uint32, fn gomux.MatchFunc) net.Listener {
	return &zzListener{addr: "mux"}
}

// stub for netpkg.NewWebsocketListener (net/http server plumbing)
func zzStubNewWebsocketListener(ln net.Listener) *netpkg.WebsocketListener {
	return &netpkg.WebsocketListener{}
}
