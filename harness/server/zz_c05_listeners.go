//go:build verif

package server

import (
	"context"
	"crypto/tls"
	"crypto/x509"
	"net"

	gomux "github.com/fatedier/golib/net/mux"
	"github.com/quic-go/quic-go"

	"github.com/fatedier/frp/pkg/config/types"
	v1 "github.com/fatedier/frp/pkg/config/v1"
	netpkg "github.com/fatedier/frp/pkg/util/net"
	"github.com/fatedier/frp/zzverif"
)

var zzTLS struct {
	pool    *x509.CertPool
	quicCfg *tls.Config
	quicN   int
	kcpN    int
}

func zzStubRandomKeyPair() *tls.Certificate                          { return &tls.Certificate{} }
func zzStubCustomKeyPair(cert, key string) (*tls.Certificate, error) { return &tls.Certificate{}, nil }
func zzStubCertPool(ca string) (*x509.CertPool, error) {
	zzTLS.pool = &x509.CertPool{}
	return zzTLS.pool, nil
}
func zzStubQuicListenAddr(addr string, tlsConf *tls.Config, config *quic.Config) (*quic.Listener, error) {
	zzTLS.quicCfg = tlsConf
	zzTLS.quicN++
	return &quic.Listener{}, nil
}
func zzStubListenKcp(address string) (net.Listener, error) {
	zzTLS.kcpN++
	return &zzListener{addr: address}, nil
}

// VerifC05Listeners: every TLS-terminating listener NewService creates carries the peer
// verification settings that the trusted CA implies (TCP/websocket share svr.tlsConfig; QUIC
// gets its own copy).
func VerifC05Listeners() {
	cfg := &v1.ServerConfig{BindAddr: "0.0.0.0", BindPort: 7000, ProxyBindAddr: "0.0.0.0"}
	splitAddrs := zzverif.Bool("proxiesBindAnotherAddress")
	if splitAddrs {
		cfg.BindAddr, cfg.ProxyBindAddr = "10.0.0.1", "10.0.0.2"
	}
	cfg.AllowPorts = []types.PortsRange{{Start: 1000, End: 1001}} // (an empty list seeds 65535 ports twice: irrelevant here)
	hasCA := zzverif.Bool("trustedCA")
	if hasCA {
		cfg.Transport.TLS.TrustedCaFile = "/ca.pem"
	}
	if zzverif.Bool("ownCert") {
		cfg.Transport.TLS.CertFile, cfg.Transport.TLS.KeyFile = "/c.pem", "/k.pem"
	}
	quicOn := zzverif.Bool("quic")
	if quicOn {
		cfg.QUICBindPort = 7001
	}
	if zzverif.Bool("kcp") {
		cfg.KCPBindPort = 7002
	}
	sharedHTTPS := zzverif.Bool("vhostHTTPSOnTheControlPort")
	if sharedHTTPS {
		cfg.VhostHTTPSPort = 7000
	}
	cfg.Complete()
	zzNetReset()
	zzMuxLns = nil
	zzTLS.pool, zzTLS.quicCfg, zzTLS.quicN, zzTLS.kcpN = nil, nil, 0, 0
	svr, err := NewService(cfg)
	zzverif.Assert(err == nil && svr != nil, "C05.listeners.service-created")
	if err != nil {
		return
	}
	// the plugins consulted for user connections (through the resource controller) are the
	// registered ones: one manager, not a second empty one
	zzverif.Assert(svr.rc.PluginManager == svr.pluginManager && svr.pluginManager != nil, "C15.listeners.proxies-consult-the-registered-plugins")
	// ports are probed where the proxies will bind them, per network
	tn, ta := svr.rc.TCPPortManager.ZZProbe()
	un, ua := svr.rc.UDPPortManager.ZZProbe()
	zzverif.Assert(tn == "tcp" && un == "udp" && ta == cfg.ProxyBindAddr && ua == cfg.ProxyBindAddr, "C09.listeners.port-availability-probed-on-the-address-proxies-bind")
	if splitAddrs {
		zzverif.Reach("C09.listeners.split-addresses")
	}
	if hasCA {
		zzverif.Assert(cfg.Transport.TLS.Force, "C05.listeners.ca-forces-tls")
		zzverif.Assert(svr.tlsConfig.ClientAuth == tls.RequireAndVerifyClientCert && svr.tlsConfig.ClientCAs == zzTLS.pool && zzTLS.pool != nil, "C05.listeners.tcp-requires-verified-client-cert")
	}
	if quicOn {
		zzverif.Assert(zzTLS.quicN == 1 && zzTLS.quicCfg != nil, "C05.listeners.quic-created")
		if zzTLS.quicCfg != nil {
			zzverif.Assert(len(zzTLS.quicCfg.Certificates) == 1, "C05.listeners.quic-has-certificate")
			if hasCA {
				zzverif.Assert(zzTLS.quicCfg.ClientAuth == tls.RequireAndVerifyClientCert && zzTLS.quicCfg.ClientCAs == zzTLS.pool, "C05.listeners.quic-requires-verified-client-cert")
				zzverif.Reach("C05.listeners.quic-mutual")
			}
		}
	}
	// the shared port: a TLS ClientHello belongs to the https vhost when that shares the port,
	// to the control channel otherwise; the frp TLS marker byte always to the control channel
	hello := []byte{0x16, 0x03, 0x01, 0x00, 0x05}
	if sharedHTTPS && !splitAddrs { // (same port on another address is another socket: nothing is shared)
		zzverif.Assert(svr.rc.VhostHTTPSMuxer != nil, "C06.listeners.https-vhost-on-the-shared-port")
		zzverif.Assert(zzMuxRoute(hello) != nil && zzMuxRoute(hello) != svr.tlsListener, "C06.listeners.client-hello-on-the-shared-port-goes-to-the-https-vhost")
		zzverif.Reach("C06.listeners.shared-https")
	} else {
		zzverif.Assert(zzMuxRoute(hello) == svr.tlsListener, "C05.listeners.client-hello-goes-to-the-control-channel")
	}
	zzverif.Assert(zzMuxRoute([]byte{0x17, 0x00, 0x00, 0x00, 0x00}) == svr.tlsListener, "C05.listeners.frp-tls-marker-goes-to-the-control-channel")
	_ = context.Background
	zzverif.Reach("C05.listeners.done")
}

// stub for (*golib mux.Mux).Listen (uses reflection-based sort.Slice): records the order in which
// the shared port would consult its listeners (ascending priority, then fewer needed bytes)
type zzMuxEntry struct {
	priority  int
	needBytes uint32
	fn        gomux.MatchFunc
	ln        net.Listener
}

var zzMuxLns []zzMuxEntry

func zzStubMuxListen(m *gomux.Mux, priority int, needBytesNum uint32, fn gomux.MatchFunc) net.Listener {
	l := &zzListener{addr: "mux"}
	zzMuxLns = append(zzMuxLns, zzMuxEntry{priority, needBytesNum, fn, l})
	return l
}

// zzMuxRoute returns the listener the shared port hands a connection with these first bytes to
func zzMuxRoute(first []byte) net.Listener {
	best := -1
	for i, e := range zzMuxLns {
		if !e.fn(first) {
			continue
		}
		if best < 0 || e.priority < zzMuxLns[best].priority || (e.priority == zzMuxLns[best].priority && e.needBytes < zzMuxLns[best].needBytes) {
			best = i
		}
	}
	if best < 0 {
		return nil
	}
	return zzMuxLns[best].ln
}

// stub for netpkg.NewWebsocketListener (net/http server plumbing)
func zzStubNewWebsocketListener(ln net.Listener) *netpkg.WebsocketListener {
	return &netpkg.WebsocketListener{}
}
