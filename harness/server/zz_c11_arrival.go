//go:build verif

package server

import (
	"github.com/fatedier/frp/pkg/msg"
	"github.com/fatedier/frp/zzverif"
)

// VerifC11ArrivalDuringTeardown: a work connection that arrives while its session is ending - at any
// moment of the teardown - is either refused (the caller then closes it) or pooled and closed with
// the session; it is never accepted and left open with nobody to use it.
func VerifC11ArrivalDuringTeardown() {
	zzverif.SetPreempt(zzverif.Param("preempt", 1))
	svr, _, _ := zzPortService()
	zzNetReset()
	zzProbeAnswer = true
	ctl, conn := zzControl(svr, "r1", 1)
	if zzverif.Bool("hasAProxy") {
		conn.script = append(conn.script, &msg.NewProxy{ProxyName: "a", ProxyType: "tcp", RemotePort: 1000})
	}
	wc := &zzConn{name: "arriving"}
	var regErr error
	registered := false
	switch zzverif.Choice("arrives", 3) {
	case 0:
		// after the end
		ctl.worker()
		regErr = ctl.RegisterWorkConn(wc)
		registered = true
		zzverif.Reach("C11.arrival.after-the-end")
	case 1:
		// while the session's proxies are being shut down (the listener of proxy "a" is closing)
		zzverif.Assume(len(conn.script) > 0)
		zzNet.onListenerClose = func() {
			regErr = ctl.RegisterWorkConn(wc)
			registered = true
			zzverif.Reach("C11.arrival.while-proxies-are-closed")
		}
		ctl.worker()
	default:
		go func() {
			regErr = ctl.RegisterWorkConn(wc)
			registered = true
		}()
		ctl.worker() // the connection drops, the session is torn down
	}
	zzverif.Quiesce()
	zzverif.Assert(registered, "C11.arrival.registration-returns")
	select {
	case <-ctl.doneCh:
	default:
		zzverif.Fail("C11.arrival.session-ended")
	}
	if regErr == nil {
		zzverif.Assert(wc.closed >= 1, "C11.arrival.accepted-work-connection-is-closed-with-the-session")
		zzverif.Reach("C11.arrival.pooled-then-closed")
	} else {
		zzverif.Reach("C11.arrival.refused")
	}
}
