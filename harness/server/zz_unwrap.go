//go:build verif

package server

import (
	netpkg "github.com/fatedier/frp/pkg/util/net"
)

func zzUnwrapReflect(w interface{}) *zzConn {
	if cc, ok := w.(*netpkg.ContextConn); ok {
		return zzUnwrap(cc.Conn)
	}
	return nil
}
