//go:build verif

package server

import (
	"crypto/tls"
	"net"
	"time"

	"github.com/fatedier/frp/pkg/msg"
	"github.com/fatedier/frp/zzverif"
)

type zzAcceptLn struct {
	conns  []*zzConn
	pos    int
	closed int
}

func (l *zzAcceptLn) Accept() (net.Conn, error) {
	if l.pos >= len(l.conns) {
		return nil, errZZ
	}
	c := l.conns[l.pos]
	l.pos++
	return c, nil
}
func (l *zzAcceptLn) Close() error   { l.closed++; return nil }
func (l *zzAcceptLn) Addr() net.Addr { return zzAddr{"0.0.0.0:7000"} }

var zzTLSCheck struct {
	failFor map[*zzConn]bool
}

// stub for netpkg.CheckAndEnableTLSServerConnWithTimeout: the sniff verdict per connection is symbolic
func zzStubCheckTLS(c net.Conn, cfg *tls.Config, tlsOnly bool, timeout time.Duration) (net.Conn, bool, bool, error) {
	if fc := zzUnwrap(c); fc != nil && zzTLSCheck.failFor[fc] {
		return nil, false, false, errZZ
	}
	return c, false, false, nil
}

// VerifC17Listener: a peer whose first bytes are refused is disconnected and the listener
// keeps serving the peers that come after it.
func VerifC17Listener() {
	svr := zzService(&zzVerifier{loginOK: true}, zzNoPlugins())
	f := false
	svr.cfg.Transport.TCPMux = &f
	n := 2 + zzverif.Choice("peers", 2)
	ln := &zzAcceptLn{}
	zzTLSCheck.failFor = map[*zzConn]bool{}
	var bad []bool
	for i := 0; i < n; i++ {
		c := &zzConn{name: "peer"}
		b := zzverif.Bool("refusedAtSniff")
		bad = append(bad, b)
		zzTLSCheck.failFor[c] = b
		if !b {
			switch zzverif.Choice("first", 2) {
			case 0:
				c.script = []msg.Message{&msg.Login{RunID: []string{"a", "b", "c", "d"}[i]}}
				c.closeCh = make(chan struct{}) // a live client: sends nothing more, keeps the connection open
			default:
				c.script = []msg.Message{&msg.Ping{}} // unexpected first message
			}
		}
		ln.conns = append(ln.conns, c)
	}
	svr.HandleListener(ln, false)
	zzverif.Quiesce()
	zzverif.Assert(ln.pos == n, "C17.listener.every-peer-accepted-despite-earlier-bad-peers")
	for i, c := range ln.conns {
		if bad[i] {
			zzverif.Assert(c.closed >= 1 && len(c.written) == 0, "C17.listener.refused-peer-disconnected")
			zzverif.Reach("C17.listener.bad-peer")
			continue
		}
		if _, isLogin := c.scriptFirst().(*msg.Login); isLogin {
			zzverif.Assert(len(c.written) >= 1 && c.closed == 0, "C17.listener.good-peer-after-bad-one-is-served")
			zzverif.Reach("C17.listener.served")
		} else {
			zzverif.Assert(c.closed >= 1, "C17.listener.unexpected-first-message-disconnected")
		}
	}
}
