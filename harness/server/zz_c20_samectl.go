//go:build verif

package server

import (
	"context"
	"io"
	"net"
	"time"

	"github.com/fatedier/frp/pkg/msg"
	"github.com/fatedier/frp/pkg/nathole"
	"github.com/fatedier/frp/zzverif"
)

// a control connection whose incoming messages the harness feeds one by one
type c20Conn struct {
	inbox   chan msg.Message
	closed  chan struct{}
	nclosed int
	written []msg.Message
}

func (c *c20Conn) Read(p []byte) (int, error)  { return 0, io.EOF }
func (c *c20Conn) Write(p []byte) (int, error) { return len(p), nil }
func (c *c20Conn) Close() error {
	c.nclosed++
	if c.nclosed == 1 {
		close(c.closed)
	}
	return nil
}
func (c *c20Conn) LocalAddr() net.Addr                { return zzAddr{"10.0.0.1:7000"} }
func (c *c20Conn) RemoteAddr() net.Addr               { return zzAddr{"10.9.9.9:4242"} }
func (c *c20Conn) SetDeadline(t time.Time) error      { return nil }
func (c *c20Conn) SetReadDeadline(t time.Time) error  { return nil }
func (c *c20Conn) SetWriteDeadline(t time.Time) error { return nil }

func c20StubReadMsg(r io.Reader) (msg.Message, error) {
	if c, ok := r.(*c20Conn); ok {
		select {
		case m := <-c.inbox:
			return m, nil
		case <-c.closed:
			return nil, io.EOF
		}
	}
	return zzStubReadMsg(r)
}
func c20StubWriteMsg(w io.Writer, m any) error {
	if c, ok := w.(*c20Conn); ok {
		c.written = append(c.written, m)
		return nil
	}
	return zzStubWriteMsg(w, m)
}
func c20StubAuthKey(sk string, ts int64) string { return "key(" + sk + ")" }
func c20StubGenSid(c *nathole.Controller) string { return "sid-1" }

var c20Never = make(chan time.Time)

func c20StubAfter(d time.Duration) <-chan time.Time { return c20Never }

// VerifC20SameControl: an xtcp proxy and its visitor on one control connection (one frpc defines
// both): while the visitor's request waits for the owner's answer the connection keeps being read, so
// the owner's NatHoleClient arrives, and both parties get their instructions.
func VerifC20SameControl() {
	svr, _ := zzFullService(false, false, false, "")
	zzNetReset()
	conn := &c20Conn{inbox: make(chan msg.Message, 4), closed: make(chan struct{})}
	ctl, err := NewControl(context.Background(), svr.rc, svr.pxyManager, svr.pluginManager, svr.authVerifier, conn, false, &msg.Login{RunID: "r1", User: "u", PoolCount: 1}, svr.cfg)
	zzverif.Assume(err == nil)
	svr.ctlManager.Add("r1", ctl)
	_, rerr := ctl.RegisterProxy(&msg.NewProxy{ProxyName: "x", ProxyType: "xtcp", Sk: "s"})
	zzverif.Assume(rerr == nil)
	// the owner's client holds one pooled work connection; the session id reaches it on that
	var sids []string
	wc := &zzConn{name: "work"}
	wc.onWrite = func(m msg.Message) {
		if s, ok := m.(*msg.NatHoleSid); ok {
			sids = append(sids, s.Sid)
		}
	}
	zzverif.Assume(ctl.RegisterWorkConn(wc) == nil)
	go ctl.msgDispatcher.Run()

	conn.inbox <- &msg.NatHoleVisitor{TransactionID: "tv", ProxyName: "x", Protocol: "quic", SignKey: c20StubAuthKey("s", 7), Timestamp: 7,
		MappedAddrs: []string{"1.1.1.1:1000", "1.1.1.1:1000"}}
	zzverif.Quiesce()
	zzverif.Assert(len(sids) == 1 && sids[0] == "sid-1", "C20.samectl.owner-told-the-session-id")
	if len(sids) != 1 {
		return
	}
	// the owner's client answers on the same control connection
	conn.inbox <- &msg.NatHoleClient{TransactionID: "tc", ProxyName: "x", Sid: sids[0], MappedAddrs: []string{"2.2.2.2:2000", "2.2.2.2:2000"}}
	zzverif.Quiesce()
	var forV, forC int
	for _, m := range conn.written {
		if r, ok := m.(*msg.NatHoleResp); ok {
			zzverif.Assert(r.Error == "" && r.Sid == "sid-1", "C20.samectl.instructions-not-an-error")
			switch r.TransactionID {
			case "tv":
				forV++
			case "tc":
				forC++
			default:
				zzverif.Fail("C20.samectl.response-for-an-unknown-transaction")
			}
		}
	}
	zzverif.Assert(forV == 1 && forC == 1, "C20.samectl.both-parties-get-their-instructions")
	zzverif.Assert(svr.rc.NatHoleController.ZZSessions() == 0, "C20.samectl.session-removed")
	zzverif.Reach("C20.samectl.done")
	_ = conn.Close()
	zzverif.Quiesce()
}

// stub for (*nathole.Session).genAnalysisKey (an md5 over the peers' NAT descriptions, used only as
// the key of the success statistics)
func c20StubGenKey(s *nathole.Session) {}
