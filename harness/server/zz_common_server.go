//go:build verif

package server

import (
	"context"
	"errors"
	"io"
	"net"
	"time"

	"github.com/fatedier/frp/pkg/auth"
	v1 "github.com/fatedier/frp/pkg/config/v1"
	"github.com/fatedier/frp/pkg/msg"
	plugin "github.com/fatedier/frp/pkg/plugin/server"
	"github.com/fatedier/frp/server/controller"
	"github.com/fatedier/frp/server/metrics"
	"github.com/fatedier/frp/server/proxy"
	"github.com/fatedier/frp/zzverif"
)

var errZZ = errors.New("zz injected error")

// ---------------------------------------------------------------- fake connection

type zzAddr struct{ s string }

func (a zzAddr) Network() string { return "tcp" }
func (a zzAddr) String() string  { return a.s }

type zzConn struct {
	name      string
	closeCh   chan struct{} // when non-nil: ReadMsg blocks (after the script) until the connection is closed
	onWrite   func(m msg.Message)
	closed    int
	written   []msg.Message // messages written through the stubbed msg.WriteMsg
	writeFail bool
	script    []msg.Message // messages returned by the stubbed msg.ReadMsg (then an error)
	first     msg.Message   // first scripted message (kept after consumption)
	readErr   bool
}

func (c *zzConn) Read(p []byte) (int, error)  { return 0, io.EOF }
func (c *zzConn) Write(p []byte) (int, error) { return len(p), nil }
func (c *zzConn) Close() error {
	c.closed++
	if c.closeCh != nil && c.closed == 1 {
		close(c.closeCh)
	}
	return nil
}
func (c *zzConn) LocalAddr() net.Addr                { return zzAddr{"10.0.0.1:7000"} }
func (c *zzConn) RemoteAddr() net.Addr               { return zzAddr{"10.9.9.9:4242"} }
func (c *zzConn) SetDeadline(t time.Time) error      { return nil }
func (c *zzConn) SetReadDeadline(t time.Time) error  { return nil }
func (c *zzConn) SetWriteDeadline(t time.Time) error { return nil }

// zzUnwrap finds the fake behind context / crypto wrappers.
func zzUnwrap(w interface{}) *zzConn {
	for i := 0; i < 6; i++ {
		switch x := w.(type) {
		case *zzConn:
			return x
		case *zzCryptoRW:
			w = x.inner
		case interface{ zzInner() interface{} }:
			w = x.zzInner()
		default:
			if cc, ok := w.(interface{ Unwrap() net.Conn }); ok {
				w = cc.Unwrap()
				continue
			}
			return zzUnwrapReflect(w)
		}
	}
	return nil
}

// ---------------------------------------------------------------- stubs (by name)

// stub for pkg/msg.WriteMsg: records the message object on the fake connection.
func zzStubWriteMsg(c io.Writer, m any) error {
	fc := zzUnwrap(c)
	if fc == nil {
		zzverif.Unsupported("WriteMsg on a writer that is not a harness fake")
		return nil
	}
	if fc.writeFail || fc.closed > 0 {
		return errZZ
	}
	fc.written = append(fc.written, m)
	if fc.onWrite != nil {
		fc.onWrite(m)
	}
	return nil
}

// stub for pkg/msg.ReadMsg: returns the scripted messages, then an error.
func zzStubReadMsg(c io.Reader) (msg.Message, error) {
	fc := zzUnwrap(c)
	if fc == nil {
		zzverif.Unsupported("ReadMsg on a reader that is not a harness fake")
		return nil, errZZ
	}
	if len(fc.script) == 0 && fc.closeCh != nil && fc.closed == 0 {
		<-fc.closeCh // a live peer that sends nothing more
	}
	if len(fc.script) == 0 || fc.closed > 0 {
		return nil, io.EOF
	}
	m := fc.script[0]
	if fc.first == nil {
		fc.first = m
	}
	fc.script = fc.script[1:]
	return m, nil
}

type zzCryptoRW struct {
	inner io.ReadWriter
	key   []byte
}

func (c *zzCryptoRW) Read(p []byte) (int, error)  { return c.inner.Read(p) }
func (c *zzCryptoRW) Write(p []byte) (int, error) { return c.inner.Write(p) }

var zzCrypto struct {
	calls int
	fail  bool
	last  *zzCryptoRW
}

// stub for pkg/util/net.NewCryptoReadWriter
func zzStubNewCryptoRW(rw io.ReadWriter, key []byte) (io.ReadWriter, error) {
	zzCrypto.calls++
	if zzCrypto.fail {
		return nil, errZZ
	}
	zzCrypto.last = &zzCryptoRW{inner: rw, key: append([]byte(nil), key...)}
	return zzCrypto.last, nil
}

// ---------------------------------------------------------------- fake verifier / plugins / proxy

type zzVerifier struct {
	loginOK, pingOK, workOK bool
	loginCalls, pingCalls   int
	workCalls               int
	// what the verifier was shown last
	seenLoginUser, seenPingKey, seenWorkKey string
}

func (v *zzVerifier) VerifyLogin(m *msg.Login) error {
	v.loginCalls++
	v.seenLoginUser = m.User
	if v.loginOK {
		return nil
	}
	return errZZ
}
func (v *zzVerifier) VerifyPing(m *msg.Ping) error {
	v.pingCalls++
	v.seenPingKey = m.PrivilegeKey
	if v.pingOK {
		return nil
	}
	return errZZ
}
func (v *zzVerifier) VerifyNewWorkConn(m *msg.NewWorkConn) error {
	v.workCalls++
	v.seenWorkKey = m.PrivilegeKey
	if v.workOK {
		return nil
	}
	return errZZ
}

var _ auth.Verifier = (*zzVerifier)(nil)

// zzPlugin: outcome 0 accept-unchanged, 1 accept-modified, 2 reject, 3 transport error
type zzPlugin struct {
	name    string
	ops     map[string]bool
	outcome int
	calls   []string
	tag     string   // marks modified content
	closed  []string // proxy names announced through CloseProxy notifications
}

func (p *zzPlugin) Name() string             { return p.name }
func (p *zzPlugin) IsSupport(op string) bool { return p.ops[op] }
func (p *zzPlugin) Handle(ctx context.Context, op string, content any) (*plugin.Response, any, error) {
	p.calls = append(p.calls, op)
	if c, ok := content.(plugin.CloseProxyContent); ok {
		p.closed = append(p.closed, c.CloseProxy.ProxyName)
	}
	switch p.outcome {
	case 3:
		return nil, nil, errZZ
	case 2:
		return &plugin.Response{Reject: true, RejectReason: "rejected by " + p.name}, nil, nil
	case 1:
		switch c := content.(type) {
		case plugin.LoginContent:
			c.Login.User = c.Login.User + p.tag
			return &plugin.Response{}, &c, nil
		case plugin.NewProxyContent:
			c.NewProxy.ProxyName = c.NewProxy.ProxyName + p.tag
			return &plugin.Response{}, &c, nil
		case plugin.PingContent:
			c.Ping.PrivilegeKey = c.Ping.PrivilegeKey + p.tag
			return &plugin.Response{}, &c, nil
		case plugin.NewWorkConnContent:
			c.NewWorkConn.PrivilegeKey = c.NewWorkConn.PrivilegeKey + p.tag
			return &plugin.Response{}, &c, nil
		case plugin.NewUserConnContent:
			c.RemoteAddr = c.RemoteAddr + p.tag
			return &plugin.Response{}, &c, nil
		}
	}
	return &plugin.Response{Unchange: true}, content, nil
}

// zzOnePlugin builds a manager with one plugin registered for all operations and a symbolic outcome.
func zzOnePlugin(name string) (*plugin.Manager, *zzPlugin) {
	pm := plugin.NewManager()
	p := &zzPlugin{name: name, tag: "+" + name, outcome: zzverif.Choice("plugin."+name, 4),
		ops: map[string]bool{plugin.OpLogin: true, plugin.OpNewProxy: true, plugin.OpPing: true, plugin.OpNewWorkConn: true, plugin.OpNewUserConn: true, plugin.OpCloseProxy: true}}
	pm.Register(p)
	return pm, p
}

func zzServerCfg() *v1.ServerConfig {
	cfg := &v1.ServerConfig{}
	cfg.Auth.Token = "tok"
	cfg.Transport.MaxPoolCount = 5
	cfg.UserConnTimeout = 10
	f := false
	cfg.DetailedErrorsToClient = &f
	return cfg
}

func zzService(ver auth.Verifier, pm *plugin.Manager) *Service {
	return &Service{
		ctlManager:    NewControlManager(),
		pxyManager:    proxy.NewManager(),
		pluginManager: pm,
		authVerifier:  ver,
		rc:            &controller.ResourceController{PluginManager: pm},
		cfg:           zzServerCfg(),
	}
}

func zzNoPlugins() *plugin.Manager { return plugin.NewManager() }

// stub for k8s validation.IsQualifiedName (regular expressions are not encoded)
func zzStubIsQualifiedName(value string) []string { return nil }

// locked accessors (the lock-discipline monitor also watches the harness)
func zzCtlProxy(ctl *Control, name string) proxy.Proxy {
	ctl.mu.RLock()
	defer ctl.mu.RUnlock()
	return ctl.proxies[name]
}

func zzCtlProxyCount(ctl *Control) int {
	ctl.mu.RLock()
	defer ctl.mu.RUnlock()
	return len(ctl.proxies)
}

func zzSessions(svr *Service) int {
	svr.ctlManager.mu.RLock()
	defer svr.ctlManager.mu.RUnlock()
	return len(svr.ctlManager.ctlsByRunID)
}

func (c *zzConn) scriptFirst() msg.Message {
	if c.first != nil {
		return c.first
	}
	if len(c.script) > 0 {
		return c.script[0]
	}
	return nil
}

// zzMetrics: what the server reports to the dashboard / Prometheus
type zzMetrics struct {
	clients, closedClients int
	proxies, closedProxies int
}

func (m *zzMetrics) NewClient()                           { m.clients++ }
func (m *zzMetrics) CloseClient()                         { m.closedClients++ }
func (m *zzMetrics) NewProxy(string, string)              { m.proxies++ }
func (m *zzMetrics) CloseProxy(string, string)            { m.closedProxies++ }
func (m *zzMetrics) OpenConnection(string, string)        {}
func (m *zzMetrics) CloseConnection(string, string)       {}
func (m *zzMetrics) AddTrafficIn(string, string, int64)   {}
func (m *zzMetrics) AddTrafficOut(string, string, int64)  {}

// zzInstallMetrics replaces the global metrics sink for the duration of a harness run
func zzInstallMetrics() (*zzMetrics, func()) {
	old := metrics.Server
	m := &zzMetrics{}
	metrics.Server = m
	return m, func() { metrics.Server = old }
}
