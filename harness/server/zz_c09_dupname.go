//go:build verif

package server

import (
	"github.com/fatedier/frp/pkg/msg"
	"github.com/fatedier/frp/zzverif"
)

// VerifC09DuplicateName: a registration refused because the name is taken disturbs nothing of the
// owner: not its live port, not its reservation (the owner gets its previous server-chosen port back
// afterwards), not the accounting.
func VerifC09DuplicateName() {
	svr, _ := zzFullService(false, false, false, "")
	zzNetReset()
	zzProbeAnswer = true
	a, _ := zzControl(svr, "ra", 0)
	b, _ := zzControl(svr, "rb", 0)
	typ := []string{"tcp", "udp"}[zzverif.Choice("type", 2)]
	addrA, err := a.RegisterProxy(&msg.NewProxy{ProxyName: "p", ProxyType: typ, RemotePort: 0})
	zzverif.Assume(err == nil)
	pm := svr.rc.TCPPortManager
	if typ == "udp" {
		pm = svr.rc.UDPPortManager
	}
	f0, u0 := pm.ZZCounts()
	// another session asks for the same name
	want := []int{0, 1000, 1001}[zzverif.Choice("requestedPort", 3)]
	_, err = b.RegisterProxy(&msg.NewProxy{ProxyName: "p", ProxyType: typ, RemotePort: want})
	zzverif.Assert(err != nil, "C09.dup.duplicate-name-refused")
	f1, u1 := pm.ZZCounts()
	zzverif.Assert(f1 == f0 && u1 == u0, "C09.dup.refusal-leaves-the-accounting")
	owner, ok := svr.pxyManager.GetByName("p")
	zzverif.Assert(ok && owner != nil && zzCtlProxy(a, "p") == owner, "C09.dup.owner-keeps-the-name")
	zzverif.Reach("C09.dup.refused")
	// the owner closes and asks again for a server-chosen port: its previous one is still free
	_ = a.CloseProxy(&msg.CloseProxy{ProxyName: "p"})
	addrA2, err := a.RegisterProxy(&msg.NewProxy{ProxyName: "p", ProxyType: typ, RemotePort: 0})
	zzverif.Assert(err == nil, "C09.dup.owner-registers-again")
	if err == nil {
		zzverif.Assert(addrA2 == addrA, "C09.dup.owner-gets-its-previous-port-back")
		zzverif.Reach("C09.dup.port-back")
	}
}
