//go:build verif

package server

import (
	"github.com/fatedier/frp/pkg/config/types"
	v1 "github.com/fatedier/frp/pkg/config/v1"
	"github.com/fatedier/frp/server/ports"
	"github.com/fatedier/frp/zzverif"
)

// VerifC09AllowCfg: from the operator's allowPorts setting as written - also when its entries can
// match no port at all - through the configuration's completion to the port manager: a port outside
// every written entry is never handed out (a white list that matches nothing allows nothing, it does
// not turn into "no white list").
func VerifC09AllowCfg() {
	entries := [][]types.PortsRange{
		{{Start: 1000, End: 1001}},
		{{Start: 6000, End: 5000}}, // inverted: matches nothing
		{{Single: 70000}},          // beyond the port space
		{{Start: 1000, End: 1001}, {Start: 9, End: 3}},
		{{Start: 65536, End: 70000}},
	}
	cfg := &v1.ServerConfig{}
	written := entries[zzverif.Choice("allowPorts", len(entries))]
	cfg.AllowPorts = append([]types.PortsRange(nil), written...)
	inside := func(p int) bool {
		for _, e := range written {
			if (e.Single > 0 && p == e.Single) || (e.Single == 0 && p >= e.Start && p <= e.End) {
				return true
			}
		}
		return false
	}
	cfg.Complete()
	zzProbeAnswer = true
	pm := ports.NewManager("tcp", "0.0.0.0", cfg.AllowPorts)
	outside := []int{2000, 5500, 80}[zzverif.Choice("requested", 3)]
	_, err := pm.Acquire("a", outside)
	zzverif.Assert(err != nil, "C09.allowcfg.port-outside-every-written-entry-is-refused")
	got, err0 := pm.Acquire("b", 0)
	if err0 == nil {
		zzverif.Assert(inside(got), "C09.allowcfg.server-chosen-port-lies-inside-a-written-entry")
		zzverif.Reach("C09.allowcfg.chosen")
	} else {
		zzverif.Reach("C09.allowcfg.nothing-allowed")
	}
}
