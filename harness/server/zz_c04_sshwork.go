//go:build verif

package server

import (
	"context"

	"github.com/fatedier/frp/pkg/msg"
	"github.com/fatedier/frp/zzverif"
)

// VerifC04SSHWork: a session that came in through the ssh gateway's internal listener is exempt
// from the key check; that exemption belongs to the internal listener. A work connection that
// arrives on a public listener and names such a session is checked against the configured
// credential like any other; refused, it is told so, closed and not pooled.
func VerifC04SSHWork() {
	ver := &zzVerifier{loginOK: zzverif.Bool("loginOK"), workOK: zzverif.Bool("workOK")}
	svr := zzService(ver, zzNoPlugins())
	// the gateway's own login: internal listener, always-pass asked for
	gw := &zzConn{name: "gateway-session"}
	gw.script = []msg.Message{&msg.Login{RunID: "r1", ClientSpec: msg.ClientSpec{AlwaysAuthPass: true, Type: "ssh-tunnel"}}}
	svr.handleConnection(context.Background(), gw, true)
	zzverif.Assume(zzSessions(svr) == 1)
	ctl, ok := svr.ctlManager.GetByID("r1")
	zzverif.Assume(ok)
	zzverif.Assert(ver.loginCalls == 0, "C04.sshwork.gateway-login-not-shown-to-the-key-check")
	had := len(ctl.workConnCh)

	internal := zzverif.Bool("arrivesOnInternalListener")
	wc := &zzConn{name: "work"}
	wc.script = []msg.Message{&msg.NewWorkConn{RunID: "r1", PrivilegeKey: "k"}}
	svr.handleConnection(context.Background(), wc, internal)
	pooled := len(ctl.workConnCh) - had
	if internal {
		zzverif.Assert(pooled == 1 && wc.closed == 0, "C04.sshwork.gateway-own-work-connection-pooled")
		zzverif.Reach("C04.sshwork.internal")
		return
	}
	if ver.workOK {
		zzverif.Assert(pooled == 1 && wc.closed == 0, "C04.sshwork.keyed-work-connection-pooled")
		zzverif.Reach("C04.sshwork.public-with-key")
		return
	}
	zzverif.Assert(pooled == 0, "C04.sshwork.public-work-connection-without-a-valid-key-is-not-pooled")
	zzverif.Assert(wc.closed >= 1, "C04.sshwork.refused-work-connection-closed")
	zzverif.Reach("C04.sshwork.public-without-key")
}

// VerifC04Disturb: a refused login does not disturb an existing session, whatever it claims - also
// the run id of that very session.
func VerifC04Disturb() {
	ver := &zzVerifier{loginOK: true}
	svr := zzService(ver, zzNoPlugins())
	live := &zzConn{name: "live-session"}
	live.script = []msg.Message{&msg.Login{RunID: "r1"}}
	svr.handleConnection(context.Background(), live, false)
	zzverif.Assume(zzSessions(svr) == 1)
	ctl, ok := svr.ctlManager.GetByID("r1")
	zzverif.Assume(ok)

	ver.loginOK = zzverif.Bool("secondLoginHasTheKey")
	second := &zzConn{name: "second"}
	second.script = []msg.Message{&msg.Login{RunID: []string{"r1", "r2", ""}[zzverif.Choice("claimedRunID", 3)]}}
	claimed := second.script[0].(*msg.Login).RunID
	// an accepted re-login under the same run id waits for the old session's teardown (C12.relogin*)
	zzverif.Assume(!(ver.loginOK && claimed == "r1"))
	svr.handleConnection(context.Background(), second, false)
	if !ver.loginOK {
		now, still := svr.ctlManager.GetByID("r1")
		zzverif.Assert(still && now == ctl, "C04.disturb.refused-login-leaves-the-named-session-registered")
		zzverif.Assert(live.closed == 0, "C04.disturb.refused-login-leaves-the-named-session's-connection-open")
		zzverif.Assert(zzSessions(svr) == 1, "C04.disturb.refused-login-leaves-no-state")
		zzverif.Assert(second.closed >= 1, "C04.disturb.refused-login-closed")
		zzverif.Reach("C04.disturb.refused")
		return
	}
	now, still := svr.ctlManager.GetByID("r1")
	zzverif.Assert(still && now == ctl && live.closed == 0, "C04.disturb.another-session-does-not-disturb-this-one")
	zzverif.Reach("C04.disturb.beside")
}
