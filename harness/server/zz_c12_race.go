//go:build verif

package server

import (
	"time"

	"github.com/fatedier/frp/pkg/msg"
	"github.com/fatedier/frp/pkg/nathole"
	"github.com/fatedier/frp/server/visitor"
	"github.com/fatedier/frp/zzverif"
)

// VerifC12NameRace: two sessions register the same proxy name at the same time; then the
// loser closes "its" proxy or disconnects. At most one live proxy per name, the incumbent
// keeps its registration, a close affects only the session's own proxies.
func VerifC12NameRace() {
	zzverif.SetPreempt(zzverif.Param("preempt", 2))
	svr, tcp, _ := zzPortService()
	zzNetReset()
	zzProbeAnswer = true
	c1, _ := zzControl(svr, "r1", 0)
	c2, _ := zzControl(svr, "r2", 0)
	vm := visitor.NewManager()
	svr.rc.VisitorManager = vm
	svr.rc.NatHoleController, _ = nathole.NewController(time.Hour)
	typ := []string{"tcp", "sudp", "stcp", "xtcp", "tcp-group"}[zzverif.Choice("type", 5)]
	if typ == "xtcp" || typ == "tcp-group" {
		c12RaceOther(svr, c1, c2, typ)
		return
	}
	var e2 error
	done2 := false
	// the second registration may carry another secret key or the very same one (one configuration
	// started twice)
	sk2 := []string{"k2", "k1"}[zzverif.Choice("secondSecretKey", 2)]
	go func() {
		_, e2 = c2.RegisterProxy(&msg.NewProxy{ProxyName: "p", ProxyType: typ, RemotePort: 1001, Sk: sk2})
		done2 = true
	}()
	_, e1 := c1.RegisterProxy(&msg.NewProxy{ProxyName: "p", ProxyType: typ, RemotePort: 1000, Sk: "k1"})
	zzverif.Quiesce()
	if typ != "tcp" {
		// secret proxies hold a visitor-listener entry instead of a port
		zzverif.Assert(done2 && (e1 == nil) != (e2 == nil), "C12.race.exactly-one-secret-proxy-wins")
		zzverif.Assert(vm.ZZListeners() == 1, "C12.race.winner-keeps-its-visitor-entry")
		loser := c2
		if e1 != nil {
			loser = c1
		}
		_ = loser.CloseProxy(&msg.CloseProxy{ProxyName: "p"})
		zzverif.Assert(vm.ZZListeners() == 1, "C12.race.close-by-loser-leaves-the-winner's-visitor-entry")
		_, ok := svr.pxyManager.GetByName("p")
		zzverif.Assert(ok, "C12.race.secret-name-still-published")
		zzverif.Reach("C12.race.secret")
		return
	}
	zzverif.Assert(done2, "C12.race.both-terminate")
	zzverif.Assert(e1 == nil || e2 == nil, "C12.race.one-registration-wins")
	zzverif.Assert(!(e1 == nil && e2 == nil), "C12.race.at-most-one-live-proxy-per-name")
	winner, loser, winPort, losePort := c1, c2, 1000, 1001
	if e1 != nil {
		winner, loser, winPort, losePort = c2, c1, 1001, 1000
	}
	if e1 == nil || e2 == nil {
		p, ok := svr.pxyManager.GetByName("p")
		zzverif.Assert(ok && p == zzCtlProxy(winner, "p"), "C12.race.name-belongs-to-the-winner")
		zzverif.Assert(zzCtlProxy(loser, "p") == nil, "C12.race.loser-does-not-own-the-name")
		zzverif.Assert(tcp.ZZOwner(winPort) == "p" && tcp.ZZIsFree(losePort), "C12.race.loser-released-its-port")
		// the refused session sends CloseProxy for that name (or disconnects): the incumbent keeps working
		_ = loser.CloseProxy(&msg.CloseProxy{ProxyName: "p"})
		p2, ok2 := svr.pxyManager.GetByName("p")
		zzverif.Assert(ok2 && p2 == p, "C12.race.close-by-loser-leaves-incumbent")
		zzverif.Assert(tcp.ZZOwner(winPort) == "p", "C12.race.incumbent-keeps-its-port")
		c3, _ := zzControl(svr, "r3", 0)
		_, e3 := c3.RegisterProxy(&msg.NewProxy{ProxyName: "p", ProxyType: "tcp", RemotePort: losePort})
		zzverif.Assert(e3 != nil, "C12.race.live-name-still-refused")
		if e1 != nil {
			zzverif.Reach("C12.race.second-wins")
		} else {
			zzverif.Reach("C12.race.first-wins")
		}
	}
}

// c12RaceOther: the same race for proxies whose registration holds something by name (xtcp: the
// nat-hole entry) or joins something shared (a tcp group): the refused registration takes back
// exactly what it took - the incumbent's entry stays, the group keeps exactly the incumbent.
func c12RaceOther(svr *Service, c1, c2 *Control, typ string) {
	mk := func(sk string) *msg.NewProxy {
		if typ == "xtcp" {
			return &msg.NewProxy{ProxyName: "p", ProxyType: "xtcp", Sk: sk}
		}
		return &msg.NewProxy{ProxyName: "p", ProxyType: "tcp", RemotePort: 1000, Group: "g", GroupKey: "k"}
	}
	var e2 error
	done2 := false
	go func() {
		_, e2 = c2.RegisterProxy(mk("k2"))
		done2 = true
	}()
	_, e1 := c1.RegisterProxy(mk("k1"))
	zzverif.Quiesce()
	zzverif.Assert(done2 && (e1 == nil) != (e2 == nil), "C12.race.exactly-one-registration-wins")
	if (e1 == nil) == (e2 == nil) {
		return
	}
	winner, winSk := c1, "k1"
	if e1 != nil {
		winner, winSk = c2, "k2"
	}
	p, ok := svr.pxyManager.GetByName("p")
	zzverif.Assert(ok && p == zzCtlProxy(winner, "p"), "C12.race.name-belongs-to-the-winner")
	if typ == "xtcp" {
		sk, _, there := svr.rc.NatHoleController.ZZAllow("p")
		zzverif.Assert(there && sk == winSk, "C12.race.refused-registration-leaves-the-incumbent's-nat-hole-entry")
		zzverif.Assert(svr.rc.NatHoleController.ZZClients() == 1, "C12.race.one-nat-hole-entry-for-the-name")
		zzverif.Reach("C12.race.xtcp")
	} else {
		zzverif.Assert(svr.rc.TCPGroupCtl.ZZMembers("g") == 1, "C13.race.refused-registration-is-not-left-in-the-group")
		_ = winner.CloseProxy(&msg.CloseProxy{ProxyName: "p"})
		zzverif.Assert(svr.rc.TCPGroupCtl.ZZMembers("g") == -1, "C13.race.group-disappears-with-its-only-accepted-member")
		zzverif.Assert(svr.rc.TCPPortManager.ZZIsFree(1000), "C13.race.group-port-released")
		zzverif.Reach("C12.race.group")
	}
}
