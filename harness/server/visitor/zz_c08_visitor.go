//go:build verif

package visitor

import (
	"io"
	"net"
	"time"

	"github.com/fatedier/frp/zzverif"
)

// stub for util.GetAuthKey: ideal keyed digest H(secret, ts)
func c08StubAuthKey(sk string, ts int64) string { return zzverif.UF("authkey", 8, sk, ts) }

type c08Layer struct {
	kind  string // "enc" or "comp"
	key   string
	inner io.ReadWriteCloser
}

func (l *c08Layer) Read(p []byte) (int, error)  { return l.inner.Read(p) }
func (l *c08Layer) Write(p []byte) (int, error) { return l.inner.Write(p) }
func (l *c08Layer) Close() error                { return l.inner.Close() }

var c08EncFails bool

func c08StubWithEncryption(rwc io.ReadWriteCloser, key []byte) (io.ReadWriteCloser, error) {
	if c08EncFails {
		return nil, io.ErrUnexpectedEOF
	}
	return &c08Layer{kind: "enc", key: string(key), inner: rwc}, nil
}
func c08StubWithCompression(rwc io.ReadWriteCloser) io.ReadWriteCloser {
	return &c08Layer{kind: "comp", inner: rwc}
}

var c08Recycled int

// pooled compressor: the recycle function hands reader and writer to the next stream that asks
func c08StubWithCompressionFromPool(rwc io.ReadWriteCloser) (io.ReadWriteCloser, func()) {
	return &c08Layer{kind: "comp", inner: rwc}, func() { c08Recycled++ }
}

type c08Conn struct{ closed int }

func (c *c08Conn) Read(p []byte) (int, error)         { return 0, io.EOF }
func (c *c08Conn) Write(p []byte) (int, error)        { return len(p), nil }
func (c *c08Conn) Close() error                       { c.closed++; return nil }
func (c *c08Conn) LocalAddr() net.Addr                { return nil }
func (c *c08Conn) RemoteAddr() net.Addr               { return nil }
func (c *c08Conn) SetDeadline(t time.Time) error      { return nil }
func (c *c08Conn) SetReadDeadline(t time.Time) error  { return nil }
func (c *c08Conn) SetWriteDeadline(t time.Time) error { return nil }

var c08Users = []string{"", "alice", "bob", "*"}

// VerifC08VisitorConn: a visitor stream is queued for a secret proxy only with the right
// signature and an allowed user; anything else is an error and leaves no state.
func VerifC08VisitorConn() {
	c08Recycled = 0
	vm := NewManager()
	// registered secret proxies: "p1" always, "p2" optionally
	sk1 := zzverif.StringUpTo("sk1", 1, "ab")
	var allow1 []string
	na := zzverif.Choice("allowN", 3)
	for i := 0; i < na; i++ {
		allow1 = append(allow1, c08Users[zzverif.Choice("allow", len(c08Users))])
	}
	l1, err := vm.Listen("p1", sk1, allow1)
	zzverif.Assume(err == nil)
	if zzverif.Bool("p2registered") {
		_, _ = vm.Listen("p2", "zz", []string{"*"})
	}
	_, dupErr := vm.Listen("p1", "other", []string{"*"})
	zzverif.Assert(dupErr != nil, "C08.listen.duplicate-name-refused")
	zzverif.Assert(vm.listeners["p1"].sk == sk1, "C08.listen.duplicate-leaves-incumbent")

	name := []string{"p1", "p2", "nosuch"}[zzverif.Choice("name", 3)]
	ts := zzverif.Int64("ts")
	sign := zzverif.String("sign", []int{8, 0, 1, 7, 9}[zzverif.Choice("signLen", 5)])
	user := c08Users[zzverif.Choice("user", 3)] // a login user is never "*"
	enc, comp := zzverif.Bool("enc"), zzverif.Bool("comp")
	c08EncFails = zzverif.Bool("encFails")
	conn := &c08Conn{}
	// the proxy may be on its way out: its listener already closed, its name not yet withdrawn
	ownerClosing := zzverif.Bool("proxyIsClosing")
	if ownerClosing {
		_ = l1.Close()
	}
	before1 := l1.ZZPending()

	err = vm.NewConn(name, conn, ts, sign, enc, comp, user)

	if name == "p1" {
		allowed := false
		for _, a := range allow1 {
			if a == user || a == "*" {
				allowed = true
			}
		}
		valid := zzverif.StrEq(sign, c08StubAuthKey(sk1, ts))
		if err == nil {
			zzverif.Assert(!ownerClosing, "C11.conn.a-stream-nobody-will-accept-is-not-reported-as-admitted")
			zzverif.Assert(valid, "C08.conn.admitted-only-with-valid-signature")
			zzverif.Assert(allowed, "C08.conn.admitted-only-allowed-user")
			zzverif.Assert(l1.ZZPending() == before1+1, "C08.conn.queued-once")
			// byte transparency: layers declared by the visitor, encryption keyed by the proxy secret and next to the wire
			got := l1.ZZTake()
			kinds, key := c08Layers(got)
			want := ""
			if enc {
				want += "enc,"
			}
			if comp {
				want = "comp," + want
			}
			zzverif.Assert(kinds == want, "C08.stack.visitor-layers-as-declared")
			// the stream now belongs to the proxy owner: its compressor must not have been handed back
			zzverif.Assert(c08Recycled == 0, "C08.stack.compressor-stays-with-the-queued-stream")
			if enc {
				zzverif.Assert(key == sk1, "C08.stack.encryption-keyed-by-secret")
			}
			zzverif.Reach("C08.conn.admitted")
		} else {
			zzverif.Assert(l1.ZZPending() == before1, "C08.conn.refused-not-queued")
			if valid && allowed {
				zzverif.Assert((enc && c08EncFails) || ownerClosing, "C08.conn.valid-request-refused-only-on-layer-failure")
				if ownerClosing {
					zzverif.Reach("C11.conn.stream-nobody-will-accept-is-refused")
				}
			}
			zzverif.Reach("C08.conn.refused")
		}
	} else if name == "nosuch" {
		zzverif.Assert(err != nil, "C08.conn.unknown-proxy-refused")
		zzverif.Assert(l1.ZZPending() == before1, "C08.conn.unknown-proxy-reaches-nobody")
	} else {
		zzverif.Assert(l1.ZZPending() == before1, "C08.conn.other-proxy-untouched")
	}
	zzverif.Assert(len(vm.listeners) >= 1 && vm.listeners["p1"].sk == sk1, "C08.conn.table-unchanged")
	vm.CloseListener("p1")
	err = vm.NewConn("p1", &c08Conn{}, ts, sign, enc, comp, user)
	zzverif.Assert(err != nil, "C08.close.closed-listener-admits-nobody")
}

// c08Layers walks the wrapper chain from the outside (application side) to the wire.
func c08Layers(c net.Conn) (string, string) {
	kinds, key := "", ""
	var cur interface{} = c
	for i := 0; i < 6; i++ {
		switch x := cur.(type) {
		case *c08Layer:
			kinds += x.kind + ","
			if x.kind == "enc" {
				key = x.key
			}
			cur = x.inner
		case interface{ zzRWC() io.ReadWriteCloser }:
			cur = x.zzRWC()
		default:
			if w := c08Unwrap(cur); w != nil {
				cur = w
				continue
			}
			return kinds, key
		}
	}
	return kinds, key
}
