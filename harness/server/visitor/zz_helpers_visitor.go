//go:build verif

package visitor

func (vm *Manager) ZZListeners() int { return len(vm.listeners) }
