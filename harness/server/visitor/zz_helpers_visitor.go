//go:build verif

package visitor

import "github.com/fatedier/frp/zzverif"

func (vm *Manager) ZZListeners() int {
	vm.mu.RLock()
	defer vm.mu.RUnlock()
	return len(vm.listeners)
}

func (vm *Manager) ZZGuard() { zzverif.Guard(vm.listeners, &vm.mu, "visitor.Manager.listeners") }
