//go:build verif

package visitor

import "github.com/fatedier/frp/zzverif"

func (vm *Manager) ZZListeners() int {
	vm.mu.RLock()
	defer vm.mu.RUnlock()
	return len(vm.listeners)
}

func (vm *Manager) ZZGuard() { zzverif.Guard(vm.listeners, &vm.mu, "visitor.Manager.listeners") }

// ZZAllow returns the secret and the allowed-users list registered for a secret proxy (nil, false if none).
func (vm *Manager) ZZAllow(name string) (string, []string, bool) {
	vm.mu.RLock()
	defer vm.mu.RUnlock()
	l, ok := vm.listeners[name]
	if !ok {
		return "", nil, false
	}
	return l.sk, append([]string(nil), l.allowUsers...), true
}
