//go:build verif

package visitor

import (
	netpkg "github.com/fatedier/frp/pkg/util/net"
)

func c08Unwrap(v interface{}) interface{} {
	if w, ok := v.(*netpkg.WrapReadWriteCloserConn); ok {
		return w.ReadWriteCloser
	}
	return nil
}
