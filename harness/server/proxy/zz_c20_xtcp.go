//go:build verif

package proxy

import (
	"context"
	"errors"
	"io"
	"net"

	v1 "github.com/fatedier/frp/pkg/config/v1"
	"github.com/fatedier/frp/pkg/msg"
	"github.com/fatedier/frp/pkg/nathole"
	plugin "github.com/fatedier/frp/pkg/plugin/server"
	"github.com/fatedier/frp/server/controller"
	"github.com/fatedier/frp/zzverif"
)

var c20x struct {
	fail  []bool // outcome of each request for a work connection
	asked int
	sids  []string
	conns []*s03Conn
}

func c20xGetWorkConn() (net.Conn, error) {
	i := c20x.asked
	c20x.asked++
	if i < len(c20x.fail) && c20x.fail[i] {
		return nil, errors.New("no work connection in time")
	}
	c := &s03Conn{name: "work"}
	c20x.conns = append(c20x.conns, c)
	return c, nil
}
func c20xStubWriteMsg(w io.Writer, m any) error {
	if s, ok := m.(*msg.NatHoleSid); ok {
		c20x.sids = append(c20x.sids, s.Sid)
	}
	return nil
}
func c20xStubAuthKey(sk string, ts int64) string { return "sig" }

var c20xSidN int

// stub for (*nathole.Controller).GenSid: distinct concrete ids (the real one is time + random)
func c20xStubGenSid(c *nathole.Controller) string {
	c20xSidN++
	return "sid-" + string(rune('0'+c20xSidN))
}

type c20xTransporter struct{ sent []msg.Message }

func (t *c20xTransporter) Send(m msg.Message) error { t.sent = append(t.sent, m); return nil }
func (t *c20xTransporter) Do(ctx context.Context, req msg.Message, laneKey, recvMsgType string) (msg.Message, error) {
	return nil, errors.New("unused")
}
func (t *c20xTransporter) Dispatch(m msg.Message, laneKey string) bool                  { return false }
func (t *c20xTransporter) DispatchWithType(m msg.Message, msgType, laneKey string) bool { return false }

// VerifC20XTCPForwarder: the server-side xtcp proxy keeps forwarding session ids to its owner for
// as long as it is registered: a work connection that cannot be obtained loses that one session,
// never the following ones; every visitor request ends (answer or timeout) and its session is
// removed, so state does not accumulate.
func VerifC20XTCPForwarder() {
	nc, _ := nathole.NewController(0)
	cfg := &v1.XTCPProxyConfig{Secretkey: "k", AllowUsers: []string{"*"}}
	cfg.Name, cfg.Type = "x1", "xtcp"
	n := 1 + zzverif.Choice("requests", zzverif.Param("maxRequests", 2))
	c20x.fail, c20x.asked, c20x.sids, c20x.conns, c20xSidN = nil, 0, nil, nil, 0
	for i := 0; i < n; i++ {
		c20x.fail = append(c20x.fail, zzverif.Bool("workConnUnavailable"))
	}
	bp := &BaseProxy{name: "x1", rc: &controller.ResourceController{PluginManager: plugin.NewManager(), NatHoleController: nc}, poolCount: 0,
		getWorkConnFn: c20xGetWorkConn, serverCfg: &v1.ServerConfig{}, configurer: cfg, ctx: context.Background()}
	pxy := NewXTCPProxy(bp).(*XTCPProxy)
	_, err := pxy.Run()
	zzverif.Assume(err == nil)
	ended := 0
	for i := 0; i < n; i++ {
		tr := &c20xTransporter{}
		done := make(chan struct{})
		go func() {
			nc.HandleVisitor(&msg.NatHoleVisitor{TransactionID: "t", ProxyName: "x1", SignKey: "sig", Timestamp: 1, MappedAddrs: []string{"1.1.1.1:100"}}, tr, "u")
			ended++
			close(done)
		}()
		// the owner never answers: the request must end by its timeout (the abstract timer fires once
		// nothing else can run); a request that can never end blocks this thread for ever = violation
		<-done
		zzverif.Quiesce() // let the forwarder finish its hand-over
		zzverif.Assert(ended == i+1, "C20.xtcp.every-visitor-request-ends")
		zzverif.Assert(nc.ZZSessions() == 0, "C20.xtcp.session-removed-after-the-request")
		delivered := 0
		for j := 0; j <= i; j++ {
			if !c20x.fail[j] {
				delivered++
			}
		}
		zzverif.Assert(len(c20x.sids) == delivered, "C20.xtcp.session-id-forwarded-whenever-a-work-connection-was-available")
		if c20x.fail[i] && i+1 < n {
			zzverif.Reach("C20.xtcp.request-after-a-failed-work-connection")
		}
	}
	for _, c := range c20x.conns {
		zzverif.Assert(c.closed >= 1, "C20.xtcp.work-connection-closed-after-the-hand-over")
	}
	pxy.Close()
	zzverif.Quiesce()
	zzverif.Assert(nc.ZZClients() == 0, "C20.xtcp.close-removes-the-owner-entry")
	zzverif.Reach("C20.xtcp.done")
}
