//go:build verif

package proxy

import "github.com/fatedier/frp/zzverif"

func (pm *Manager) ZZGuard() { zzverif.Guard(pm.pxys, &pm.mu, "proxy.Manager.pxys") }
