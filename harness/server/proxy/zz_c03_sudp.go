//go:build verif

package proxy

import (
	"context"
	"errors"
	"io"
	"net"
	"time"

	"golang.org/x/time/rate"

	"github.com/fatedier/frp/pkg/config/types"
	v1 "github.com/fatedier/frp/pkg/config/v1"
	"github.com/fatedier/frp/pkg/msg"
	plugin "github.com/fatedier/frp/pkg/plugin/server"
	"github.com/fatedier/frp/server/controller"
	"github.com/fatedier/frp/server/ports"
	"github.com/fatedier/frp/zzverif"
)

// a work connection to the client: messages from the client arrive on `in` (closing it breaks
// the connection), messages written by the server are recorded
type s03Conn struct {
	name    string
	in      chan msg.Message
	closed  int
	started int
	packets []*msg.UDPPacket
}

type s03Addr struct{ c *s03Conn }

func (s03Addr) Network() string { return "tcp" }
func (s03Addr) String() string  { return "10.0.0.1:80" }

func (c *s03Conn) Read(p []byte) (int, error)         { return 0, io.EOF }
func (c *s03Conn) Write(p []byte) (int, error)        { return len(p), nil }
func (c *s03Conn) Close() error                       { c.closed++; return nil }
func (c *s03Conn) LocalAddr() net.Addr                { return s03Addr{c} }
func (c *s03Conn) RemoteAddr() net.Addr               { return s03Addr{c} }
func (c *s03Conn) SetDeadline(t time.Time) error      { return nil }
func (c *s03Conn) SetReadDeadline(t time.Time) error  { return nil }
func (c *s03Conn) SetWriteDeadline(t time.Time) error { return nil }

func s03Base(x interface{}) *s03Conn {
	if c, ok := x.(*s03Conn); ok {
		return c
	}
	if nc, ok := x.(net.Conn); ok {
		if a, ok := nc.LocalAddr().(s03Addr); ok {
			return a.c
		}
	}
	return nil
}

var s03 struct {
	pool    []*s03Conn
	taken   int
	stopFwd chan struct{}
	udpDown int
}

func s03GetWorkConn() (net.Conn, error) {
	if s03.taken >= len(s03.pool) {
		return nil, errors.New("no work connection")
	}
	c := s03.pool[s03.taken]
	s03.taken++
	return c, nil
}
func s03StubWriteMsg(w io.Writer, m any) error {
	c := s03Base(w)
	if c == nil {
		zzverif.Unsupported("WriteMsg on an unexpected writer")
		return nil
	}
	if c.closed > 0 {
		return errors.New("use of closed connection")
	}
	switch x := m.(type) {
	case *msg.StartWorkConn:
		c.started++
	case *msg.UDPPacket:
		c.packets = append(c.packets, x)
	}
	return nil
}
func s03StubReadMsg(r io.Reader) (msg.Message, error) {
	c := s03Base(r)
	if c == nil {
		return nil, io.EOF
	}
	m, ok := <-c.in
	if !ok {
		return nil, io.EOF
	}
	return m, nil
}
func s03StubResolveUDPAddr(network, address string) (*net.UDPAddr, error) {
	return &net.UDPAddr{Port: 1000}, nil
}
func s03StubListenUDP(network string, laddr *net.UDPAddr) (*net.UDPConn, error) {
	return &net.UDPConn{}, nil
}
func s03StubUDPConnClose(c *net.UDPConn) error { s03.udpDown++; return nil }
func s03StubForwardUserConn(udpConn *net.UDPConn, readCh <-chan *msg.UDPPacket, sendCh chan<- *msg.UDPPacket, bufSize int) {
	<-s03.stopFwd
}
func s03StubAvailable(pm *ports.Manager, port int) bool { return true }

// VerifC03ServerUDP: the server side of a udp proxy across work-connection replacement: at every
// moment exactly one work connection carries the datagrams, a broken one is closed and replaced,
// the first datagram after a replacement travels on the new connection, replies read from the
// current connection reach the user side, and closing the proxy closes everything.
func VerifC03ServerUDP() {
	cfg := &v1.UDPProxyConfig{RemotePort: 1000}
	cfg.Name, cfg.Type = "u1", "udp"
	scfg := &v1.ServerConfig{UDPPacketSize: 1500}
	var lim *rate.Limiter
	if zzverif.Bool("serverSideLimit") {
		lim = &rate.Limiter{}
	}
	pm := ports.NewManager("udp", "0.0.0.0", []types.PortsRange{{Start: 1000, End: 1001}})
	rc := &controller.ResourceController{PluginManager: plugin.NewManager(), UDPPortManager: pm}
	bp := &BaseProxy{name: "u1", rc: rc, poolCount: 0, getWorkConnFn: s03GetWorkConn, serverCfg: scfg, limiter: lim, configurer: cfg, ctx: context.Background()}
	w := []*s03Conn{{name: "w1", in: make(chan msg.Message, 4)}, {name: "w2", in: make(chan msg.Message, 4)}, {name: "w3", in: make(chan msg.Message, 4)}}
	s03.pool, s03.taken, s03.stopFwd, s03.udpDown = w, 0, make(chan struct{}), 0
	pxy := NewUDPProxy(bp).(*UDPProxy)
	_, err := pxy.Run()
	zzverif.Assume(err == nil)
	zzverif.Quiesce()
	zzverif.Assert(s03.taken == 1 && w[0].started == 1, "C03.sudp.first-work-connection-announced")

	replacements := zzverif.Choice("replacements", 3)
	cur := 0
	seq := byte(0)
	for r := 0; r <= replacements; r++ {
		// a datagram from a user, then a reply from the client, on the current connection
		d := NewTestPacket(seq)
		seq++
		pxy.sendCh <- d
		zzverif.Quiesce()
		n := len(w[cur].packets)
		zzverif.Assert(n >= 1 && w[cur].packets[n-1] == d, "C03.sudp.datagram-travels-on-the-current-work-connection")
		for i, c := range w {
			if i != cur {
				for _, p := range c.packets {
					zzverif.Assert(p != d, "C03.sudp.datagram-not-sent-on-a-replaced-connection")
				}
			}
		}
		reply := NewTestPacket(100 + seq)
		w[cur].in <- reply
		zzverif.Quiesce()
		zzverif.Assert(len(pxy.readCh) == 1, "C03.sudp.reply-reaches-the-user-side")
		if len(pxy.readCh) == 1 {
			zzverif.Assert(<-pxy.readCh == reply, "C03.sudp.reply-unchanged")
		}
		if r == replacements {
			break
		}
		// the current work connection breaks
		close(w[cur].in)
		zzverif.Quiesce()
		zzverif.Assert(w[cur].closed >= 1, "C03.sudp.broken-work-connection-closed")
		cur++
		zzverif.Assert(s03.taken == cur+1 && w[cur].started == 1, "C03.sudp.replacement-requested-and-announced")
		zzverif.Reach("C03.sudp.replaced")
	}
	close(s03.stopFwd) // the public socket is gone: the forwarder returns and the proxy closes
	zzverif.Quiesce()
	zzverif.Assert(w[cur].closed >= 1, "C03.sudp.close-closes-the-work-connection")
	zzverif.Assert(s03.udpDown >= 1, "C03.sudp.close-closes-the-public-socket")
	zzverif.Assert(pm.ZZIsFree(1000), "C03.sudp.close-releases-the-port")
	if lim != nil {
		zzverif.Reach("C03.sudp.limited")
	}
}

func NewTestPacket(tag byte) *msg.UDPPacket {
	return &msg.UDPPacket{Content: string([]byte{'A' + tag%26}), RemoteAddr: &net.UDPAddr{Port: 5000 + int(tag)}}
}
