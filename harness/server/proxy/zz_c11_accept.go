//go:build verif

package proxy

import (
	"context"
	"errors"
	"net"
	"time"

	"github.com/fatedier/frp/zzverif"
)

// a listener error as the operating system reports it (EMFILE, ECONNABORTED: temporary, not a timeout)
type c11aErr struct{ temporary, timeout bool }

func (e c11aErr) Error() string   { return "accept error" }
func (e c11aErr) Temporary() bool { return e.temporary }
func (e c11aErr) Timeout() bool   { return e.timeout }

type c11aListener struct {
	script []interface{} // net.Conn or error, in order; afterwards "listener closed"
	pos    int
	closed int
}

func (l *c11aListener) Accept() (net.Conn, error) {
	if l.pos >= len(l.script) {
		return nil, errors.New("use of closed network connection")
	}
	x := l.script[l.pos]
	l.pos++
	if c, ok := x.(net.Conn); ok {
		return c, nil
	}
	return nil, x.(error)
}
func (l *c11aListener) Close() error   { l.closed++; return nil }
func (l *c11aListener) Addr() net.Addr { return s01Addr{"0.0.0.0:6000"} }

var c11a struct {
	handled []net.Conn
	sleeps  []time.Duration
}

func c11aStubHandle(pxy *BaseProxy, c net.Conn) { c11a.handled = append(c11a.handled, c) }
func c11aStubSleep(d time.Duration)             { c11a.sleeps = append(c11a.sleeps, d) }

// VerifC11AcceptLoop: a proxy's accept loop survives transient accept errors (descriptor shortage,
// aborted handshakes): every user connection the listener delivers afterwards is still handled; it
// ends only when the listener is closed; it backs off between 5 ms and 1 s meanwhile.
func VerifC11AcceptLoop() {
	n := 1 + zzverif.Choice("events", 4)
	l := &c11aListener{}
	var conns []net.Conn
	transients := 0
	for i := 0; i < n; i++ {
		switch zzverif.Choice("event", 3) {
		case 0:
			c := &s01Conn{name: "user"}
			conns = append(conns, c)
			l.script = append(l.script, net.Conn(c))
		case 1:
			l.script = append(l.script, error(c11aErr{temporary: true}))
			transients++
		default:
			l.script = append(l.script, error(c11aErr{temporary: true, timeout: true}))
			transients++
		}
	}
	c11a.handled, c11a.sleeps = nil, nil
	pxy := &BaseProxy{name: "p", ctx: context.Background(), listeners: []net.Listener{l}}
	pxy.startCommonTCPListenersHandler()
	zzverif.Quiesce()
	zzverif.Assert(l.pos == len(l.script) && len(c11a.handled) == len(conns), "C11.accept.every-delivered-user-connection-is-handled-despite-transient-errors")
	for i := range c11a.handled {
		if i < len(conns) {
			zzverif.Assert(c11a.handled[i] == conns[i], "C11.accept.handled-in-order")
		}
	}
	zzverif.Assert(len(c11a.sleeps) == transients, "C11.accept.one-pause-per-transient-error")
	for _, d := range c11a.sleeps {
		zzverif.Assert(d >= 5*time.Millisecond && d <= time.Second, "C11.accept.pause-between-5ms-and-1s")
	}
	if transients > 0 && len(conns) > 0 {
		zzverif.Reach("C11.accept.recovered")
	}
	zzverif.Reach("C11.accept.done")
}
