//go:build verif

package proxy

import (
	"context"
	"errors"
	"io"
	"net"
	"time"

	"golang.org/x/time/rate"

	v1 "github.com/fatedier/frp/pkg/config/v1"
	"github.com/fatedier/frp/pkg/msg"
	plugin "github.com/fatedier/frp/pkg/plugin/server"
	"github.com/fatedier/frp/pkg/util/limit"
	netpkg "github.com/fatedier/frp/pkg/util/net"
	"github.com/fatedier/frp/server/controller"
	"github.com/fatedier/frp/zzverif"
)

var errS01 = errors.New("s01 injected")

type s01Addr struct{ s string }

func (a s01Addr) Network() string { return "tcp" }
func (a s01Addr) String() string  { return a.s }

type s01Conn struct {
	name      string
	closed    int
	writeFail bool
	started   []*msg.StartWorkConn
	v6        bool // the peer reached frps over IPv6
}

func (c *s01Conn) Read(p []byte) (int, error)         { return 0, io.EOF }
func (c *s01Conn) Write(p []byte) (int, error)        { return len(p), nil }
func (c *s01Conn) Close() error                       { c.closed++; return nil }
func (c *s01Conn) LocalAddr() net.Addr                { return s01Addr{"10.0.0.1:80"} }
func (c *s01Conn) RemoteAddr() net.Addr {
	if c.v6 {
		return s01Addr{"[2001:db8::7]:4321"}
	}
	return s01Addr{"9.9.9.9:4321"}
}
func (c *s01Conn) SetDeadline(t time.Time) error      { return nil }
func (c *s01Conn) SetReadDeadline(t time.Time) error  { return nil }
func (c *s01Conn) SetWriteDeadline(t time.Time) error { return nil }

type s01Layer struct {
	kind  string
	key   string
	inner io.ReadWriteCloser
	rd    io.Reader
	wr    io.Writer
	// limit layer: the close function the caller supplied; golib calls it once on Close
	closeFn func() error
	closed  bool
}

func (l *s01Layer) Read(p []byte) (int, error)  { return 0, io.EOF }
func (l *s01Layer) Write(p []byte) (int, error) { return len(p), nil }
func (l *s01Layer) Close() error {
	if l.kind == "limit" {
		if l.closed {
			return nil
		}
		l.closed = true
		if l.closeFn != nil {
			return l.closeFn()
		}
		return nil
	}
	if l.inner != nil {
		return l.inner.Close()
	}
	return nil
}

var s01 struct {
	encFails bool
	recycled int
	joins    int
	joinA    io.ReadWriteCloser
	joinB    io.ReadWriteCloser
	pool     []*s01Conn
	taken    int
	getFails bool
	asked    int // how often the session was asked for a work connection
	// per pooled connection: how often it had been closed when the bridge closed its ends
	poolClosedInBridge []int
}

func s01StubWithEncryption(rwc io.ReadWriteCloser, key []byte) (io.ReadWriteCloser, error) {
	if s01.encFails {
		return nil, errS01
	}
	return &s01Layer{kind: "enc", key: string(key), inner: rwc}, nil
}
func s01StubWithCompressionFromPool(rwc io.ReadWriteCloser) (io.ReadWriteCloser, func()) {
	return &s01Layer{kind: "comp", inner: rwc}, func() { s01.recycled++ }
}
func s01StubWithCompression(rwc io.ReadWriteCloser) io.ReadWriteCloser {
	return &s01Layer{kind: "comp", inner: rwc}
}
func s01StubWrapRWC(r io.Reader, w io.Writer, closeFn func() error) io.ReadWriteCloser {
	return &s01Layer{kind: "limit", rd: r, wr: w, closeFn: closeFn}
}
func s01StubJoin(a, b io.ReadWriteCloser) (int64, int64, []error) {
	s01.joins++
	s01.joinA, s01.joinB = a, b
	// the bridge ends when one direction ends: golib's Join then closes both ends, and the other
	// direction only ends because of that; record what that close reached while the bridge still runs
	_ = a.Close()
	_ = b.Close()
	s01.poolClosedInBridge = nil
	for _, c := range s01.pool {
		s01.poolClosedInBridge = append(s01.poolClosedInBridge, c.closed)
	}
	return 0, 0, nil
}
func s01StubWriteMsg(c io.Writer, m any) error {
	var fc *s01Conn
	switch x := c.(type) {
	case *s01Conn:
		fc = x
	case *netpkg.ContextConn:
		fc, _ = x.Conn.(*s01Conn)
	}
	if fc == nil {
		zzverif.Unsupported("WriteMsg on unexpected writer")
		return nil
	}
	if fc.writeFail {
		return errS01
	}
	if s, ok := m.(*msg.StartWorkConn); ok {
		fc.started = append(fc.started, s)
	}
	return nil
}
func s01StubResolveTCPAddr(network, address string) (*net.TCPAddr, error) {
	return &net.TCPAddr{IP: net.IPv4(9, 9, 9, 9), Port: 4321}, nil
}

func s01GetWorkConn() (net.Conn, error) {
	s01.asked++
	if s01.getFails || s01.taken >= len(s01.pool) {
		return nil, errS01
	}
	c := s01.pool[s01.taken]
	s01.taken++
	return c, nil
}

// s01Chain walks the wrapper chain from the application side to the wire.
func s01Chain(top io.ReadWriteCloser, wire *s01Conn) (kinds string, keyOK bool, limitedBoth bool, endsAtWire bool) {
	keyOK = true
	cur := top
	for i := 0; i < 8; i++ {
		switch l := cur.(type) {
		case *s01Layer:
			kinds += l.kind + ","
			switch l.kind {
			case "enc":
				keyOK = keyOK && l.key == "tok"
				cur = l.inner
			case "comp":
				cur = l.inner
			case "limit":
				r, okR := l.rd.(*limit.Reader)
				w, okW := l.wr.(*limit.Writer)
				if okR && okW {
					ri, wi := r.ZZInner(), w.ZZInner()
					// both directions must go through the same inner stack
					limitedBoth = ri != nil && wi != nil && ri == io.Reader(wi.(io.ReadWriteCloser)) || s01SameRWC(ri, wi)
					if rwc, ok := ri.(io.ReadWriteCloser); ok {
						cur = rwc
						continue
					}
				}
				return
			}
		case *netpkg.ContextConn:
			cur = l.Conn
		case *netpkg.WrapReadWriteCloserConn:
			cur = l.ReadWriteCloser
		case *netpkg.StatsConn:
			cur = l.Conn
		case *s01Conn:
			endsAtWire = l == wire
			return
		default:
			return
		}
	}
	return
}

func s01SameRWC(r io.Reader, w io.Writer) bool {
	a, ok1 := r.(io.ReadWriteCloser)
	b, ok2 := w.(io.ReadWriteCloser)
	return ok1 && ok2 && a == b
}

// a server plugin registered for NewUserConn: outcome 0 none registered, 1 accepts, 2 rejects, 3 fails
type s01Plugin struct {
	outcome   int
	calls     int
	takenThen int // work connections already taken from the session when the plugin was asked
	seen      plugin.NewUserConnContent
}

func (p *s01Plugin) Name() string             { return "gate" }
func (p *s01Plugin) IsSupport(op string) bool { return op == plugin.OpNewUserConn }
func (p *s01Plugin) Handle(ctx context.Context, op string, content any) (*plugin.Response, any, error) {
	p.calls++
	p.takenThen = s01.taken
	if c, ok := content.(plugin.NewUserConnContent); ok {
		p.seen = c
	}
	switch p.outcome {
	case 2:
		return &plugin.Response{Reject: true, RejectReason: "no"}, nil, nil
	case 3:
		return nil, nil, errors.New("plugin unreachable")
	}
	return &plugin.Response{Unchange: true}, content, nil
}

var s01Gate *s01Plugin

func s01Base(name string) (*BaseProxy, *v1.ProxyBaseConfig) {
	cfg := &v1.TCPProxyConfig{}
	cfg.Name, cfg.Type = name, "tcp"
	cfg.Transport.UseEncryption = zzverif.Bool("useEncryption")
	cfg.Transport.UseCompression = zzverif.Bool("useCompression")
	scfg := &v1.ServerConfig{}
	scfg.Auth.Token = "tok"
	var lim *rate.Limiter
	if zzverif.Bool("serverSideLimit") {
		lim = &rate.Limiter{}
	}
	pm := plugin.NewManager()
	s01Gate = &s01Plugin{outcome: zzverif.Choice("userConnPlugin", 4)}
	if s01Gate.outcome != 0 {
		pm.Register(s01Gate)
	}
	bp := &BaseProxy{name: name, rc: &controller.ResourceController{PluginManager: pm}, poolCount: 1, getWorkConnFn: s01GetWorkConn,
		serverCfg: scfg, limiter: lim, configurer: cfg, ctx: context.Background()}
	return bp, &cfg.ProxyBaseConfig
}

// VerifC01ServerStack: the server side of a tcp-class tunnel (handleUserTCPConnection).
func VerifC01ServerStack() {
	bp, cfg := s01Base("p1")
	s01.encFails, s01.getFails = zzverif.Bool("encFails"), zzverif.Bool("noWorkConn")
	s01.recycled, s01.joins, s01.joinA, s01.joinB, s01.taken, s01.asked = 0, 0, nil, nil, 0, 0
	w1 := &s01Conn{name: "w1", writeFail: zzverif.Bool("firstWorkConnDead")}
	w2 := &s01Conn{name: "w2", writeFail: zzverif.Bool("secondWorkConnDead")}
	s01.pool = []*s01Conn{w1, w2}
	user := &s01Conn{name: "user", v6: zzverif.Bool("userOverIPv6")}

	bp.handleUserTCPConnection(user)

	zzverif.Assert(user.closed >= 1, "C11.user.user-conn-closed-when-done")
	if s01Gate.outcome != 0 {
		// the gate is asked first: a user connection the plugin refuses (or cannot be asked about)
		// costs the session nothing - no work connection taken, no start message, nothing dialled
		zzverif.Assert(s01Gate.calls == 1 && s01Gate.takenThen == 0, "C15.userconn.plugin-asked-before-a-work-connection-is-taken")
		zzverif.Assert(s01Gate.seen.ProxyName == "p1" && s01Gate.seen.RemoteAddr == user.RemoteAddr().String(), "C15.userconn.plugin-told-the-proxy-and-the-user's-address")
		if s01Gate.outcome >= 2 {
			zzverif.Assert(s01.taken == 0 && s01.asked == 0 && s01.joins == 0 && len(w1.started) == 0 && len(w2.started) == 0, "C15.userconn.refused-user-connection-uses-no-work-connection")
			zzverif.Reach("C15.userconn.refused")
			return
		}
		zzverif.Reach("C15.userconn.allowed")
	}
	if s01.getFails {
		// each request to the session may take the whole user-connection timeout: when the session
		// cannot supply a connection the user is given up after one wait, not after one per retry
		zzverif.Assert(s01.asked == 1, "C11.user.gives-up-after-one-timeout-when-no-work-connection-comes")
	}
	if s01.joins == 0 {
		zzverif.Reach("C01.server.not-bridged")
		for i := 0; i < s01.taken; i++ {
			zzverif.Assert(s01.pool[i].closed >= 1, "C11.user.taken-work-conn-closed-when-not-bridged")
		}
		return
	}
	zzverif.Assert(s01.joins == 1 && s01.joinB == io.ReadWriteCloser(user), "C01.server.bridged-to-this-user-conn")
	// which work connection carries the stream: the first one that accepted the start message
	wire := w1
	if w1.writeFail {
		wire = w2
		zzverif.Assert(w1.closed >= 1, "C11.frompool.dead-work-conn-closed")
	}
	zzverif.Assert(len(wire.started) == 1, "C11.frompool.start-message-sent-once")
	if len(wire.started) == 1 {
		s := wire.started[0]
		zzverif.Assert(s.ProxyName == "p1", "C01.start.announces-this-proxy")
		wantSrc := "9.9.9.9"
		if user.v6 {
			wantSrc = "2001:db8::7" // the bare address, as the client's resolver and the PROXY header need it
			zzverif.Reach("C01.start.user-over-ipv6")
		}
		zzverif.Assert(s.SrcAddr == wantSrc && s.SrcPort == 4321 && s.DstAddr == "10.0.0.1" && s.DstPort == 80, "C01.start.carries-the-user's-real-address")
	}
	kinds, keyOK, limitedBoth, ends := s01Chain(s01.joinA, wire)
	want := ""
	if bp.limiter != nil {
		want += "limit,"
	}
	if cfg.Transport.UseCompression {
		want += "comp,"
	}
	if cfg.Transport.UseEncryption {
		want += "enc,"
	}
	zzverif.Assert(kinds == want, "C01.server.layers-exactly-as-configured-compression-outside-encryption")
	zzverif.Assert(keyOK, "C05.layers.encryption-keyed-by-token")
	zzverif.Assert(ends, "C01.server.stack-ends-at-the-announced-work-conn")
	if bp.limiter != nil {
		zzverif.Assert(limitedBoth, "C01.server.both-directions-limited-over-the-same-stack")
		zzverif.Reach("C01.server.limited")
	}
	zzverif.Assert(wire.closed >= 1, "C11.user.work-conn-closed-after-bridge")
	for i, c := range s01.pool {
		if c == wire && i < len(s01.poolClosedInBridge) {
			zzverif.Assert(s01.poolClosedInBridge[i] >= 1, "C10.server.end-of-one-direction-closes-the-work-connection-under-every-layer")
		}
	}
	zzverif.Reach("C01.server.bridged")
}

// VerifC01HTTPRealConn: the work connection an http proxy hands to the reverse proxy.
func VerifC01HTTPRealConn() {
	bp, cfg := s01Base("h1")
	hcfg := &v1.HTTPProxyConfig{}
	hcfg.ProxyBaseConfig = *cfg
	bp.configurer = hcfg
	pxy := &HTTPProxy{BaseProxy: bp, cfg: hcfg}
	s01.encFails, s01.getFails = zzverif.Bool("encFails"), zzverif.Bool("noWorkConn")
	s01.taken = 0
	w1 := &s01Conn{name: "w1"}
	s01.pool = []*s01Conn{w1}
	c, err := pxy.GetRealConn("9.9.9.9:4321")
	if err != nil {
		zzverif.Reach("C01.http.no-conn")
		return
	}
	zzverif.Assert(len(w1.started) == 1 && w1.started[0].ProxyName == "h1", "C01.start.announces-this-proxy")
	if len(w1.started) == 1 {
		// the vhost path knows only the user's address: it must still be announced
		zzverif.Assert(w1.started[0].SrcAddr == "9.9.9.9" && w1.started[0].SrcPort == 4321, "C01.start.http-announces-the-user's-real-address")
	}
	kinds, keyOK, limitedBoth, ends := s01Chain(c, w1)
	want := ""
	if bp.limiter != nil {
		want += "limit,"
	}
	if hcfg.Transport.UseCompression {
		want += "comp,"
	}
	if hcfg.Transport.UseEncryption {
		want += "enc,"
	}
	zzverif.Assert(kinds == want, "C02.tunnel.layers-exactly-as-configured")
	zzverif.Assert(keyOK && ends, "C02.tunnel.stack-ends-at-the-announced-work-conn")
	if bp.limiter != nil {
		zzverif.Assert(limitedBoth, "C02.tunnel.both-directions-limited-over-the-same-stack")
		zzverif.Reach("C01.http.limited")
	}
	// closing the connection handed to the reverse proxy closes the work connection underneath
	zzverif.Assert(w1.closed == 0, "C02.tunnel.work-conn-open-while-in-use")
	_ = c.Close()
	zzverif.Assert(w1.closed >= 1, "C10.http.closing-the-real-conn-closes-the-work-conn")
	zzverif.Reach("C01.http.conn")
}
