//go:build verif

package server

import (
	"net"

	"github.com/fatedier/frp/pkg/msg"
	"github.com/fatedier/frp/zzverif"
)

// VerifC10Teardown: a session whose control connection drops after 0..2 messages: when the
// session has ended nothing it held is left behind (ports, names, listeners, pooled work
// connections), whatever the interleaving of message handling and teardown.
func VerifC10Teardown() {
	zzverif.SetPreempt(zzverif.Param("preempt", 0))
	svr, tcp, _ := zzPortService()
	zzNetReset()
	zzProbeAnswer = true
	ctl, conn := zzControl(svr, "r1", 1)
	// pooled work connections at the moment the session ends
	nw := zzverif.Choice("pooled", 3)
	var pooled []*zzConn
	for i := 0; i < nw; i++ {
		w := &zzConn{name: "w"}
		pooled = append(pooled, w)
		ctl.workConnCh <- w
	}
	// messages that arrive before the connection drops
	n := zzverif.Choice("messages", 3)
	for i := 0; i < n; i++ {
		switch zzverif.Choice("kind", 3) {
		case 0:
			conn.script = append(conn.script, &msg.NewProxy{ProxyName: []string{"a", "b"}[i], ProxyType: "tcp", RemotePort: 1000 + i})
		case 1:
			conn.script = append(conn.script, &msg.Ping{})
		default:
			conn.script = append(conn.script, &msg.CloseProxy{ProxyName: "a"})
		}
	}
	ctl.worker() // returns when the session is torn down
	zzverif.Quiesce()

	select {
	case <-ctl.doneCh:
	default:
		zzverif.Fail("C10.teardown.done-signalled")
	}
	zzverif.Assert(conn.closed >= 1, "C10.teardown.control-conn-closed")
	for _, w := range pooled {
		zzverif.Assert(w.closed == 1, "C11.teardown.pooled-work-conns-closed")
	}
	_, open := <-ctl.workConnCh
	zzverif.Assert(!open, "C11.teardown.pool-closed")
	zzverif.Assert(tcp.ZZIsFree(1000) && tcp.ZZIsFree(1001), "C10.teardown.ports-released")
	_, okA := svr.pxyManager.GetByName("a")
	_, okB := svr.pxyManager.GetByName("b")
	zzverif.Assert(!okA && !okB, "C10.teardown.names-released")
	for _, l := range zzNet.listeners {
		zzverif.Assert(l.closed >= 1, "C10.teardown.listeners-closed")
	}
	// a work connection arriving after the session ended is refused (and then closed by the caller)
	late := &zzConn{name: "late"}
	zzverif.Assert(ctl.RegisterWorkConn(late) != nil, "C11.teardown.late-work-conn-refused")
	// an identical registration on a new session succeeds at once
	ctl2, _ := zzControl(svr, "r2", 0)
	_, err := ctl2.RegisterProxy(&msg.NewProxy{ProxyName: "a", ProxyType: "tcp", RemotePort: 1000})
	zzverif.Assert(err == nil, "C10.teardown.identical-registration-on-new-session-succeeds")
	if n > 0 {
		zzverif.Reach("C10.teardown.with-messages")
	}
	if len(zzNet.listeners) > 0 {
		zzverif.Reach("C10.teardown.had-proxy")
	}
	var _ net.Conn
}
