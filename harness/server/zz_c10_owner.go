//go:build verif

package server

import (
	"github.com/fatedier/frp/pkg/msg"
	"github.com/fatedier/frp/zzverif"
)

// VerifC10VhostOwner: a registration that is refused part-way because one of its hosts belongs to
// another session's proxy leaves that proxy's routes exactly as they were (the endpoint cannot be
// taken over by retrying), and removes everything it had added itself; an accepted tcpmux or http
// registration publishes every host with exactly the configured route user and credentials.
func VerifC10VhostOwner() {
	typ := []string{"http", "https", "tcpmux"}[zzverif.Choice("type", 3)]
	svr, routers := zzFullService(true, true, true, "x.com")
	zzNetReset()
	zzProbeAnswer = true
	owner, _ := zzControl(svr, "r0", 0)
	ctl, _ := zzControl(svr, "r1", 0)
	mk := func(name string, domains []string, sub string) *msg.NewProxy {
		m := &msg.NewProxy{ProxyName: name, ProxyType: typ, CustomDomains: domains, SubDomain: sub}
		if typ == "tcpmux" {
			m.Multiplexer = "httpconnect"
		}
		if typ != "https" {
			m.RouteByHTTPUser = []string{"", "ru"}[zzverif.Choice("routeUser."+name, 2)]
			m.HTTPUser, m.HTTPPwd = "hu", "hp"
		}
		return m
	}
	count := func() int {
		switch typ {
		case "http":
			return routers.ZZCount()
		case "https":
			return svr.rc.VhostHTTPSMuxer.ZZRoutes()
		}
		return svr.rc.TCPMuxHTTPConnectMuxer.ZZRoutes()
	}
	has := func(domain, routeUser string) bool {
		switch typ {
		case "http":
			return routers.ZZHas(domain, "", routeUser)
		case "https":
			_, _, ok := svr.rc.VhostHTTPSMuxer.ZZListenerCreds(domain, routeUser)
			return ok
		}
		_, _, ok := svr.rc.TCPMuxHTTPConnectMuxer.ZZListenerCreds(domain, routeUser)
		return ok
	}
	om := mk("o", []string{"a.com"}, "")
	_, err := owner.RegisterProxy(om)
	zzverif.Assume(err == nil)
	zzverif.Assert(count() == 1 && has("a.com", om.RouteByHTTPUser), "C10.owner.owner-published")

	// the second session asks for hosts of which one may belong to the owner
	domains := [][]string{{"a.com"}, {"b.com", "a.com"}, {"b.com"}}[zzverif.Choice("domains", 3)]
	sub := []string{"", "s"}[zzverif.Choice("subdomain", 2)]
	pm := mk("p", domains, sub)
	// with the owner's route user a shared host is a real conflict; with another one the two
	// proxies share the host and are told apart by the request's user
	sameUser := typ == "https" || zzverif.Bool("sameRouteUser")
	if sameUser {
		pm.RouteByHTTPUser = om.RouteByHTTPUser
	} else {
		pm.RouteByHTTPUser = map[string]string{"": "ru", "ru": ""}[om.RouteByHTTPUser]
	}
	_, err = ctl.RegisterProxy(pm)
	clash := false
	for _, d := range domains {
		if d == "a.com" && sameUser {
			clash = true
		}
	}
	if clash {
		zzverif.Assert(err != nil, "C10.owner.host-of-another-proxy-refused")
		zzverif.Assert(count() == 1 && has("a.com", om.RouteByHTTPUser), "C10.owner.refused-registration-leaves-the-owner's-route")
		zzverif.Assert(!has("b.com", pm.RouteByHTTPUser), "C10.owner.refused-registration-removes-its-own-routes")
		// retrying changes nothing
		_, err = ctl.RegisterProxy(pm)
		zzverif.Assert(err != nil && count() == 1 && has("a.com", om.RouteByHTTPUser), "C10.owner.retry-cannot-take-the-endpoint-over")
		zzverif.Reach("C10.owner.refused")
		return
	}
	zzverif.Assert(err == nil, "C10.owner.free-hosts-accepted")
	if err != nil {
		return
	}
	want := len(domains) + 1
	if sub != "" {
		want++
	}
	if !sameUser {
		zzverif.Reach("C10.owner.shared-host")
	}
	zzverif.Assert(count() == want, "C10.owner.every-host-published-once")
	hosts := append([]string(nil), domains...)
	if sub != "" {
		hosts = append(hosts, "s.x.com")
	}
	for _, h := range hosts {
		zzverif.Assert(has(h, pm.RouteByHTTPUser), "C10.owner.host-published-under-the-configured-route-user")
		switch typ {
		case "tcpmux":
			u, p, ok := svr.rc.TCPMuxHTTPConnectMuxer.ZZListenerCreds(h, pm.RouteByHTTPUser)
			zzverif.Assert(ok && u == "hu" && p == "hp", "C07.owner.tcpmux-host-protected-by-the-configured-credentials")
		case "http":
			u, ok := routers.ZZRouteUsername(h, "", pm.RouteByHTTPUser)
			zzverif.Assert(ok && u == "hu", "C07.owner.http-host-protected-by-the-configured-credentials")
		}
	}
	if sub != "" {
		zzverif.Reach("C10.owner.subdomain")
	}
	_ = ctl.CloseProxy(&msg.CloseProxy{ProxyName: "p"})
	zzverif.Assert(count() == 1 && has("a.com", om.RouteByHTTPUser), "C10.owner.close-leaves-the-other-proxy's-route")
	zzverif.Reach("C10.owner.accepted")
}
