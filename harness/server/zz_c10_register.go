//go:build verif

package server

import (
	"net"
	"strconv"

	"github.com/fatedier/frp/pkg/config/types"
	"github.com/fatedier/frp/pkg/msg"
	"github.com/fatedier/frp/server/group"
	"github.com/fatedier/frp/server/ports"
	"github.com/fatedier/frp/zzverif"
)

type zzListener struct {
	addr   string
	port   int
	closed int
}

func (l *zzListener) Accept() (net.Conn, error) { return nil, errZZ }
func (l *zzListener) Close() error {
	l.closed++
	if f := zzNet.onListenerClose; f != nil {
		zzNet.onListenerClose = nil
		f() // something happens elsewhere in frps while this socket is being closed
	}
	// a port goes back to the pool only after the socket bound to it is closed: otherwise another
	// proxy is given a port the OS still refuses
	if zzNet.tcpPM != nil && l.closed == 1 && zzNet.tcpPM.ZZIsFree(l.port) {
		zzverif.Fail("C09.close.port-returned-to-the-pool-only-after-its-socket-is-closed")
	}
	return nil
}
func (l *zzListener) Addr() net.Addr            { return zzAddr{l.addr} }

var zzNet struct {
	listeners []*zzListener
	failNext  bool
	udpOpen   map[*net.UDPConn]int // port
	udpClosed map[*net.UDPConn]int
	tcpPM     *ports.Manager // when set: the manager the tcp listeners' ports come from
	udpPM     *ports.Manager
	// runs once, inside the next listener Close (an event that falls into a proxy's shutdown)
	onListenerClose func()
}

func zzNetReset() {
	zzNet.listeners, zzNet.failNext = nil, false
	zzNet.udpOpen, zzNet.udpClosed = map[*net.UDPConn]int{}, map[*net.UDPConn]int{}
	zzNet.tcpPM, zzNet.udpPM = nil, nil
	zzNet.onListenerClose = nil
}

// stub for net.Listen
func zzStubListen(network, address string) (net.Listener, error) {
	if zzNet.failNext {
		zzNet.failNext = false
		return nil, errZZ
	}
	_, ps, _ := net.SplitHostPort(address)
	p, _ := strconv.Atoi(ps)
	l := &zzListener{addr: address, port: p}
	zzNet.listeners = append(zzNet.listeners, l)
	return l, nil
}

// stub for net.ResolveUDPAddr
func zzStubResolveUDPAddr(network, address string) (*net.UDPAddr, error) {
	_, ps, _ := net.SplitHostPort(address)
	p, _ := strconv.Atoi(ps)
	return &net.UDPAddr{Port: p}, nil
}

// stub for net.ListenUDP
func zzStubListenUDP(network string, laddr *net.UDPAddr) (*net.UDPConn, error) {
	if zzNet.failNext {
		zzNet.failNext = false
		return nil, errZZ
	}
	c := &net.UDPConn{}
	zzNet.udpOpen[c] = laddr.Port
	return c, nil
}

// stub for (*net.UDPConn).Close
func zzStubUDPClose(c *net.UDPConn) error {
	zzNet.udpClosed[c]++
	if p, ok := zzNet.udpOpen[c]; ok && zzNet.udpPM != nil && zzNet.udpClosed[c] == 1 && zzNet.udpPM.ZZIsFree(p) {
		zzverif.Fail("C09.close.port-returned-to-the-pool-only-after-its-socket-is-closed")
	}
	return nil
}

// stub for (*ports.Manager).isPortAvailable: the OS agrees unless told otherwise
var zzProbeAnswer = true

func zzStubAvailable(pm *ports.Manager, port int) bool { return zzProbeAnswer }

func zzPortService() (*Service, *ports.Manager, *ports.Manager) {
	svr := zzService(&zzVerifier{}, zzNoPlugins())
	allow := []types.PortsRange{{Start: 1000, End: 1001}}
	tcp := ports.NewManager("tcp", "0.0.0.0", allow)
	udp := ports.NewManager("udp", "0.0.0.0", allow)
	svr.rc.TCPPortManager, svr.rc.UDPPortManager = tcp, udp
	svr.rc.TCPGroupCtl = group.NewTCPGroupCtl(tcp)
	return svr, tcp, udp
}

// VerifC10RegisterPort: registration and closure of tcp/udp proxies through the real
// Control.RegisterProxy / CloseProxy over real port managers (only OS calls stubbed).
func VerifC10RegisterPort() {
	svr, tcp, udp := zzPortService()
	zzNetReset()
	zzNet.tcpPM, zzNet.udpPM = tcp, udp
	defer func() { zzNet.tcpPM, zzNet.udpPM = nil, nil }()
	zzProbeAnswer = true
	svr.cfg.MaxPortsPerClient = int64(zzverif.Choice("maxPortsPerClient", 3))
	other, _ := zzControl(svr, "r0", 0)
	ctl, _ := zzControl(svr, "r1", 0)
	typ := []string{"tcp", "udp", ""}[zzverif.Choice("type", 3)]
	isUDP := typ == "udp"
	pm := tcp
	if isUDP {
		pm = udp
	}
	// another session may already own port 1000 and/or the name "dup"
	otherHolds := zzverif.Bool("otherHoldsPort")
	if otherHolds {
		_, err := other.RegisterProxy(&msg.NewProxy{ProxyName: "dup", ProxyType: typ, RemotePort: 1000})
		zzverif.Assume(err == nil)
	}
	// this session may already hold one port (quota)
	if zzverif.Bool("alreadyHoldsOne") {
		_, err := ctl.RegisterProxy(&msg.NewProxy{ProxyName: "first", ProxyType: typ, RemotePort: 1001})
		zzverif.Assume(err == nil)
	}
	nListen := len(zzNet.listeners)
	nUDP := len(zzNet.udpOpen)
	udpBefore := map[*net.UDPConn]bool{}
	for c := range zzNet.udpOpen {
		udpBefore[c] = true
	}
	// names are opaque: "dup " (trailing blank) is another name than "dup"
	name := []string{"a", "dup", "dup "}[zzverif.Choice("name", 3)]
	port := []int{0, 1000, 1001, 2000, -1, 70000}[zzverif.Choice("remotePort", 6)]
	injectListenFail := zzverif.Bool("listenFails")
	zzNet.failNext = injectListenFail
	probeOK := zzverif.Bool("osPortAvailable")
	zzProbeAnswer = probeOK
	usedBefore := ctl.portsUsedNum
	free0, free1 := pm.ZZIsFree(1000), pm.ZZIsFree(1001)

	addr, err := ctl.RegisterProxy(&msg.NewProxy{ProxyName: name, ProxyType: typ, RemotePort: port})
	listenFailed := injectListenFail && !zzNet.failNext
	zzNet.failNext = false
	zzProbeAnswer = true

	max := int(svr.cfg.MaxPortsPerClient)
	if err == nil {
		zzverif.Reach("C10.reg.ok")
		zzverif.Assert(!(name == "dup" && otherHolds), "C12.reg.live-name-refused")
		zzverif.Assert(addr == ":1000" || addr == ":1001", "C09.reg.address-in-allowed-set")
		real := 1000
		if addr == ":1001" {
			real = 1001
		}
		zzverif.Assert(pm.ZZOwner(real) == name, "C09.reg.port-owned-by-this-proxy")
		zzverif.Assert((real == 1000 && free0) || (real == 1001 && free1), "C09.reg.port-was-free")
		if port != 0 {
			zzverif.Assert(real == port, "C09.reg.fixed-port-honoured")
		}
		if isUDP {
			zzverif.Assert(len(zzNet.udpOpen) == nUDP+1, "C09.reg.bound-once")
			for c, p := range zzNet.udpOpen {
				if !udpBefore[c] {
					zzverif.Assert(p == real, "C09.reg.reported-address-is-the-bound-address")
				}
			}
		} else {
			zzverif.Assert(len(zzNet.listeners) == nListen+1, "C09.reg.bound-once")
			if len(zzNet.listeners) == nListen+1 {
				zzverif.Assert(zzNet.listeners[nListen].port == real, "C09.reg.reported-address-is-the-bound-address")
			}
		}
		if max > 0 {
			zzverif.Assert(ctl.portsUsedNum == usedBefore+1 && ctl.portsUsedNum <= max, "C09.quota.never-exceeds-max")
		}
		p, ok := svr.pxyManager.GetByName(name)
		zzverif.Assert(ok && p != nil && zzCtlProxy(ctl, name) == p, "C12.reg.name-registered-to-this-session")
		// close: everything released, other owners untouched
		_ = ctl.CloseProxy(&msg.CloseProxy{ProxyName: name})
		zzverif.Assert(pm.ZZIsFree(real), "C10.close.port-free-again")
		_, still := svr.pxyManager.GetByName(name)
		zzverif.Assert(!still && zzCtlProxy(ctl, name) == nil, "C10.close.name-released")
		if otherHolds {
			// a close request affects only the sender's own proxies
			op, ok := svr.pxyManager.GetByName("dup")
			zzverif.Assert(ok && op == zzCtlProxy(other, "dup"), "C12.close.other-session's-proxy-untouched")
		}
		if max > 0 {
			zzverif.Assert(ctl.portsUsedNum == usedBefore, "C10.close.quota-restored")
		}
		if !isUDP && len(zzNet.listeners) == nListen+1 {
			zzverif.Assert(zzNet.listeners[nListen].closed == 1, "C10.close.listener-closed-once")
		}
		// an identical registration right afterwards succeeds
		addr2, err2 := ctl.RegisterProxy(&msg.NewProxy{ProxyName: name, ProxyType: typ, RemotePort: port})
		zzverif.Assert(err2 == nil, "C10.close.identical-registration-succeeds")
		if port == 0 {
			zzverif.Assert(addr2 == addr, "C09.reg.previous-port-back")
		}
		zzverif.Reach("C10.close.reregistered")
	} else {
		zzverif.Reach("C10.reg.refused")
		zzverif.Assert(pm.ZZIsFree(1000) == free0 && pm.ZZIsFree(1001) == free1, "C10.reg.failed-registration-releases-port")
		zzverif.Assert(ctl.portsUsedNum == usedBefore, "C10.reg.failed-registration-restores-quota")
		inMine := zzCtlProxy(ctl, name) != nil
		zzverif.Assert(!inMine, "C10.reg.failed-registration-not-in-session")
		if !(name == "dup" && otherHolds) {
			_, ok := svr.pxyManager.GetByName(name)
			zzverif.Assert(!ok, "C10.reg.failed-registration-releases-name")
		}
		for i := nListen; i < len(zzNet.listeners); i++ {
			zzverif.Assert(zzNet.listeners[i].closed == 1, "C10.reg.failed-registration-closes-listener")
		}
		// legitimate refusal reasons only
		legit := zzverif.Or(zzverif.Or(name == "dup" && otherHolds, port != 0 && port != 1000 && port != 1001),
			zzverif.Or(listenFailed || !probeOK, zzverif.Or(max > 0 && usedBefore+1 > max, zzverif.Or(port == 1000 && !free0, port == 1001 && !free1))))
		zzverif.Assert(zzverif.Or(legit, port == 0 && !free0 && !free1), "C09.reg.refused-only-for-a-reason")
	}
	// the other session's proxy is never disturbed
	if otherHolds {
		zzverif.Assert(pm.ZZOwner(1000) == "dup", "C09.reg.other-owner-undisturbed")
		p, ok := svr.pxyManager.GetByName("dup")
		zzverif.Assert(ok && zzCtlProxy(other, "dup") == p, "C12.reg.incumbent-keeps-working")
	}
}

// VerifC09UDPDoubleClose: the second Close of a udp proxy (run by the forwarder's exit
// goroutine) must not free a port that another proxy acquired in between.
func VerifC09UDPDoubleClose() {
	svr, _, udp := zzPortService()
	zzNetReset()
	zzProbeAnswer = true
	c1, _ := zzControl(svr, "r1", 0)
	c2, _ := zzControl(svr, "r2", 0)
	_, err := c1.RegisterProxy(&msg.NewProxy{ProxyName: "u1", ProxyType: "udp", RemotePort: 1000})
	zzverif.Assume(err == nil)
	p1 := zzCtlProxy(c1, "u1")
	_ = c1.CloseProxy(&msg.CloseProxy{ProxyName: "u1"})
	zzverif.Assert(udp.ZZIsFree(1000), "C10.udp.port-free-after-close")
	_, err = c2.RegisterProxy(&msg.NewProxy{ProxyName: "u2", ProxyType: "udp", RemotePort: 1000})
	zzverif.Assert(err == nil, "C10.udp.port-reusable-at-once")
	// the forwarder goroutine of u1 notices the closed socket and calls Close again
	p1.Close()
	zzverif.Assert(udp.ZZOwner(1000) == "u2" && !udp.ZZIsFree(1000), "C09.udp.late-second-close-does-not-free-new-owner")
	zzverif.Reach("C09.udp.double-close")
}
