//go:build verif

package server

import (
	"context"

	"golang.org/x/time/rate"

	cproxy "github.com/fatedier/frp/client/proxy"
	"github.com/fatedier/frp/pkg/config"
	"github.com/fatedier/frp/pkg/config/types"
	v1 "github.com/fatedier/frp/pkg/config/v1"
	"github.com/fatedier/frp/pkg/config/v1/validation"
	"github.com/fatedier/frp/pkg/msg"
	"github.com/fatedier/frp/server/controller"
	"github.com/fatedier/frp/server/proxy"
	"github.com/fatedier/frp/zzverif"
)

var c01lim struct {
	created int
	bursts  []int
}

// stub for rate.NewLimiter: counts the limiters created and remembers their burst
func c01StubNewLimiter(r rate.Limit, b int) *rate.Limiter {
	c01lim.created++
	c01lim.bursts = append(c01lim.bursts, b)
	return &rate.Limiter{}
}

// VerifC01LimiterSides: for every bandwidth mode text the client-side validation lets through and
// every limit, exactly one end of the tunnel installs a limiter when a limit is configured (and
// none otherwise), sized to the configured bytes per second: a configured limit is never
// silently unenforced and never enforced twice.
func VerifC01LimiterSides() {
	mode := []string{"", "client", "server", "Client", "Server", "SERVER", "both"}[zzverif.Choice("mode", 7)]
	limit := []string{"", "1KB", "64KB", "2MB", "-1KB"}[zzverif.Choice("limit", 5)]
	typ := []string{"tcp", "http", "stcp"}[zzverif.Choice("type", 3)]
	q, err := types.NewBandwidthQuantity(limit)
	zzverif.Assume(err == nil)
	var cli v1.ProxyConfigurer
	switch typ {
	case "tcp":
		cli = &v1.TCPProxyConfig{RemotePort: 6000}
	case "http":
		c := &v1.HTTPProxyConfig{}
		c.CustomDomains = []string{"a.example"}
		cli = c
	default:
		cli = &v1.STCPProxyConfig{Secretkey: "k"}
	}
	b := cli.GetBaseConfig()
	b.Name, b.Type, b.LocalIP, b.LocalPort = "p", typ, "127.0.0.1", 80
	b.Transport.BandwidthLimit, b.Transport.BandwidthLimitMode = q, mode
	cli.Complete("")
	if validation.ValidateProxyConfigurerForClient(cli) != nil {
		zzverif.Reach("C01.lim.rejected-at-start-up")
		return
	}
	c01lim.created, c01lim.bursts = 0, nil
	// client end
	cp := cproxy.NewProxy(context.Background(), cli, &v1.ClientCommonConfig{}, nil, nil)
	zzverif.Assert(cp != nil, "C01.lim.client-proxy-created")
	clientSide := c01lim.created
	// server end: what the registration message reconstructs
	var m msg.NewProxy
	cli.MarshalToMsg(&m)
	scfg := &v1.ServerConfig{VhostHTTPPort: 80}
	srv, err := config.NewProxyConfigurerFromMsg(&m, scfg)
	zzverif.Assume(err == nil)
	_, err = proxy.NewProxy(context.Background(), &proxy.Options{Configurer: srv, ServerCfg: scfg, ResourceController: &controller.ResourceController{}, LoginMsg: &msg.Login{}})
	zzverif.Assert(err == nil, "C01.lim.server-proxy-created")
	serverSide := c01lim.created - clientSide
	if q.Bytes() > 0 {
		zzverif.Assert(clientSide+serverSide == 1, "C01.lim.exactly-one-end-enforces-a-configured-limit")
		if len(c01lim.bursts) == 1 {
			zzverif.Assert(int64(c01lim.bursts[0]) == q.Bytes(), "C01.lim.burst-equals-configured-bytes")
		}
		if serverSide == 1 {
			zzverif.Reach("C01.lim.server-enforces")
		} else {
			zzverif.Reach("C01.lim.client-enforces")
		}
	} else {
		zzverif.Assert(clientSide+serverSide == 0, "C01.lim.no-limiter-without-a-limit")
	}
}
