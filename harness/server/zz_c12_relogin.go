//go:build verif

package server

import (
	"context"
	"net"

	"github.com/fatedier/frp/pkg/auth"
	v1 "github.com/fatedier/frp/pkg/config/v1"
	"github.com/fatedier/frp/pkg/msg"
	plugin "github.com/fatedier/frp/pkg/plugin/server"
	"github.com/fatedier/frp/server/controller"
	"github.com/fatedier/frp/server/proxy"
	"github.com/fatedier/frp/zzverif"
)

// VerifC12Relogin: a client logs in again with its run id while the previous session is
// still alive and owns a proxy: the new login is acknowledged only after the old session is
// completely torn down, the run id then designates the new session, and the old session's
// late cleanup does not remove it.
func VerifC12Relogin() {
	zzverif.SetPreempt(zzverif.Param("preempt", 1))
	svr, tcp, _ := zzPortService()
	svr.authVerifier = &zzVerifier{loginOK: true}
	zzNetReset()
	zzProbeAnswer = true
	conn1 := &zzConn{name: "old", closeCh: make(chan struct{})}
	withProxy := zzverif.Bool("oldSessionOwnsProxy")
	if withProxy {
		conn1.script = []msg.Message{&msg.NewProxy{ProxyName: "p", ProxyType: "tcp", RemotePort: 1000}}
	}
	err := svr.RegisterControl(conn1, &msg.Login{RunID: "r1", User: "u", PoolCount: zzverif.Choice("poolCount", 2)}, false)
	zzverif.Assume(err == nil)
	zzverif.Quiesce() // old session is up: its proxy (if any) is registered
	old, ok := svr.ctlManager.GetByID("r1")
	zzverif.Assume(ok)
	if withProxy {
		zzverif.Assume(!tcp.ZZIsFree(1000))
	}
	conn2 := &zzConn{name: "new", closeCh: make(chan struct{})}
	ackSeen := false
	conn2.onWrite = func(m msg.Message) {
		if r, isResp := m.(*msg.LoginResp); isResp && r.Error == "" {
			ackSeen = true
			// at the moment the new login is acknowledged the old session must be gone
			select {
			case <-old.doneCh:
			default:
				zzverif.Fail("C12.relogin.ack-only-after-old-session-torn-down")
			}
			zzverif.Assert(tcp.ZZIsFree(1000), "C12.relogin.old-port-released-before-ack")
			_, still := svr.pxyManager.GetByName("p")
			zzverif.Assert(!still, "C12.relogin.old-name-released-before-ack")
		}
	}
	err = svr.RegisterControl(conn2, &msg.Login{RunID: "r1", User: "u"}, false)
	zzverif.Assert(err == nil && ackSeen, "C12.relogin.new-login-acknowledged")
	zzverif.Assert(conn1.closed >= 1, "C12.relogin.old-connection-closed")
	// the client's own earlier registration never blocks its new one
	nc, ok2 := svr.ctlManager.GetByID("r1")
	zzverif.Assert(ok2 && nc != old, "C12.relogin.run-id-designates-new-session")
	if ok2 {
		_, rerr := nc.RegisterProxy(&msg.NewProxy{ProxyName: "p", ProxyType: "tcp", RemotePort: 1000})
		zzverif.Assert(rerr == nil, "C12.relogin.own-earlier-registration-does-not-block")
	}
	zzverif.Quiesce() // the old session's late cleanup (Del(runID, old)) runs now
	nc2, ok3 := svr.ctlManager.GetByID("r1")
	zzverif.Assert(ok3 && nc2 == nc, "C12.relogin.late-cleanup-keeps-new-session")
	zzverif.Reach("C12.relogin.done")
	if withProxy {
		zzverif.Reach("C12.relogin.with-proxy")
	}
}

var c12Made []*Control

// stub for NewControl: the real constructor, its results remembered (a replaced session is no longer
// reachable through the session table)
func c12StubNewControl(ctx context.Context, rc *controller.ResourceController, pxyManager *proxy.Manager, pluginManager *plugin.Manager,
	authVerifier auth.Verifier, ctlConn net.Conn, ctlConnEncrypted bool, loginMsg *msg.Login, serverCfg *v1.ServerConfig) (*Control, error) {
	c, err := NewControl(ctx, rc, pxyManager, pluginManager, authVerifier, ctlConn, ctlConnEncrypted, loginMsg, serverCfg)
	if err == nil {
		c12Made = append(c12Made, c)
	}
	return c, err
}

// VerifC12ConcurrentRelogin: two re-logins with the same run id arrive at the same time (the old
// connection still draining): afterwards the run id designates exactly one session and every
// other session that ever held it has been replaced and closed, none is left running beside it.
func VerifC12ConcurrentRelogin() {
	zzverif.SetPreempt(zzverif.Param("preempt", 1))
	svr, _, _ := zzPortService()
	svr.authVerifier = &zzVerifier{loginOK: true}
	zzNetReset()
	zzProbeAnswer = true
	// a login is acknowledged (LoginResp written) only when every session acknowledged earlier for
	// this run id has been torn down completely
	c12Made = nil
	var acked []*Control
	ack := func(on *zzConn) func(m msg.Message) {
		return func(m msg.Message) {
			if _, ok := m.(*msg.LoginResp); !ok {
				return
			}
			for _, prev := range acked {
				select {
				case <-prev.doneCh:
				default:
					zzverif.Fail("C12.relogin2.acknowledged-only-after-the-replaced-session-is-torn-down")
				}
			}
			for _, c := range c12Made {
				if fc := zzUnwrap(c.conn); fc == on {
					acked = append(acked, c)
				}
			}
		}
	}
	conn1 := &zzConn{name: "old", closeCh: make(chan struct{})}
	conn1.onWrite = ack(conn1)
	err := svr.RegisterControl(conn1, &msg.Login{RunID: "r1", User: "u"}, false)
	zzverif.Assume(err == nil)
	zzverif.Quiesce()
	conn2 := &zzConn{name: "new-a", closeCh: make(chan struct{})}
	conn2.onWrite = ack(conn2)
	conn3 := &zzConn{name: "new-b", closeCh: make(chan struct{})}
	conn3.onWrite = ack(conn3)
	var e3 error
	done3 := false
	go func() {
		e3 = svr.RegisterControl(conn3, &msg.Login{RunID: "r1", User: "u"}, false)
		done3 = true
	}()
	e2 := svr.RegisterControl(conn2, &msg.Login{RunID: "r1", User: "u"}, false)
	zzverif.Quiesce()
	zzverif.Assert(done3 && e2 == nil && e3 == nil, "C12.relogin2.both-logins-answered")
	zzverif.Assert(conn1.closed >= 1, "C12.relogin2.old-connection-closed")
	live := 0
	if conn2.closed == 0 {
		live++
	}
	if conn3.closed == 0 {
		live++
	}
	zzverif.Assert(live == 1, "C12.relogin2.exactly-one-session-survives-for-the-run-id")
	nc, ok := svr.ctlManager.GetByID("r1")
	zzverif.Assert(ok, "C12.relogin2.run-id-known")
	if ok {
		zzverif.Assert((nc.conn == net.Conn(conn2) && conn2.closed == 0) || (nc.conn == net.Conn(conn3) && conn3.closed == 0), "C12.relogin2.run-id-designates-the-surviving-session")
	}
	zzverif.Reach("C12.relogin2.done")
}
