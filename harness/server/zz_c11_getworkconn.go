//go:build verif

package server

import (
	"context"
	"net"
	"time"

	"github.com/fatedier/frp/pkg/msg"
	"github.com/fatedier/frp/zzverif"
)

var c11gw struct {
	timer     chan time.Time
	durations []time.Duration
}

// stub for time.After: the harness decides whether the timer fires; the duration asked for is recorded
func c11StubAfter(d time.Duration) <-chan time.Time {
	c11gw.durations = append(c11gw.durations, d)
	return c11gw.timer
}

func c11Requests(ctl *Control) int {
	n, reqs := len(ctl.msgDispatcher.SendChannel()), 0
	for i := 0; i < n; i++ {
		m := <-ctl.msgDispatcher.SendChannel()
		if _, ok := m.(*msg.ReqWorkConn); ok {
			reqs++
		} else {
			zzverif.Fail("C11.get.only-work-connection-requests-are-sent")
		}
	}
	return reqs
}

// VerifC11GetWorkConn: Control.GetWorkConn (take-or-request with timeout, replacement request after
// each take) from every pool state, with a client that delivers, delivers late or never delivers.
func VerifC11GetWorkConn() {
	svr := zzService(&zzVerifier{loginOK: true}, zzNoPlugins())
	tmo := []int64{1, 10, 3600}[zzverif.Choice("userConnTimeout", 3)]
	svr.cfg.UserConnTimeout = tmo
	svr.cfg.Transport.HeartbeatTimeout = 90
	svr.cfg.Transport.TCPMuxKeepaliveInterval = 30
	conn := &zzConn{name: "ctl"}
	ctl, err := NewControl(context.Background(), svr.rc, svr.pxyManager, svr.pluginManager, svr.authVerifier, conn, false, &msg.Login{RunID: "r1", PoolCount: 1}, svr.cfg)
	zzverif.Assume(err == nil)
	c11gw.timer = make(chan time.Time, 1)
	c11gw.durations = nil

	fill := zzverif.Choice("fill", 3)
	pooled := []*zzConn{{name: "p0"}, {name: "p1"}}
	for i := 0; i < fill; i++ {
		ctl.workConnCh <- pooled[i]
	}
	scenario := 0
	fresh := &zzConn{name: "fresh"}
	if fill == 0 {
		// 0 the client delivers after being asked, 1 it never does (timer fires), 2 the session ends while waiting,
		// 3 the session's dispatcher has already stopped
		scenario = zzverif.Choice("scenario", 4)
	}
	switch scenario {
	case 0:
		if fill == 0 {
			go func() { _ = ctl.RegisterWorkConn(fresh) }()
		}
	case 1:
		c11gw.timer <- time.Time{}
	case 2:
		go func() { close(ctl.workConnCh) }()
	case 3:
		go ctl.msgDispatcher.Run() // the control connection's read fails at once: the dispatcher reports done
		zzverif.Quiesce()
		c11gw.timer <- time.Time{} // (a request may still be queued on a stopped dispatcher: then the wait ends by the timer)
	}

	wc, gerr := ctl.GetWorkConn()
	zzverif.Quiesce()

	switch {
	case fill > 0:
		zzverif.Reach("C11.get.from-pool")
		zzverif.Assert(gerr == nil && wc != nil, "C11.get.pooled-connection-handed-out")
		zzverif.Assert(wc == net.Conn(pooled[0]) || wc == net.Conn(pooled[1]), "C11.get.handed-out-connection-comes-from-the-pool")
		zzverif.Assert(len(ctl.workConnCh) == fill-1, "C11.get.taken-connection-leaves-the-pool")
		zzverif.Assert(len(c11gw.durations) == 0, "C11.get.no-wait-when-the-pool-has-a-connection")
		zzverif.Assert(c11Requests(ctl) == 1, "C11.get.one-replacement-requested-per-take")
		if fill == 2 {
			// a second user: a different connection, never the same one twice
			wc2, e2 := ctl.GetWorkConn()
			zzverif.Assert(e2 == nil && wc2 != nil && wc2 != wc, "C11.get.a-work-connection-serves-one-user-only")
			zzverif.Assert(c11Requests(ctl) == 1, "C11.get.one-replacement-requested-per-take")
			zzverif.Reach("C11.get.second-user")
		}
	case scenario == 0:
		zzverif.Reach("C11.get.delivered")
		zzverif.Assert(gerr == nil && wc == net.Conn(fresh), "C11.get.delivered-connection-handed-out")
		zzverif.Assert(len(ctl.workConnCh) == 0, "C11.get.taken-connection-leaves-the-pool")
		// one request because the pool was empty plus one replacement; with a delivery that overtakes the
		// first look at the pool only the replacement
		r := c11Requests(ctl)
		zzverif.Assert(r == 2 || (r == 1 && len(c11gw.durations) == 0), "C11.get.asks-once-and-replaces-once")
		for _, d := range c11gw.durations {
			zzverif.Assert(d == time.Duration(tmo)*time.Second, "C11.get.waits-the-configured-user-connection-timeout")
		}
	case scenario == 1:
		zzverif.Reach("C11.get.timeout")
		zzverif.Assert(gerr != nil && wc == nil, "C11.get.gives-up-with-an-error-when-no-connection-comes")
		zzverif.Assert(len(c11gw.durations) == 1 && c11gw.durations[0] == time.Duration(tmo)*time.Second, "C11.get.waits-the-configured-user-connection-timeout")
		zzverif.Assert(c11Requests(ctl) == 1, "C11.get.asks-exactly-once-when-the-pool-is-empty")
	case scenario == 2:
		zzverif.Reach("C11.get.session-ended")
		zzverif.Assert(gerr != nil && wc == nil, "C11.get.ended-session-yields-an-error-not-a-connection")
	case scenario == 3:
		zzverif.Reach("C11.get.dispatcher-stopped")
		zzverif.Assert(gerr != nil && wc == nil, "C11.get.stopped-session-yields-an-error-not-a-connection")
		for _, d := range c11gw.durations {
			zzverif.Assert(d == time.Duration(tmo)*time.Second, "C11.get.waits-the-configured-user-connection-timeout")
		}
		zzverif.Assert(len(c11gw.durations) <= 1, "C11.get.waits-at-most-once")
	}
}
