//go:build verif

package server

import (
	"crypto/tls"
	"errors"
	"net"
	"time"

	"github.com/fatedier/frp/zzverif"
)

type c05aLn struct {
	conns []net.Conn
}

func (l *c05aLn) Accept() (net.Conn, error) {
	if len(l.conns) == 0 {
		return nil, errors.New("listener closed")
	}
	c := l.conns[0]
	l.conns = l.conns[1:]
	return c, nil
}
func (l *c05aLn) Close() error   { return nil }
func (l *c05aLn) Addr() net.Addr { return zzAddr{"0.0.0.0:7000"} }

var c05a struct {
	calls    int
	tlsOnly  []bool
	cfgs     []*tls.Config
	timeouts []time.Duration
}

// stub for netpkg.CheckAndEnableTLSServerConnWithTimeout: records what the accept loop demands of
// the connection; the connection is then refused (the sniff itself is decided in C05.sniff)
func c05aStubCheckTLS(c net.Conn, tlsConfig *tls.Config, tlsOnly bool, timeout time.Duration) (net.Conn, bool, bool, error) {
	c05a.calls++
	c05a.tlsOnly = append(c05a.tlsOnly, tlsOnly)
	c05a.cfgs = append(c05a.cfgs, tlsConfig)
	c05a.timeouts = append(c05a.timeouts, timeout)
	return nil, false, false, errors.New("refused by the harness")
}

// VerifC05Accept: every connection accepted on a public listener - plain tcp, kcp, websocket - is put
// through the TLS check with the operator's force setting and the service's TLS configuration, under
// a time limit; only the internal (ssh gateway) listener is exempt. A refused connection is closed.
func VerifC05Accept() {
	svr := zzService(&zzVerifier{}, zzNoPlugins())
	force := zzverif.Bool("tlsForce")
	svr.cfg.Transport.TLS.Force = force
	svr.tlsConfig = &tls.Config{}
	conn := &zzConn{name: "peer"}
	l := &c05aLn{conns: []net.Conn{conn}}
	which := zzverif.Choice("listener", 4)
	switch which {
	case 0:
		svr.listener = l
	case 1:
		svr.kcpListener = l
	case 2:
		svr.websocketListener = l
	case 3:
		svr.sshTunnelListener = nil
	}
	internal := which == 3
	c05a.calls, c05a.tlsOnly, c05a.cfgs, c05a.timeouts = 0, nil, nil, nil
	svr.HandleListener(l, internal)
	if internal {
		zzverif.Assert(c05a.calls == 0, "C05.accept.internal-listener-is-not-sniffed")
		zzverif.Reach("C05.accept.internal")
		return
	}
	zzverif.Assert(c05a.calls == 1, "C05.accept.every-public-connection-goes-through-the-tls-check")
	if c05a.calls == 1 {
		zzverif.Assert(c05a.tlsOnly[0] == force, "C05.accept.forced-tls-applies-to-every-public-listener")
		zzverif.Assert(c05a.cfgs[0] == svr.tlsConfig, "C05.accept.checked-against-the-service's-tls-configuration")
		zzverif.Assert(c05a.timeouts[0] > 0, "C05.accept.first-bytes-awaited-under-a-time-limit")
	}
	zzverif.Assert(conn.closed >= 1, "C05.accept.refused-connection-closed")
	if which == 2 {
		zzverif.Reach("C05.accept.websocket")
	}
	zzverif.Reach("C05.accept.public")
}
