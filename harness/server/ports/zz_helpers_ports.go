//go:build verif

package ports

import "github.com/fatedier/frp/zzverif"

// harness accessors (overlay only)

func (pm *Manager) ZZIsFree(port int) bool {
	pm.mu.Lock()
	defer pm.mu.Unlock()
	_, ok := pm.freePorts[port]
	return ok
}

func (pm *Manager) ZZOwner(port int) string {
	pm.mu.Lock()
	defer pm.mu.Unlock()
	if c, ok := pm.usedPorts[port]; ok {
		return c.ProxyName
	}
	return ""
}

func (pm *Manager) ZZCounts() (free, used int) {
	pm.mu.Lock()
	defer pm.mu.Unlock()
	return len(pm.freePorts), len(pm.usedPorts)
}

func (pm *Manager) ZZGuard(name string) {
	zzverif.Guard(pm.reservedPorts, &pm.mu, name+".reservedPorts")
	zzverif.Guard(pm.usedPorts, &pm.mu, name+".usedPorts")
	zzverif.Guard(pm.freePorts, &pm.mu, name+".freePorts")
}

// ZZProbe returns the network and address on which availability of a port is probed.
func (pm *Manager) ZZProbe() (netType, bindAddr string) { return pm.netType, pm.bindAddr }
