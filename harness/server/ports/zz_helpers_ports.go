//go:build verif

package ports

// harness accessors (overlay only)

func (pm *Manager) ZZIsFree(port int) bool {
	_, ok := pm.freePorts[port]
	return ok
}

func (pm *Manager) ZZOwner(port int) string {
	if c, ok := pm.usedPorts[port]; ok {
		return c.ProxyName
	}
	return ""
}

func (pm *Manager) ZZCounts() (free, used int) { return len(pm.freePorts), len(pm.usedPorts) }
