//go:build verif

package ports

import (
	"github.com/fatedier/frp/pkg/config/types"
	"github.com/fatedier/frp/zzverif"
)

var c09Probe struct {
	ports   []int
	results []bool
}

// stub for (*Manager).isPortAvailable: the OS may answer anything.
func c09StubAvailable(pm *Manager, port int) bool {
	r := zzverif.Bool("probe")
	c09Probe.ports = append(c09Probe.ports, port)
	c09Probe.results = append(c09Probe.results, r)
	return r
}

var c09Names = []string{"a", "b", "c"}

// c09State builds an arbitrary valid manager over k allowed ports base..base+k-1.
func c09State(k, base int) (*Manager, []bool, []string) {
	pm := &Manager{
		reservedPorts: make(map[string]*PortCtx),
		usedPorts:     make(map[int]*PortCtx),
		freePorts:     make(map[int]struct{}),
		netType:       "tcp",
	}
	used := make([]bool, k)
	owner := make([]string, k)
	for i := 0; i < k; i++ {
		p := base + i
		if zzverif.Bool("used") {
			used[i] = true
			owner[i] = c09Names[zzverif.Choice("owner", len(c09Names))]
			ctx := &PortCtx{ProxyName: owner[i], Port: p}
			pm.usedPorts[p] = ctx
			// a live owner always has its reservation pointing at its port
			pm.reservedPorts[owner[i]] = ctx
		} else {
			pm.freePorts[p] = struct{}{}
		}
	}
	// stale reservations of closed proxies: name -> some allowed port (free or meanwhile used by another owner)
	for _, n := range c09Names {
		if _, ok := pm.reservedPorts[n]; ok {
			continue
		}
		r := zzverif.Choice("reserved", k+1)
		if r < k {
			pm.reservedPorts[n] = &PortCtx{ProxyName: n, Port: base + r, Closed: true}
		}
	}
	return pm, used, owner
}

func c09CheckInvariant(pm *Manager, k, base int, label string) {
	for i := 0; i < k; i++ {
		p := base + i
		_, f := pm.freePorts[p]
		u, isUsed := pm.usedPorts[p]
		zzverif.Assert(f != isUsed, label+".free-xor-used")
		if isUsed {
			zzverif.Assert(u != nil && u.Port == p, label+".used-ctx-port")
		}
	}
	zzverif.Assert(len(pm.freePorts)+len(pm.usedPorts) == k, label+".no-foreign-ports")
}

// VerifC09AcquireStep: one Acquire from an arbitrary valid state, any name, any port value.
func VerifC09AcquireStep() {
	k := zzverif.Param("ports", 3)
	base := 1000
	zzverif.SetMapOrderLimit(4)
	pm, used, owner := c09State(k, base)
	c09Probe.ports, c09Probe.results = nil, nil
	name := c09Names[zzverif.Choice("name", len(c09Names))]
	// the acquirer is a new proxy: it does not currently own a port (names are unique among live proxies)
	for i := 0; i < k; i++ {
		zzverif.Assume(!(used[i] && owner[i] == name))
	}
	port := zzverif.Int("port")
	var resPort = -1
	if r, ok := pm.reservedPorts[name]; ok {
		resPort = r.Port
	}

	real, err := pm.Acquire(name, port)

	c09CheckInvariant(pm, k, base, "C09.acquire.inv")
	if err == nil {
		zzverif.Reach("C09.acquire.ok")
		idx := real - base
		zzverif.Assert(idx >= 0 && idx < k, "C09.acquire.in-allowed-set")
		if idx >= 0 && idx < k {
			zzverif.Except("F09a", port == 0 && resPort == real && used[idx])
			zzverif.Assert(!used[idx], "C09.acquire.exclusive")
			u := pm.usedPorts[real]
			zzverif.Assert(u != nil && u.ProxyName == name && u.Port == real, "C09.acquire.owner-recorded")
			r := pm.reservedPorts[name]
			zzverif.Assert(r != nil && r.Port == real, "C09.acquire.reserved-updated")
		}
		if port != 0 {
			zzverif.Assert(real == port, "C09.acquire.fixed-port-truthful")
		} else {
			zzverif.Reach("C09.acquire.server-chosen")
			// previous port back when still free (and the OS agrees)
			if resPort >= base && resPort < base+k && !used[resPort-base] && len(c09Probe.results) > 0 && c09Probe.ports[0] == resPort && c09Probe.results[0] {
				zzverif.Assert(real == resPort, "C09.acquire.previous-port-back")
				zzverif.Reach("C09.acquire.previous-port-back")
			}
		}
		// every probe that was answered "unavailable" is not the granted port
		for i, p := range c09Probe.ports {
			if p == real {
				zzverif.Assert(c09Probe.results[i] || i < len(c09Probe.ports)-1, "C09.acquire.granted-port-probed-ok")
			}
		}
		// all other ports untouched
		for i := 0; i < k; i++ {
			p := base + i
			if p == real {
				continue
			}
			u, isUsed := pm.usedPorts[p]
			zzverif.Assert(isUsed == used[i], "C09.acquire.others-untouched")
			if isUsed && used[i] {
				zzverif.Assert(u.ProxyName == owner[i], "C09.acquire.others-owner-untouched")
			}
		}
	} else {
		zzverif.Reach("C09.acquire.refused")
		zzverif.Assert(real == 0, "C09.acquire.err-zero-port")
		for i := 0; i < k; i++ {
			p := base + i
			u, isUsed := pm.usedPorts[p]
			zzverif.Assert(isUsed == used[i], "C09.acquire.refusal-leaves-state")
			if isUsed && used[i] {
				zzverif.Assert(u.ProxyName == owner[i], "C09.acquire.refusal-leaves-owner")
			}
		}
		if port != 0 {
			idx := port - base
			switch {
			case idx < 0 || idx >= k:
				zzverif.Assert(err == ErrPortNotAllowed, "C09.acquire.err-not-allowed")
				zzverif.Reach("C09.acquire.err-not-allowed")
			case used[idx]:
				zzverif.Assert(err == ErrPortAlreadyUsed, "C09.acquire.err-already-used")
			default:
				zzverif.Assert(err == ErrPortUnAvailable, "C09.acquire.err-unavailable")
			}
		} else {
			zzverif.Assert(err == ErrNoAvailablePort, "C09.acquire.err-no-port")
		}
	}
}

// VerifC09ReleaseStep: Release from an arbitrary valid state with any port value.
func VerifC09ReleaseStep() {
	k := zzverif.Param("ports", 3)
	base := 1000
	pm, used, owner := c09State(k, base)
	port := zzverif.Int("port")
	pm.Release(port)
	c09CheckInvariant(pm, k, base, "C09.release.inv")
	for i := 0; i < k; i++ {
		p := base + i
		_, free := pm.freePorts[p]
		if p == port {
			zzverif.Assert(free, "C09.release.immediately-free")
			if used[i] {
				zzverif.Reach("C09.release.freed")
			}
		} else {
			zzverif.Assert(free == !used[i], "C09.release.others-untouched")
			if used[i] {
				zzverif.Assert(pm.usedPorts[p].ProxyName == owner[i], "C09.release.others-owner")
			}
		}
	}
	// released port can be acquired again at once by anyone (when the OS agrees)
	if port >= base && port < base+k {
		c09Probe.ports, c09Probe.results = nil, nil
		real, err := pm.Acquire("z", port)
		if len(c09Probe.results) == 1 && c09Probe.results[0] {
			zzverif.Assert(err == nil && real == port, "C09.release.reacquire")
			zzverif.Reach("C09.release.reacquire")
		}
	}
}

// VerifC09Seed: NewManager seeds exactly the allowed set.
func VerifC09Seed() {
	n := zzverif.Choice("entries", 3) // 0 is excluded below (full range = 65535 iterations, not unrolled)
	zzverif.Assume(n >= 1)
	var allow []types.PortsRange
	for i := 0; i < n; i++ {
		if zzverif.Bool("single") {
			allow = append(allow, types.PortsRange{Single: zzverif.IntRange("single.v", -2, 70000)})
		} else {
			s := zzverif.IntRange("start", -2, 70000)
			w := zzverif.IntRange("width", -1, 3)
			allow = append(allow, types.PortsRange{Start: s, End: s + w})
		}
	}
	pm := NewManager("tcp", "0.0.0.0", allow)
	q := zzverif.Int("q")
	_, got := pm.freePorts[q]
	want := false
	for _, e := range allow {
		if e.Single > 0 {
			want = zzverif.Or(want, q == e.Single)
		} else {
			want = zzverif.Or(want, zzverif.And(q >= e.Start, q <= e.End))
		}
	}
	zzverif.Assert(got == want, "C09.seed.exact-allowed-set")
	zzverif.Assert(len(pm.usedPorts) == 0 && len(pm.reservedPorts) == 0, "C09.seed.nothing-used")
	if got {
		zzverif.Reach("C09.seed.member")
	}
}
