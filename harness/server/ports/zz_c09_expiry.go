//go:build verif

package ports

import (
	"time"

	"github.com/fatedier/frp/zzverif"
)

var c09x struct {
	now    int64
	wake   chan struct{}
	sleeps []time.Duration
}

func c09xStubSleep(d time.Duration) {
	c09x.sleeps = append(c09x.sleeps, d)
	<-c09x.wake
}
func c09xStubSince(t time.Time) time.Duration {
	return time.Time{}.Add(time.Duration(c09x.now)).Sub(t)
}

type c09xRes struct {
	name   string
	port   int
	closed bool
	upd    int64
}

// VerifC09Expiry: one round of the reserved-port cleaner from an arbitrary valid state with arbitrary
// ages: a reservation disappears only when its owner is gone AND it is older than a day; nothing else
// (free / used sets, live owners' entries) moves; the cleaner works under the manager's lock.
func VerifC09Expiry() {
	k := zzverif.Param("ports", 2)
	base := 1000
	zzverif.SetMapOrderLimit(4)
	pm, _, _ := c09State(k, base)
	c09x.now = zzverif.Int64("now")
	zzverif.Assume(c09x.now >= 0 && c09x.now < 1<<55)
	c09x.wake = make(chan struct{})
	c09x.sleeps = nil
	var before []c09xRes
	for _, n := range c09Names {
		ctx, ok := pm.reservedPorts[n]
		if !ok {
			continue
		}
		upd := zzverif.Int64("upd")
		zzverif.Assume(upd >= 0 && upd <= c09x.now)
		ctx.UpdateTime = time.Time{}.Add(time.Duration(upd))
		before = append(before, c09xRes{n, ctx.Port, ctx.Closed, upd})
	}
	zzverif.Guard(pm.reservedPorts, &pm.mu, "ports.Manager.reservedPorts")
	go pm.cleanReservedPortsWorker()
	zzverif.Quiesce()
	zzverif.Assert(len(c09x.sleeps) == 1 && c09x.sleeps[0] > 0, "C09.expiry.cleaner-waits-a-positive-interval-before-each-round")
	c09x.wake <- struct{}{}
	zzverif.Quiesce()
	zzverif.Assert(len(c09x.sleeps) == 2, "C09.expiry.cleaner-goes-on-after-a-round")

	const day = int64(24 * 3600 * 1000000000)
	pm.mu.Lock()
	for _, b := range before {
		ctx, still := pm.reservedPorts[b.name]
		expired := b.closed && c09x.now-b.upd > day
		zzverif.Assert(still == !expired, "C09.expiry.reservation-dropped-iff-owner-gone-and-older-than-a-day")
		if still {
			zzverif.Assert(ctx.Port == b.port && ctx.Closed == b.closed, "C09.expiry.kept-reservation-unchanged")
			zzverif.Reach("C09.expiry.kept")
		} else {
			zzverif.Reach("C09.expiry.dropped")
		}
		if !b.closed {
			zzverif.Reach("C09.expiry.live-owner")
		}
	}
	zzverif.Assert(len(pm.reservedPorts) <= len(before), "C09.expiry.no-reservation-invented")
	pm.mu.Unlock()
	c09CheckInvariant(pm, k, base, "C09.expiry")
}
