//go:build verif

package group

import "github.com/fatedier/frp/zzverif"

func (c *TCPGroupCtl) ZZGuard()         { zzverif.Guard(c.groups, &c.mu, "TCPGroupCtl.groups") }
func (c *HTTPGroupController) ZZGuard() { zzverif.Guard(c.groups, &c.mu, "HTTPGroupController.groups") }
func (c *TCPMuxGroupCtl) ZZGuard()      { zzverif.Guard(c.groups, &c.mu, "TCPMuxGroupCtl.groups") }
