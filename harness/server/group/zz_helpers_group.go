//go:build verif

package group

import "github.com/fatedier/frp/zzverif"

func (c *TCPGroupCtl) ZZGuard()         { zzverif.Guard(c.groups, &c.mu, "TCPGroupCtl.groups") }
func (c *HTTPGroupController) ZZGuard() { zzverif.Guard(c.groups, &c.mu, "HTTPGroupController.groups") }
func (c *TCPMuxGroupCtl) ZZGuard()      { zzverif.Guard(c.groups, &c.mu, "TCPMuxGroupCtl.groups") }

// ZZMembers returns the member names of an http group (nil if the group does not exist).
func (c *HTTPGroupController) ZZMembers(group string) []string {
	c.mu.Lock()
	g := c.groups[group]
	c.mu.Unlock()
	if g == nil {
		return nil
	}
	g.mu.RLock()
	defer g.mu.RUnlock()
	return append([]string(nil), g.pxyNames...)
}

// ZZMembers returns the number of members of a tcp group (-1 if the group does not exist).
func (c *TCPGroupCtl) ZZMembers(group string) int {
	c.mu.Lock()
	g := c.groups[group]
	c.mu.Unlock()
	if g == nil {
		return -1
	}
	g.mu.Lock()
	defer g.mu.Unlock()
	return len(g.lns)
}
