//go:build verif

package group

import (
	"context"
	"net"
	"strconv"
	"time"

	"github.com/fatedier/frp/pkg/util/tcpmux"
	"github.com/fatedier/frp/pkg/util/vhost"
	"github.com/fatedier/frp/zzverif"
)

func c13Muxer() *tcpmux.HTTPConnectTCPMuxer {
	m, err := tcpmux.NewHTTPConnectTCPMuxer(&c13Listener{addr: "mux"}, false, time.Second)
	zzverif.Assume(err == nil)
	return m
}

// VerifC13Mux: histories of joins and leaves on tcpmux groups over the real CONNECT muxer.
func VerifC13Mux() {
	steps := zzverif.Param("steps", 3)
	mux := c13Muxer()
	ctl := NewTCPMuxGroupCtl(mux)
	type ref struct {
		key, domain, user, pass string
		routeUser               string
		members                 int
	}
	refs := map[string]*ref{}
	type member struct {
		ln    net.Listener
		group string
	}
	var members []member
	for s := 0; s < steps; s++ {
		if len(members) > 0 && zzverif.Bool("leave") {
			i := zzverif.Choice("who", len(members))
			mb := members[i]
			members = append(members[:i], members[i+1:]...)
			_ = mb.ln.Close()
			r := refs[mb.group]
			r.members--
			if r.members == 0 {
				_, there := ctl.groups[mb.group]
				zzverif.Assert(!there, "C13.mux.group-removed-with-last-member")
				zzverif.Assert(mux.ZZRoutes() == len(refs)-1, "C13.mux.route-disappears-with-last-member")
				delete(refs, mb.group)
				zzverif.Reach("C13.mux.last-leave")
			} else {
				zzverif.Assert(mux.ZZRoutes() == len(refs), "C13.mux.route-exists-while-members")
			}
			continue
		}
		g := []string{"g", "h"}[zzverif.Choice("group", 2)]
		// the endpoint parameters of this request: the base set or one deviation from it
		key, domain, user, pass, routeUser := "k", "a.com", "", "", ""
		switch zzverif.Choice("variant", 7) {
		case 1:
			key = "x"
		case 2:
			domain = "b.com"
		case 3:
			user, pass = "u", "p"
		case 4:
			user, pass = "u", "q"
		case 5:
			routeUser = "ru"
		case 6:
			user = "u"
		}
		taken := false
		for _, r := range refs {
			if r.domain == domain && r.routeUser == routeUser {
				taken = true
			}
		}
		ln, err := ctl.Listen(context.Background(), "httpconnect", g, key, vhost.RouteConfig{Domain: domain, Username: user, Password: pass, RouteByHTTPUser: routeUser})
		r := refs[g]
		if r == nil {
			zzverif.Assert((err == nil) == !taken, "C13.mux.create-iff-route-free")
			if err == nil {
				refs[g] = &ref{key, domain, user, pass, routeUser, 1}
				members = append(members, member{ln, g})
				zzverif.Reach("C13.mux.created")
			}
			continue
		}
		okJoin := key == r.key && domain == r.domain && user == r.user && pass == r.pass && routeUser == r.routeUser
		zzverif.Assert((err == nil) == okJoin, "C13.mux.join-iff-key-route-and-credentials-match")
		if err == nil {
			r.members++
			members = append(members, member{ln, g})
			zzverif.Reach("C13.mux.joined")
		} else {
			zzverif.Assert(len(ctl.groups[g].lns) == r.members, "C13.mux.refused-join-leaves-group-unchanged")
			zzverif.Reach("C13.mux.refused")
		}
		_ = strconv.Itoa
	}
}

// VerifC13RaceMux: a join racing with the last leave of a tcpmux group.
func VerifC13RaceMux() {
	zzverif.SetPreempt(zzverif.Param("preempt", 2))
	mux := c13Muxer()
	ctl := NewTCPMuxGroupCtl(mux)
	rc := vhost.RouteConfig{Domain: "a.com"}
	ln1, err := ctl.Listen(context.Background(), "httpconnect", "g", "k", rc)
	zzverif.Assume(err == nil)
	var ln2 net.Listener
	var err2 error
	bDone := false
	go func() {
		ln2, err2 = ctl.Listen(context.Background(), "httpconnect", "g", "k", rc)
		bDone = true
	}()
	_ = ln1.Close()
	zzverif.Quiesce()
	zzverif.Assert(bDone, "C13.racemux.join-terminates")
	zzverif.Assert(err2 == nil, "C13.racemux.valid-join-succeeds-even-while-last-member-leaves")
	if err2 == nil {
		zzverif.Reach("C13.racemux.joined")
		g, ok := ctl.groups["g"]
		zzverif.Assert(ok && len(g.lns) == 1, "C13.racemux.live-member-is-in-the-registered-group")
		zzverif.Assert(mux.ZZRoutes() == 1, "C13.racemux.endpoint-exists-while-member-lives")
		_ = ln2.Close()
	}
	zzverif.Quiesce()
	zzverif.Assert(len(ctl.groups) == 0 && mux.ZZRoutes() == 0, "C13.racemux.nothing-left-at-the-end")
	_, e := ctl.Listen(context.Background(), "httpconnect", "g", "k2", rc)
	zzverif.Assert(e == nil, "C13.racemux.group-can-be-created-again")
}
