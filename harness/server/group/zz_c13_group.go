//go:build verif

package group

import (
	"errors"
	"net"
	"strconv"

	"github.com/fatedier/frp/pkg/config/types"
	"github.com/fatedier/frp/pkg/util/vhost"
	"github.com/fatedier/frp/server/ports"
	"github.com/fatedier/frp/zzverif"
)

var errC13 = errors.New("c13 injected listen failure")

type c13Listener struct {
	addr   string
	port   int
	closed int
	// hand-off harness: connections arriving at the real endpoint (nil: the endpoint delivers nothing)
	feed     chan net.Conn
	closedCh chan struct{}
}

func (l *c13Listener) Accept() (net.Conn, error) {
	if l.feed == nil {
		return nil, errC13
	}
	select {
	case c := <-l.feed:
		c13Net.accepted = append(c13Net.accepted, c)
		return c, nil
	case <-l.closedCh:
		return nil, errC13
	}
}
func (l *c13Listener) Close() error {
	l.closed++
	if l.closedCh != nil && l.closed == 1 {
		close(l.closedCh)
	}
	return nil
}
func (l *c13Listener) Addr() net.Addr            { return c13Addr{l.addr} }

type c13Addr struct{ s string }

func (a c13Addr) Network() string { return "tcp" }
func (a c13Addr) String() string  { return a.s }

var c13Net struct {
	listeners  []*c13Listener
	failNext   bool
	probeFixed bool // the OS answers "available" (no fork)
	probes     int
	feed       chan net.Conn // when set, listeners created deliver the connections sent here
	accepted   []net.Conn    // connections the endpoints have handed to frp
}

// stub for net.Listen: records the address; fails when told to.
func c13StubListen(network, address string) (net.Listener, error) {
	if c13Net.failNext {
		c13Net.failNext = false
		return nil, errC13
	}
	_, ps, _ := net.SplitHostPort(address)
	p, _ := strconv.Atoi(ps)
	l := &c13Listener{addr: address, port: p}
	if c13Net.feed != nil {
		l.feed, l.closedCh = c13Net.feed, make(chan struct{})
	}
	c13Net.listeners = append(c13Net.listeners, l)
	return l, nil
}

// stub for (*ports.Manager).isPortAvailable
func c13StubAvailable(pm *ports.Manager, port int) bool {
	c13Net.probes++
	if c13Net.probeFixed || c13Net.probes > 1 {
		return true // only the first probe of a step is symbolic
	}
	return zzverif.Bool("probe")
}

type c13Member struct {
	ln    net.Listener
	group string
	port  int
}

type c13Ref struct {
	key      string
	port     int // requested port
	realPort int
	members  int
	listener *c13Listener
}

// VerifC13TCP: histories of joins and leaves on tcp groups over a real port manager.
func VerifC13TCP() {
	steps := zzverif.Param("steps", 3)
	pm := ports.NewManager("tcp", "0.0.0.0", []types.PortsRange{{Start: 1000, End: 1001}})
	ctl := NewTCPGroupCtl(pm)
	c13Net.listeners, c13Net.failNext = nil, false
	ref := map[string]*c13Ref{}
	var members []*c13Member
	used := map[int]bool{} // ports held according to the reference
	for s := 0; s < steps; s++ {
		if len(members) > 0 && zzverif.Bool("leave") {
			i := zzverif.Choice("who", len(members))
			mb := members[i]
			members = append(members[:i], members[i+1:]...)
			r := ref[mb.group]
			_ = mb.ln.Close()
			r.members--
			if r.members == 0 {
				zzverif.Assert(r.listener.closed == 1, "C13.tcp.last-leave-closes-endpoint")
				_, stillThere := ctl.groups[mb.group]
				zzverif.Assert(!stillThere, "C13.tcp.last-leave-removes-group")
				delete(ref, mb.group)
				delete(used, r.realPort)
				zzverif.Reach("C13.tcp.last-leave")
			} else {
				zzverif.Assert(r.listener.closed == 0, "C13.tcp.endpoint-exists-while-members")
			}
			continue
		}
		g := []string{"g", "h"}[zzverif.Choice("group", 2)]
		key := []string{"k", "x"}[zzverif.Choice("key", 2)]
		port := []int{0, 1000, 1001, 2000}[zzverif.Choice("port", 4)]
		c13Net.failNext = zzverif.Bool("listenFails")
		c13Net.probes, c13Net.probeFixed = 0, false
		nBefore := len(c13Net.listeners)
		ln, realPort, err := ctl.Listen("pxy"+strconv.Itoa(s), g, key, "0.0.0.0", port)
		c13Net.failNext = false
		c13Net.probeFixed = true
		r := ref[g]
		if r == nil {
			// first member: endpoint must really exist on the reported port
			if err == nil {
				zzverif.Assert(len(c13Net.listeners) == nBefore+1, "C13.tcp.first-member-binds")
				l := c13Net.listeners[len(c13Net.listeners)-1]
				zzverif.Assert(realPort == 1000 || realPort == 1001, "C09.group.port-in-allowed-set")
				zzverif.Assert(!used[realPort], "C09.group.port-exclusive")
				zzverif.Assert(l.port == realPort, "C09.group.reported-port-is-the-bound-port")
				if port != 0 {
					zzverif.Assert(realPort == port, "C09.group.fixed-port-honoured")
				}
				used[realPort] = true
				ref[g] = &c13Ref{key: key, port: port, realPort: realPort, members: 1, listener: l}
				members = append(members, &c13Member{ln, g, port})
				zzverif.Reach("C13.tcp.created")
			} else {
				// failed creation leaves nothing behind: every port not held by a group is free again
				for _, p := range []int{1000, 1001} {
					if !used[p] {
						_, e2 := pm.Acquire("probe-free", p)
						zzverif.Assert(e2 == nil || e2 == ports.ErrPortUnAvailable, "C10.group.failed-creation-releases-port")
						if e2 == nil {
							pm.Release(p)
						}
					}
				}
				zzverif.Reach("C13.tcp.create-failed")
			}
			continue
		}
		// join of an existing group
		okJoin := key == r.key && port == r.port
		zzverif.Assert((err == nil) == okJoin, "C13.tcp.join-iff-key-and-endpoint-match")
		zzverif.Assert(len(c13Net.listeners) == nBefore, "C13.tcp.join-does-not-rebind")
		if err == nil {
			zzverif.Assert(realPort == r.realPort, "C13.tcp.join-same-real-port")
			r.members++
			members = append(members, &c13Member{ln, g, port})
			zzverif.Reach("C13.tcp.joined")
		} else {
			if key != r.key && port == r.port {
				zzverif.Assert(err == ErrGroupAuthFailed, "C13.tcp.wrong-key-error")
			}
			zzverif.Assert(len(ctl.groups[g].lns) == r.members, "C13.tcp.refused-join-leaves-group-unchanged")
			zzverif.Reach("C13.tcp.refused")
		}
	}
}

// ---------------------------------------------------------------- http groups

// c13RouteExists: is exactly (domain, loc, "") registered? (Add refuses exact duplicates only)
func c13RouteExists(rs *vhost.Routers, domain, loc string) bool {
	if err := rs.Add(domain, loc, "", nil); err != nil {
		return true
	}
	rs.Del(domain, loc, "")
	return false
}

// VerifC13HTTP: histories of Register/UnRegister on http groups over a real route table.
func VerifC13HTTP() {
	steps := zzverif.Param("steps", 3)
	routers := vhost.NewRouters()
	ctl := NewHTTPGroupController(routers)
	type ref struct {
		key, domain, loc string
		members          []string
	}
	refs := map[string]*ref{}
	type member struct{ name, group string }
	var members []member
	for s := 0; s < steps; s++ {
		if len(members) > 0 && zzverif.Bool("leave") {
			i := zzverif.Choice("who", len(members))
			mb := members[i]
			members = append(members[:i], members[i+1:]...)
			r := refs[mb.group]
			ctl.UnRegister(mb.name, mb.group, vhost.RouteConfig{})
			for j, n := range r.members {
				if n == mb.name {
					r.members = append(r.members[:j], r.members[j+1:]...)
					break
				}
			}
			routeThere := c13RouteExists(routers, r.domain, r.loc)
			if len(r.members) == 0 {
				zzverif.Assert(!routeThere, "C13.http.route-disappears-with-last-member")
				_, gThere := ctl.groups[mb.group]
				zzverif.Assert(!gThere, "C13.http.group-removed-with-last-member")
				delete(refs, mb.group)
				zzverif.Reach("C13.http.last-leave")
			} else {
				zzverif.Assert(routeThere, "C13.http.route-exists-while-members")
			}
			continue
		}
		g := []string{"g", "h"}[zzverif.Choice("group", 2)]
		key := []string{"k", "x"}[zzverif.Choice("key", 2)]
		domain := []string{"a.com", "b.com"}[zzverif.Choice("domain", 2)]
		loc := []string{"/", "/x"}[zzverif.Choice("loc", 2)]
		name := "pxy" + strconv.Itoa(s)
		rc := vhost.RouteConfig{Domain: domain, Location: loc, CreateConnFn: func(remote string) (net.Conn, error) {
			c13SeenRemote = remote
			if c13ProbeGroup != nil {
				// while a member waits for its work connection, other proxies must be able to join
				// or leave the group: the factory runs without the group lock held
				c13ProbeGroup.mu.Lock()
				c13ProbeGroup.mu.Unlock()
			}
			return nil, errors.New(name)
		}}
		// is the route owned by another group already?
		taken := c13RouteExists(routers, domain, loc)
		err := ctl.Register(name, g, key, rc)
		r := refs[g]
		if r == nil {
			zzverif.Assert((err == nil) == !taken, "C13.http.create-iff-route-free")
			if err == nil {
				refs[g] = &ref{key, domain, loc, []string{name}}
				members = append(members, member{name, g})
				zzverif.Assert(c13RouteExists(routers, domain, loc), "C13.http.route-exists-with-first-member")
				zzverif.Reach("C13.http.created")
			}
			continue
		}
		okJoin := key == r.key && domain == r.domain && loc == r.loc
		zzverif.Assert((err == nil) == okJoin, "C13.http.join-iff-key-and-route-match")
		if err == nil {
			r.members = append(r.members, name)
			members = append(members, member{name, g})
			zzverif.Reach("C13.http.joined")
		} else {
			zzverif.Assert(len(ctl.groups[g].pxyNames) == len(r.members), "C13.http.refused-join-leaves-group-unchanged")
			zzverif.Reach("C13.http.refused")
		}
	}
	// rotation over live members only
	for g, r := range refs {
		grp := ctl.groups[g]
		seen := map[string]int{}
		n := len(r.members)
		for i := 0; i < 2*n; i++ {
			name, err := grp.chooseEndpoint()
			zzverif.Assert(err == nil, "C13.rr.member-available")
			isMember := false
			for _, m := range r.members {
				if m == name {
					isMember = true
				}
			}
			zzverif.Assert(isMember, "C13.rr.only-live-members")
			seen[name]++
		}
		for _, m := range r.members {
			zzverif.Assert(seen[m] == 2, "C13.rr.rotates-evenly")
			// a request routed to this member reaches its connection factory with the user's address
			c13SeenRemote = ""
			c13ProbeGroup = grp
			_, err := grp.createConnByEndpoint(m, "9.9.9.9:4321")
			c13ProbeGroup = nil
			zzverif.Assert(err != nil && err.Error() == m, "C13.rr.endpoint-reaches-the-chosen-member")
			zzverif.Assert(c13SeenRemote == "9.9.9.9:4321", "C11.group.member-gets-the-user's-real-address")
		}
		if n >= 2 {
			zzverif.Reach("C13.rr.rotated")
		}
	}
}

var c13SeenRemote string
var c13ProbeGroup *HTTPGroup
