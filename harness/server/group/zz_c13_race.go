//go:build verif

package group

import (
	"net"

	"github.com/fatedier/frp/pkg/config/types"
	"github.com/fatedier/frp/pkg/util/vhost"
	"github.com/fatedier/frp/server/ports"
	"github.com/fatedier/frp/zzverif"
)

// VerifC13RaceTCP: a join racing with the last leave of a tcp group (all schedules within
// the preemption bound): nobody crashes, and afterwards the endpoint exists exactly while
// the group has members.
func VerifC13RaceTCP() {
	zzverif.SetPreempt(zzverif.Param("preempt", 1))
	pm := ports.NewManager("tcp", "0.0.0.0", []types.PortsRange{{Start: 1000, End: 1000}})
	ctl := NewTCPGroupCtl(pm)
	c13Net.listeners, c13Net.failNext, c13Net.probeFixed = nil, false, true
	ln1, _, err := ctl.Listen("p1", "g", "k", "0.0.0.0", 1000)
	zzverif.Assume(err == nil)
	var ln2 net.Listener
	var err2 error
	bDone := false
	go func() {
		ln2, _, err2 = ctl.Listen("p2", "g", "k", "0.0.0.0", 1000)
		bDone = true
	}()
	_ = ln1.Close()
	zzverif.Quiesce()
	zzverif.Assert(bDone, "C13.race.join-terminates")
	zzverif.Assert(err2 == nil, "C13.race.valid-join-succeeds-even-while-last-member-leaves")
	if err2 == nil {
		zzverif.Reach("C13.race.joined")
		// B is a live member: the group must be reachable and its endpoint alive
		g, ok := ctl.groups["g"]
		zzverif.Assert(ok && len(g.lns) == 1, "C13.race.live-member-is-in-the-registered-group")
		open := 0
		for _, l := range c13Net.listeners {
			if l.closed == 0 {
				open++
			}
		}
		zzverif.Assert(open == 1, "C13.race.endpoint-exists-while-member-lives")
		_ = ln2.Close() // must not bring the server down (double close of the accept channel)
	} else {
		zzverif.Reach("C13.race.refused")
	}
	zzverif.Quiesce()
	// end state: no members => no group, no listener, port free
	zzverif.Assert(len(ctl.groups) == 0, "C13.race.group-removed-at-the-end")
	for _, l := range c13Net.listeners {
		zzverif.Assert(l.closed == 1, "C13.race.listeners-closed-once")
	}
	_, e := pm.Acquire("z", 1000)
	zzverif.Assert(e == nil, "C13.race.port-free-at-the-end")
}

// VerifC13RaceHTTP: same for http groups over the real route table.
func VerifC13RaceHTTP() {
	zzverif.SetPreempt(zzverif.Param("preempt", 1))
	routers := vhost.NewRouters()
	ctl := NewHTTPGroupController(routers)
	rc := vhost.RouteConfig{Domain: "a.com", Location: "/", CreateConnFn: func(string) (net.Conn, error) { return nil, errC13 }}
	zzverif.Assume(ctl.Register("p1", "g", "k", rc) == nil)
	var err2 error
	bDone := false
	go func() {
		err2 = ctl.Register("p2", "g", "k", rc)
		bDone = true
	}()
	ctl.UnRegister("p1", "g", rc)
	zzverif.Quiesce()
	zzverif.Assert(bDone, "C13.race.join-terminates")
	zzverif.Assert(err2 == nil, "C13.racehttp.valid-join-succeeds-even-while-last-member-leaves")
	if err2 == nil {
		zzverif.Reach("C13.racehttp.joined")
		g, ok := ctl.groups["g"]
		zzverif.Assert(ok && len(g.pxyNames) == 1, "C13.racehttp.live-member-is-in-the-registered-group")
		zzverif.Assert(c13RouteExists(routers, "a.com", "/"), "C13.racehttp.route-exists-while-member-lives")
		ctl.UnRegister("p2", "g", rc)
	} else {
		zzverif.Reach("C13.racehttp.refused")
	}
	zzverif.Assert(!c13RouteExists(routers, "a.com", "/"), "C13.racehttp.route-gone-at-the-end")
	zzverif.Assert(len(ctl.groups) == 0, "C13.racehttp.group-removed-at-the-end")
	zzverif.Assert(ctl.Register("p3", "g", "k2", rc) == nil, "C13.racehttp.group-can-be-created-again")
}

// VerifC13RaceFirstJoins: two first joins of a group that does not exist yet run side by side and
// the first socket that is opened fails (port squatted): whoever ends up a live member is a member
// of THE group registered under that name - a later join with the right key finds it and shares its
// port, a join with a wrong key is refused - and when nobody is left nothing is left.
func VerifC13RaceFirstJoins() {
	zzverif.SetPreempt(zzverif.Param("preempt", 1))
	pm := ports.NewManager("tcp", "0.0.0.0", []types.PortsRange{{Start: 1000, End: 1000}})
	ctl := NewTCPGroupCtl(pm)
	c13Net.listeners, c13Net.failNext, c13Net.probeFixed = nil, true, true
	var lnB net.Listener
	var errB error
	bDone := false
	go func() {
		lnB, _, errB = ctl.Listen("p2", "g", "k", "0.0.0.0", 1000)
		bDone = true
	}()
	lnA, _, errA := ctl.Listen("p1", "g", "k", "0.0.0.0", 1000)
	zzverif.Quiesce()
	zzverif.Assert(bDone, "C13.racefirst.joins-terminate")
	live := 0
	if errA == nil {
		live++
	}
	if errB == nil {
		live++
	}
	if live > 0 {
		g, ok := ctl.groups["g"]
		zzverif.Assert(ok && len(g.lns) == live, "C13.racefirst.live-members-are-in-the-registered-group")
		// a later member with the right key joins the same group, one with a wrong key is refused
		ln3, _, err3 := ctl.Listen("p3", "g", "k", "0.0.0.0", 1000)
		zzverif.Assert(err3 == nil, "C13.racefirst.valid-later-join-succeeds")
		_, _, err4 := ctl.Listen("p4", "g", "wrong", "0.0.0.0", 1000)
		zzverif.Assert(err4 != nil, "C13.racefirst.wrong-key-refused-while-the-group-lives")
		if err3 == nil {
			_ = ln3.Close()
		}
		zzverif.Reach("C13.racefirst.someone-joined")
	} else {
		zzverif.Reach("C13.racefirst.both-refused")
	}
	if errA == nil {
		_ = lnA.Close()
	}
	if errB == nil {
		_ = lnB.Close()
	}
	zzverif.Quiesce()
	_, e := pm.Acquire("z", 1000)
	zzverif.Assert(e == nil, "C13.racefirst.port-free-at-the-end")
	for _, l := range c13Net.listeners {
		zzverif.Assert(l.closed >= 1, "C13.racefirst.listeners-closed-at-the-end")
	}
}

// VerifC13HTTPRepeatedName: a second join under a name that is already a live member of an http
// group (a same-name registration that slipped past the name check of another session) is refused
// and leaves the group as it was: the live member keeps serving, with ITS connection factory, also
// after the refused registration's clean-up; the rotation contains each live member once.
func VerifC13HTTPRepeatedName() {
	routers := vhost.NewRouters()
	ctl := NewHTTPGroupController(routers)
	var used []string
	mk := func(tag string) vhost.RouteConfig {
		return vhost.RouteConfig{Domain: "a.com", Location: "/", CreateConnFn: func(string) (net.Conn, error) {
			used = append(used, tag)
			return nil, errC13
		}}
	}
	zzverif.Assume(ctl.Register("p1", "g", "k", mk("session-A")) == nil)
	second := zzverif.Bool("anotherMemberToo")
	if second {
		zzverif.Assume(ctl.Register("p2", "g", "k", mk("session-C")) == nil)
	}
	err := ctl.Register("p1", "g", "k", mk("session-B"))
	zzverif.Assert(err != nil, "C13.repeat.second-join-under-a-live-member's-name-is-refused")
	g := ctl.groups["g"]
	zzverif.Assert(g != nil, "C13.repeat.group-still-registered")
	if g == nil {
		return
	}
	n := 1
	if second {
		n = 2
	}
	zzverif.Assert(len(g.pxyNames) == n && len(g.createFuncs) == n, "C13.repeat.refused-join-leaves-the-membership-unchanged")
	for i := 0; i < 2*n; i++ {
		_, _ = g.createConn("9.9.9.9:1")
	}
	a, b, c := 0, 0, 0
	for _, t := range used {
		switch t {
		case "session-A":
			a++
		case "session-B":
			b++
		case "session-C":
			c++
		}
	}
	zzverif.Assert(b == 0, "C13.repeat.refused-registration-serves-nothing")
	zzverif.Assert(a == 2 && (!second || c == 2), "C13.repeat.live-members-each-get-their-share-through-their-own-factory")
	zzverif.Reach("C13.repeat.done")
}
