//go:build verif

package group

import (
	"errors"
	"net"

	"github.com/fatedier/frp/pkg/util/vhost"
	"github.com/fatedier/frp/zzverif"
)

// VerifC07HTTPGroupRoute: the route an http group publishes for its first member is that member's
// route in every respect that governs access and rewriting - credentials, user routing, Host
// rewrite, request and response headers - with only the connection functions replaced by the
// group's; a protected proxy does not become open by being placed in a group.
func VerifC07HTTPGroupRoute() {
	routers := vhost.NewRouters()
	ctl := NewHTTPGroupController(routers)
	rc := vhost.RouteConfig{Domain: "a.com", Location: "/x"}
	if zzverif.Bool("protected") {
		rc.Username, rc.Password = zzverif.StringOf("user", 1, "uv"), zzverif.StringUpTo("pass", 1, "pq")
	}
	if zzverif.Bool("userRouted") {
		rc.RouteByHTTPUser = "bob"
	}
	if zzverif.Bool("rewrites") {
		rc.RewriteHost = "inner.example"
		rc.Headers = map[string]string{"x-a": "1"}
		rc.ResponseHeaders = map[string]string{"x-b": "2"}
	}
	own := 0
	rc.CreateConnFn = func(string) (net.Conn, error) { own++; return nil, errors.New("member") }
	zzverif.Assume(ctl.Register("p1", "g", "k", rc) == nil)
	r, ok := routers.Get("a.com", "/x/y", rc.RouteByHTTPUser)
	zzverif.Assert(ok, "C06.httpgroup.route-published-for-the-first-member")
	if !ok {
		return
	}
	got, isRC := r.ZZPayload().(*vhost.RouteConfig)
	zzverif.Assert(isRC && got != nil, "C06.httpgroup.route-carries-a-route-configuration")
	zzverif.Assert(got.Domain == "a.com" && got.Location == "/x" && got.RouteByHTTPUser == rc.RouteByHTTPUser, "C06.httpgroup.same-routing-keys")
	zzverif.Assert(zzverif.StrEq(got.Username, rc.Username) && zzverif.StrEq(got.Password, rc.Password), "C07.httpgroup.credentials-of-the-member-guard-the-group's-route")
	zzverif.Assert(got.RewriteHost == rc.RewriteHost && len(got.Headers) == len(rc.Headers) && len(got.ResponseHeaders) == len(rc.ResponseHeaders), "C02.httpgroup.rewrite-settings-kept")
	zzverif.Assert(got.CreateConnFn != nil && got.ChooseEndpointFn != nil && got.CreateConnByEndpointFn != nil, "C13.httpgroup.connections-come-from-the-group")
	_, _ = got.CreateConnFn("9.9.9.9:1")
	zzverif.Assert(own == 1, "C13.httpgroup.group-dials-through-its-member")
	if rc.Username != "" {
		zzverif.Reach("C07.httpgroup.protected")
	}
	zzverif.Reach("C07.httpgroup.done")
}
