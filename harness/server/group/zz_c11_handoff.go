//go:build verif

package group

import (
	"net/http"
	"context"
	"io"
	"net"
	"time"

	"github.com/fatedier/frp/pkg/config/types"
	netpkg "github.com/fatedier/frp/pkg/util/net"
	"github.com/fatedier/frp/pkg/util/vhost"
	"github.com/fatedier/frp/server/ports"
	"github.com/fatedier/frp/zzverif"
)

type c11Conn struct {
	id     int
	closed int
	// deadlines of the two directions as the last setter calls left them; whether one was ever armed
	rdArmed, wrArmed, everArmed bool
}

func (c *c11Conn) Read(p []byte) (int, error)         { return 0, io.EOF }
func (c *c11Conn) Write(p []byte) (int, error)        { return len(p), nil }
func (c *c11Conn) Close() error                       { c.closed++; return nil }
func (c *c11Conn) LocalAddr() net.Addr                { return nil }
func (c *c11Conn) RemoteAddr() net.Addr               { return nil }
func (c *c11Conn) SetDeadline(t time.Time) error {
	c.rdArmed, c.wrArmed = !t.IsZero(), !t.IsZero()
	c.everArmed = c.everArmed || !t.IsZero()
	return nil
}
func (c *c11Conn) SetReadDeadline(t time.Time) error {
	c.rdArmed = !t.IsZero()
	c.everArmed = c.everArmed || !t.IsZero()
	return nil
}
func (c *c11Conn) SetWriteDeadline(t time.Time) error {
	c.wrArmed = !t.IsZero()
	c.everArmed = c.everArmed || !t.IsZero()
	return nil
}

// stub for (*http.Response).Write: the "200 Connection established" answer of the CONNECT muxer
func c11StubRespWrite(r *http.Response, w io.Writer) error { return nil }

// VerifC11GroupHandoff: user connections arriving at a tcp or tcpmux group's shared endpoint while
// members serve, are busy, or leave: every connection is accepted by exactly one member or closed;
// none is lost while a serving member stays, none is left open once nobody can take it any more.
func VerifC11GroupHandoff() {
	zzverif.SetPreempt(zzverif.Param("preempt", 0))
	kind := zzverif.Choice("kind", 2) // 0 tcp group, 1 tcpmux group
	c13Net.listeners, c13Net.failNext, c13Net.probeFixed = nil, false, true
	c13Net.feed = make(chan net.Conn, 4)
	c13Net.accepted = nil
	defer func() { c13Net.feed = nil }()

	var mux interface {
		ZZHandle(c net.Conn)
	}
	var join func(name string) (net.Listener, error)
	if kind == 0 {
		pm := ports.NewManager("tcp", "0.0.0.0", []types.PortsRange{{Start: 1000, End: 1000}})
		ctl := NewTCPGroupCtl(pm)
		join = func(name string) (net.Listener, error) {
			l, _, err := ctl.Listen(name, "g", "k", "0.0.0.0", 1000)
			return l, err
		}
	} else {
		m := c13Muxer()
		m.ZZSetVhostFunc(func(c net.Conn) (net.Conn, map[string]string, error) {
			return c, map[string]string{"Host": "a.com", "Scheme": "tcp"}, nil
		})
		mux = m
		ctl := NewTCPMuxGroupCtl(m)
		join = func(name string) (net.Listener, error) {
			return ctl.Listen(context.Background(), "httpconnect", "g", "k", vhost.RouteConfig{Domain: "a.com"})
		}
	}

	n := 1 + zzverif.Choice("members", 2)
	type member struct {
		ln      net.Listener
		serving bool
		got     []net.Conn
		left    bool
	}
	var ms []*member
	for i := 0; i < n; i++ {
		l, err := join([]string{"p1", "p2"}[i])
		zzverif.Assume(err == nil)
		m := &member{ln: l, serving: zzverif.Bool("serving")}
		ms = append(ms, m)
		if m.serving {
			go func() {
				for {
					c, err := m.ln.Accept()
					if err != nil {
						return
					}
					m.got = append(m.got, c)
				}
			}()
		}
	}
	// some members leave (in join order), either after the arrivals have been dealt with or while they arrive
	leavers := zzverif.Choice("leavers", n+1)
	leave := func() {
		for i := 0; i < leavers; i++ {
			_ = ms[i].ln.Close()
			ms[i].left = true
		}
	}
	concurrent := leavers > 0 && zzverif.Bool("leaveWhileArriving")
	if concurrent {
		go leave()
		zzverif.Reach("C11.handoff.concurrent-leave")
	}
	// user connections arrive at the shared endpoint
	k := 1 + zzverif.Choice("users", 2)
	var users []*c11Conn
	for i := 0; i < k; i++ {
		u := &c11Conn{id: i}
		users = append(users, u)
		if kind == 0 {
			c13Net.feed <- u
		} else {
			go mux.ZZHandle(u)
		}
	}
	zzverif.Quiesce()
	if !concurrent {
		leave()
	}
	zzverif.Quiesce()

	servingStays := false
	anyStays := leavers < n
	for _, m := range ms {
		if m.serving && !m.left {
			servingStays = true
		}
	}
	for _, u := range users {
		taken := 0
		for _, m := range ms {
			for _, c := range m.got {
				// (the vhost listener hands connections over wrapped in a context carrier)
				if cc, ok := c.(*netpkg.ContextConn); ok {
					c = cc.Conn
				}
				if c == net.Conn(u) {
					taken++
				}
			}
		}
		zzverif.Assert(taken <= 1, "C11.handoff.connection-handed-to-at-most-one-member")
		if taken == 1 {
			zzverif.Assert(u.closed == 0, "C11.handoff.handed-over-connection-left-open")
			zzverif.Reach("C11.handoff.taken")
			if kind == 1 {
				zzverif.Reach("C11.handoff.taken-through-the-vhost-muxer")
				// the muxer sniffs under a deadline; what it hands to the proxy has none left in either direction
				zzverif.Assert(u.everArmed, "C17.handoff.routing-information-awaited-under-a-deadline")
				zzverif.Assert(!u.rdArmed && !u.wrArmed, "C02.handoff.no-deadline-left-armed-on-a-routed-connection")
			}
		}
		if servingStays {
			zzverif.Assert(taken == 1, "C13.handoff.no-connection-lost-while-a-serving-member-stays")
		}
		inFrp := kind == 1
		for _, c := range c13Net.accepted {
			if c == net.Conn(u) {
				inFrp = true
			}
		}
		if !inFrp {
			continue // still in the listening socket's backlog: the operating system resets it when the socket closes
		}
		if taken == 0 && !anyStays {
			// the endpoint is gone: nobody will ever take this connection
			zzverif.Assert(u.closed >= 1, "C11.handoff.connection-nobody-can-take-is-closed")
			zzverif.Reach("C11.handoff.endpoint-gone")
		}
	}
}
