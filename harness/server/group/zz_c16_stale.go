//go:build verif

package group

import (
	"net"

	"github.com/fatedier/frp/pkg/util/vhost"
	"github.com/fatedier/frp/zzverif"
)

// VerifC16HTTPGroupStaleEndpoint: the member chosen for a request leaves (alone, or with the whole
// group) before the request is dialled (the dial runs in net/http's own goroutine, where a panic
// ends the process): the dial fails with an error, it does not crash, and it never reaches a
// member that has left.
func VerifC16HTTPGroupStaleEndpoint() {
	routers := vhost.NewRouters()
	ctl := NewHTTPGroupController(routers)
	dialled := map[string]int{}
	mk := func(name string) vhost.RouteConfig {
		return vhost.RouteConfig{Domain: "a.com", Location: "/", CreateConnFn: func(string) (net.Conn, error) {
			dialled[name]++
			return nil, errC13
		}}
	}
	n := 1 + zzverif.Choice("members", 3)
	names := []string{"p1", "p2", "p3"}[:n]
	for _, nm := range names {
		zzverif.Assume(ctl.Register(nm, "g", "k", mk(nm)) == nil)
	}
	ctl.mu.Lock()
	g := ctl.groups["g"]
	ctl.mu.Unlock()
	zzverif.Assume(g != nil)
	for i := zzverif.Choice("earlierRequests", 3); i > 0; i-- {
		_, _ = g.chooseEndpoint()
	}
	chosen, err := g.chooseEndpoint()
	zzverif.Assert(err == nil && chosen != "", "C13.stale.a-live-member-is-chosen")
	// members leave between the choice and the dial
	leave := zzverif.Choice("whoLeaves", 3) // 0 nobody, 1 the chosen member, 2 everybody
	gone := map[string]bool{}
	switch leave {
	case 1:
		ctl.UnRegister(chosen, "g", mk(chosen))
		gone[chosen] = true
	case 2:
		for _, nm := range names {
			ctl.UnRegister(nm, "g", mk(nm))
			gone[nm] = true
		}
	}
	_, derr := g.createConnByEndpoint(chosen, "9.9.9.9:1")
	if gone[chosen] {
		zzverif.Assert(derr != nil && derr != errC13, "C16.stale.dial-through-a-member-that-left-is-an-error")
		zzverif.Assert(dialled[chosen] == 0, "C13.stale.no-request-reaches-a-member-that-left")
		zzverif.Reach("C16.stale.left")
	} else {
		zzverif.Assert(dialled[chosen] == 1, "C13.stale.request-dialled-through-the-chosen-member")
		zzverif.Reach("C16.stale.live")
	}
	// an unknown / empty endpoint name is an error too, never a crash
	_, e2 := g.createConnByEndpoint("", "9.9.9.9:1")
	_, e3 := g.createConnByEndpoint("nobody", "9.9.9.9:1")
	zzverif.Assert(e2 != nil && e3 != nil, "C16.stale.unknown-endpoint-is-an-error")
}
