//go:build verif

package server

import (
	"time"

	"github.com/fatedier/frp/pkg/config/types"
	"github.com/fatedier/frp/pkg/msg"
	"github.com/fatedier/frp/pkg/nathole"
	"github.com/fatedier/frp/pkg/util/tcpmux"
	"github.com/fatedier/frp/pkg/util/vhost"
	"github.com/fatedier/frp/server/group"
	"github.com/fatedier/frp/server/ports"
	"github.com/fatedier/frp/server/visitor"
	"github.com/fatedier/frp/zzverif"
)

// zzFullService wires the resource controller the way NewService does (features on/off symbolic).
func zzFullService(httpOn, httpsOn, muxOn bool, subHost string) (*Service, *vhost.Routers) {
	svr := zzService(&zzVerifier{}, zzNoPlugins())
	cfg := svr.cfg
	cfg.SubDomainHost = subHost
	allow := []types.PortsRange{{Start: 1000, End: 1001}}
	rc := svr.rc
	rc.VisitorManager = visitor.NewManager()
	rc.TCPPortManager = ports.NewManager("tcp", "0.0.0.0", allow)
	rc.UDPPortManager = ports.NewManager("udp", "0.0.0.0", allow)
	routers := vhost.NewRouters()
	svr.httpVhostRouter = routers
	if muxOn {
		cfg.TCPMuxHTTPConnectPort = 5002
		rc.TCPMuxHTTPConnectMuxer, _ = tcpmux.NewHTTPConnectTCPMuxer(&zzListener{}, false, time.Second)
	}
	rc.TCPGroupCtl = group.NewTCPGroupCtl(rc.TCPPortManager)
	rc.HTTPGroupCtl = group.NewHTTPGroupController(routers)
	rc.TCPMuxGroupCtl = group.NewTCPMuxGroupCtl(rc.TCPMuxHTTPConnectMuxer)
	if httpOn {
		cfg.VhostHTTPPort = 80
		rc.HTTPReverseProxy = vhost.ZZNewReverseProxy(routers)
	}
	if httpsOn {
		cfg.VhostHTTPSPort = 443
		rc.VhostHTTPSMuxer, _ = vhost.NewHTTPSMuxer(&zzListener{}, time.Second)
	}
	rc.NatHoleController, _ = nathole.NewController(time.Hour)
	// lock-discipline monitor on every shared table (Go aborts on concurrent map access)
	zzverif.Guard(svr.ctlManager.ctlsByRunID, &svr.ctlManager.mu, "ControlManager.ctlsByRunID")
	svr.pxyManager.ZZGuard()
	rc.VisitorManager.ZZGuard()
	rc.TCPPortManager.ZZGuard("tcpPorts")
	rc.UDPPortManager.ZZGuard("udpPorts")
	routers.ZZGuard("httpVhostRouter")
	rc.TCPGroupCtl.ZZGuard()
	rc.HTTPGroupCtl.ZZGuard()
	rc.TCPMuxGroupCtl.ZZGuard()
	rc.NatHoleController.ZZGuard()
	if rc.VhostHTTPSMuxer != nil {
		rc.VhostHTTPSMuxer.ZZGuard("httpsMuxer.routes")
	}
	if rc.TCPMuxHTTPConnectMuxer != nil {
		rc.TCPMuxHTTPConnectMuxer.ZZGuard("tcpmuxMuxer.routes")
	}
	return svr, routers
}

func zzStrs(name string, opts [][]string) []string { return opts[zzverif.Choice(name, len(opts))] }

// VerifC16NewProxy: a NewProxy message with arbitrary field values never brings the server
// down, whatever features are enabled; a refused registration leaves every table as it was.
func VerifC16NewProxy() {
	types_ := []string{"tcp", "udp", "http", "https", "tcpmux", "stcp", "sudp", "xtcp", "bogus", ""}
	typ := types_[zzverif.Choice("type", len(types_))]
	// only the features and fields the chosen type reads are varied (the others are fixed)
	httpOn, httpsOn, muxOn := false, false, false
	subHost := ""
	m := &msg.NewProxy{ProxyName: "p", ProxyType: typ, GroupKey: "k"}
	domainFields := func() {
		subHost = []string{"", "x.com"}[zzverif.Choice("subDomainHost", 2)]
		m.CustomDomains = zzStrs("domains", [][]string{nil, {""}, {"a.com"}, {"*"}, {"a.com", "a.com"}, {"s.x.com"}})
		m.SubDomain = []string{"", "s", "a.b"}[zzverif.Choice("subdomain", 3)]
	}
	switch typ {
	case "tcp", "":
		m.RemotePort = zzverif.Int("remotePort")
		m.Group = []string{"", "g"}[zzverif.Choice("group", 2)]
		m.ProxyName = []string{"p", ""}[zzverif.Choice("name", 2)]
	case "udp":
		m.RemotePort = zzverif.Int("remotePort")
	case "http":
		httpOn = zzverif.Bool("vhostHTTP")
		domainFields()
		m.Locations = zzStrs("locations", [][]string{nil, {""}, {"/x", "/x"}, {"/", "/x"}})
		m.RouteByHTTPUser = zzverif.StringUpTo("routeUser", 1, "u")
		m.HTTPUser, m.HTTPPwd = "u", "p"
		m.Group = []string{"", "g"}[zzverif.Choice("group", 2)]
	case "https":
		httpsOn = zzverif.Bool("vhostHTTPS")
		domainFields()
	case "tcpmux":
		muxOn = zzverif.Bool("tcpmuxPort")
		domainFields()
		m.Multiplexer = []string{"", "httpconnect", "zz", "HTTPConnect"}[zzverif.Choice("multiplexer", 4)]
		m.RouteByHTTPUser = zzverif.StringUpTo("routeUser", 1, "u")
		m.HTTPUser = zzverif.StringUpTo("httpUser", 1, "u")
		m.Group = []string{"", "g"}[zzverif.Choice("group", 2)]
	case "stcp", "sudp", "xtcp":
		m.Sk = zzverif.StringUpTo("sk", 1, "s")
		m.AllowUsers = zzStrs("allowUsers", [][]string{nil, {"*"}, {"bob"}})
	}
	svr, routers := zzFullService(httpOn, httpsOn, muxOn, subHost)
	zzNetReset()
	zzProbeAnswer = true
	ctl, _ := zzControl(svr, "r1", 0)
	routes0 := routers.ZZCount()
	_, err := ctl.RegisterProxy(m)
	if err != nil {
		zzverif.Reach("C16.newproxy.refused")
		zzverif.Assert(routers.ZZCount() == routes0, "C10.newproxy.refused-leaves-routes")
		zzverif.Assert(svr.rc.VisitorManager.ZZListeners() == 0, "C10.newproxy.refused-leaves-visitor-table")
		zzverif.Assert(svr.rc.NatHoleController.ZZClients() == 0, "C10.newproxy.refused-leaves-nathole-table")
		f, u := svr.rc.TCPPortManager.ZZCounts()
		zzverif.Assert(f == 2 && u == 0, "C10.newproxy.refused-leaves-tcp-ports")
		f, u = svr.rc.UDPPortManager.ZZCounts()
		zzverif.Assert(f == 2 && u == 0, "C10.newproxy.refused-leaves-udp-ports")
		_, ok := svr.pxyManager.GetByName(m.ProxyName)
		zzverif.Assert(!ok && zzCtlProxyCount(ctl) == 0, "C10.newproxy.refused-leaves-names")
		for _, l := range zzNet.listeners {
			zzverif.Assert(l.closed == 1, "C10.newproxy.refused-closes-listeners")
		}
		return
	}
	zzverif.Reach("C16.newproxy.accepted")
	// close: everything back
	_ = ctl.CloseProxy(&msg.CloseProxy{ProxyName: m.ProxyName})
	zzverif.Assert(routers.ZZCount() == routes0, "C10.newproxy.close-releases-routes")
	zzverif.Assert(svr.rc.VisitorManager.ZZListeners() == 0, "C10.newproxy.close-releases-visitor-entry")
	zzverif.Assert(svr.rc.NatHoleController.ZZClients() == 0, "C10.newproxy.close-releases-nathole-entry")
	f, u := svr.rc.TCPPortManager.ZZCounts()
	zzverif.Assert(f == 2 && u == 0, "C10.newproxy.close-releases-tcp-port")
	f, u = svr.rc.UDPPortManager.ZZCounts()
	zzverif.Assert(f == 2 && u == 0, "C10.newproxy.close-releases-udp-port")
	if svr.rc.VhostHTTPSMuxer != nil {
		zzverif.Assert(svr.rc.VhostHTTPSMuxer.ZZRoutes() == 0, "C10.newproxy.close-releases-https-routes")
	}
	if svr.rc.TCPMuxHTTPConnectMuxer != nil {
		zzverif.Assert(svr.rc.TCPMuxHTTPConnectMuxer.ZZRoutes() == 0, "C10.newproxy.close-releases-tcpmux-routes")
	}
	_, ok := svr.pxyManager.GetByName(m.ProxyName)
	zzverif.Assert(!ok && zzCtlProxyCount(ctl) == 0, "C10.newproxy.close-releases-name")
	// an identical registration right afterwards succeeds
	_, err = ctl.RegisterProxy(m)
	zzverif.Assert(err == nil, "C10.newproxy.identical-registration-after-close-succeeds")
	zzverif.Reach("C10.newproxy.reregistered")
}
