//go:build verif

package server

import (
	"net/http"

	"github.com/gorilla/mux"

	httppkg "github.com/fatedier/frp/pkg/util/http"
	"github.com/fatedier/frp/zzverif"
)

// recording model of the gorilla router: which path was registered on which router object, which
// router was derived from which, and which routers have a middleware installed
var c07r struct {
	paths     []string
	on        []*mux.Router
	parent    map[*mux.Router]*mux.Router
	routeOf   map[*mux.Route]*mux.Router
	protected map[*mux.Router]int
}

func c07rReg(r *mux.Router, path string) *mux.Route {
	c07r.paths = append(c07r.paths, path)
	c07r.on = append(c07r.on, r)
	rt := &mux.Route{}
	c07r.routeOf[rt] = r
	return rt
}
func c07rStubHandleFunc(r *mux.Router, path string, f func(http.ResponseWriter, *http.Request)) *mux.Route {
	return c07rReg(r, path)
}
func c07rStubHandle(r *mux.Router, path string, h http.Handler) *mux.Route { return c07rReg(r, path) }
func c07rStubPathPrefix(r *mux.Router, tpl string) *mux.Route              { return c07rReg(r, tpl) }
func c07rStubNewRoute(r *mux.Router) *mux.Route {
	rt := &mux.Route{}
	c07r.routeOf[rt] = r
	return rt
}
func c07rStubSubrouter(rt *mux.Route) *mux.Router {
	sub := &mux.Router{}
	c07r.parent[sub] = c07r.routeOf[rt]
	return sub
}
func c07rStubUse(r *mux.Router, mwf ...mux.MiddlewareFunc)        { c07r.protected[r] += len(mwf) }
func c07rStubMethods(rt *mux.Route, methods ...string) *mux.Route { return rt }
func c07rStubHandler(rt *mux.Route, h http.Handler) *mux.Route    { return rt }
func c07rStubPromHandler() http.Handler                           { return nil }

// VerifC07DashboardRoutes: every route of the frps dashboard / web API except the liveness probe is
// registered behind the authentication middleware - also the Prometheus endpoint when it is enabled.
func VerifC07DashboardRoutes() {
	c07r.paths, c07r.on = nil, nil
	c07r.parent, c07r.routeOf, c07r.protected = map[*mux.Router]*mux.Router{}, map[*mux.Route]*mux.Router{}, map[*mux.Router]int{}
	svr := zzService(&zzVerifier{}, zzNoPlugins())
	svr.cfg.EnablePrometheus = zzverif.Bool("enablePrometheus")
	root := &mux.Router{}
	called := 0
	auth := mux.MiddlewareFunc(func(next http.Handler) http.Handler { called++; return next })
	svr.registerRouteHandlers(&httppkg.RouterRegisterHelper{Router: root, AuthMiddleware: auth})
	guarded := func(r *mux.Router) bool {
		for i := 0; i < 4 && r != nil; i++ {
			if c07r.protected[r] > 0 {
				return true
			}
			r = c07r.parent[r]
		}
		return false
	}
	sawMetrics, sawAPI := false, false
	for i, p := range c07r.paths {
		if p == "/healthz" {
			continue
		}
		zzverif.Assert(guarded(c07r.on[i]), "C07.routes.every-route-but-the-liveness-probe-is-behind-the-credential-check")
		if p == "/metrics" {
			sawMetrics = true
		}
		if p == "/api/serverinfo" {
			sawAPI = true
		}
	}
	zzverif.Assert(sawAPI, "C07.routes.api-registered")
	zzverif.Assert(sawMetrics == svr.cfg.EnablePrometheus, "C07.routes.metrics-endpoint-iff-enabled")
	zzverif.Assert(c07r.protected[root] == 0, "C07.routes.liveness-probe-stays-open")
	if sawMetrics {
		zzverif.Reach("C07.routes.with-prometheus")
	}
	zzverif.Reach("C07.routes.done")
}
