//go:build verif

package server

import (
	"github.com/fatedier/frp/pkg/msg"
	"github.com/fatedier/frp/zzverif"
)

// VerifC09Quota: whatever mixture of tcp, udp and grouped tcp proxies a session registers and
// closes, the public ports bound for it never exceed max_ports_per_client, a registration that
// refused one binds nothing, and the session's counter never falls below what is bound.
func VerifC09Quota() {
	steps := zzverif.Param("steps", 3)
	svr, _ := zzFullService(false, false, false, "")
	q := 1 + zzverif.Choice("maxPortsPerClient", 2)
	svr.cfg.MaxPortsPerClient = int64(q)
	zzNetReset()
	zzProbeAnswer = true
	ctl, _ := zzControl(svr, "r1", 0)
	kinds := []msg.NewProxy{
		{ProxyName: "t0", ProxyType: "tcp", RemotePort: 1000},
		{ProxyName: "t1", ProxyType: "tcp", RemotePort: 1001},
		{ProxyName: "u0", ProxyType: "udp", RemotePort: 1000},
		{ProxyName: "u1", ProxyType: "udp", RemotePort: 1001},
		{ProxyName: "g0", ProxyType: "tcp", RemotePort: 1000, Group: "g", GroupKey: "k"},
		{ProxyName: "h1", ProxyType: "tcp", RemotePort: 1001, Group: "h", GroupKey: "k"},
		{ProxyName: "g1", ProxyType: "tcp", RemotePort: 1000, Group: "g", GroupKey: "k"}, // second member of group g: shares g's port
	}
	live := map[string]bool{}
	for s := 0; s < steps; s++ {
		k := zzverif.Choice("op", len(kinds)+1)
		if k == len(kinds) {
			// close one live proxy (the first in table order)
			for _, m := range kinds {
				if live[m.ProxyName] {
					_ = ctl.CloseProxy(&msg.CloseProxy{ProxyName: m.ProxyName})
					delete(live, m.ProxyName)
					zzverif.Reach("C09.quota.closed")
					break
				}
			}
		} else {
			m := kinds[k]
			if live[m.ProxyName] {
				continue
			}
			_, tu0 := svr.rc.TCPPortManager.ZZCounts()
			_, uu0 := svr.rc.UDPPortManager.ZZCounts()
			_, err := ctl.RegisterProxy(&m)
			if err == nil {
				live[m.ProxyName] = true
				zzverif.Reach("C09.quota.accepted")
			} else {
				_, tu1 := svr.rc.TCPPortManager.ZZCounts()
				_, uu1 := svr.rc.UDPPortManager.ZZCounts()
				zzverif.Assert(tu1 == tu0 && uu1 == uu0, "C09.quota.refused-registration-binds-nothing")
				if tu0+uu0 >= q {
					zzverif.Reach("C09.quota.refused-at-the-limit")
				}
				// quota given back by closes is really available again: with no live proxy at all
				// nothing can be counted against the session
				if len(live) == 0 {
					zzverif.Fail("C09.quota.session-without-proxies-is-not-refused-for-quota")
				}
			}
		}
		_, tu := svr.rc.TCPPortManager.ZZCounts()
		_, uu := svr.rc.UDPPortManager.ZZCounts()
		zzverif.Assert(tu+uu <= q, "C09.quota.ports-bound-for-the-session-never-exceed-the-quota")
		ctl.mu.Lock()
		used := ctl.portsUsedNum
		ctl.mu.Unlock()
		zzverif.Assert(used >= tu+uu && used <= q, "C09.quota.counter-covers-what-is-bound")
		if len(live) == 0 {
			zzverif.Assert(used == 0, "C09.quota.nothing-counted-once-everything-is-closed")
		}
	}
}
