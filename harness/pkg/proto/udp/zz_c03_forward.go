//go:build verif

package udp

import (
	"errors"
	"net"

	"github.com/fatedier/frp/pkg/msg"
	"github.com/fatedier/frp/zzverif"
)

type c03Datagram struct {
	payload []byte
	from    *net.UDPAddr
}

var c03F struct {
	in      []c03Datagram
	pos     int
	bufLens []int
	out     []c03Datagram // WriteToUDP calls
}

// stub for (*net.UDPConn).ReadFromUDP: scripted datagrams into the caller's (shared) buffer, then an error
func c03StubReadFromUDP(c *net.UDPConn, b []byte) (int, *net.UDPAddr, error) {
	c03F.bufLens = append(c03F.bufLens, len(b))
	if c03F.pos >= len(c03F.in) {
		return 0, nil, errors.New("socket closed")
	}
	d := c03F.in[c03F.pos]
	c03F.pos++
	n := copy(b, d.payload) // a datagram longer than the buffer is truncated by the kernel
	return n, d.from, nil
}

// stub for (*net.UDPConn).WriteToUDP
func c03StubWriteToUDP(c *net.UDPConn, b []byte, addr *net.UDPAddr) (int, error) {
	c03F.out = append(c03F.out, c03Datagram{append([]byte(nil), b...), addr})
	return len(b), nil
}

// VerifC03ForwardUser: every datagram up to the configured packet size read from the public
// socket becomes exactly one message with the same payload and source address; replies go
// to the address carried by their message.
func VerifC03ForwardUser() {
	bufSize := zzverif.Param("packetSize", 3)
	k := 1 + zzverif.Choice("datagrams", 2)
	c03F.in, c03F.pos, c03F.bufLens, c03F.out = nil, 0, nil, nil
	for i := 0; i < k; i++ {
		n := zzverif.Choice("size", bufSize+1) // 0..packetSize inclusive
		c03F.in = append(c03F.in, c03Datagram{zzverif.Bytes("payload", n), &net.UDPAddr{Port: 1000 + zzverif.Choice("user", 2)}})
	}
	readCh := make(chan *msg.UDPPacket, 4)
	sendCh := make(chan *msg.UDPPacket, 4)
	// one reply per user datagram, addressed to its sender
	for i := 0; i < k; i++ {
		readCh <- NewUDPPacket([]byte{byte('r'), byte(i)}, nil, c03F.in[i].from)
	}
	ForwardUserConn(&net.UDPConn{}, readCh, sendCh, bufSize)
	zzverif.Quiesce()

	zzverif.Assert(len(sendCh) == k, "C03.fwd.one-message-per-datagram-up-to-packet-size")
	for i := 0; i < len(c03F.bufLens); i++ {
		zzverif.Assert(c03F.bufLens[i] >= bufSize, "C03.fwd.read-buffer-holds-a-full-size-datagram")
	}
	n := len(sendCh)
	for i := 0; i < n && i < k; i++ {
		m := <-sendCh
		got, err := GetContent(m)
		zzverif.Assert(err == nil && len(got) == len(c03F.in[i].payload), "C03.fwd.payload-length-preserved")
		if err == nil && len(got) == len(c03F.in[i].payload) {
			zzverif.Assert(zzverif.BytesEq(got, c03F.in[i].payload), "C03.fwd.payload-bytes-preserved-despite-buffer-reuse")
		}
		zzverif.Assert(m.RemoteAddr == c03F.in[i].from, "C03.fwd.source-address-preserved")
		if len(got) == bufSize {
			zzverif.Reach("C03.fwd.full-size")
		}
	}
	// replies
	zzverif.Assert(len(c03F.out) == k, "C03.fwd.every-reply-written")
	for i := 0; i < len(c03F.out) && i < k; i++ {
		zzverif.Assert(c03F.out[i].from == c03F.in[i].from && len(c03F.out[i].payload) == 2 && c03F.out[i].payload[1] == byte(i), "C03.fwd.reply-to-the-user-it-answers")
	}
	zzverif.Reach("C03.fwd.done")
}
