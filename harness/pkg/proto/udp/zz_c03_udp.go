//go:build verif

package udp

import (
	"encoding/base64"

	"github.com/fatedier/frp/zzverif"
)

// VerifC03PayloadCodec: the datagram payload codec is lossless for every payload and
// the encoded message does not alias the (reused) read buffer.
func VerifC03PayloadCodec() {
	maxN := zzverif.Param("maxPayload", 6)
	n := zzverif.Choice("n", maxN+1)
	buf := zzverif.Bytes("b", n)
	orig := append([]byte(nil), buf...)
	m := NewUDPPacket(buf, nil, nil)
	zzverif.Assert(len(m.Content) == (n+2)/3*4, "C03.codec.encoded-length")
	zzverif.Assert(len(m.Content) == base64.StdEncoding.EncodedLen(n), "C03.codec.encoded-length")
	// the read buffer is reused for the next datagram: the message must not change
	for i := range buf {
		buf[i] ^= 0xff
	}
	got, err := GetContent(m)
	zzverif.Assert(err == nil, "C03.codec.decodes")
	zzverif.Assert(len(got) == n, "C03.codec.length-preserved")
	if len(got) == n {
		zzverif.Assert(zzverif.BytesEq(got, orig), "C03.codec.bytes-preserved")
	}
	zzverif.Reach("C03.codec.done")
	if n%3 == 1 {
		zzverif.Reach("C03.codec.pad2")
	}
	if n%3 == 2 {
		zzverif.Reach("C03.codec.pad1")
	}
}

// VerifC03FrameFit: an encoded payload of the default packet size fits a control frame.
func VerifC03FrameFit() {
	n := zzverif.IntRange("n", 0, 1500)
	enc := (n + 2) / 3 * 4
	zzverif.Assert(enc == base64.StdEncoding.EncodedLen(n), "C03.fit.encoded-len-formula")
	// JSON envelope of UDPPacket: {"c":"...","l":{"IP":"...","Port":N,"Zone":"..."},"r":{...}} with IPv6 text
	// addresses (<= 45 bytes), 5-digit ports and a zone of up to 16 bytes is below 300 bytes.
	zzverif.Assert(enc+300 <= 10240, "C03.fit.default-packet-fits-frame")
	zzverif.Reach("C03.fit.done")
}

// VerifSelfUDP: translator validation kernel.
func VerifSelfUDP() {
	for _, s := range []string{"", "a", "ab", "abc", "hello world", "\x00\xff\x80\x7f"} {
		m := NewUDPPacket([]byte(s), nil, nil)
		b, err := GetContent(m)
		zzverif.Observe("b64", m.Content, string(b) == s, err != nil)
	}
}
