//go:build verif

package udp

import (
	"errors"
	"net"
	"time"

	"github.com/fatedier/frp/pkg/msg"
	"github.com/fatedier/frp/zzverif"
)

// one local socket towards the backend, created by the DialUDP stub
type c03Sock struct {
	conn    *net.UDPConn
	written [][]byte // requests forwarded to the backend on this socket
	replies [][]byte // what the backend answers on this socket, in order
	pos     int
	closed  int
}

var c03C struct {
	socks    []*c03Sock
	replyLen [][]int // scripted reply sizes per socket index
	idle     chan struct{} // closed when the traffic is over: only then do the sockets' idle timeouts fire
	failDial int           // the next failDial dials fail (descriptor shortage and the like)
}

func c03Sock4(c *net.UDPConn) *c03Sock {
	for _, s := range c03C.socks {
		if s.conn == c {
			return s
		}
	}
	return nil
}

func c03StubDialUDP(network string, laddr, raddr *net.UDPAddr) (*net.UDPConn, error) {
	if c03C.failDial > 0 {
		c03C.failDial--
		return nil, errors.New("dial udp: too many open files")
	}
	s := &c03Sock{conn: &net.UDPConn{}}
	i := len(c03C.socks)
	if i < len(c03C.replyLen) {
		for j, n := range c03C.replyLen[i] {
			b := make([]byte, n)
			for k := range b {
				b[k] = byte(0x10*(i+1) + j)
			}
			s.replies = append(s.replies, b)
		}
	}
	c03C.socks = append(c03C.socks, s)
	return s.conn, nil
}
func c03StubUDPWrite(c *net.UDPConn, b []byte) (int, error) {
	s := c03Sock4(c)
	s.written = append(s.written, append([]byte(nil), b...))
	return len(b), nil
}
func c03StubSockRead(c *net.UDPConn, b []byte) (int, *net.UDPAddr, error) {
	s := c03Sock4(c)
	if s == nil || s.pos >= len(s.replies) {
		// the 30 s idle timeout: it does not fire between the requests of this scenario (a socket that
		// expired may legitimately be replaced by a new one for the same user)
		<-c03C.idle
		return 0, nil, errors.New("i/o timeout")
	}
	n := copy(b, s.replies[s.pos])
	s.pos++
	return n, nil, nil
}
func c03StubUDPClose(c *net.UDPConn) error {
	if s := c03Sock4(c); s != nil {
		s.closed++
	}
	return nil
}
func c03StubSetReadDeadline(c *net.UDPConn, t time.Time) error { return nil }

// VerifC03ClientForwarder: the client-side forwarder keeps one local socket per user address,
// hands each request to the backend unchanged, and tags every reply (empty ones included) with
// the address of the user whose socket it arrived on.
func VerifC03ClientForwarder() {
	users := []*net.UDPAddr{{Port: 1000}, {Port: 1001}}
	nReq := 1 + zzverif.Choice("requests", 2)
	type req struct {
		user    int
		payload []byte
	}
	var reqs []req
	for i := 0; i < nReq; i++ {
		reqs = append(reqs, req{zzverif.Choice("user", 2), zzverif.Bytes("payload", zzverif.Choice("size", 2))})
	}
	c03C.socks, c03C.replyLen = nil, nil
	c03C.failDial = 0
	c03C.idle = make(chan struct{})
	for s := 0; s < 2; s++ {
		var lens []int
		k := zzverif.Choice("replies", 3)
		for j := 0; j < k; j++ {
			lens = append(lens, zzverif.Choice("replySize", 3)) // 0..2 bytes: an empty datagram is a datagram
		}
		c03C.replyLen = append(c03C.replyLen, lens)
	}
	readCh := make(chan *msg.UDPPacket, 4)
	sendCh := make(chan msg.Message, 16)
	Forwarder(&net.UDPAddr{Port: 53}, readCh, sendCh, 2) // packet size 2: a 2-byte reply fills the buffer exactly
	for _, r := range reqs {
		readCh <- NewUDPPacket(r.payload, nil, users[r.user])
	}
	close(readCh)
	zzverif.Quiesce()
	close(c03C.idle)
	zzverif.Quiesce()

	// sockets: one per distinct user, in order of first appearance
	var order []int
	for _, r := range reqs {
		seen := false
		for _, u := range order {
			if u == r.user {
				seen = true
			}
		}
		if !seen {
			order = append(order, r.user)
		}
	}
	zzverif.Assert(len(c03C.socks) == len(order), "C03.cfwd.one-local-socket-per-user-address")
	if len(c03C.socks) != len(order) {
		return
	}
	for si, u := range order {
		s := c03C.socks[si]
		// requests of this user, in order, unchanged
		k := 0
		for _, r := range reqs {
			if r.user != u {
				continue
			}
			zzverif.Assert(k < len(s.written) && len(s.written[k]) == len(r.payload) && zzverif.BytesEq(s.written[k], r.payload), "C03.cfwd.request-reaches-the-backend-unchanged-on-its-user's-socket")
			k++
		}
		zzverif.Assert(k == len(s.written), "C03.cfwd.no-foreign-or-duplicated-request-on-a-socket")
		zzverif.Assert(s.closed >= 1, "C03.cfwd.socket-closed-when-the-flow-ends")
	}
	// replies: every scripted reply of socket si appears once, tagged with that socket's user
	var got []*msg.UDPPacket
	for len(sendCh) > 0 {
		m, _ := (<-sendCh).(*msg.UDPPacket)
		zzverif.Assert(m != nil, "C03.cfwd.reply-is-a-udp-packet")
		got = append(got, m)
	}
	total := 0
	for si, u := range order {
		s := c03C.socks[si]
		total += len(s.replies)
		k := 0
		for _, m := range got {
			if m.RemoteAddr != users[u] {
				continue
			}
			c, err := GetContent(m)
			zzverif.Assert(err == nil && k < len(s.replies) && len(c) == len(s.replies[k]) && string(c) == string(s.replies[k]), "C03.cfwd.reply-tagged-with-the-user-of-its-socket-payload-unchanged")
			if k < len(s.replies) && len(s.replies[k]) == 0 {
				zzverif.Reach("C03.cfwd.empty-reply")
			}
			k++
		}
		zzverif.Assert(k == len(s.replies), "C03.cfwd.every-reply-delivered-once")
	}
	zzverif.Assert(len(got) == total, "C03.cfwd.no-extra-replies")
	if len(order) == 2 {
		zzverif.Reach("C03.cfwd.two-users")
	}
}

// VerifC16ForwarderDialFault: a local socket that cannot be opened for one user costs that user's
// datagram and nothing else: the forwarder keeps serving the users that follow.
func VerifC16ForwarderDialFault() {
	users := []*net.UDPAddr{{Port: 1000}, {Port: 1001}}
	c03C.socks, c03C.replyLen = nil, nil
	c03C.idle = make(chan struct{})
	c03C.failDial = 1 + zzverif.Choice("failedDials", 2)
	readCh := make(chan *msg.UDPPacket, 8)
	sendCh := make(chan msg.Message, 16)
	Forwarder(&net.UDPAddr{Port: 53}, readCh, sendCh, 8)
	n := c03C.failDial
	for i := 0; i < n; i++ {
		readCh <- NewUDPPacket([]byte{1}, nil, users[0]) // lost: its socket cannot be opened
	}
	later := zzverif.Bytes("payload", 1+zzverif.Choice("size", 2))
	readCh <- NewUDPPacket(later, nil, users[zzverif.Choice("laterUser", 2)])
	close(readCh)
	zzverif.Quiesce()
	close(c03C.idle)
	zzverif.Quiesce()
	zzverif.Assert(len(c03C.socks) == 1, "C16.dialfault.forwarder-keeps-serving-after-a-failed-dial")
	if len(c03C.socks) == 1 {
		w := c03C.socks[0].written
		zzverif.Assert(len(w) == 1 && zzverif.BytesEq(w[0], later), "C16.dialfault.later-datagram-forwarded-unchanged")
	}
	zzverif.Reach("C16.dialfault.done")
	c03C.failDial = 0
}
