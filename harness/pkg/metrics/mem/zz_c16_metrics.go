//go:build verif

package mem

import (
	"time"

	"github.com/fatedier/frp/zzverif"
)

// VerifC16MetricsLocks: the in-memory statistics tables are updated from every connection
// goroutine and read by the dashboard; each access must hold the collector's mutex (Go aborts
// the process on an unsynchronised concurrent map access).
func VerifC16MetricsLocks() {
	m := newServerMetrics()
	m.NewProxy("p", "tcp")
	zzverif.Guard(m.info.ProxyStatistics, &m.mu, "mem.ServerStatistics.ProxyStatistics")
	zzverif.Guard(m.info.ProxyTypeCounts, &m.mu, "mem.ServerStatistics.ProxyTypeCounts")
	name := []string{"p", "nosuch"}[zzverif.Choice("name", 2)]
	switch zzverif.Choice("op", 10) {
	case 0:
		m.NewProxy(name, "tcp")
	case 1:
		m.CloseProxy(name, "tcp")
	case 2:
		m.OpenConnection(name, "tcp")
	case 3:
		m.CloseConnection(name, "tcp")
	case 4:
		m.AddTrafficIn(name, "tcp", 10)
	case 5:
		m.AddTrafficOut(name, "tcp", 10)
	case 6:
		_ = m.GetServer()
	case 7:
		_ = m.GetProxiesByType("tcp")
	case 8:
		_ = m.GetProxiesByTypeAndName("tcp", name)
	default:
		_ = m.GetProxyTraffic(name)
	}
	zzverif.Reach("C16.metrics.done")
}

// stub for time.Now: a fixed instant (the calendar arithmetic of the date counters is not the subject)
func c16mStubNow() time.Time { return time.Time{}.Add(1000 * time.Hour) }
