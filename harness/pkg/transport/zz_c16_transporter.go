//go:build verif

package transport

import (
	"context"

	"github.com/fatedier/frp/pkg/msg"
	"github.com/fatedier/frp/zzverif"
)

// VerifC16Transporter: the control read loop hands answers to waiting requests through the message
// transporter; a peer that answers one transaction twice, or answers after the requester gave
// up, must not be able to stall the read loop (every dispatch returns) nor the requester.
func VerifC16Transporter() {
	zzverif.SetPreempt(zzverif.Param("preempt", 0))
	sendCh := make(chan msg.Message, 4)
	tr := NewMessageTransporter(sendCh)
	ctx, cancel := context.WithCancel(context.Background())
	var got msg.Message
	var doErr error
	finished := false
	go func() {
		got, doErr = tr.Do(ctx, &msg.NatHoleVisitor{TransactionID: "t1"}, "t1", "NatHoleResp")
		finished = true
	}()
	zzverif.Quiesce() // the request is out, the requester waits
	zzverif.Assert(len(sendCh) == 1, "C16.transporter.request-sent")
	answers := 1 + zzverif.Choice("answers", 3)
	giveUp := zzverif.Bool("requesterGivesUpFirst")
	if giveUp {
		cancel()
	}
	delivered := 0
	for i := 0; i < answers; i++ {
		if tr.DispatchWithType(&msg.NatHoleResp{TransactionID: "t1", Sid: string(rune('a' + i))}, "NatHoleResp", "t1") {
			delivered++
		}
	}
	// an answer for a transaction nobody waits for is simply not delivered
	zzverif.Assert(!tr.DispatchWithType(&msg.NatHoleResp{TransactionID: "zz"}, "NatHoleResp", "zz"), "C16.transporter.unknown-transaction-not-delivered")
	zzverif.Quiesce()
	cancel()
	zzverif.Quiesce()
	zzverif.Assert(finished, "C16.transporter.requester-returns")
	if !giveUp {
		r, _ := got.(*msg.NatHoleResp)
		zzverif.Assert(doErr == nil && r != nil && r.Sid == "a", "C16.transporter.requester-gets-the-first-answer")
	}
	zzverif.Assert(delivered >= 1 || giveUp, "C16.transporter.first-answer-delivered")
	if answers >= 2 {
		zzverif.Reach("C16.transporter.duplicate-answer")
	}
	zzverif.Reach("C16.transporter.read-loop-continues")
}
