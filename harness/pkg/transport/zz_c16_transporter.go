//go:build verif

package transport

import (
	"context"

	"github.com/fatedier/frp/pkg/msg"
	"github.com/fatedier/frp/zzverif"
)

// zzChanSender is the sending side the transporter is built on in these harnesses: a plain queue.
type zzChanSender chan msg.Message

func (c zzChanSender) Send(m msg.Message) error { c <- m; return nil }

// VerifC16Transporter: the control read loop hands answers to waiting requests through the message
// transporter; a peer that answers one transaction twice, or answers after the requester gave
// up, must not be able to stall the read loop (every dispatch returns) nor the requester.
func VerifC16Transporter() {
	zzverif.SetPreempt(zzverif.Param("preempt", 0))
	sendCh := make(chan msg.Message, 4)
	tr := NewMessageTransporter(zzChanSender(sendCh))
	ctx, cancel := context.WithCancel(context.Background())
	var got msg.Message
	var doErr error
	finished := false
	go func() {
		got, doErr = tr.Do(ctx, &msg.NatHoleVisitor{TransactionID: "t1"}, "t1", "NatHoleResp")
		finished = true
	}()
	zzverif.Quiesce() // the request is out, the requester waits
	zzverif.Assert(len(sendCh) == 1, "C16.transporter.request-sent")
	answers := 1 + zzverif.Choice("answers", 3)
	giveUp := zzverif.Bool("requesterGivesUpFirst")
	if giveUp {
		cancel()
	}
	delivered := 0
	for i := 0; i < answers; i++ {
		if tr.DispatchWithType(&msg.NatHoleResp{TransactionID: "t1", Sid: string(rune('a' + i))}, "NatHoleResp", "t1") {
			delivered++
		}
	}
	// an answer for a transaction nobody waits for is simply not delivered
	zzverif.Assert(!tr.DispatchWithType(&msg.NatHoleResp{TransactionID: "zz"}, "NatHoleResp", "zz"), "C16.transporter.unknown-transaction-not-delivered")
	zzverif.Quiesce()
	cancel()
	zzverif.Quiesce()
	zzverif.Assert(finished, "C16.transporter.requester-returns")
	if !giveUp {
		r, _ := got.(*msg.NatHoleResp)
		zzverif.Assert(doErr == nil && r != nil && r.Sid == "a", "C16.transporter.requester-gets-the-first-answer")
	}
	zzverif.Assert(delivered >= 1 || giveUp, "C16.transporter.first-answer-delivered")
	if answers >= 2 {
		zzverif.Reach("C16.transporter.duplicate-answer")
	}
	zzverif.Reach("C16.transporter.read-loop-continues")
}

// VerifC20TwoTransactions: two exchanges of the same message type are outstanding on one control
// connection (an frpc that owns an xtcp proxy and visits it, or two visitors): finishing one leaves
// the other registered - its answer is still delivered, to it and to nobody else.
func VerifC20TwoTransactions() {
	zzverif.SetPreempt(zzverif.Param("preempt", 0))
	sendCh := make(chan msg.Message, 4)
	tr := NewMessageTransporter(zzChanSender(sendCh))
	type res struct {
		m    msg.Message
		err  error
		done bool
	}
	var a, b res
	go func() {
		a.m, a.err = tr.Do(context.Background(), &msg.NatHoleVisitor{TransactionID: "ta"}, "ta", "NatHoleResp")
		a.done = true
	}()
	go func() {
		b.m, b.err = tr.Do(context.Background(), &msg.NatHoleClient{TransactionID: "tb"}, "tb", "NatHoleResp")
		b.done = true
	}()
	zzverif.Quiesce()
	zzverif.Assert(len(sendCh) == 2, "C20.twotx.both-requests-sent")
	first := zzverif.Choice("answeredFirst", 2)
	keys := []string{"ta", "tb"}
	zzverif.Assert(tr.DispatchWithType(&msg.NatHoleResp{TransactionID: keys[first], Sid: "s-" + keys[first]}, "NatHoleResp", keys[first]), "C20.twotx.first-answer-delivered")
	zzverif.Quiesce()
	// the first exchange is over; the second one's answer arrives now
	second := 1 - first
	zzverif.Assert(tr.DispatchWithType(&msg.NatHoleResp{TransactionID: keys[second], Sid: "s-" + keys[second]}, "NatHoleResp", keys[second]), "C20.twotx.second-answer-still-delivered-after-the-first-exchange-ended")
	zzverif.Quiesce()
	zzverif.Assert(a.done && b.done && a.err == nil && b.err == nil, "C20.twotx.both-requesters-return")
	ra, _ := a.m.(*msg.NatHoleResp)
	rb, _ := b.m.(*msg.NatHoleResp)
	zzverif.Assert(ra != nil && ra.Sid == "s-ta" && rb != nil && rb.Sid == "s-tb", "C20.twotx.each-requester-gets-its-own-answer")
	zzverif.Reach("C20.twotx.done")
}
