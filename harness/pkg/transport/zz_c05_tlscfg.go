//go:build verif

package transport

import (
	"crypto/tls"
	"crypto/x509"
	"errors"

	"github.com/fatedier/frp/zzverif"
)

var c05 struct {
	loadFails bool
	poolFails bool
	pools     []*x509.CertPool
	poolPaths []string
	loaded    []string
}

var errC05 = errors.New("c05 injected")

// stubs for file / crypto operations (not the subject: which settings are chosen is)
func c05StubCustomKeyPair(certfile, keyfile string) (*tls.Certificate, error) {
	if c05.loadFails {
		return nil, errC05
	}
	c05.loaded = append(c05.loaded, certfile+"|"+keyfile)
	return &tls.Certificate{}, nil
}
func c05StubRandomKeyPair() *tls.Certificate { return &tls.Certificate{} }
func c05StubCertPool(caPath string) (*x509.CertPool, error) {
	if c05.poolFails {
		return nil, errC05
	}
	p := &x509.CertPool{}
	c05.pools = append(c05.pools, p)
	c05.poolPaths = append(c05.poolPaths, caPath)
	return p, nil
}

func c05Path(name string) string { return []string{"", "/p/" + name}[zzverif.Choice(name, 2)] }

// VerifC05TLSConfig: a trusted CA forces peer verification on both ends.
func VerifC05TLSConfig() {
	c05.loadFails, c05.poolFails = zzverif.Bool("loadFails"), zzverif.Bool("caLoadFails")
	c05.pools, c05.poolPaths, c05.loaded = nil, nil, nil
	cert, key, ca := c05Path("cert"), c05Path("key"), c05Path("ca")
	scfg, err := NewServerTLSConfig(cert, key, ca)
	if err == nil {
		zzverif.Assert(len(scfg.Certificates) == 1, "C05.tls.server-has-certificate")
		if ca != "" {
			zzverif.Assert(scfg.ClientAuth == tls.RequireAndVerifyClientCert, "C05.tls.server-ca-requires-verified-client-cert")
			zzverif.Assert(len(c05.pools) == 1 && scfg.ClientCAs == c05.pools[0] && c05.poolPaths[0] == ca, "C05.tls.server-trusts-exactly-the-configured-ca")
			zzverif.Reach("C05.tls.server-mutual")
		} else {
			zzverif.Assert(scfg.ClientAuth == tls.NoClientCert && scfg.ClientCAs == nil, "C05.tls.server-no-ca-no-client-auth")
		}
	} else {
		zzverif.Assert((cert != "" && key != "" && c05.loadFails) || (ca != "" && c05.poolFails), "C05.tls.server-config-error-only-on-load-failure")
	}
	c05.pools, c05.poolPaths = nil, nil
	// the name the client dials may also be an address literal (serverAddr is an IP and no tls.serverName)
	name := []string{"", "frps.example", "203.0.113.7", "2001:db8::7"}[zzverif.Choice("serverName", 4)]
	ccfg, err := NewClientTLSConfig(cert, key, ca, name)
	if err == nil {
		zzverif.Assert(ccfg.ServerName == name, "C05.tls.client-server-name")
		if ca != "" {
			zzverif.Assert(!ccfg.InsecureSkipVerify, "C05.tls.client-ca-verifies-server")
			// identity matching is the library's job as long as it is not switched off or replaced
			zzverif.Assert(ccfg.VerifyPeerCertificate == nil && ccfg.VerifyConnection == nil, "C05.tls.client-leaves-identity-matching-to-the-library")
			zzverif.Assert(len(c05.pools) == 1 && ccfg.RootCAs == c05.pools[0], "C05.tls.client-trusts-exactly-the-configured-ca")
			zzverif.Reach("C05.tls.client-verifies")
		} else {
			zzverif.Assert(ccfg.InsecureSkipVerify, "C05.tls.client-documented-insecure-default")
		}
	}
}
