//go:build verif

package server

import (
	"context"
	"errors"
	"io"
	"net/http"

	v1 "github.com/fatedier/frp/pkg/config/v1"
	"github.com/fatedier/frp/pkg/msg"
	"github.com/fatedier/frp/zzverif"
)

var errC15 = errors.New("c15 injected")

var c15Log []string // global call log: "<plugin>:<op>:<content marker seen>"

type c15Plugin struct {
	name    string
	ops     map[string]bool
	outcome int // 0 accept-unchanged, 1 accept-modified, 2 reject, 3 error (unreachable / bad status / bad body), 4 reject with the "unchange" flag also set
	asked   []string
}

func (p *c15Plugin) Name() string { return p.name }
func (p *c15Plugin) IsSupport(op string) bool {
	p.asked = append(p.asked, op)
	return p.ops[op]
}

func c15Marker(content any) string {
	switch c := content.(type) {
	case LoginContent:
		return c.Login.User
	case NewProxyContent:
		return c.NewProxy.ProxyName
	case PingContent:
		return c.Ping.PrivilegeKey
	case NewWorkConnContent:
		return c.NewWorkConn.PrivilegeKey
	case NewUserConnContent:
		return c.RemoteAddr
	case CloseProxyContent:
		return c.CloseProxy.ProxyName
	}
	return "?"
}

func (p *c15Plugin) Handle(ctx context.Context, op string, content any) (*Response, any, error) {
	c15Log = append(c15Log, p.name+":"+op+":"+c15Marker(content))
	switch p.outcome {
	case 3:
		return nil, nil, errC15
	case 2:
		return &Response{Reject: true, RejectReason: "no"}, nil, nil
	case 4:
		// "reject" decides: a plugin that refuses and says it changed nothing has still refused
		return &Response{Reject: true, RejectReason: "no", Unchange: true}, content, nil
	case 1:
		switch c := content.(type) {
		case LoginContent:
			c.Login.User += "+" + p.name
			return &Response{}, &c, nil
		case NewProxyContent:
			c.NewProxy.ProxyName += "+" + p.name
			return &Response{}, &c, nil
		case PingContent:
			c.Ping.PrivilegeKey += "+" + p.name
			return &Response{}, &c, nil
		case NewWorkConnContent:
			c.NewWorkConn.PrivilegeKey += "+" + p.name
			return &Response{}, &c, nil
		case NewUserConnContent:
			c.RemoteAddr += "+" + p.name
			return &Response{}, &c, nil
		}
	}
	return &Response{Unchange: true}, content, nil
}

var c15Ops = []string{OpLogin, OpNewProxy, OpPing, OpNewWorkConn, OpNewUserConn}

// VerifC15Chain: every plugin registered for the operation is consulted in order, none
// after the first failure, each sees its predecessors' edits, unregistered ones are skipped.
func VerifC15Chain() {
	n := zzverif.Choice("plugins", zzverif.Param("maxPlugins", 3)+1)
	op := c15Ops[zzverif.Choice("op", len(c15Ops))]
	other := c15Ops[(zzverif.Choice("op", 1)+1)%len(c15Ops)]
	m := NewManager()
	var ps []*c15Plugin
	for i := 0; i < n; i++ {
		p := &c15Plugin{name: string(rune('a' + i)), ops: map[string]bool{}, outcome: zzverif.Choice("outcome", 5)}
		if zzverif.Bool("supportsOp") {
			p.ops[op] = true
		}
		if zzverif.Bool("supportsOther") && other != op {
			p.ops[other] = true
		}
		m.Register(p)
		ps = append(ps, p)
	}
	c15Log = nil
	var gotMarker string
	var err error
	switch op {
	case OpLogin:
		var r *LoginContent
		r, err = m.Login(&LoginContent{Login: msg.Login{User: "x"}})
		if err == nil {
			gotMarker = r.Login.User
		}
	case OpNewProxy:
		var r *NewProxyContent
		r, err = m.NewProxy(&NewProxyContent{NewProxy: msg.NewProxy{ProxyName: "x"}})
		if err == nil {
			gotMarker = r.NewProxy.ProxyName
		}
	case OpPing:
		var r *PingContent
		r, err = m.Ping(&PingContent{Ping: msg.Ping{PrivilegeKey: "x"}})
		if err == nil {
			gotMarker = r.Ping.PrivilegeKey
		}
	case OpNewWorkConn:
		var r *NewWorkConnContent
		r, err = m.NewWorkConn(&NewWorkConnContent{NewWorkConn: msg.NewWorkConn{PrivilegeKey: "x"}})
		if err == nil {
			gotMarker = r.NewWorkConn.PrivilegeKey
		}
	default:
		var r *NewUserConnContent
		r, err = m.NewUserConn(&NewUserConnContent{RemoteAddr: "x"})
		if err == nil {
			gotMarker = r.RemoteAddr
		}
	}
	// reference
	var wantLog []string
	marker := "x"
	wantOK := true
	for _, p := range ps {
		if !p.ops[op] {
			continue
		}
		wantLog = append(wantLog, p.name+":"+op+":"+marker)
		if p.outcome >= 2 {
			wantOK = false
			break
		}
		if p.outcome == 1 {
			marker += "+" + p.name
		}
	}
	zzverif.Assert((err == nil) == wantOK, "C15.chain.proceeds-iff-all-consulted-accept")
	zzverif.Assert(len(c15Log) == len(wantLog), "C15.chain.exactly-the-registered-plugins-up-to-first-failure")
	if len(c15Log) == len(wantLog) {
		for i := range wantLog {
			zzverif.Assert(c15Log[i] == wantLog[i], "C15.chain.order-and-content-seen")
		}
	}
	if err == nil {
		zzverif.Assert(gotMarker == marker, "C15.chain.server-acts-on-last-edit")
		if marker != "x" {
			zzverif.Reach("C15.chain.modified")
		}
		zzverif.Reach("C15.chain.accepted")
	} else {
		zzverif.Reach("C15.chain.refused")
	}
	if len(wantLog) >= 2 {
		zzverif.Reach("C15.chain.two-consulted")
	}
}

// VerifC15Close: close notifications reach every registered plugin even if an earlier one fails.
func VerifC15Close() {
	n := zzverif.Choice("plugins", 4)
	m := NewManager()
	var ps []*c15Plugin
	for i := 0; i < n; i++ {
		p := &c15Plugin{name: string(rune('a' + i)), ops: map[string]bool{}, outcome: []int{0, 3}[zzverif.Choice("fails", 2)]}
		if zzverif.Bool("supportsClose") {
			p.ops[OpCloseProxy] = true
		}
		m.Register(p)
		ps = append(ps, p)
	}
	c15Log = nil
	err := m.CloseProxy(&CloseProxyContent{CloseProxy: msg.CloseProxy{ProxyName: "x"}})
	want := 0
	anyFail := false
	for _, p := range ps {
		if p.ops[OpCloseProxy] {
			want++
			if p.outcome == 3 {
				anyFail = true
			}
		}
	}
	zzverif.Assert(len(c15Log) == want, "C15.close.every-registered-plugin-notified")
	zzverif.Assert((err != nil) == anyFail, "C15.close.error-reported")
	if want >= 2 && anyFail {
		zzverif.Reach("C15.close.notified-after-failure")
	}
}

// ---- HTTP plugin transport (fail closed)

var c15HTTP struct {
	doErr     bool
	status    int
	readErr   bool
	decodeErr bool
	closed    int
	decoded   int
	// the object the plugin's answer is decoded into, as it looked when decoding started
	targetUser  string
	targetPool  int
	targetFresh bool
}

type c15Body struct{}

func (c15Body) Read(p []byte) (int, error) { return 0, io.EOF }
func (c15Body) Close() error               { c15HTTP.closed++; return nil }

func c15StubMarshal(v any) ([]byte, error) { return []byte("{}"), nil }
func c15StubUnmarshal(data []byte, v any) error {
	c15HTTP.decoded++
	if r, ok := v.(*Response); ok {
		if lc, isLogin := r.Content.(*LoginContent); isLogin && lc != nil {
			c15HTTP.targetFresh = true
			c15HTTP.targetUser, c15HTTP.targetPool = lc.User, lc.PoolCount
		}
	}
	if c15HTTP.decodeErr {
		return errC15
	}
	return nil
}
func c15StubNewRequest(method, url string, body io.Reader) (*http.Request, error) {
	return &http.Request{Method: method, Header: http.Header{}}, nil
}
func c15StubWithContext(r *http.Request, ctx context.Context) *http.Request { return r }
func c15StubHeaderSet(h http.Header, k, v string)                           {}
func c15StubDo(c *http.Client, r *http.Request) (*http.Response, error) {
	if c15HTTP.doErr {
		return nil, errC15
	}
	return &http.Response{StatusCode: c15HTTP.status, Body: c15Body{}}, nil
}
func c15StubReadAll(r io.Reader) ([]byte, error) {
	if c15HTTP.readErr {
		return nil, errC15
	}
	return []byte("{}"), nil
}

// VerifC15HTTP: the HTTP plugin client answers nil only for transport ok ∧ status 200 ∧ body decoded.
func VerifC15HTTP() {
	c15HTTP.doErr = zzverif.Bool("connReset")
	c15HTTP.status = zzverif.Int("status")
	c15HTTP.readErr = zzverif.Bool("readErr")
	c15HTTP.decodeErr = zzverif.Bool("malformedJSON")
	c15HTTP.closed, c15HTTP.decoded = 0, 0
	c15HTTP.targetFresh, c15HTTP.targetUser, c15HTTP.targetPool = false, "", 0
	p := &httpPlugin{options: v1.HTTPPluginOptions{Name: "h", Ops: []string{OpLogin}}, url: "http://x/h", client: &http.Client{}}
	var sent LoginContent
	sent.User, sent.PoolCount = "alice", 7
	res, content, err := p.Handle(NewReqidContext(context.Background(), "r"), OpLogin, sent)
	if c15HTTP.decoded > 0 {
		// the answer is decoded into an empty object of the request's type: what the plugin left out
		// (cleared) must not be filled in from the request
		zzverif.Assert(c15HTTP.targetFresh && c15HTTP.targetUser == "" && c15HTTP.targetPool == 0, "C15.http.answer-decoded-into-an-empty-object-of-the-request's-type")
	}
	ok := !c15HTTP.doErr && c15HTTP.status == 200 && !c15HTTP.readErr && !c15HTTP.decodeErr
	zzverif.Assert((err == nil) == ok, "C15.http.fail-closed")
	if err == nil {
		zzverif.Assert(res != nil && content != nil, "C15.http.result")
		zzverif.Reach("C15.http.ok")
	} else {
		zzverif.Assert(res == nil && content == nil, "C15.http.no-content-on-error")
		zzverif.Reach("C15.http.refused")
		if !c15HTTP.doErr && c15HTTP.status != 200 {
			zzverif.Reach("C15.http.non-success-status")
		}
	}
	if !c15HTTP.doErr {
		zzverif.Assert(c15HTTP.closed == 1, "C15.http.body-closed")
	}
}
