//go:build verif

package server

import (
	"net/http"

	v1 "github.com/fatedier/frp/pkg/config/v1"
	"github.com/fatedier/frp/zzverif"
)

var c15n struct {
	reject, unchange, contentNull bool
}

// stub for encoding/json.Unmarshal on the plugin's answer: the verdict fields are arbitrary, and the
// answer may carry `"content": null`, which by encoding/json's documented rule sets the interface
// field to nil (instead of filling the object prepared for it)
func c15nStubUnmarshal(data []byte, v any) error {
	if r, ok := v.(*Response); ok {
		r.Reject, r.Unchange = c15n.reject, c15n.unchange
		if c15n.contentNull {
			r.Content = nil
		}
	}
	return nil
}

// VerifC15NullContent: whatever a well-formed answer of an http plugin says - also one that claims a
// change and carries no content - every gated operation ends in an outcome (proceed with some
// content, or refuse); it never crashes frps, and it proceeds only with content to proceed on.
func VerifC15NullContent() {
	c15n.reject, c15n.unchange, c15n.contentNull = zzverif.Bool("reject"), zzverif.Bool("unchange"), zzverif.Bool("contentNull")
	c15HTTP.doErr, c15HTTP.status, c15HTTP.readErr = false, 200, false
	ops := []string{OpLogin, OpNewProxy, OpCloseProxy, OpPing, OpNewWorkConn, OpNewUserConn}
	op := ops[zzverif.Choice("op", len(ops))]
	m := NewManager()
	m.Register(&httpPlugin{options: v1.HTTPPluginOptions{Name: "h", Ops: []string{op}}, url: "http://x/h", client: &http.Client{}})
	var err error
	proceedsWithContent := true
	switch op {
	case OpLogin:
		var c *LoginContent
		c, err = m.Login(&LoginContent{})
		proceedsWithContent = c != nil
	case OpNewProxy:
		var c *NewProxyContent
		c, err = m.NewProxy(&NewProxyContent{})
		proceedsWithContent = c != nil
	case OpCloseProxy:
		err = m.CloseProxy(&CloseProxyContent{})
		zzverif.Reach("C15.nullcontent.notification")
		return
	case OpPing:
		var c *PingContent
		c, err = m.Ping(&PingContent{})
		proceedsWithContent = c != nil
	case OpNewWorkConn:
		var c *NewWorkConnContent
		c, err = m.NewWorkConn(&NewWorkConnContent{})
		proceedsWithContent = c != nil
	case OpNewUserConn:
		var c *NewUserConnContent
		c, err = m.NewUserConn(&NewUserConnContent{})
		proceedsWithContent = c != nil
	}
	if c15n.reject {
		zzverif.Assert(err != nil, "C15.nullcontent.rejected-operation-does-not-proceed")
	}
	if err == nil {
		zzverif.Assert(proceedsWithContent, "C15.nullcontent.operation-proceeds-only-with-content")
		zzverif.Reach("C15.nullcontent.proceeds")
	} else {
		zzverif.Reach("C15.nullcontent.refused")
	}
	if c15n.contentNull && !c15n.unchange && !c15n.reject {
		zzverif.Assert(err != nil, "C15.nullcontent.a-change-without-content-is-refused")
		zzverif.Reach("C15.nullcontent.change-without-content")
	}
}
