//go:build verif

package client

import (
	"crypto/tls"
	"net/http"
	"net/http/httputil"
	"net/url"

	v1 "github.com/fatedier/frp/pkg/config/v1"
	"github.com/fatedier/frp/zzverif"
)

var c02pRP *httputil.ReverseProxy

// stub for (*httputil.ReverseProxy).ServeHTTP: captures the reverse proxy the plugin built
func c02pStubServeHTTP(rp *httputil.ReverseProxy, w http.ResponseWriter, r *http.Request) {
	c02pRP = rp
}

// stub for transport.NewServerTLSConfig (certificate generation is crypto, not encoded)
func c02pStubServerTLS(certPath, keyPath, caPath string) (*tls.Config, error) {
	return &tls.Config{}, nil
}

type c02pRW struct {
	hdr    http.Header
	status int
}

func (w *c02pRW) Header() http.Header         { return w.hdr }
func (w *c02pRW) Write(p []byte) (int, error) { return len(p), nil }
func (w *c02pRW) WriteHeader(code int)        { w.status = code }

// VerifC02Plugins: the request rewrite of the four http(s)2http(s) client plugins changes exactly
// what the configuration declares: target and scheme, Host rewrite iff declared, declared
// request headers set, X-Forwarded-For kept in full (multi-valued) and extended by the user's
// address where the plugin terminates TLS, everything else untouched.
func VerifC02Plugins() {
	which := zzverif.Choice("plugin", 4)
	rewriteHost := zzverif.StringUpTo("rewriteHost", 1, "hx")
	hv := zzverif.StringUpTo("setValue", 2, "ab")
	var set map[string]string
	if zzverif.Bool("setsHeader") {
		set = map[string]string{"x-set": hv}
	}
	hdrOps := v1.HeaderOperations{Set: set}
	var rp *httputil.ReverseProxy
	var wantScheme string
	extends := false // the plugin appends the user's address itself
	c02pRP = nil
	req0 := &http.Request{Method: "GET", Host: "D.com:443", URL: &url.URL{Path: "/"}, Header: http.Header{}}
	// the TLS-terminating plugins: no TLS state, a hello without a server name, the name of the Host header
	// (in another letter case), or the name of some other host
	sni := zzverif.Choice("tlsServerName", 4)
	rw0 := &c02pRW{hdr: http.Header{}}
	if which >= 2 && sni > 0 {
		req0.TLS = &tls.ConnectionState{ServerName: []string{"", "", "d.COM", "other.com"}[sni]}
	}
	switch which {
	case 0:
		p, err := NewHTTP2HTTPPlugin(PluginContext{}, &v1.HTTP2HTTPPluginOptions{LocalAddr: "127.0.0.1:80", HostHeaderRewrite: rewriteHost, RequestHeaders: hdrOps})
		zzverif.Assume(err == nil)
		rp, _ = p.(*HTTP2HTTPPlugin).s.Handler.(*httputil.ReverseProxy)
		wantScheme = "http"
	case 1:
		p, err := NewHTTP2HTTPSPlugin(PluginContext{}, &v1.HTTP2HTTPSPluginOptions{LocalAddr: "127.0.0.1:80", HostHeaderRewrite: rewriteHost, RequestHeaders: hdrOps})
		zzverif.Assume(err == nil)
		rp, _ = p.(*HTTP2HTTPSPlugin).s.Handler.(*httputil.ReverseProxy)
		wantScheme = "https"
	case 2:
		p, err := NewHTTPS2HTTPPlugin(PluginContext{}, &v1.HTTPS2HTTPPluginOptions{LocalAddr: "127.0.0.1:80", HostHeaderRewrite: rewriteHost, RequestHeaders: hdrOps})
		zzverif.Assume(err == nil)
		p.(*HTTPS2HTTPPlugin).s.Handler.ServeHTTP(rw0, req0)
		rp, wantScheme, extends = c02pRP, "http", true
	default:
		p, err := NewHTTPS2HTTPSPlugin(PluginContext{}, &v1.HTTPS2HTTPSPluginOptions{LocalAddr: "127.0.0.1:80", HostHeaderRewrite: rewriteHost, RequestHeaders: hdrOps})
		zzverif.Assume(err == nil)
		p.(*HTTPS2HTTPSPlugin).s.Handler.ServeHTTP(rw0, req0)
		rp, wantScheme, extends = c02pRP, "https", true
	}
	if which >= 2 && sni == 3 {
		// a request for a host the TLS session was not opened for is answered 421 and goes nowhere
		zzverif.Assert(rp == nil && rw0.status == http.StatusMisdirectedRequest, "C02.plugins.request-for-another-host-than-the-tls-session's-is-misdirected")
		zzverif.Reach("C02.plugins.misdirected")
		return
	}
	// every other request reaches the backend: also one without a server name in the hello
	zzverif.Assert(which < 2 || rw0.status == 0, "C02.plugins.request-of-the-session's-host-or-without-server-name-is-forwarded")
	zzverif.Assert(rp != nil && rp.Rewrite != nil, "C02.plugins.reverse-proxy-with-rewrite-hook")

	keep := zzverif.StringUpTo("keepValue", 2, "ab")
	in := &http.Request{Method: "POST", Host: "d.com:80", RemoteAddr: "9.9.9.9:1234",
		URL: &url.URL{Path: "/p", RawQuery: "q=1"}, Header: http.Header{"X-Keep": []string{keep, "second"}, "X-Set": []string{"old"}}}
	prior := zzverif.Choice("priorXFF", 3) // none, one line, two lines
	switch prior {
	case 1:
		in.Header["X-Forwarded-For"] = []string{"1.1.1.1"}
	case 2:
		in.Header["X-Forwarded-For"] = []string{"1.1.1.1", "2.2.2.2"}
	}
	out := in.Clone(in.Context())
	// what httputil does before calling Rewrite
	out.Header.Del("X-Forwarded-For")
	out.Header.Del("X-Forwarded-Host")
	out.Header.Del("X-Forwarded-Proto")
	rp.Rewrite(&httputil.ProxyRequest{In: in, Out: out})

	zzverif.Assert(out.Method == "POST" && out.URL.Path == "/p" && out.URL.RawQuery == "q=1", "C02.plugins.method-path-query-untouched")
	zzverif.Assert(out.URL.Scheme == wantScheme && out.URL.Host == "127.0.0.1:80", "C02.plugins.forwarded-to-the-configured-local-address")
	k := out.Header["X-Keep"]
	zzverif.Assert(len(k) == 2 && k[0] == keep && k[1] == "second", "C02.plugins.other-headers-untouched")
	if rewriteHost != "" {
		zzverif.Assert(out.Host == rewriteHost, "C02.plugins.host-rewritten-as-declared")
		zzverif.Reach("C02.plugins.host-rewritten")
	} else {
		zzverif.Assert(out.Host == "d.com:80", "C02.plugins.host-unchanged-when-not-declared")
	}
	if set != nil {
		zzverif.Assert(len(out.Header["X-Set"]) == 1 && out.Header["X-Set"][0] == hv, "C02.plugins.declared-header-set")
		zzverif.Reach("C02.plugins.header-set")
	} else {
		zzverif.Assert(len(out.Header["X-Set"]) == 1 && out.Header["X-Set"][0] == "old", "C02.plugins.undeclared-header-untouched")
	}
	// forwarded-for: every prior hop survives; plugins that terminate TLS append the user's address
	xff := out.Header["X-Forwarded-For"]
	joined := ""
	for i, v := range xff {
		if i > 0 {
			joined += ", "
		}
		joined += v
	}
	want := []string{"", "1.1.1.1", "1.1.1.1, 2.2.2.2"}[prior]
	if which != 0 { // http2http leaves the header to the standard reverse proxy
		if extends {
			if want != "" {
				want += ", "
			}
			want += "9.9.9.9"
		}
		zzverif.Assert(joined == want, "C02.plugins.forwarded-for-kept-in-full-and-extended")
		if prior == 2 {
			zzverif.Reach("C02.plugins.multi-valued-xff")
		}
	}
}
