//go:build verif

package client

import (
	"encoding/base64"
	"errors"
	"io"
	"net"
	"net/http"
	"net/url"

	v1 "github.com/fatedier/frp/pkg/config/v1"
	"github.com/fatedier/frp/zzverif"
)

var c07hp struct {
	header     string
	decoded    string
	decodeErr  bool
	forwarded  int // HTTPHandler / ConnectHandler reached
	dialed     int
	statuses   []int
	rwStatus   int
	challenged bool
}

func c07hpStubHeaderGet(h http.Header, key string) string {
	if key == "Proxy-Authorization" {
		return c07hp.header
	}
	return ""
}
func c07hpStubDecodeString(enc *base64.Encoding, s string) ([]byte, error) {
	if c07hp.decodeErr {
		return nil, errors.New("bad base64")
	}
	return []byte(c07hp.decoded), nil
}
func c07hpStubHTTPHandler(hp *HTTPProxy, rw http.ResponseWriter, req *http.Request) {
	c07hp.forwarded++
}
func c07hpStubConnectHandler(hp *HTTPProxy, rw http.ResponseWriter, req *http.Request) {
	c07hp.forwarded++
}
func c07hpStubDial(network, address string) (net.Conn, error) {
	c07hp.dialed++
	return nil, errors.New("no backend in harness")
}
func c07hpStubRespWrite(r *http.Response, w io.Writer) error {
	c07hp.statuses = append(c07hp.statuses, r.StatusCode)
	return nil
}

type c07hpRW struct{ hdr http.Header }

func (w *c07hpRW) Header() http.Header         { return w.hdr }
func (w *c07hpRW) Write(p []byte) (int, error) { return len(p), nil }
func (w *c07hpRW) WriteHeader(code int) {
	c07hp.rwStatus = code
	c07hp.challenged = len(w.hdr["Proxy-Authenticate"]) > 0
}

type c07hpRWC struct{ closed int }

func (c *c07hpRWC) Read(p []byte) (int, error)  { return 0, io.EOF }
func (c *c07hpRWC) Write(p []byte) (int, error) { return len(p), nil }
func (c *c07hpRWC) Close() error                { c.closed++; return nil }

// VerifC07HTTPProxyPlugin: the http_proxy plugin forwards (plain requests and CONNECT, on
// both of its code paths) only with exactly the configured credentials.
func VerifC07HTTPProxyPlugin() {
	cfgUser := zzverif.StringUpTo("cfgUser", 1, "ab")
	cfgPass := zzverif.StringUpTo("cfgPass", 1, "pq")
	hp := &HTTPProxy{opts: &v1.HTTPProxyPluginOptions{HTTPUser: cfgUser, HTTPPassword: cfgPass}}
	c07hp.header = []string{"", "Basic xx", "Basic", "garbage zz yy"}[zzverif.Choice("header", 4)]
	c07hp.decodeErr = zzverif.Bool("badBase64")
	// decoded credential text: with or without a colon
	u := zzverif.StringUpTo("reqUser", 1, "ab")
	p := zzverif.StringUpTo("reqPass", 1, "pq")
	hasColon := zzverif.Bool("hasColon")
	if hasColon {
		c07hp.decoded = u + ":" + p
	} else {
		c07hp.decoded = u + p
	}
	c07hp.forwarded, c07hp.dialed, c07hp.statuses, c07hp.rwStatus, c07hp.challenged = 0, 0, nil, 0, false
	method := []string{"GET", "CONNECT"}[zzverif.Choice("method", 2)]
	req := &http.Request{Method: method, Header: http.Header{}, URL: &url.URL{Host: "backend:80"}, Host: "backend:80"}
	path := zzverif.Choice("path", 2)
	var rwc *c07hpRWC
	if path == 0 {
		hp.ServeHTTP(&c07hpRW{hdr: http.Header{}}, req) // embedded http.Server path
	} else {
		rwc = &c07hpRWC{}
		hp.handleConnectReq(req, rwc) // first-bytes CONNECT path
	}
	open := cfgUser == "" && cfgPass == ""
	// any "<scheme> <base64(user:pass)>" header presents the pair (the scheme word is not checked by frp;
	// the credentials themselves must still be exact)
	presented := (c07hp.header == "Basic xx" || c07hp.header == "garbage zz yy") && !c07hp.decodeErr && hasColon
	exact := presented && len(u) == len(cfgUser) && len(p) == len(cfgPass) && zzverif.And(zzverif.StrEq(u, cfgUser), zzverif.StrEq(p, cfgPass))
	reached := c07hp.forwarded > 0 || c07hp.dialed > 0
	if reached {
		zzverif.Assert(zzverif.Or(open, exact), "C07.hp.forwarded-only-with-exact-credentials")
		zzverif.Reach("C07.hp.forwarded")
	} else {
		zzverif.Assert(!open, "C07.hp.open-proxy-serves")
		zzverif.Assert(zzverif.Not(exact), "C07.hp.exact-credentials-served")
		if path == 0 {
			zzverif.Assert(c07hp.rwStatus == 407 && c07hp.challenged, "C07.hp.refusal-is-407")
		} else {
			zzverif.Assert(len(c07hp.statuses) == 1 && c07hp.statuses[0] == 407 && rwc.closed >= 1, "C07.hp.connect-refused-and-closed")
		}
		zzverif.Reach("C07.hp.refused")
	}
}
