//go:build verif

package client

import (
	"bufio"
	"context"
	"io"
	"net"
	"net/http"
	"net/url"
	"time"

	v1 "github.com/fatedier/frp/pkg/config/v1"
	netpkg "github.com/fatedier/frp/pkg/util/net"
	"github.com/fatedier/frp/zzverif"
)

type c05hConn struct {
	name   string
	first  string // what the peer sends first
	pos    int
	closed int
}

func (c *c05hConn) Read(p []byte) (int, error) {
	n := copy(p, c.first[c.pos:])
	c.pos += n
	if n == 0 {
		return 0, io.EOF
	}
	return n, nil
}
func (c *c05hConn) Write(p []byte) (int, error)        { return len(p), nil }
func (c *c05hConn) Close() error                       { c.closed++; return nil }
func (c *c05hConn) LocalAddr() net.Addr                { return nil }
func (c *c05hConn) RemoteAddr() net.Addr               { return nil }
func (c *c05hConn) SetDeadline(t time.Time) error      { return nil }
func (c *c05hConn) SetReadDeadline(t time.Time) error  { return nil }
func (c *c05hConn) SetWriteDeadline(t time.Time) error { return nil }

var c05h struct {
	connectW  io.Writer
	connectR  io.Reader
	connects  int
	closeFn   func() error
	wrapCalls int
}

func c05hStubReadRequest(b *bufio.Reader) (*http.Request, error) {
	return &http.Request{Method: "CONNECT", Header: http.Header{}, URL: &url.URL{Host: "t:1"}, Host: "t:1"}, nil
}
func c05hStubWrapRWC(r io.Reader, w io.Writer, closeFn func() error) io.ReadWriteCloser {
	c05h.wrapCalls++
	c05h.connectR, c05h.connectW, c05h.closeFn = r, w, closeFn
	return &c05hConn{name: "wrapped"}
}
func c05hStubHandleConnect(hp *HTTPProxy, req *http.Request, rwc io.ReadWriteCloser) { c05h.connects++ }

// VerifC05HTTPProxyHandle: whatever the http_proxy plugin answers or relays for a CONNECT is
// written through the layered connection it was given (cipher, compressor, limiter), never on the
// raw work connection underneath; other requests go to the embedded server over the same layers.
func VerifC05HTTPProxyHandle() {
	raw := &c05hConn{name: "raw-work-conn"}
	layered := &c05hConn{name: "layered", first: []string{"CONNECT t:1 HTTP/1.1\r\n\r\n", "GET / HTTP/1.1\r\n\r\n", "connect t:1 HTTP/1.1\r\n\r\n", "CONN"}[zzverif.Choice("firstBytes", 4)]}
	hp := &HTTPProxy{opts: &v1.HTTPProxyPluginOptions{}, l: NewProxyListener()}
	c05h.connects, c05h.wrapCalls, c05h.connectW, c05h.connectR, c05h.closeFn = 0, 0, nil, nil, nil
	hp.Handle(context.Background(), &ConnectionInfo{Conn: layered, UnderlyingConn: raw})
	switch {
	case len(layered.first) < 7:
		zzverif.Assert(c05h.connects == 0, "C05.hp.short-first-read-not-a-connect")
	case c05h.connects == 1:
		w, ok := c05h.connectW.(*netpkg.WrapReadWriteCloserConn)
		zzverif.Assert(ok && w.ReadWriteCloser == io.ReadWriteCloser(layered), "C05.hp.connect-answers-go-through-the-layered-connection")
		zzverif.Assert(c05h.connectW != io.Writer(raw), "C05.hp.connect-never-writes-on-the-raw-work-connection")
		zzverif.Assert(c05h.closeFn != nil, "C05.hp.connect-close-function")
		if c05h.closeFn != nil {
			_ = c05h.closeFn()
			zzverif.Assert(layered.closed >= 1, "C05.hp.closing-the-tunnel-closes-the-layered-connection")
		}
		zzverif.Reach("C05.hp.connect")
	default:
		zzverif.Assert(len(hp.l.conns) == 1, "C05.hp.other-requests-go-to-the-embedded-server")
		if len(hp.l.conns) == 1 {
			c := <-hp.l.conns
			// the connection handed on must read and write through the layered side as well
			sc, isSC := c.(interface{ Write([]byte) (int, error) })
			zzverif.Assert(isSC && sc != nil, "C05.hp.embedded-server-conn")
		}
		zzverif.Reach("C05.hp.plain")
	}
}
