//go:build verif

package client

import (
	"crypto/tls"
	"net"

	v1 "github.com/fatedier/frp/pkg/config/v1"
	"github.com/fatedier/frp/zzverif"
)

func c19StubNewServerTLSConfig(certPath, keyPath, caPath string) (*tls.Config, error) {
	return &tls.Config{}, nil
}
func c19StubResolveUnixAddr(network, address string) (*net.UnixAddr, error) {
	return &net.UnixAddr{Name: address, Net: network}, nil
}

// VerifC19PluginCtorKeepsOptions: constructing a client plugin does not change the options object
// it is given. The object is part of the proxy definition the client manager compares on every
// reload (reflect.DeepEqual): a constructor that normalises it in place makes an unchanged
// definition look changed, and the proxy is closed and registered again on each reload.
func VerifC19PluginCtorKeepsOptions() {
	s := func(name string) string { return zzverif.StringUpTo(name, 2, "/a") }
	which := zzverif.Choice("plugin", 5)
	switch which {
	case 0:
		o := &v1.StaticFilePluginOptions{Type: "static_file", LocalPath: s("localPath"), StripPrefix: s("stripPrefix"), HTTPUser: s("user"), HTTPPassword: s("password")}
		before := *o
		_, _ = NewStaticFilePlugin(PluginContext{}, o)
		zzverif.Assert(zzverif.StrEq(o.LocalPath, before.LocalPath) && zzverif.StrEq(o.StripPrefix, before.StripPrefix) && zzverif.StrEq(o.HTTPUser, before.HTTPUser) && zzverif.StrEq(o.HTTPPassword, before.HTTPPassword) && o.Type == before.Type, "C19.ctor.static_file-options-unchanged")
		zzverif.Reach("C19.ctor.static_file")
	case 1:
		o := &v1.HTTPProxyPluginOptions{Type: "http_proxy", HTTPUser: s("user"), HTTPPassword: s("password")}
		before := *o
		_, _ = NewHTTPProxyPlugin(PluginContext{}, o)
		zzverif.Assert(zzverif.StrEq(o.HTTPUser, before.HTTPUser) && zzverif.StrEq(o.HTTPPassword, before.HTTPPassword) && o.Type == before.Type, "C19.ctor.http_proxy-options-unchanged")
	case 2:
		o := &v1.Socks5PluginOptions{Type: "socks5", Username: s("user"), Password: s("password")}
		before := *o
		_, _ = NewSocks5Plugin(PluginContext{}, o)
		zzverif.Assert(zzverif.StrEq(o.Username, before.Username) && zzverif.StrEq(o.Password, before.Password) && o.Type == before.Type, "C19.ctor.socks5-options-unchanged")
	case 3:
		o := &v1.UnixDomainSocketPluginOptions{Type: "unix_domain_socket", UnixPath: s("unixPath")}
		before := *o
		_, _ = NewUnixDomainSocketPlugin(PluginContext{}, o)
		zzverif.Assert(zzverif.StrEq(o.UnixPath, before.UnixPath) && o.Type == before.Type, "C19.ctor.unix_domain_socket-options-unchanged")
	default:
		o := &v1.TLS2RawPluginOptions{Type: "tls2raw", LocalAddr: s("localAddr"), CrtPath: s("crt"), KeyPath: s("key")}
		before := *o
		_, _ = NewTLS2RawPlugin(PluginContext{}, o)
		zzverif.Assert(zzverif.StrEq(o.LocalAddr, before.LocalAddr) && zzverif.StrEq(o.CrtPath, before.CrtPath) && zzverif.StrEq(o.KeyPath, before.KeyPath) && o.Type == before.Type, "C19.ctor.tls2raw-options-unchanged")
	}
	zzverif.Reach("C19.ctor.done")
}
