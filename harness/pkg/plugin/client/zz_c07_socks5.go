//go:build verif

package client

import (
	gosocks5 "github.com/armon/go-socks5"

	v1 "github.com/fatedier/frp/pkg/config/v1"
	"github.com/fatedier/frp/zzverif"
)

var c07s5 struct {
	conf  *gosocks5.Config
	calls int
}

// stub for go-socks5.New: records the configuration frp hands to the library
func c07s5StubNew(conf *gosocks5.Config) (*gosocks5.Server, error) {
	c07s5.conf = conf
	c07s5.calls++
	return &gosocks5.Server{}, nil
}

// VerifC07Socks5: the socks5 plugin hands the library a credential store whenever a user name or a
// password is configured (so that the library refuses the "no authentication" method), and that
// store admits exactly the configured pair.
func VerifC07Socks5() {
	user := zzverif.StringUpTo("cfgUser", 1, "uv")
	pass := zzverif.StringUpTo("cfgPass", 1, "pq")
	c07s5.conf, c07s5.calls = nil, 0
	p, err := NewSocks5Plugin(PluginContext{}, &v1.Socks5PluginOptions{Username: user, Password: pass})
	zzverif.Assert(err == nil && p != nil && c07s5.calls == 1 && c07s5.conf != nil, "C07.socks5.server-built")
	if c07s5.conf == nil {
		return
	}
	zzverif.Assert(len(c07s5.conf.AuthMethods) == 0, "C07.socks5.authentication-method-left-to-the-credential-store")
	protected := user != "" || pass != ""
	if !protected {
		zzverif.Assert(c07s5.conf.Credentials == nil, "C07.socks5.open-only-when-nothing-is-configured")
		zzverif.Reach("C07.socks5.open")
		return
	}
	zzverif.Assert(c07s5.conf.Credentials != nil, "C07.socks5.credential-store-whenever-user-or-password-is-set")
	if c07s5.conf.Credentials == nil {
		return
	}
	ru := zzverif.StringUpTo("reqUser", 1, "uv")
	rp := zzverif.StringUpTo("reqPass", 1, "pq")
	ok := c07s5.conf.Credentials.Valid(ru, rp)
	exact := zzverif.And(zzverif.StrEq(ru, user), zzverif.StrEq(rp, pass))
	zzverif.Assert(zzverif.Iff(ok, exact), "C07.socks5.admits-exactly-the-configured-pair")
	zzverif.Reach("C07.socks5.protected")
	if user == "" || pass == "" {
		zzverif.Reach("C07.socks5.one-sided")
	}
}
