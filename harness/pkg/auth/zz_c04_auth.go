//go:build verif

package auth

import (
	"context"
	"errors"

	"github.com/coreos/go-oidc/v3/oidc"

	v1 "github.com/fatedier/frp/pkg/config/v1"
	"github.com/fatedier/frp/pkg/msg"
	"github.com/fatedier/frp/zzverif"
)

// stub for util.GetAuthKey: md5 is treated as an ideal (uninterpreted) function H(token, ts).
func c04StubAuthKey(token string, ts int64) string {
	return zzverif.UF("authkey", 32, token, ts)
}

func c04Scopes() ([]v1.AuthScope, bool, bool) {
	hb := zzverif.Bool("scopeHeartBeats")
	wc := zzverif.Bool("scopeNewWorkConns")
	var s []v1.AuthScope
	if hb {
		s = append(s, v1.AuthScopeHeartBeats)
	}
	if wc {
		s = append(s, v1.AuthScopeNewWorkConns)
	}
	return s, hb, wc
}

// VerifC04Token: the token verifier accepts exactly the keyed digest of (token, timestamp).
func VerifC04Token() {
	token := zzverif.StringUpTo("token", zzverif.Param("maxToken", 2), "")
	scopes, hb, wc := c04Scopes()
	// the verifier and the setter as the server and the client build them from their configuration
	ver := NewAuthVerifier(v1.AuthServerConfig{Method: v1.AuthMethodToken, Token: token, AdditionalScopes: scopes})
	set := NewAuthSetter(v1.AuthClientConfig{Method: v1.AuthMethodToken, Token: token, AdditionalScopes: scopes})
	zzverif.Assert(ver != nil && set != nil, "C04.token.token-method-has-a-verifier-and-a-setter")
	a := struct {
		Verifier
		Setter
	}{ver, set}
	ts := zzverif.Int64("ts")
	klen := []int{0, 1, 31, 32, 33}[zzverif.Choice("keyLen", 5)]
	key := zzverif.ASCII("key", klen)
	want := c04StubAuthKey(token, ts)
	match := false
	if klen == 32 {
		match = zzverif.StrEq(key, want)
	}

	login := &msg.Login{Timestamp: ts, PrivilegeKey: key, User: zzverif.StringUpTo("user", 1, "u"),
		ClientSpec: msg.ClientSpec{AlwaysAuthPass: zzverif.Bool("alwaysAuthPass"), Type: zzverif.StringUpTo("ctype", 1, "s")}}
	err := a.VerifyLogin(login)
	zzverif.Assert((err == nil) == match, "C04.token.login-accepted-iff-key-matches")
	if err == nil {
		zzverif.Reach("C04.token.login-ok")
	} else {
		zzverif.Reach("C04.token.login-refused")
	}

	err = a.VerifyPing(&msg.Ping{Timestamp: ts, PrivilegeKey: key})
	if hb {
		zzverif.Assert((err == nil) == match, "C04.token.ping-accepted-iff-key-matches")
	} else {
		zzverif.Assert(err == nil, "C04.token.ping-scope-off")
	}
	err = a.VerifyNewWorkConn(&msg.NewWorkConn{Timestamp: ts, PrivilegeKey: key, RunID: "r"})
	if wc {
		zzverif.Assert((err == nil) == match, "C04.token.workconn-accepted-iff-key-matches")
		if err != nil {
			zzverif.Reach("C04.token.workconn-refused")
		}
	} else {
		zzverif.Assert(err == nil, "C04.token.workconn-scope-off")
	}

	// the setter side produces exactly what the verifier accepts, and never the token itself
	l2 := &msg.Login{Timestamp: ts}
	_ = a.SetLogin(l2)
	zzverif.Assert(a.VerifyLogin(l2) == nil, "C04.token.setter-verifier-agree")
	zzverif.Assert(zzverif.StrEq(l2.PrivilegeKey, want), "C04.token.login-carries-digest")
}

type c04Verifier struct {
	fail    bool
	subject string
	calls   int
}

func (v *c04Verifier) Verify(ctx context.Context, tok string) (*oidc.IDToken, error) {
	v.calls++
	if v.fail {
		return nil, errors.New("bad token")
	}
	return &oidc.IDToken{Subject: v.subject}, nil
}

// VerifC04Oidc: OIDC consumer accepts only verified tokens, and post-login messages only for a subject seen at login.
func VerifC04Oidc() {
	scopes, hb, wc := c04Scopes()
	subs := []string{"s1", "s2", "s3", ""}
	ver := &c04Verifier{}
	a := NewOidcAuthVerifier(scopes, ver)
	// history: 0..2 earlier logins
	seen := map[string]bool{}
	n := zzverif.Choice("logins", 3)
	for i := 0; i < n; i++ {
		ver.fail = zzverif.Bool("loginFail")
		ver.subject = subs[zzverif.Choice("loginSub", len(subs))]
		err := a.VerifyLogin(&msg.Login{PrivilegeKey: "t"})
		zzverif.Assert((err == nil) == !ver.fail, "C04.oidc.login-accepted-iff-verified")
		if err == nil {
			seen[ver.subject] = true
		}
	}
	ver.fail = zzverif.Bool("msgFail")
	ver.subject = subs[zzverif.Choice("msgSub", len(subs))]
	okWant := !ver.fail && seen[ver.subject]
	err := a.VerifyPing(&msg.Ping{PrivilegeKey: "t"})
	if hb {
		zzverif.Assert((err == nil) == okWant, "C04.oidc.ping-needs-verified-known-subject")
		if err != nil {
			zzverif.Reach("C04.oidc.ping-refused")
		} else {
			zzverif.Reach("C04.oidc.ping-ok")
		}
	} else {
		zzverif.Assert(err == nil, "C04.oidc.ping-scope-off")
	}
	err = a.VerifyNewWorkConn(&msg.NewWorkConn{PrivilegeKey: "t"})
	if wc {
		zzverif.Assert((err == nil) == okWant, "C04.oidc.workconn-needs-verified-known-subject")
	} else {
		zzverif.Assert(err == nil, "C04.oidc.workconn-scope-off")
	}
	// the same token presented again after it stopped being valid (expired, revoked): a token is
	// checked every time it is presented, an earlier success is no licence
	if okWant {
		ver.fail = true
		if hb {
			zzverif.Assert(a.VerifyPing(&msg.Ping{PrivilegeKey: "t"}) != nil, "C04.oidc.token-that-stopped-being-valid-is-refused-on-a-heartbeat")
			zzverif.Reach("C04.oidc.expired-later")
		}
		if wc {
			zzverif.Assert(a.VerifyNewWorkConn(&msg.NewWorkConn{PrivilegeKey: "t"}) != nil, "C04.oidc.token-that-stopped-being-valid-is-refused-on-a-work-connection")
		}
	}
}
