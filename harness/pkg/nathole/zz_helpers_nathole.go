//go:build verif

package nathole

func (c *Controller) ZZClients() int  { return len(c.clientCfgs) }
func (c *Controller) ZZSessions() int { return len(c.sessions) }
