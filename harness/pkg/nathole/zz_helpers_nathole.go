//go:build verif

package nathole

import "github.com/fatedier/frp/zzverif"

func (c *Controller) ZZClients() int {
	c.mu.RLock()
	defer c.mu.RUnlock()
	return len(c.clientCfgs)
}

func (c *Controller) ZZSessions() int {
	c.mu.RLock()
	defer c.mu.RUnlock()
	return len(c.sessions)
}

func (c *Controller) ZZGuard() {
	zzverif.Guard(c.clientCfgs, &c.mu, "nathole.Controller.clientCfgs")
	zzverif.Guard(c.sessions, &c.mu, "nathole.Controller.sessions")
}

// ZZAllow returns the secret and the allowed-users list registered for an xtcp proxy (nil, false if none).
func (c *Controller) ZZAllow(name string) (string, []string, bool) {
	c.mu.RLock()
	defer c.mu.RUnlock()
	cfg, ok := c.clientCfgs[name]
	if !ok {
		return "", nil, false
	}
	return cfg.sk, append([]string(nil), cfg.allowUsers...), true
}
