//go:build verif

package nathole

import (
	"context"
	"net"
	"time"

	"github.com/fatedier/frp/pkg/msg"
	"github.com/fatedier/frp/zzverif"
)

var c20m struct {
	sent    []string // detect addresses a sid message went to, in order
	ttls    []int
	waited  []time.Duration
	roles   []string
	slept   []time.Duration
	peer    *net.UDPAddr
	waitErr bool
}

func c20mStubSend(ctx context.Context, conn *net.UDPConn, sid, transactionID, addr string, key []byte, ttl int) error {
	c20m.sent = append(c20m.sent, addr)
	c20m.ttls = append(c20m.ttls, ttl)
	return nil
}
func c20mStubWait(ctx context.Context, conn *net.UDPConn, sid string, key []byte, timeout time.Duration, role string) (*net.UDPAddr, error) {
	c20m.waited = append(c20m.waited, timeout)
	c20m.roles = append(c20m.roles, role)
	if c20m.waitErr {
		return nil, context.DeadlineExceeded
	}
	return c20m.peer, nil
}
func c20mStubTransactionID() string { return "txn" }
func c20mStubSleep(d time.Duration) { c20m.slept = append(c20m.slept, d) }

// VerifC20MakeHole: a peer follows the instruction it was given: a sender waits the instructed
// delay first, every candidate address gets a probe with the instructed TTL, and the peer then
// listens for the full instructed read timeout (5 s when none is given), so that two honest
// peers following complementary instructions meet.
func VerifC20MakeHole() {
	role := []string{DetectRoleSender, DetectRoleReceiver}[zzverif.Choice("role", 2)]
	delay := []int{0, 2000}[zzverif.Choice("sendDelay", 2)]
	readTimeout := []int{0, 3000, 6000}[zzverif.Choice("readTimeout", 3)]
	ttl := []int{0, 7}[zzverif.Choice("ttl", 2)]
	m := &msg.NatHoleResp{Sid: "sid", CandidateAddrs: []string{"1.1.1.1:100", "1.1.1.1:101"}, AssistedAddrs: []string{"10.0.0.1:9"},
		DetectBehavior: msg.NatHoleDetectBehavior{Role: role, SendDelayMs: delay, ReadTimeoutMs: readTimeout, TTL: ttl}}
	c20m.sent, c20m.ttls, c20m.waited, c20m.roles, c20m.slept = nil, nil, nil, nil, nil
	c20m.peer, c20m.waitErr = &net.UDPAddr{Port: 4242}, zzverif.Bool("nothingArrives")
	listen := &net.UDPConn{}
	conn, raddr, err := MakeHole(context.Background(), listen, m, []byte("k"))

	if role == DetectRoleSender && delay > 0 {
		zzverif.Assert(len(c20m.slept) == 1 && c20m.slept[0] == time.Duration(delay)*time.Millisecond, "C20.makehole.sender-waits-the-instructed-delay")
		zzverif.Reach("C20.makehole.delayed-sender")
	} else {
		zzverif.Assert(len(c20m.slept) == 0, "C20.makehole.no-delay-unless-instructed")
	}
	want := []string{"1.1.1.1:100", "1.1.1.1:101"}
	if role == DetectRoleSender {
		want = []string{"10.0.0.1:9", "1.1.1.1:100", "1.1.1.1:101"}
	}
	same := len(c20m.sent) == len(want)
	if same {
		for i := range want {
			if c20m.sent[i] != want[i] {
				same = false
			}
		}
	}
	zzverif.Assert(same, "C20.makehole.every-candidate-address-probed-once")
	for _, t := range c20m.ttls {
		zzverif.Assert(t == ttl, "C20.makehole.probes-carry-the-instructed-ttl")
	}
	wantWait := 5 * time.Second
	if readTimeout > 0 {
		wantWait = time.Duration(readTimeout) * time.Millisecond
	}
	zzverif.Assert(len(c20m.waited) == 1 && c20m.waited[0] == wantWait, "C20.makehole.listens-for-the-full-instructed-timeout")
	zzverif.Assert(len(c20m.roles) == 1 && c20m.roles[0] == role, "C20.makehole.waits-in-its-own-role")
	if c20m.waitErr {
		zzverif.Assert(err != nil && conn == nil, "C20.makehole.no-peer-is-an-error")
	} else {
		zzverif.Assert(err == nil && conn == listen && raddr == c20m.peer, "C20.makehole.reports-the-peer-it-heard")
		zzverif.Reach("C20.makehole.met")
	}
}
