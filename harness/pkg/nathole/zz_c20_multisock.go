//go:build verif

package nathole

import (
	"context"
	"net"
	"time"

	"github.com/fatedier/frp/pkg/msg"
	"github.com/fatedier/frp/zzverif"
)

var c20s struct {
	socks   []*net.UDPConn // extra listening sockets opened by MakeHole
	closed  []*net.UDPConn
	hearOn  int // index (0 = the given socket, 1.. = extra) of the socket on which the peer is heard; -1 nobody
	peer    *net.UDPAddr
	primary *net.UDPConn
	never   chan time.Time
	block   chan struct{}
}

func c20sStubListenUDP(network string, laddr *net.UDPAddr) (*net.UDPConn, error) {
	c := &net.UDPConn{}
	c20s.socks = append(c20s.socks, c)
	return c, nil
}
func c20sStubClose(c *net.UDPConn) error { c20s.closed = append(c20s.closed, c); return nil }
func c20sStubWait(ctx context.Context, conn *net.UDPConn, sid string, key []byte, timeout time.Duration, role string) (*net.UDPAddr, error) {
	idx := -1
	if conn == c20s.primary {
		idx = 0
	}
	for i, s := range c20s.socks {
		if s == conn {
			idx = i + 1
		}
	}
	if idx == c20s.hearOn {
		return c20s.peer, nil // the peer's probe is already there
	}
	<-c20s.block // nothing arrives on this socket during the scenario
	return nil, context.DeadlineExceeded
}
func c20sStubAfter(d time.Duration) <-chan time.Time { return c20s.never }

// VerifC20MultiSocket: a receiver told to listen on extra sockets hears the honest peer on one of
// them - possibly at once, before MakeHole itself has started waiting for its helpers: the
// detection is not lost; MakeHole reports that socket and the peer's address, and the socket stays
// open for the tunnel.
func VerifC20MultiSocket() {
	zzverif.SetPreempt(zzverif.Param("preempt", 1))
	// the number comes from the server's message: also zero and negative values must do no harm
	extra := []int{1, 2, 0, -1, -3}[zzverif.Choice("extraSockets", 5)]
	c20s.socks, c20s.closed = nil, nil
	c20s.primary = &net.UDPConn{}
	c20s.peer = &net.UDPAddr{Port: 4242}
	c20s.never = make(chan time.Time)
	c20s.block = make(chan struct{})
	c20s.hearOn = 0
	if extra > 0 {
		c20s.hearOn = zzverif.Choice("heardOn", extra+1)
	}
	m := &msg.NatHoleResp{Sid: "sid", CandidateAddrs: []string{"1.1.1.1:100"},
		DetectBehavior: msg.NatHoleDetectBehavior{Role: DetectRoleReceiver, ListenRandomPorts: extra, ReadTimeoutMs: 3000}}
	conn, raddr, err := MakeHole(context.Background(), c20s.primary, m, []byte("k"))
	zzverif.Assert(err == nil && raddr == c20s.peer, "C20.multisock.peer-that-was-heard-is-reported")
	want := c20s.primary
	if c20s.hearOn > 0 && c20s.hearOn-1 < len(c20s.socks) {
		want = c20s.socks[c20s.hearOn-1]
	}
	zzverif.Assert(conn == want, "C20.multisock.reports-the-socket-the-peer-was-heard-on")
	for _, c := range c20s.closed {
		zzverif.Assert(c != want, "C20.multisock.punched-socket-stays-open")
	}
	zzverif.Reach("C20.multisock.done")
	close(c20s.block)
	zzverif.Quiesce()
}
