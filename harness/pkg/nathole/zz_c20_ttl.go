//go:build verif

package nathole

import (
	"context"
	"errors"
	"net"

	"golang.org/x/net/ipv4"

	"github.com/fatedier/frp/pkg/msg"
	"github.com/fatedier/frp/zzverif"
)

// the socket's hop limit, as the operating system holds it
var c20t struct {
	ttl         int
	getFails    bool
	setFails    bool
	sentWithTTL []int
	sentTo      []string
	encoded     int
}

func c20tStubNewConn(c net.Conn) *ipv4.Conn { return &ipv4.Conn{} }
func c20tStubTTL(c *ipv4.Conn) (int, error) {
	if c20t.getFails {
		return 0, errors.New("getsockopt failed")
	}
	return c20t.ttl, nil
}
func c20tStubSetTTL(c *ipv4.Conn, ttl int) error {
	if c20t.setFails {
		return errors.New("setsockopt failed")
	}
	c20t.ttl = ttl
	return nil
}
func c20tStubEncode(m msg.Message, key []byte) ([]byte, error) {
	c20t.encoded++
	return []byte{1}, nil
}
func c20tStubWriteToUDP(c *net.UDPConn, b []byte, addr *net.UDPAddr) (int, error) {
	c20t.sentWithTTL = append(c20t.sentWithTTL, c20t.ttl)
	c20t.sentTo = append(c20t.sentTo, addr.String())
	return len(b), nil
}
func c20tStubLocalAddr(c *net.UDPConn) net.Addr { return &net.UDPAddr{Port: 5000} }

// VerifC20SendTTL: a probe sent with a reduced hop limit (so that it opens the sender's NAT but does
// not reach the peer's) leaves the socket as it found it: the datagram goes out with the instructed
// TTL and the socket's own TTL is back afterwards - everything sent later on the same socket (the
// answer to the peer, then the tunnel itself) must travel the whole way.
func VerifC20SendTTL() {
	original := []int{64, 128, 255}[zzverif.Choice("socketTTL", 3)]
	ttl := []int{0, 4, 7, -1}[zzverif.Choice("instructedTTL", 4)]
	c20t.ttl, c20t.getFails, c20t.setFails = original, zzverif.Bool("getFails"), zzverif.Bool("setFails")
	c20t.sentWithTTL, c20t.sentTo, c20t.encoded = nil, nil, 0
	err := sendSidMessage(context.Background(), &net.UDPConn{}, "sid", "tx", "203.0.113.9:4000", []byte("k"), ttl)
	if ttl > 0 && c20t.getFails {
		zzverif.Assert(err != nil && len(c20t.sentWithTTL) == 0, "C20.ttl.no-probe-when-the-socket-cannot-be-inspected")
		zzverif.Assert(c20t.ttl == original, "C20.ttl.socket-left-as-found")
		return
	}
	zzverif.Assert(err == nil && len(c20t.sentWithTTL) == 1, "C20.ttl.one-datagram-sent")
	if len(c20t.sentWithTTL) != 1 {
		return
	}
	zzverif.Assert(c20t.sentTo[0] == "203.0.113.9:4000", "C20.ttl.sent-to-the-instructed-address")
	if ttl > 0 && !c20t.setFails {
		zzverif.Assert(c20t.sentWithTTL[0] == ttl, "C20.ttl.probe-goes-out-with-the-instructed-ttl")
		zzverif.Reach("C20.ttl.reduced")
	} else {
		zzverif.Assert(c20t.sentWithTTL[0] == original, "C20.ttl.socket-ttl-untouched-without-a-ttl-instruction")
		zzverif.Reach("C20.ttl.plain")
	}
	zzverif.Assert(c20t.ttl == original, "C20.ttl.socket-left-as-found")
}
