//go:build verif

package nathole

import (
	"github.com/fatedier/frp/pkg/msg"
	"github.com/fatedier/frp/zzverif"
)

// VerifC20ErrorResponses: a whole exchange through HandleVisitor / HandleClient in which one party's
// (or both parties') observations are unusable or out of range: each of the two controls gets exactly
// one answer, under its OWN transaction id (otherwise its requester never sees it), carrying an error
// and no instruction; the session is gone afterwards.
func VerifC20ErrorResponses() {
	c, _ := NewController(0)
	sidCh, err := c.ListenClient("x1", "sk", []string{"*"})
	zzverif.Assume(err == nil)
	good := []string{"1.1.1.1:100", "1.1.1.1:100"}
	bad := [][]string{{"1.1.1.1:100"}, {"not an address", "1.1.1.1:100"}, {"1.1.1.1:0", "1.1.1.1:70000"}}[zzverif.Choice("unusable", 3)]
	who := zzverif.Choice("whose", 3) // 0 the owner's, 1 the visitor's, 2 both
	ca, va := good, good
	if who != 1 {
		ca = bad
	}
	if who != 0 {
		va = bad
	}
	trV, trC := &c08Transporter{name: "visitor"}, &c08Transporter{name: "owner"}
	go func() {
		sid := <-sidCh
		c.HandleClient(&msg.NatHoleClient{TransactionID: "tc", ProxyName: "x1", Sid: sid, MappedAddrs: append([]string(nil), ca...)}, trC)
	}()
	ts := int64(7)
	c.HandleVisitor(&msg.NatHoleVisitor{TransactionID: "tv", ProxyName: "x1", Timestamp: ts, SignKey: c08StubAuthKeyNat("sk", ts),
		MappedAddrs: append([]string(nil), va...), Protocol: "quic"}, trV, "u")
	zzverif.Quiesce()
	zzverif.Assert(len(trV.sent) == 1 && len(trC.sent) == 1, "C20.errresp.exactly-one-answer-to-each-of-the-two-controls")
	if len(trV.sent) == 1 && len(trC.sent) == 1 {
		rv, okV := trV.sent[0].(*msg.NatHoleResp)
		rc, okC := trC.sent[0].(*msg.NatHoleResp)
		zzverif.Assert(okV && okC, "C20.errresp.answers-are-responses")
		if okV && okC {
			zzverif.Assert(rv.TransactionID == "tv" && rc.TransactionID == "tc", "C20.errresp.each-answer-under-its-requester's-own-transaction-id")
			zzverif.Assert(rv.Error != "" && rc.Error != "", "C20.errresp.unusable-observations-yield-an-error-for-both")
			zzverif.Assert(len(rv.CandidateAddrs) == 0 && len(rc.CandidateAddrs) == 0 && rv.DetectBehavior.Role == "" && rc.DetectBehavior.Role == "", "C20.errresp.no-instruction-beside-the-error")
		}
	}
	zzverif.Assert(c.ZZSessions() == 0, "C20.errresp.session-removed")
	zzverif.Reach("C20.errresp.done")
}
