//go:build verif

package nathole

import (
	"context"
	"errors"
	"net"
	"time"

	"github.com/fatedier/frp/pkg/msg"
	"github.com/fatedier/frp/zzverif"
)

// a datagram arriving on the hole-punching socket
type c20wDatagram struct {
	kind     int // 0 undecodable (junk / other key), 1 other session's message, 2 the peer's request, 3 the peer's response
	from     *net.UDPAddr
	response bool
	sid      string
}

var c20w struct {
	in      []c20wDatagram
	pos     int
	cur     *c20wDatagram
	replies []*net.UDPAddr // where answers were sent
	replied []*msg.NatHoleSid
	armed   bool
}

func c20wStubReadFromUDP(c *net.UDPConn, b []byte) (int, *net.UDPAddr, error) {
	if c20w.pos >= len(c20w.in) {
		return 0, nil, errors.New("i/o timeout")
	}
	zzverif.Assert(c20w.armed, "C20.wait.every-read-happens-under-a-deadline")
	d := &c20w.in[c20w.pos]
	c20w.pos++
	c20w.cur = d
	return 1, d.from, nil
}
func c20wStubSetReadDeadline(c *net.UDPConn, t time.Time) error { c20w.armed = !t.IsZero(); return nil }
func c20wStubDecode(data []byte, key []byte, m msg.Message) error {
	d := c20w.cur
	if d == nil || d.kind == 0 {
		return errors.New("message authentication failed")
	}
	if s, ok := m.(*msg.NatHoleSid); ok {
		s.Sid, s.Response, s.TransactionID = d.sid, d.response, "tx"
	}
	return nil
}
func c20wStubEncode(m msg.Message, key []byte) ([]byte, error) {
	if s, ok := m.(*msg.NatHoleSid); ok {
		cp := *s
		c20w.replied = append(c20w.replied, &cp)
	}
	return []byte{1}, nil
}
func c20wStubWriteToUDP(c *net.UDPConn, b []byte, addr *net.UDPAddr) (int, error) {
	c20w.replies = append(c20w.replies, addr)
	return len(b), nil
}

// VerifC20WaitDetect: the peer-side wait for the other party's probe: datagrams that do not decode
// under the session key, or that carry another session id, are ignored - they neither end the wait
// nor get an answer; the first datagram of this session ends it with that peer's address; a receiver
// answers a request (and only that) to the address it came from with the same session id; a sender
// ignores requests and waits for the response.
func VerifC20WaitDetect() {
	role := []string{DetectRoleSender, DetectRoleReceiver}[zzverif.Choice("role", 2)]
	n := zzverif.Choice("strayDatagrams", 3)
	c20w.in, c20w.pos, c20w.cur, c20w.replies, c20w.replied, c20w.armed = nil, 0, nil, nil, nil, false
	stranger := &net.UDPAddr{IP: net.IPv4(203, 0, 113, 66), Port: 666}
	peer := &net.UDPAddr{IP: net.IPv4(198, 51, 100, 7), Port: 4000}
	for i := 0; i < n; i++ {
		switch zzverif.Choice("stray", 4) {
		case 0:
			c20w.in = append(c20w.in, c20wDatagram{kind: 0, from: stranger})
		case 1:
			c20w.in = append(c20w.in, c20wDatagram{kind: 1, from: stranger, sid: "other-sid", response: false})
		case 2:
			c20w.in = append(c20w.in, c20wDatagram{kind: 1, from: stranger, sid: "other-sid", response: true})
		default:
			// for a sender: the peer's own request is not what it waits for
			c20w.in = append(c20w.in, c20wDatagram{kind: 2, from: peer, sid: "sid-1", response: false})
		}
	}
	final := zzverif.Choice("then", 3) // 0 nothing more (timeout), 1 the peer's request, 2 the peer's response
	if final == 1 {
		c20w.in = append(c20w.in, c20wDatagram{kind: 2, from: peer, sid: "sid-1", response: false})
	} else if final == 2 {
		c20w.in = append(c20w.in, c20wDatagram{kind: 3, from: peer, sid: "sid-1", response: true})
	}
	addr, err := waitDetectMessage(context.Background(), &net.UDPConn{}, "sid-1", []byte("k"), time.Second, role)

	// the first datagram that ends the wait, according to the rule above
	endAt := -1
	for i, d := range c20w.in {
		if d.kind >= 2 && (d.response || role == DetectRoleReceiver) {
			endAt = i
			break
		}
	}
	if endAt < 0 {
		zzverif.Assert(err != nil && addr == nil, "C20.wait.times-out-when-the-peer-never-shows-up")
		zzverif.Assert(c20w.pos == len(c20w.in), "C20.wait.stray-datagrams-do-not-end-the-wait")
		zzverif.Assert(len(c20w.replies) == 0, "C20.wait.nobody-but-the-peer-gets-an-answer")
		zzverif.Reach("C20.wait.timeout")
		return
	}
	zzverif.Assert(err == nil && addr == peer, "C20.wait.ends-with-the-peer's-address")
	zzverif.Assert(c20w.pos == endAt+1, "C20.wait.ends-at-the-peer's-first-datagram")
	wantReply := role == DetectRoleReceiver && !c20w.in[endAt].response
	if wantReply {
		zzverif.Assert(len(c20w.replies) == 1 && c20w.replies[0] == peer, "C20.wait.receiver-answers-the-peer-at-the-address-it-came-from")
		zzverif.Assert(len(c20w.replied) == 1 && c20w.replied[0].Response && c20w.replied[0].Sid == "sid-1", "C20.wait.answer-is-a-response-for-this-session")
		zzverif.Reach("C20.wait.answered")
	} else {
		zzverif.Assert(len(c20w.replies) == 0, "C20.wait.nobody-but-the-peer-gets-an-answer")
	}
	zzverif.Reach("C20.wait.met")
}
