//go:build verif

package nathole

import (
	"github.com/fatedier/frp/pkg/msg"
	"github.com/fatedier/frp/zzverif"
)

// stub for (*Session).genAnalysisKey (md5 of the two public IPs): one pair of peers, one key
func c20iStubGenKey(s *Session) { s.analysisKey = "pair" }

var c20iAddrs = map[string][]string{
	"easy":      {"1.1.1.1:100", "1.1.1.1:100", "1.1.1.1:100"},
	"hard":      {"2.2.2.2:100", "2.2.2.2:3100", "2.2.2.2:900"},
	"hard-regu": {"3.3.3.3:100", "3.3.3.3:101", "3.3.3.3:102"},
}

// VerifC20Instructions: whatever the history of failed attempts for a pair of peers, the two
// instructions the server sends are complementary AND compatible in time: each peer keeps
// listening until at least five seconds after the later of the two send times, candidate
// addresses are the other side's observed addresses, and both carry the same session id and mode.
func VerifC20Instructions() {
	kinds := []string{"easy", "hard", "hard-regu"}
	ck, vk := kinds[zzverif.Choice("clientNAT", 3)], kinds[zzverif.Choice("visitorNAT", 3)]
	c, _ := NewController(0)
	attempts := 1 + zzverif.Choice("earlierAttempts", zzverif.Param("maxAttempts", 9))
	// local (assisted) addresses: none, a private one, or - a party directly on the public network -
	// the very address the server observed
	assisted := func(name, kind string) []string {
		switch zzverif.Choice(name, 3) {
		case 1:
			return []string{"192.168.1.5:100"}
		case 2:
			zzverif.Reach("C20.instr.party-on-the-public-network")
			return []string{c20iAddrs[kind][0]}
		}
		return nil
	}
	cAssist, vAssist := assisted("clientAssisted", ck), assisted("visitorAssisted", vk)
	var vResp, cResp *msg.NatHoleResp
	for i := 0; i < attempts; i++ {
		s := &Session{sid: "sid",
			clientMsg:  &msg.NatHoleClient{TransactionID: "tc", MappedAddrs: append([]string(nil), c20iAddrs[ck]...), AssistedAddrs: append([]string(nil), cAssist...)},
			visitorMsg: &msg.NatHoleVisitor{TransactionID: "tv", MappedAddrs: append([]string(nil), c20iAddrs[vk]...), AssistedAddrs: append([]string(nil), vAssist...), Protocol: "quic"}}
		var err error
		vResp, cResp, err = c.analysis(s)
		if err != nil {
			zzverif.Fail("C20.instr.valid-observations-yield-instructions: " + err.Error())
		}
		if err != nil {
			return
		}
	}
	vb, cb := vResp.DetectBehavior, cResp.DetectBehavior
	zzverif.Assert(vResp.Sid == "sid" && cResp.Sid == "sid" && vResp.TransactionID == "tv" && cResp.TransactionID == "tc", "C20.instr.each-party-gets-its-own-transaction-and-the-shared-session")
	zzverif.Assert(vb.Mode == cb.Mode, "C20.instr.same-mode-for-both")
	zzverif.Assert((vb.Role == DetectRoleSender && cb.Role == DetectRoleReceiver) || (vb.Role == DetectRoleReceiver && cb.Role == DetectRoleSender), "C20.instr.exactly-one-sender-and-one-receiver")
	zzverif.Assert(len(vResp.CandidateAddrs) >= 1 && vResp.CandidateAddrs[0] == c20iAddrs[ck][0] && len(cResp.CandidateAddrs) >= 1 && cResp.CandidateAddrs[0] == c20iAddrs[vk][0], "C20.instr.candidates-are-the-other-side's-observed-addresses")
	// every distinct observed address of the other side is a candidate, and its local addresses are passed on
	distinct := func(l []string) (r []string) {
		for i, a := range l {
			if i == 0 || a != l[i-1] {
				r = append(r, a)
			}
		}
		return
	}
	same := func(a, b []string) bool {
		if len(a) != len(b) {
			return false
		}
		for i := range a {
			if a[i] != b[i] {
				return false
			}
		}
		return true
	}
	zzverif.Assert(same(vResp.CandidateAddrs, distinct(c20iAddrs[ck])) && same(cResp.CandidateAddrs, distinct(c20iAddrs[vk])), "C20.instr.every-observed-address-of-the-other-side-is-a-candidate")
	zzverif.Assert(same(vResp.AssistedAddrs, cAssist) && same(cResp.AssistedAddrs, vAssist), "C20.instr.local-addresses-of-the-other-side-passed-on")
	later := vb.SendDelayMs
	if cb.SendDelayMs > later {
		later = cb.SendDelayMs
	}
	zzverif.Assert(vb.SendDelayMs >= 0 && cb.SendDelayMs >= 0 && vb.ReadTimeoutMs > 0 && cb.ReadTimeoutMs > 0, "C20.instr.sane-timing")
	// a peer starts listening after its own send delay and must still listen 5 s after the later sender started
	zzverif.Assert(vb.SendDelayMs+vb.ReadTimeoutMs >= later+5000, "C20.instr.visitor-still-listening-when-the-other-side-sends")
	zzverif.Assert(cb.SendDelayMs+cb.ReadTimeoutMs >= later+5000, "C20.instr.client-still-listening-when-the-other-side-sends")
	for _, r := range append(append([]msg.PortsRange(nil), vb.CandidatePorts...), cb.CandidatePorts...) {
		zzverif.Assert(r.From >= 1 && r.From <= r.To && r.To <= 65535, "C20.instr.candidate-port-ranges-valid")
	}
	if later > 0 {
		zzverif.Reach("C20.instr.delayed-sender")
	}
	zzverif.Reach("C20.instr.done")
}

// VerifC20UnusableObservations: when either party's observed addresses cannot be classified (too
// few of them, not host:port) the exchange ends with an error for that session - no instructions
// are computed from half a picture, and the server does not crash on it.
func VerifC20UnusableObservations() {
	bad := map[string][]string{
		"single":  {"1.1.1.1:100"},
		"none":    nil,
		"garbage": {"not an address", "1.1.1.1:100"},
	}
	bk := []string{"single", "none", "garbage"}[zzverif.Choice("unusable", 3)]
	who := zzverif.Choice("whose", 3) // 0 the client's, 1 the visitor's, 2 both
	ca, va := c20iAddrs["easy"], c20iAddrs["hard"]
	if who != 1 {
		ca = bad[bk]
	}
	if who != 0 {
		va = bad[bk]
	}
	c, _ := NewController(0)
	s := &Session{sid: "sid",
		clientMsg:  &msg.NatHoleClient{TransactionID: "tc", MappedAddrs: append([]string(nil), ca...)},
		visitorMsg: &msg.NatHoleVisitor{TransactionID: "tv", MappedAddrs: append([]string(nil), va...), Protocol: "quic"}}
	vResp, cResp, err := c.analysis(s)
	zzverif.Assert(err != nil && vResp == nil && cResp == nil, "C20.unusable.no-instructions-from-observations-that-cannot-be-classified")
	if who == 0 {
		zzverif.Reach("C20.unusable.client-side")
	}
	zzverif.Reach("C20.unusable.done")
}
