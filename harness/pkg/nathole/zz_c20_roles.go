//go:build verif

package nathole

import (
	"github.com/fatedier/frp/zzverif"
)

func c20Feature(name string) *NatFeature {
	f := &NatFeature{NatType: EasyNAT, Behavior: BehaviorNoChange}
	if zzverif.Bool(name + ".hard") {
		f.NatType = HardNAT
		f.Behavior = BehaviorPortChanged
		if zzverif.Bool(name + ".regular") {
			f.RegularPortsChange = true
			f.PortsDifference = 3
		} else {
			f.PortsDifference = 100
		}
	} else {
		f.PublicNetwork = zzverif.Bool(name + ".public")
	}
	return f
}

// VerifC20Roles: for every pair of NAT observations and every history of recommendations
// and success reports, the next instruction assigns complementary roles that follow the
// mode's rule.
func VerifC20Roles() {
	c := c20Feature("client")
	v := c20Feature("visitor")
	a := NewAnalyzer(0)
	h := zzverif.Choice("history", zzverif.Param("maxHistory", 4)+1)
	lastMode, lastIdx := 0, 0
	for i := 0; i < h; i++ {
		if zzverif.Bool("report") {
			// success reports for the last recommendation, or for an arbitrary (mode, index)
			if zzverif.Bool("reportLast") {
				a.ReportSuccess("k", lastMode, lastIdx)
			} else {
				a.ReportSuccess("k", zzverif.IntRange("rmode", -1, 5), zzverif.IntRange("rindex", -1, 10))
			}
		} else {
			lastMode, lastIdx, _, _ = a.GetRecommandBehaviors("k", c, v)
		}
	}
	mode, index, cb, vb := a.GetRecommandBehaviors("k", c, v)
	zzverif.Assert(mode >= 0 && mode <= 4, "C20.roles.mode-in-range")
	zzverif.Assert(index >= 0 && index < len(getBehaviorByMode(mode)), "C20.roles.index-within-mode-table")
	okRole := func(r string) bool { return r == DetectRoleSender || r == DetectRoleReceiver }
	zzverif.Assert(okRole(cb.Role) && okRole(vb.Role), "C20.roles.roles-are-sender-or-receiver")
	zzverif.Assert(cb.Role != vb.Role, "C20.roles.exactly-one-sender-and-one-receiver")
	cHard, vHard := c.NatType == HardNAT, v.NatType == HardNAT
	switch mode {
	case DetectMode1:
		if cHard != vHard {
			if cHard {
				zzverif.Assert(cb.Role == DetectRoleSender, "C20.roles.mode1-hard-nat-sends")
			} else {
				zzverif.Assert(vb.Role == DetectRoleSender, "C20.roles.mode1-hard-nat-sends")
			}
			zzverif.Reach("C20.roles.mode1")
		}
	case DetectMode2:
		if cHard != vHard {
			if cHard {
				zzverif.Assert(cb.Role == DetectRoleReceiver, "C20.roles.mode2-hard-nat-listens")
			} else {
				zzverif.Assert(vb.Role == DetectRoleReceiver, "C20.roles.mode2-hard-nat-listens")
			}
			zzverif.Reach("C20.roles.mode2")
		}
	case DetectMode4:
		if c.RegularPortsChange != v.RegularPortsChange {
			if c.RegularPortsChange {
				zzverif.Assert(cb.Role == DetectRoleSender, "C20.roles.mode4-regular-side-sends")
			} else {
				zzverif.Assert(vb.Role == DetectRoleSender, "C20.roles.mode4-regular-side-sends")
			}
			zzverif.Reach("C20.roles.mode4")
		}
	}
	// scores stay bounded
	for _, s := range a.records["k"].scores {
		zzverif.Assert(s.Score <= 10, "C20.roles.score-bounded")
	}
}
