//go:build verif

package nathole

import (
	"github.com/fatedier/frp/zzverif"
)

// c20Port builds a port text of 1..maxDigits symbolic decimal digits with an optional
// minus sign and returns the text and its numeric value (computed independently).
func c20Port(name string, maxDigits int) (string, int) {
	nd := 1 + zzverif.Choice(name+".digits", maxDigits)
	ds := zzverif.StringOf(name, nd, "0123456789")
	v := 0
	for i := 0; i < nd; i++ {
		v = v*10 + int(ds[i]-'0')
	}
	if zzverif.Bool(name + ".neg") {
		return "-" + ds, -v
	}
	return ds, v
}

// VerifC20Range: classification + candidate range for every pair of mapped addresses.
func VerifC20Range() {
	maxDigits := zzverif.Param("maxDigits", 5)
	p1, v1 := c20Port("p1", maxDigits)
	p2, v2 := c20Port("p2", maxDigits)
	sameIP := zzverif.Bool("sameIP")
	ip2 := "1.2.3.4"
	if !sameIP {
		ip2 = "1.2.3.5"
	}
	addrs := []string{"1.2.3.4:" + p1, ip2 + ":" + p2}
	feat, err := ClassifyNATFeature(addrs, nil)
	inRange := zzverif.And(zzverif.And(v1 >= 1, v1 <= 65535), zzverif.And(v2 >= 1, v2 <= 65535))
	if err != nil {
		zzverif.Reach("C20.range.rejected")
		return
	}
	zzverif.Reach("C20.range.classified")
	// out-of-range mapped ports must be an error, never an instruction
	zzverif.Assert(inRange, "C20.range.out-of-range-port-rejected")
	// classification against the reference reading
	portChanged := !zzverif.StrEq(p1, p2) || len(p1) != len(p2)
	switch {
	case !sameIP && portChanged:
		zzverif.Assert(feat.NatType == HardNAT && feat.Behavior == BehaviorBothChanged, "C20.classify.both-changed")
	case !sameIP:
		zzverif.Assert(feat.NatType == HardNAT && feat.Behavior == BehaviorIPChanged, "C20.classify.ip-changed")
	case portChanged:
		zzverif.Assert(feat.NatType == HardNAT && feat.Behavior == BehaviorPortChanged, "C20.classify.port-changed")
		d := v1 - v2
		if d < 0 {
			d = -d
		}
		zzverif.Assert(feat.PortsDifference == d, "C20.classify.ports-difference")
		zzverif.Assert(feat.RegularPortsChange == (d >= 1 && d <= 5), "C20.classify.regular")
	default:
		zzverif.Assert(feat.NatType == EasyNAT && feat.Behavior == BehaviorNoChange, "C20.classify.easy")
		zzverif.Reach("C20.classify.easy")
	}
	zzverif.Assert(!feat.PublicNetwork, "C20.classify.not-public")
	maxNumber := zzverif.IntRange("maxNumber", -1, 2000)
	rs := getRangePorts(addrs, feat.PortsDifference, maxNumber)
	if maxNumber <= 0 {
		zzverif.Assert(len(rs) == 0, "C20.range.no-range-when-disabled")
		return
	}
	zzverif.Assert(len(rs) == 1, "C20.range.one-range")
	for _, r := range rs {
		zzverif.Assert(zzverif.And(r.From >= 1, r.To <= 65535), "C20.range.within-1-65535")
		zzverif.Assert(r.From <= r.To, "C20.range.start-not-after-end")
		zzverif.Assert(zzverif.Implies(inRange, zzverif.And(r.From <= v2, v2 <= r.To)), "C20.range.contains-observed-port")
		zzverif.Reach("C20.range.produced")
	}
}

// VerifC20ClassifyShape: too few or malformed addresses are errors, never a crash.
func VerifC20ClassifyShape() {
	n := zzverif.Choice("n", 4)
	var addrs []string
	for i := 0; i < n; i++ {
		switch zzverif.Choice("shape", 4) {
		case 0:
			addrs = append(addrs, zzverif.StringUpTo("junk", 3, ":1a[]"))
		case 1:
			addrs = append(addrs, "1.2.3.4:"+zzverif.StringOf("pp", 2, "0189"))
		case 2:
			addrs = append(addrs, "[::1]:"+zzverif.StringOf("pp", 1, "0189x"))
		default:
			addrs = append(addrs, "9.9.9.9:443")
		}
	}
	local := []string{"9.9.9.9"}
	feat, err := ClassifyNATFeature(addrs, local)
	if n <= 1 {
		zzverif.Assert(err != nil && feat == nil, "C20.classify.not-enough-addresses")
		zzverif.Reach("C20.classify.too-few")
		return
	}
	if err == nil {
		zzverif.Assert(feat != nil, "C20.classify.result")
		zzverif.Assert(feat.NatType == EasyNAT || feat.NatType == HardNAT, "C20.classify.type-enum")
		zzverif.Reach("C20.classify.ok")
		if feat.PublicNetwork {
			zzverif.Reach("C20.classify.public")
		}
	} else {
		zzverif.Reach("C20.classify.malformed")
	}
}

// VerifSelfNathole: translator validation kernel.
func VerifSelfNathole() {
	for _, a := range [][]string{{"1.2.3.4:100", "1.2.3.4:100"}, {"1.2.3.4:100", "1.2.3.4:103"}, {"1.2.3.4:100", "1.2.3.5:100"}, {"1.2.3.4:100", "1.2.3.5:200"},
		{"1.2.3.4:100"}, {"bad", "1.2.3.4:1"}, {"1.2.3.4:x", "1.2.3.4:1"}, {"1.2.3.4:65535", "1.2.3.4:65530", "1.2.3.4:65533"}} {
		f, err := ClassifyNATFeature(a, []string{"1.2.3.5"})
		if err != nil {
			zzverif.Observe("classify-err", len(a))
			continue
		}
		zzverif.Observe("classify", f.NatType, f.Behavior, f.PortsDifference, f.RegularPortsChange, f.PublicNetwork)
		for _, r := range getRangePorts(a, f.PortsDifference, 50) {
			zzverif.Observe("range", r.From, r.To)
		}
	}
}
