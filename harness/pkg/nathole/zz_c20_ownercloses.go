//go:build verif

package nathole

import (
	"github.com/fatedier/frp/pkg/msg"
	"github.com/fatedier/frp/zzverif"
)

// VerifC20OwnerCloses: the xtcp proxy a visitor asks for is closed at the same moment (its
// registration is withdrawn and the goroutine that forwards session ids to its owner stops): the
// visitor's request still ends - within the hand-over timeout at the latest - and its session is
// removed; the server does not keep a session (and a goroutine) for ever.
func VerifC20OwnerCloses() {
	zzverif.SetPreempt(zzverif.Param("preempt", 1))
	c, _ := NewController(0)
	sidCh, err := c.ListenClient("x1", "s", []string{"*"})
	zzverif.Assume(err == nil)
	closeCh := make(chan struct{})
	forwarded := 0
	go func() { // the proxy's forwarder, as XTCPProxy.Run starts it
		for {
			select {
			case <-closeCh:
				return
			case <-sidCh:
				forwarded++
			}
		}
	}()
	go func() { // XTCPProxy.Close
		c.CloseClient("x1")
		close(closeCh)
	}()
	tr := &c08Transporter{name: "visitor"}
	m := &msg.NatHoleVisitor{TransactionID: "t1", ProxyName: "x1", Timestamp: 7, SignKey: c08StubAuthKeyNat("s", 7)}
	c.HandleVisitor(m, tr, "alice")
	zzverif.Quiesce()
	zzverif.Assert(c.ZZSessions() == 0, "C20.ownercloses.session-removed-when-the-proxy-goes-away")
	zzverif.Reach("C20.ownercloses.done")
}
