//go:build verif

package nathole

import (
	"github.com/fatedier/frp/pkg/msg"
	"github.com/fatedier/frp/zzverif"
)

// VerifC16NatholeLocks: every access to the controller's shared tables holds the controller
// lock (handlers run concurrently for all sessions; Go aborts the process on an
// unsynchronised concurrent map access).
func VerifC16NatholeLocks() {
	c, _ := NewController(0)
	zzverif.Guard(c.clientCfgs, &c.mu, "nathole.Controller.clientCfgs")
	zzverif.Guard(c.sessions, &c.mu, "nathole.Controller.sessions")
	sidCh, err := c.ListenClient("x1", "sk", []string{"*"})
	zzverif.Assume(err == nil)
	go func() {
		for range sidCh {
		}
	}()
	// a session whose analysis records have been cleaned away meanwhile (hourly clean-up) may still report
	if zzverif.Bool("sessionKnown") {
		c.mu.Lock()
		c.sessions["sid-1"] = &Session{sid: "sid-1", analysisKey: "cleaned-away", notifyCh: make(chan struct{}, 1)}
		c.mu.Unlock()
		zzverif.Reach("C16.locks.report-of-a-known-session")
	}
	tr := &c08Transporter{}
	m := &msg.NatHoleVisitor{TransactionID: "t", ProxyName: []string{"x1", "nosuch"}[zzverif.Choice("name", 2)], PreCheck: zzverif.Bool("preCheck"),
		Timestamp: 1, SignKey: c08StubAuthKeyNat("sk", 1)}
	switch zzverif.Choice("handler", 4) {
	case 0:
		c.HandleVisitor(m, tr, "u")
	case 1:
		c.HandleClient(&msg.NatHoleClient{Sid: "sid-1"}, tr)
	case 2:
		c.HandleReport(&msg.NatHoleReport{Sid: "sid-1", Success: true})
	default:
		c.CloseClient("x1")
	}
	zzverif.Quiesce()
	// the controller stays usable for everybody else: no handler returns with the table still locked
	_, err = c.ListenClient("x2", "sk", nil)
	zzverif.Assert(err == nil, "C16.locks.controller-usable-after-every-handler")
	c.CloseClient("x2")
	zzverif.Reach("C16.locks.done")
}
