//go:build verif

package nathole

import (
	"context"

	"github.com/fatedier/frp/pkg/msg"
	"github.com/fatedier/frp/zzverif"
)

func c08StubAuthKeyNat(sk string, ts int64) string { return zzverif.UF("authkey", 8, sk, ts) }
func c08StubGenSid(c *Controller) string           { return "sid-1" }

type c08Transporter struct {
	name string
	sent []msg.Message
}

func (t *c08Transporter) Send(m msg.Message) error { t.sent = append(t.sent, m); return nil }
func (t *c08Transporter) Do(ctx context.Context, req msg.Message, laneKey, recvMsgType string) (msg.Message, error) {
	return nil, nil
}
func (t *c08Transporter) Dispatch(m msg.Message, laneKey string) bool                  { return false }
func (t *c08Transporter) DispatchWithType(m msg.Message, msgType, laneKey string) bool { return false }

var c08NatUsers = []string{"", "alice", "bob", "*"}

// VerifC08NatVisitor: a NAT-hole request reaches the proxy owner / creates a session only
// with a valid signature and an allowed user; otherwise error response, nobody notified, no state.
func VerifC08NatVisitor() {
	c, _ := NewController(0)
	sk := zzverif.StringUpTo("sk", 1, "ab")
	var allow []string
	na := zzverif.Choice("allowN", 3)
	for i := 0; i < na; i++ {
		allow = append(allow, c08NatUsers[zzverif.Choice("allow", len(c08NatUsers))])
	}
	sidCh, err := c.ListenClient("x1", sk, allow)
	zzverif.Assume(err == nil)
	_, dup := c.ListenClient("x1", "zz", nil)
	zzverif.Assert(dup != nil, "C08.nat.duplicate-name-refused")

	var ownerGot []string
	go func() {
		for sid := range sidCh {
			ownerGot = append(ownerGot, sid)
		}
	}()

	m := &msg.NatHoleVisitor{
		TransactionID: "t1",
		ProxyName:     []string{"x1", "nosuch"}[zzverif.Choice("name", 2)],
		Timestamp:     zzverif.Int64("ts"),
		SignKey:       zzverif.String("sign", []int{8, 0, 1, 7, 9}[zzverif.Choice("signLen", 5)]),
		PreCheck:      zzverif.Bool("preCheck"),
	}
	user := c08NatUsers[zzverif.Choice("user", 3)]
	tr := &c08Transporter{name: "visitor"}

	c.HandleVisitor(m, tr, user)
	zzverif.Quiesce()

	allowed := false
	for _, a := range allow {
		if a == user || a == "*" {
			allowed = true
		}
	}
	valid := zzverif.StrEq(m.SignKey, c08StubAuthKeyNat(sk, m.Timestamp))
	zzverif.Assert(len(c.sessions) == 0, "C08.nat.no-session-left-behind")
	if m.PreCheck {
		zzverif.Assert(len(ownerGot) == 0, "C08.nat.precheck-notifies-nobody")
		zzverif.Assert(len(tr.sent) == 1, "C08.nat.precheck-one-response")
		if len(tr.sent) == 1 {
			r := tr.sent[0].(*msg.NatHoleResp)
			zzverif.Assert((r.Error == "") == (m.ProxyName == "x1" && allowed), "C08.nat.precheck-ok-iff-exists-and-user-allowed")
		}
		zzverif.Reach("C08.nat.precheck")
		return
	}
	if len(ownerGot) > 0 {
		zzverif.Assert(m.ProxyName == "x1", "C08.nat.owner-notified-only-for-own-proxy")
		zzverif.Assert(valid, "C08.nat.owner-notified-only-with-valid-signature")
		zzverif.Assert(allowed, "C08.nat.owner-notified-only-for-allowed-user")
		zzverif.Reach("C08.nat.owner-notified")
	} else {
		zzverif.Assert(len(tr.sent) == 1, "C08.nat.refusal-one-error-response")
		if len(tr.sent) == 1 {
			r := tr.sent[0].(*msg.NatHoleResp)
			zzverif.Assert(r.Error != "" && r.TransactionID == "t1", "C08.nat.refusal-error-response")
		}
		zzverif.Assert(!(m.ProxyName == "x1" && valid && allowed) || false, "C08.nat.valid-request-not-refused")
		zzverif.Reach("C08.nat.refused")
	}
}
