//go:build verif

package nathole

import (
	"errors"

	"github.com/fatedier/frp/pkg/msg"
	"github.com/fatedier/frp/zzverif"
)

var c17n struct {
	plain []byte
	fail  bool
}

// stub for golib crypto.Decode: the cipher yields an error or some plaintext - of any length,
// also empty (a 16-byte datagram is an IV followed by nothing)
func c17nStubDecode(data, key []byte) ([]byte, error) {
	if c17n.fail {
		return nil, errors.New("cipher: message authentication failed")
	}
	return c17n.plain, nil
}

// VerifC17NatDecode: every datagram a probing socket can receive decodes to a sid message or to an
// error; none crashes the process (the sockets are open to anybody).
func VerifC17NatDecode() {
	c17n.fail = zzverif.Bool("cipherFails")
	n := zzverif.Choice("plainLen", zzverif.Param("maxLen", 3)+1)
	c17n.plain = zzverif.Bytes("plain", n)
	var m msg.NatHoleSid
	err := DecodeMessageInto([]byte("datagram"), []byte("k"), &m)
	if c17n.fail || n == 0 {
		zzverif.Assert(err != nil, "C17.natdecode.nothing-decodes-to-an-error")
		zzverif.Reach("C17.natdecode.refused")
	}
	if err == nil {
		zzverif.Reach("C17.natdecode.decoded")
	}
}
