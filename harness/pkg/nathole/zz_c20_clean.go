//go:build verif

package nathole

import (
	"context"
	"time"

	"github.com/fatedier/frp/zzverif"
)

var c20c struct {
	now  int64
	tick chan time.Time
}

func c20cStubNow() time.Time { return time.Time{}.Add(time.Duration(c20c.now)) }
func c20cStubSince(t time.Time) time.Duration {
	return c20cStubNow().Sub(t)
}
func c20cStubNewTicker(d time.Duration) *time.Ticker {
	zzverif.Assert(d > 0, "C20.clean.positive-cleaning-interval")
	return &time.Ticker{C: c20c.tick}
}

// VerifC20Clean: the analysis records of finished attempts do not pile up: a cleaning round removes
// exactly the records that were not used for longer than the reserve time, a record in use (a
// recommendation taken or an outcome reported) counts as used at that moment, the worker cleans on
// every tick and ends when the service's context ends.
func VerifC20Clean() {
	reserve := zzverif.Int64("reserve")
	zzverif.Assume(reserve >= 0 && reserve < 1<<50)
	c, _ := NewController(time.Duration(reserve))
	a := c.analyzer
	zzverif.Guard(a.records, &a.mu, "nathole.Analyzer.records")
	c20c.tick = make(chan time.Time)
	feat := func(hard bool) *NatFeature {
		f := &NatFeature{NatType: EasyNAT, Behavior: BehaviorNoChange}
		if hard {
			f.NatType, f.Behavior = HardNAT, BehaviorPortChanged
			f.RegularPortsChange = zzverif.Bool("regular")
		}
		return f
	}
	keys := []string{"k0", "k1", "k2"}
	n := 1 + zzverif.Choice("records", zzverif.Param("records", 2))
	last := make([]int64, n)
	t := zzverif.Int64("t0")
	zzverif.Assume(t >= 0 && t < 1<<50)
	for i := 0; i < n; i++ {
		d := zzverif.Int64("dt")
		zzverif.Assume(d >= 0 && d < 1<<50)
		t += d
		c20c.now = t
		mode, index, _, _ := a.GetRecommandBehaviors(keys[i], feat(zzverif.Bool("chard")), feat(zzverif.Bool("vhard")))
		last[i] = t
		// a later use of an existing record refreshes it
		switch zzverif.Choice("reuse", 3) {
		case 1:
			d2 := zzverif.Int64("dt")
			zzverif.Assume(d2 >= 0 && d2 < 1<<50)
			t += d2
			c20c.now = t
			a.ReportSuccess(keys[i], mode, index)
			last[i] = t
			zzverif.Reach("C20.clean.refreshed-by-report")
		case 2:
			d2 := zzverif.Int64("dt")
			zzverif.Assume(d2 >= 0 && d2 < 1<<50)
			t += d2
			c20c.now = t
			a.GetRecommandBehaviors(keys[i], feat(false), feat(false))
			last[i] = t
			zzverif.Reach("C20.clean.refreshed-by-recommendation")
		}
	}
	d := zzverif.Int64("dt")
	zzverif.Assume(d >= 0 && d < 1<<50)
	t += d
	c20c.now = t

	ctx, cancel := context.WithCancel(context.Background())
	done := false
	go func() { c.CleanWorker(ctx); done = true }()
	zzverif.Quiesce()
	c20c.tick <- time.Time{}
	zzverif.Quiesce()

	a.mu.Lock()
	kept := 0
	for i := 0; i < n; i++ {
		_, still := a.records[keys[i]]
		stale := t-last[i] > reserve
		zzverif.Assert(still == !stale, "C20.clean.record-removed-iff-unused-for-longer-than-the-reserve-time")
		if still {
			kept++
			zzverif.Reach("C20.clean.kept")
		} else {
			zzverif.Reach("C20.clean.removed")
		}
	}
	zzverif.Assert(len(a.records) == kept, "C20.clean.no-foreign-records")
	a.mu.Unlock()
	zzverif.Assert(!done, "C20.clean.worker-survives-a-round")
	cancel()
	zzverif.Quiesce()
	zzverif.Assert(done, "C20.clean.worker-ends-with-the-service")
}
