//go:build verif

package ssh

import (
	"context"
	"errors"
	"net"
	"time"

	"golang.org/x/crypto/ssh"

	"github.com/fatedier/frp/client/proxy"
	v1 "github.com/fatedier/frp/pkg/config/v1"
	netpkg "github.com/fatedier/frp/pkg/util/net"
	"github.com/fatedier/frp/pkg/virtual"
	"github.com/fatedier/frp/zzverif"
)

type c10sAddr struct{}

func (c10sAddr) Network() string { return "tcp" }
func (c10sAddr) String() string  { return "192.0.2.1:5555" }

// the ssh transport connection of one tunnel
type c10sConn struct {
	closed int
	waited int
}

func (c *c10sConn) User() string          { return "u" }
func (c *c10sConn) SessionID() []byte     { return nil }
func (c *c10sConn) ClientVersion() []byte { return nil }
func (c *c10sConn) ServerVersion() []byte { return nil }
func (c *c10sConn) RemoteAddr() net.Addr  { return c10sAddr{} }
func (c *c10sConn) LocalAddr() net.Addr   { return c10sAddr{} }
func (c *c10sConn) SendRequest(name string, wantReply bool, payload []byte) (bool, []byte, error) {
	return false, nil, nil
}
func (c *c10sConn) OpenChannel(name string, data []byte) (ssh.Channel, <-chan *ssh.Request, error) {
	return nil, nil, errors.New("no channel")
}
func (c *c10sConn) Close() error { c.closed++; return nil }
func (c *c10sConn) Wait() error  { c.waited++; return nil } // the ssh peer disconnects

var c10s struct {
	conn      *c10sConn
	vcClosed  int
	vcUpdates int
	statusErr bool
}

func c10sStubNewServerConn(c net.Conn, config *ssh.ServerConfig) (*ssh.ServerConn, <-chan ssh.NewChannel, <-chan *ssh.Request, error) {
	c10s.conn = &c10sConn{}
	return &ssh.ServerConn{Conn: c10s.conn}, nil, nil, nil
}
func c10sStubNewClient(options virtual.ClientOptions) (*virtual.Client, error) {
	return &virtual.Client{}, nil
}
func c10sStubVCPeerListener(c *virtual.Client) net.Listener { return netpkg.NewInternalListener() }
func c10sStubVCUpdate(c *virtual.Client, cfgs []v1.ProxyConfigurer) {
	c10s.vcUpdates++
}
func c10sStubVCRun(c *virtual.Client, ctx context.Context) error { return nil }
func c10sStubVCClose(c *virtual.Client)                        { c10s.vcClosed++ }
func c10sStubWaitReady(s *TunnelServer, name string, timeout time.Duration) (*proxy.WorkingStatus, error) {
	if c10s.statusErr {
		return nil, errors.New("timeout waiting for the proxy to be ready")
	}
	return &proxy.WorkingStatus{Name: name, Phase: "running", RemoteAddr: ":6000"}, nil
}

// VerifC10SSHTunnelEnd: however an ssh tunnel ends - its registration failing or timing out, or the
// peer disconnecting after a successful start - the in-process client behind it is closed (its
// session, proxies and ports at frps go with it), the ssh connection is closed and the tunnel is
// reported done.
func VerifC10SSHTunnelEnd() {
	c10s.conn, c10s.vcClosed, c10s.vcUpdates = nil, 0, 0
	c10s.statusErr = zzverif.Bool("registrationFailsOrIsSlow")
	s, err := NewTunnelServer(nil, &ssh.ServerConfig{}, netpkg.NewInternalListener())
	zzverif.Assume(err == nil)
	_ = s.Run()
	zzverif.Assert(c10s.vcUpdates == 1, "C10.sshend.tunnel-proxy-handed-to-the-client")
	zzverif.Assert(c10s.vcClosed >= 1, "C10.sshend.in-process-client-closed-when-the-tunnel-ends")
	zzverif.Assert(c10s.conn != nil && c10s.conn.closed >= 1, "C10.sshend.ssh-connection-closed")
	select {
	case <-s.doneCh:
	default:
		zzverif.Fail("C10.sshend.tunnel-reported-done")
	}
	if c10s.statusErr {
		zzverif.Reach("C10.sshend.failed-start")
	} else {
		zzverif.Assert(c10s.conn != nil && c10s.conn.waited == 1, "C10.sshend.kept-until-the-peer-disconnects")
		zzverif.Reach("C10.sshend.normal-end")
	}
}
