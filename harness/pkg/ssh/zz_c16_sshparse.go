//go:build verif

package ssh

import (
	"strings"

	v1 "github.com/fatedier/frp/pkg/config/v1"
	netpkg "github.com/fatedier/frp/pkg/util/net"
	"github.com/fatedier/frp/zzverif"

	"github.com/spf13/cobra"
	"golang.org/x/crypto/ssh"
)

// stub for (*cobra.Command).UsageString (text/template, reflection-driven: not encoded)
func c16spStubUsageString(c *cobra.Command) string { return "usage" }

// VerifC16SSHCommandLine: the command line an ssh peer sends (exec payload) is turned into a client
// and proxy configuration without crashing for any of the listed texts; only the five supported
// proxy types are taken; the peer can name its user and token but cannot point the in-process
// client at another server or switch its transport (those flags do not exist in this mode); a
// proxy without a name gets a generated one that says what it is.
func VerifC16SSHCommandLine() {
	texts := []string{
		"tcp --remote_port 6000",
		"tcp --proxy_name web --remote_port 6000 -u bob --token tok",
		"http --custom_domain a.com --http_user u --http_pwd p",
		"stcp --sk s3 --allow_users alice,bob",
		"udp --remote_port 6000",
		"xtcp --sk s",
		"",
		" ",
		"tcp",
		"tcp --server_addr 6.6.6.6",
		"tcp --server_port 7000",
		"tcp --tls_enable=false",
		"tcp --protocol kcp",
		"tcp --remote_port notanumber",
		"tcp --no-such-flag",
		"tcp -h",
		"tcp  --remote_port  6000",
		"TCP --remote_port 6000",
	}
	text := texts[zzverif.Choice("commandLine", len(texts))]
	s, err := NewTunnelServer(nil, &ssh.ServerConfig{}, netpkg.NewInternalListener())
	zzverif.Assume(err == nil)
	common, pc, _, perr := s.parseClientAndProxyConfigurer(&tcpipForward{}, text)
	first := strings.TrimSpace(strings.Split(text, " ")[0])
	supported := first == "tcp" || first == "http" || first == "https" || first == "tcpmux" || first == "stcp"
	if !supported {
		zzverif.Assert(perr != nil && pc == nil && common == nil, "C16.sshparse.only-the-supported-proxy-types-are-taken")
		zzverif.Reach("C16.sshparse.unsupported-type")
		return
	}
	redirects := strings.Contains(text, "--server_addr") || strings.Contains(text, "--server_port") || strings.Contains(text, "--tls_enable") || strings.Contains(text, "--protocol")
	if redirects {
		zzverif.Assert(perr != nil && pc == nil, "C04.sshparse.peer-cannot-redirect-or-reconfigure-the-in-process-client")
		zzverif.Reach("C04.sshparse.redirect-refused")
		return
	}
	if perr != nil {
		zzverif.Assert(pc == nil && common == nil, "C16.sshparse.error-yields-no-configuration")
		// (doubled blanks yield empty arguments: the text is split at single blanks; refused, not mis-parsed)
		bad := strings.Contains(text, "notanumber") || strings.Contains(text, "--no-such-flag") || strings.Contains(text, "-h") || strings.Contains(text, "  ")
		zzverif.Assert(bad, "C16.sshparse.well-formed-command-line-accepted")
		zzverif.Reach("C16.sshparse.refused")
		return
	}
	zzverif.Assert(pc != nil && common != nil && string(pc.GetBaseConfig().Type) == first, "C16.sshparse.proxy-of-the-requested-type")
	name := pc.GetBaseConfig().Name
	if strings.Contains(text, "--proxy_name web") {
		zzverif.Assert(name == "web" && common.User == "bob" && common.Auth.Token == "tok", "C18.sshparse.name-user-and-token-as-given")
	} else {
		zzverif.Assert(strings.HasPrefix(name, "sshtunnel-"+first+"-") && len(name) > len("sshtunnel-"+first+"-"), "C12.sshparse.unnamed-proxy-gets-a-generated-name")
	}
	zzverif.Assert(common.ServerAddr == "" && common.ServerPort == 0, "C04.sshparse.server-address-not-settable-by-the-peer")
	switch c := pc.(type) {
	case *v1.TCPProxyConfig:
		if strings.Contains(text, "6000") {
			zzverif.Assert(c.RemotePort == 6000, "C18.sshparse.flags-mean-what-they-mean-on-the-frpc-command-line")
		}
	case *v1.HTTPProxyConfig:
		zzverif.Assert(len(c.CustomDomains) == 1 && c.CustomDomains[0] == "a.com" && c.HTTPUser == "u" && c.HTTPPassword == "p", "C18.sshparse.flags-mean-what-they-mean-on-the-frpc-command-line")
	case *v1.STCPProxyConfig:
		zzverif.Assert(c.Secretkey == "s3" && len(c.AllowUsers) == 2, "C18.sshparse.flags-mean-what-they-mean-on-the-frpc-command-line")
	}
	zzverif.Reach("C16.sshparse.accepted")
}
