//go:build verif

package ssh

import (
	"errors"
	"net"
	"time"

	"golang.org/x/crypto/ssh"

	v1 "github.com/fatedier/frp/pkg/config/v1"
	"github.com/fatedier/frp/pkg/msg"
	netpkg "github.com/fatedier/frp/pkg/util/net"
	"github.com/fatedier/frp/pkg/virtual"
	"github.com/fatedier/frp/zzverif"
)

var c04s struct {
	spec    *msg.ClientSpec
	clients int
}

func c04sStubNewServerConn(c net.Conn, config *ssh.ServerConfig) (*ssh.ServerConn, <-chan ssh.NewChannel, <-chan *ssh.Request, error) {
	return &ssh.ServerConn{}, nil, nil, nil
}
func c04sStubWaitForward(s *TunnelServer, channels <-chan ssh.NewChannel, requests <-chan *ssh.Request, timeout time.Duration) (*tcpipForward, string, error) {
	return &tcpipForward{Host: "0.0.0.0", Port: 80}, "tcp --remote_port 6000", nil
}
func c04sStubParse(s *TunnelServer, f *tcpipForward, extraPayload string) (*v1.ClientCommonConfig, v1.ProxyConfigurer, string, error) {
	pc := &v1.TCPProxyConfig{}
	pc.Name, pc.Type = "sshtunnel", "tcp"
	return &v1.ClientCommonConfig{}, pc, "", nil
}
func c04sStubNewClient(options virtual.ClientOptions) (*virtual.Client, error) {
	c04s.clients++
	c04s.spec = options.Spec
	return nil, errors.New("harness stops here")
}

// gateway construction: file and key handling are not the subject
func c04sStubReadFile(name string) ([]byte, error)         { return []byte("key"), nil }
func c04sStubParsePrivateKey(b []byte) (ssh.Signer, error) { return nil, nil }
func c04sStubAddHostKey(c *ssh.ServerConfig, k ssh.Signer) {}
func c04sStubListen(network, address string) (net.Listener, error) {
	return netpkg.NewInternalListener(), nil
}

// VerifC04SSHGateway: the virtual client created for an ssh tunnel is exempted from the token
// check exactly when the ssh layer authenticated the peer against the authorized keys, and never
// when the gateway accepts anybody (no authorized-keys file).
func VerifC04SSHGateway() {
	keysFile := []string{"", "/etc/frp/authorized_keys"}[zzverif.Choice("authorizedKeysFile", 2)]
	gw, err := NewGateway(v1.SSHTunnelGateway{BindPort: 2200, PrivateKeyFile: "/etc/frp/id", AuthorizedKeysFile: keysFile}, "0.0.0.0", netpkg.NewInternalListener())
	zzverif.Assume(err == nil)
	zzverif.Assert(gw.sshConfig.NoClientAuth == (keysFile == ""), "C04.ssh.peers-authenticated-by-ssh-iff-authorized-keys-configured")
	c04s.spec, c04s.clients = nil, 0
	s, err := NewTunnelServer(nil, gw.sshConfig, netpkg.NewInternalListener())
	zzverif.Assume(err == nil)
	_ = s.Run()
	zzverif.Assert(c04s.clients == 1 && c04s.spec != nil, "C04.ssh.virtual-client-created")
	if c04s.spec != nil {
		zzverif.Assert(c04s.spec.Type == "ssh-tunnel", "C04.ssh.client-kind")
		zzverif.Assert(c04s.spec.AlwaysAuthPass == (keysFile != ""), "C04.ssh.token-check-waived-only-for-ssh-authenticated-peers")
	}
	if keysFile == "" {
		zzverif.Reach("C04.ssh.open-gateway")
	} else {
		zzverif.Reach("C04.ssh.keyed-gateway")
	}
}
