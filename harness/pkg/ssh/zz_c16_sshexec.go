//go:build verif

package ssh

import (
	"io"

	"golang.org/x/crypto/ssh"

	"github.com/fatedier/frp/zzverif"
)

type c16Channel struct{}

func (c16Channel) Read(p []byte) (int, error)  { return 0, io.EOF }
func (c16Channel) Write(p []byte) (int, error) { return len(p), nil }
func (c16Channel) Close() error                { return nil }
func (c16Channel) CloseWrite() error           { return nil }
func (c16Channel) SendRequest(name string, wantReply bool, payload []byte) (bool, error) {
	return false, nil
}
func (c16Channel) Stderr() io.ReadWriter { return nil }

type c16NewChannel struct{ reqs chan *ssh.Request }

func (n *c16NewChannel) Accept() (ssh.Channel, <-chan *ssh.Request, error) {
	return c16Channel{}, n.reqs, nil
}
func (n *c16NewChannel) Reject(reason ssh.RejectionReason, message string) error { return nil }
func (n *c16NewChannel) ChannelType() string                                     { return "session" }
func (n *c16NewChannel) ExtraData() []byte                                       { return nil }

// VerifC16SSHExec: an ssh peer of the tunnel gateway can send an arbitrary channel request; the
// handler must survive every payload (the length prefix of an "exec" request is attacker
// controlled) and hand on exactly the bytes the prefix delimits.
func VerifC16SSHExec() {
	n := zzverif.Choice("payloadLen", zzverif.Param("maxPayload", 8)+1)
	payload := zzverif.Bytes("payload", n)
	typ := []string{"exec", "shell"}[zzverif.Choice("type", 2)]
	reqs := make(chan *ssh.Request, 1)
	reqs <- &ssh.Request{Type: typ, Payload: payload}
	close(reqs)
	extra := make(chan string, 1)
	s := &TunnelServer{doneCh: make(chan struct{})}
	s.handleNewChannel(&c16NewChannel{reqs: reqs}, extra)
	if len(extra) == 1 {
		got := <-extra
		zzverif.Assert(typ == "exec" && len(got) <= n-4, "C16.sshexec.extra-payload-lies-within-the-request")
		for i := 0; i < len(got); i++ {
			zzverif.Assert(got[i] == payload[4+i], "C16.sshexec.extra-payload-is-the-delimited-bytes")
		}
		zzverif.Reach("C16.sshexec.extracted")
	}
	zzverif.Reach("C16.sshexec.survived")
}
