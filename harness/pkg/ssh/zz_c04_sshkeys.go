//go:build verif

package ssh

import (
	"errors"
	"io/fs"
	"net"
	"os"
	"time"

	"golang.org/x/crypto/ssh"

	v1 "github.com/fatedier/frp/pkg/config/v1"
	netpkg "github.com/fatedier/frp/pkg/util/net"
	"github.com/fatedier/frp/zzverif"
)

// the authorized-keys file of the scenario: one line per byte, each byte names a key
var c04k struct {
	content    []byte
	unreadable bool
}

type c04kKey struct{ id byte }

func (k c04kKey) Type() string                                 { return "fake" }
func (k c04kKey) Marshal() []byte                              { return []byte{k.id} }
func (k c04kKey) Verify(data []byte, sig *ssh.Signature) error { return nil }

type c04kMeta struct{}

func (c04kMeta) User() string          { return "v0" }
func (c04kMeta) SessionID() []byte     { return nil }
func (c04kMeta) ClientVersion() []byte { return nil }
func (c04kMeta) ServerVersion() []byte { return nil }
func (c04kMeta) RemoteAddr() net.Addr  { return &net.TCPAddr{Port: 1} }
func (c04kMeta) LocalAddr() net.Addr   { return &net.TCPAddr{Port: 2} }

type c04kInfo struct{}

func (c04kInfo) Name() string       { return "authorized_keys" }
func (c04kInfo) Size() int64        { return 1 }
func (c04kInfo) Mode() fs.FileMode  { return 0o600 }
func (c04kInfo) ModTime() time.Time { return time.Time{}.Add(time.Hour) }
func (c04kInfo) IsDir() bool        { return false }
func (c04kInfo) Sys() any           { return nil }

func c04kStubReadFile(name string) ([]byte, error) {
	if name != "/etc/frp/authorized_keys" {
		return []byte("key"), nil
	}
	if c04k.unreadable {
		return nil, errors.New("permission denied")
	}
	return c04k.content, nil
}

// the file's size and modification time do not change when a key is swapped for another of the
// same type within the clock's granularity
func c04kStubStat(name string) (os.FileInfo, error) { return c04kInfo{}, nil }

func c04kStubParseAuthorizedKey(in []byte) (ssh.PublicKey, string, []string, []byte, error) {
	if len(in) == 0 {
		return nil, "", nil, nil, errors.New("no key found")
	}
	return c04kKey{id: in[0]}, " user-" + string(in[:1]) + " ", nil, in[1:], nil
}

// VerifC04SSHKeys: the ssh gateway admits a key - and thereby waives the token check for that peer -
// exactly when the key is in the authorized-keys file AS IT IS AT THAT MOMENT: a key removed from
// the file stops working with the next handshake, a key added starts working, and an unreadable
// file admits nobody.
func VerifC04SSHKeys() {
	gw, err := NewGateway(v1.SSHTunnelGateway{BindPort: 2200, PrivateKeyFile: "/etc/frp/id", AuthorizedKeysFile: "/etc/frp/authorized_keys"}, "0.0.0.0", netpkg.NewInternalListener())
	zzverif.Assume(err == nil)
	cb := gw.sshConfig.PublicKeyCallback
	zzverif.Assert(cb != nil && !gw.sshConfig.NoClientAuth, "C04.sshkeys.keys-are-checked")
	if cb == nil {
		return
	}
	files := [][]byte{[]byte("A"), []byte("B"), []byte("AB"), {}}
	offer := func(id byte, file []byte) {
		in := false
		for _, b := range file {
			if b == id {
				in = true
			}
		}
		perm, err := cb(c04kMeta{}, c04kKey{id: id})
		zzverif.Assert((err == nil) == (in && !c04k.unreadable), "C04.sshkeys.key-admitted-iff-in-the-file-as-it-is-now")
		if err == nil {
			zzverif.Assert(perm != nil && perm.Extensions["user"] == "user-"+string([]byte{id}), "C04.sshkeys.admitted-peer-named-by-its-own-line")
		}
	}
	c04k.unreadable = false
	first := files[zzverif.Choice("fileAtFirst", len(files))]
	c04k.content = first
	offer([]byte("AB")[zzverif.Choice("firstOffer", 2)], first)
	// the operator edits the file (same size, same timestamp granularity) or makes it unreadable
	second := files[zzverif.Choice("fileLater", len(files))]
	c04k.content = second
	c04k.unreadable = zzverif.Bool("laterUnreadable")
	offer([]byte("AB")[zzverif.Choice("secondOffer", 2)], second)
	zzverif.Reach("C04.sshkeys.done")
}
