//go:build verif

package validation

import (
	"strings"

	v1 "github.com/fatedier/frp/pkg/config/v1"
	"github.com/fatedier/frp/zzverif"
)

// VerifC18Domain: a custom domain accepted by the server never belongs to the
// server's subdomain host, whatever the letter case; subdomain syntax rules.
func VerifC18Domain() {
	alpha := "abAB"
	w := zzverif.Param("labelBytes", 1)
	hl := 2 + zzverif.Choice("hostLabels", 2)
	var hs []string
	for i := 0; i < hl; i++ {
		hs = append(hs, zzverif.StringOf("h", w, alpha))
	}
	host := strings.Join(hs, ".")
	hostEnabled := zzverif.Bool("hostEnabled")
	if !hostEnabled {
		host = ""
	}
	// one or two custom domains, each 1..4 labels
	nd := 1 + zzverif.Choice("domains", 2)
	var domains []string
	var dls []int
	for j := 0; j < nd; j++ {
		dl := 1 + zzverif.Choice("domLabels", 4)
		var ds []string
		for i := 0; i < dl; i++ {
			ds = append(ds, zzverif.StringOf("d", w, alpha))
		}
		domains = append(domains, strings.Join(ds, "."))
		dls = append(dls, dl)
	}
	sub := zzverif.StringUpTo("sub", 2, "a.*")
	c := &v1.DomainConfig{CustomDomains: domains, SubDomain: sub}
	s := &v1.ServerConfig{SubDomainHost: host}

	err := validateDomainConfigForServer(c, s)

	if err == nil {
		zzverif.Reach("C18.domain.accepted")
		if hostEnabled {
			for j, domain := range domains {
				belongs := strings.HasSuffix(strings.ToLower(domain), "."+strings.ToLower(host))
				zzverif.Assert(!belongs, "C18.domain.custom-domain-outside-subdomain-host-any-case")
				if dls[j] > hl {
					zzverif.Reach("C18.domain.longer-accepted")
				}
			}
		}
		if sub != "" {
			zzverif.Assert(hostEnabled, "C18.domain.subdomain-needs-host")
			zzverif.Assert(!strings.Contains(sub, ".") && !strings.Contains(sub, "*"), "C18.domain.subdomain-syntax")
		}
	} else {
		zzverif.Reach("C18.domain.refused")
	}
}

// VerifC18Port: ports accepted exactly in 0..65535; enumerations exactly as documented.
func VerifC18Port() {
	p := zzverif.Int("port")
	err := ValidatePort(p, "f")
	zzverif.Assert((err == nil) == zzverif.And(p >= 0, p <= 65535), "C18.port.accepted-iff-0-65535")
	if err == nil {
		zzverif.Reach("C18.port.ok")
	} else {
		zzverif.Reach("C18.port.refused")
	}

	base := &v1.ProxyBaseConfig{Name: "n"}
	base.Transport.ProxyProtocolVersion = zzverif.StringUpTo("ppv", 2, "v12")
	base.Transport.BandwidthLimitMode = []string{"client", "server", "", "both", "Client"}[zzverif.Choice("mode", 5)]
	base.HealthCheck.Type = []string{"", "tcp", "http", "udp"}[zzverif.Choice("hc", 4)]
	base.HealthCheck.Path = zzverif.StringUpTo("hcpath", 1, "/")
	base.LocalPort = zzverif.Int("localPort")
	err = validateProxyBaseConfigForClient(base)
	ppv := base.Transport.ProxyProtocolVersion
	okPPV := ppv == "" || ppv == "v1" || ppv == "v2"
	okMode := base.Transport.BandwidthLimitMode == "client" || base.Transport.BandwidthLimitMode == "server"
	okHC := base.HealthCheck.Type == "" || base.HealthCheck.Type == "tcp" || (base.HealthCheck.Type == "http" && base.HealthCheck.Path != "")
	okPort := zzverif.And(base.LocalPort >= 0, base.LocalPort <= 65535)
	zzverif.Assert((err == nil) == zzverif.And(okPPV && okMode && okHC, okPort), "C18.base.enums-and-port")
	if err == nil {
		zzverif.Reach("C18.base.ok")
	}
}
