//go:build verif

package validation

import (
	v1 "github.com/fatedier/frp/pkg/config/v1"
	"github.com/fatedier/frp/zzverif"
)

func c18Pick(name string, opts []string) string { return opts[zzverif.Choice(name, len(opts))] }

// c18Dev: the setting `k` takes any of its listed values when it is the one under test (dev == k),
// otherwise its first (valid) value: one setting deviates at a time, every other one is valid, so
// that a refusal lost or invented by the checks that follow or precede it shows.
var c18DevSel int

func c18DevPick(k int, name string, opts []string) string {
	if c18DevSel == k {
		return c18Pick(name, opts)
	}
	return opts[0]
}
func c18DevChoice(k int, name string, n int) int {
	if c18DevSel == k {
		return zzverif.Choice(name, n)
	}
	return 0
}

func c18PortOK(p int) bool { return 0 <= p && p <= 65535 }

// VerifC18ServerClientValidation: a server or client configuration passes validation only if it
// respects the documented constraints - every port of the server (bind, kcp, quic, vhost http/https,
// tcpmux, web server) within 0..65535, authentication method, additional scopes, log level, transport
// protocol and plugin operations from the documented sets, a TLS-enabled web server with both files,
// a heartbeat timeout not below the interval - and a configuration that respects them all passes.
func VerifC18ServerClientValidation() {
	methods := []string{"token", "oidc", "", "Token", "none"}
	scopes := [][]v1.AuthScope{nil, {"HeartBeats"}, {"NewWorkConns", "HeartBeats"}, {"heartbeats"}, {"HeartBeats", "Login"}}
	scopeOK := []bool{true, true, true, false, false}
	levels := []string{"trace", "debug", "info", "warn", "error", "", "INFO", "fatal"}
	methodOK := func(m string) bool { return m == "token" || m == "oidc" }
	levelOK := func(l string) bool {
		return l == "trace" || l == "debug" || l == "info" || l == "warn" || l == "error"
	}
	c18DevSel = zzverif.Choice("settingUnderTest", 7)
	if zzverif.Bool("server") {
		c := &v1.ServerConfig{}
		m := c18DevPick(0, "authMethod", methods)
		c.Auth.Method = v1.AuthMethod(m)
		si := c18DevChoice(1, "scopes", len(scopes))
		c.Auth.AdditionalScopes = scopes[si]
		c.Log.Level = c18DevPick(2, "logLevel", levels)
		ports := make([]int, 7)
		// one port is arbitrary, the others are in range (each position in turn)
		which := zzverif.Choice("whichPort", 7)
		for i := range ports {
			ports[i] = 7000 + i
		}
		if c18DevSel == 3 {
			ports[which] = zzverif.Int("port")
		}
		c.BindPort, c.KCPBindPort, c.QUICBindPort, c.VhostHTTPPort, c.VhostHTTPSPort, c.TCPMuxHTTPConnectPort, c.WebServer.Port =
			ports[0], ports[1], ports[2], ports[3], ports[4], ports[5], ports[6]
		tlsKind := c18DevChoice(4, "webServerTLS", 4) // none, both files, cert only, key only
		switch tlsKind {
		case 1:
			c.WebServer.TLS = &v1.TLSConfig{CertFile: "c", KeyFile: "k"}
		case 2:
			c.WebServer.TLS = &v1.TLSConfig{CertFile: "c"}
		case 3:
			c.WebServer.TLS = &v1.TLSConfig{KeyFile: "k"}
		}
		op := c18DevPick(5, "pluginOp", []string{"", "Login", "NewProxy", "CloseProxy", "Ping", "NewWorkConn", "NewUserConn", "login", "Close"})
		opOK := op != "login" && op != "Close"
		if op != "" {
			c.HTTPPlugins = []v1.HTTPPluginOptions{{Name: "p", Ops: []string{"Login", op}}}
		}
		_, err := ValidateServerConfig(c)
		want := methodOK(m) && scopeOK[si] && levelOK(c.Log.Level) && c18PortOK(ports[which]) && tlsKind <= 1 && opOK
		zzverif.Assert(zzverif.Iff(err == nil, want), "C18.common.server-accepted-iff-documented-constraints-hold")
		if err == nil {
			zzverif.Reach("C18.common.server-accepted")
		} else {
			zzverif.Reach("C18.common.server-refused")
		}
		return
	}
	c := &v1.ClientCommonConfig{}
	m := c18DevPick(0, "authMethod", methods)
	c.Auth.Method = v1.AuthMethod(m)
	si := c18DevChoice(1, "scopes", len(scopes))
	c.Auth.AdditionalScopes = scopes[si]
	c.Log.Level = c18DevPick(2, "logLevel", levels)
	c.WebServer.Port = 7400
	if c18DevSel == 3 {
		c.WebServer.Port = zzverif.Int("adminPort")
	}
	proto := c18DevPick(5, "protocol", []string{"tcp", "kcp", "quic", "websocket", "wss", "", "udp", "TCP"})
	protoOK := proto == "tcp" || proto == "kcp" || proto == "quic" || proto == "websocket" || proto == "wss"
	c.Transport.Protocol = proto
	hbI, hbT := 30, 90
	if c18DevSel == 6 {
		hbI = zzverif.IntRange("heartbeatInterval", -1, 3)
		hbT = zzverif.IntRange("heartbeatTimeout", -1, 3)
	}
	c.Transport.HeartbeatInterval, c.Transport.HeartbeatTimeout = int64(hbI), int64(hbT)
	on := true
	c.Transport.TLS.Enable = &on
	switch zzverif.Choice("tcpMux", 3) { // unset, on, off: the heartbeat rule does not depend on it
	case 1:
		c.Transport.TCPMux = &on
	case 2:
		off := false
		c.Transport.TCPMux = &off
	}
	_, err := ValidateClientCommonConfig(c)
	hbOK := zzverif.Or(zzverif.Or(hbI <= 0, hbT <= 0), hbT >= hbI)
	want := zzverif.And(hbOK, methodOK(m) && scopeOK[si] && levelOK(c.Log.Level) && protoOK)
	want = zzverif.And(want, zzverif.And(c.WebServer.Port >= 0, c.WebServer.Port <= 65535))
	zzverif.Assert(zzverif.Iff(err == nil, want), "C18.common.client-accepted-iff-documented-constraints-hold")
	if err == nil {
		zzverif.Reach("C18.common.client-accepted")
	} else {
		zzverif.Reach("C18.common.client-refused")
	}
}

// VerifC18VisitorValidation: visitors need a name, the name of the proxy they visit and a bind port;
// an xtcp visitor's protocol is kcp or quic.
func VerifC18VisitorValidation() {
	name := c18Pick("name", []string{"", "v"})
	server := c18Pick("serverName", []string{"", "p"})
	port := []int{0, -1, 9000}[zzverif.Choice("bindPort", 3)]
	base := v1.VisitorBaseConfig{Name: name, ServerName: server, BindPort: port}
	var c v1.VisitorConfigurer
	proto := ""
	switch zzverif.Choice("type", 3) {
	case 0:
		c = &v1.STCPVisitorConfig{VisitorBaseConfig: base}
	case 1:
		c = &v1.SUDPVisitorConfig{VisitorBaseConfig: base}
	default:
		proto = c18Pick("protocol", []string{"kcp", "quic", "", "tcp", "QUIC", "Kcp"})
		c = &v1.XTCPVisitorConfig{VisitorBaseConfig: base, Protocol: proto}
	}
	err := ValidateVisitorConfigurer(c)
	want := name != "" && server != "" && port != 0
	if xc, isX := c.(*v1.XTCPVisitorConfig); isX {
		want = want && (proto == "kcp" || proto == "quic")
		if err == nil {
			// the client compares the exact lower-case words: whatever is accepted must be one of them
			zzverif.Assert(xc.Protocol == "kcp" || xc.Protocol == "quic", "C18.common.accepted-xtcp-protocol-is-a-word-the-client-understands")
		}
		if proto == "QUIC" || proto == "Kcp" {
			// another letter case: refused, or accepted in the normalised form (asserted above)
			zzverif.Reach("C18.common.visitor-protocol-other-case")
			zzverif.Reach("C18.common.visitor")
			return
		}
	}
	zzverif.Assert((err == nil) == want, "C18.common.visitor-accepted-iff-documented-constraints-hold")
	zzverif.Reach("C18.common.visitor")
}
