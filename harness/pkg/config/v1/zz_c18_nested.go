//go:build verif

package v1

import (
	"encoding/json"

	"github.com/fatedier/frp/zzverif"
)

var c18n struct {
	wantType   string
	strict     map[*json.Decoder]bool
	decodes    []bool // per full decode: was the decoder strict
	looseFull  int    // full decodes done with the lenient json.Unmarshal
	typeProbes int
}

// stub for encoding/json.Unmarshal: the type probe gets the type; anything else is a (lenient) full decode
func c18nStubUnmarshal(data []byte, v any) error {
	if ts, ok := v.(*struct {
		Type string `json:"type"`
	}); ok {
		ts.Type = c18n.wantType
		c18n.typeProbes++
		return nil
	}
	c18n.looseFull++
	return nil
}

// stub for (*json.Decoder).DisallowUnknownFields
func c18nStubDisallow(d *json.Decoder) { c18n.strict[d] = true }

// stub for (*json.Decoder).Decode
func c18nStubDecode(d *json.Decoder, v any) error {
	c18n.decodes = append(c18n.decodes, c18n.strict[d])
	return nil
}

// VerifC18NestedStrict: each of frp's own nested decoders (proxy, visitor, client plugin options,
// visitor plugin options) decodes its block exactly once, with unknown fields refused exactly when
// the loader runs in strict mode - strict mode reaches every nesting level.
func VerifC18NestedStrict() {
	c18n.strict, c18n.decodes, c18n.looseFull, c18n.typeProbes = map[*json.Decoder]bool{}, nil, 0, 0
	strict := zzverif.Bool("strict")
	DisallowUnknownFields = strict
	defer func() { DisallowUnknownFields = false }()
	var err error
	var decoded bool
	switch zzverif.Choice("block", 4) {
	case 0:
		c18n.wantType = "tcp"
		c := &TypedProxyConfig{}
		err = c.UnmarshalJSON([]byte(`{"type":"tcp","nope":1}`))
		decoded = c.ProxyConfigurer != nil
	case 1:
		c18n.wantType = "stcp"
		c := &TypedVisitorConfig{}
		err = c.UnmarshalJSON([]byte(`{"type":"stcp","nope":1}`))
		decoded = c.VisitorConfigurer != nil
	case 2:
		c18n.wantType = PluginHTTPProxy
		c := &TypedClientPluginOptions{}
		err = c.UnmarshalJSON([]byte(`{"type":"http_proxy","nope":1}`))
		decoded = c.ClientPluginOptions != nil
	default:
		c18n.wantType = VisitorPluginVirtualNet
		c := &TypedVisitorPluginOptions{}
		err = c.UnmarshalJSON([]byte(`{"type":"virtual_net","nope":1}`))
		decoded = c.VisitorPluginOptions != nil
		zzverif.Reach("C18.nested.visitor-plugin")
	}
	zzverif.Assert(err == nil && decoded, "C18.nested.block-decoded")
	zzverif.Assert(c18n.typeProbes == 1, "C18.nested.type-looked-up-once")
	zzverif.Assert(c18n.looseFull == 0 && len(c18n.decodes) == 1, "C18.nested.block-decoded-once-by-the-decoder-that-knows-the-mode")
	if len(c18n.decodes) == 1 {
		zzverif.Assert(c18n.decodes[0] == strict, "C18.nested.unknown-fields-refused-iff-strict-mode")
	}
	if strict {
		zzverif.Reach("C18.nested.strict")
	}
}
