//go:build verif

package v1

import (
	"github.com/fatedier/frp/zzverif"
)

// VerifC05Complete: completing a proxy definition (defaults, plugin defaults) never changes what the
// user asked for about the wire: encryption and compression stay as configured for every kind of
// backend (plain address or any client plugin) - both ends read these flags afterwards, so a flag
// silently cleared here removes the layer on both sides without any failure.
func VerifC05Complete() {
	plugins := []ClientPluginOptions{nil, &HTTP2HTTPSPluginOptions{}, &HTTPProxyPluginOptions{}, &HTTPS2HTTPPluginOptions{}, &HTTPS2HTTPSPluginOptions{},
		&HTTP2HTTPPluginOptions{}, &Socks5PluginOptions{}, &StaticFilePluginOptions{}, &UnixDomainSocketPluginOptions{}, &TLS2RawPluginOptions{}, &VirtualNetPluginOptions{}}
	types := []string{"", PluginHTTP2HTTPS, PluginHTTPProxy, PluginHTTPS2HTTP, PluginHTTPS2HTTPS, PluginHTTP2HTTP, PluginSocks5, PluginStaticFile, PluginUnixDomainSocket, PluginTLS2Raw, PluginVirtualNet}
	k := zzverif.Choice("plugin", len(plugins))
	enc, comp := zzverif.Bool("useEncryption"), zzverif.Bool("useCompression")
	var cfgs = []ProxyConfigurer{&TCPProxyConfig{}, &STCPProxyConfig{}, &XTCPProxyConfig{}, &HTTPSProxyConfig{}, &TCPMuxProxyConfig{}}
	c := cfgs[zzverif.Choice("proxyType", len(cfgs))]
	b := c.GetBaseConfig()
	b.Name = "p"
	b.Transport.UseEncryption, b.Transport.UseCompression = enc, comp
	b.Plugin.Type, b.Plugin.ClientPluginOptions = types[k], plugins[k]
	c.Complete("")
	zzverif.Assert(b.Transport.UseEncryption == enc, "C05.complete.encryption-flag-as-configured")
	zzverif.Assert(b.Transport.UseCompression == comp, "C05.complete.compression-flag-as-configured")
	zzverif.Assert(b.Plugin.Type == types[k], "C05.complete.backend-kind-as-configured")
	if k > 0 {
		zzverif.Reach("C05.complete.plugin")
	}
	zzverif.Reach("C05.complete.done")
}
