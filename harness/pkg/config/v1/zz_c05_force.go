//go:build verif

package v1

import "github.com/fatedier/frp/zzverif"

// VerifC05Force: a trusted CA on the server implies TLS is forced; heartbeat defaults.
func VerifC05Force() {
	c := &ServerTransportConfig{}
	c.TLS.Force = zzverif.Bool("force")
	if zzverif.Bool("hasCA") {
		c.TLS.TrustedCaFile = "/ca.pem"
	}
	forceIn := c.TLS.Force
	if zzverif.Bool("tcpMuxSet") {
		v := zzverif.Bool("tcpMux")
		c.TCPMux = &v
	}
	c.HeartbeatTimeout = int64(zzverif.IntRange("hbTimeout", -1, 2))
	hbIn := c.HeartbeatTimeout
	c.Complete()
	if c.TLS.TrustedCaFile != "" {
		zzverif.Assert(c.TLS.Force, "C05.force.trusted-ca-forces-tls")
		zzverif.Reach("C05.force.ca")
	} else {
		zzverif.Assert(c.TLS.Force == forceIn, "C05.force.unchanged-without-ca")
	}
	// C14: application heartbeats default on exactly when multiplexing is off
	if hbIn == 0 {
		if *c.TCPMux {
			zzverif.Assert(c.HeartbeatTimeout == -1, "C14.cfg.heartbeat-default-off-with-mux")
		} else {
			zzverif.Assert(c.HeartbeatTimeout == 90, "C14.cfg.heartbeat-default-90-without-mux")
			zzverif.Reach("C14.cfg.default-90")
		}
	} else {
		zzverif.Assert(c.HeartbeatTimeout == hbIn, "C14.cfg.configured-heartbeat-kept")
	}
}
