//go:build verif

package config

import (
	v1 "github.com/fatedier/frp/pkg/config/v1"
	"github.com/fatedier/frp/zzverif"
)

var c19st struct {
	user  string
	start []string
}

// stub for DetectLegacyINIFormatFromFile: a v1 (toml/yaml/json) file
func c19stStubDetectLegacy(path string) bool { return false }

// stub for LoadConfigureFromFile: the decoded content of the file - two proxies "a" and "b", one
// visitor "v", the user prefix and the start list of the scenario
func c19stStubLoadFromFile(path string, c any, strict bool) error {
	all, ok := c.(*v1.ClientConfig)
	if !ok {
		return nil
	}
	all.User = c19st.user
	all.Start = c19st.start
	for _, n := range []string{"a", "b"} {
		p := &v1.TCPProxyConfig{}
		p.Name, p.Type, p.LocalPort, p.RemotePort = n, "tcp", 22, 6000
		all.Proxies = append(all.Proxies, v1.TypedProxyConfig{Type: "tcp", ProxyConfigurer: p})
	}
	v := &v1.STCPVisitorConfig{}
	v.Name, v.Type, v.ServerName, v.BindPort = "v", "stcp", "a", 9000
	all.Visitors = append(all.Visitors, v1.TypedVisitorConfig{Type: "stcp", VisitorConfigurer: v})
	return nil
}

// VerifC19StartSelection: `start = [...]` selects proxies and visitors by the names written in the
// file, whether or not a user prefix is configured; what is selected comes back completed
// (prefixed), what is not selected is not started.
func VerifC19StartSelection() {
	c19st.user = []string{"", "u"}[zzverif.Choice("user", 2)]
	sel := zzverif.Choice("start", 4)
	c19st.start = [][]string{nil, {"a"}, {"b", "v"}, {"nosuch"}}[sel]
	cli, pxs, vis, legacy, err := LoadClientConfig("frpc.toml", zzverif.Bool("strict"))
	zzverif.Assert(err == nil && cli != nil && !legacy, "C19.start.loaded")
	if err != nil {
		return
	}
	prefix := ""
	if c19st.user != "" {
		prefix = c19st.user + "."
	}
	var gotP, gotV []string
	for _, p := range pxs {
		gotP = append(gotP, p.GetBaseConfig().Name)
	}
	for _, v := range vis {
		gotV = append(gotV, v.GetBaseConfig().Name)
	}
	wantP := [][]string{{"a", "b"}, {"a"}, {"b"}, {}}[sel]
	wantV := [][]string{{"v"}, {}, {"v"}, {}}[sel]
	zzverif.Assert(len(gotP) == len(wantP) && len(gotV) == len(wantV), "C19.start.exactly-the-selected-entries-are-started")
	if len(gotP) == len(wantP) {
		for i := range wantP {
			zzverif.Assert(gotP[i] == prefix+wantP[i], "C19.start.selected-by-the-name-in-the-file-and-completed-with-the-user-prefix")
		}
	}
	if len(gotV) == len(wantV) {
		for i := range wantV {
			zzverif.Assert(gotV[i] == prefix+wantV[i], "C19.start.selected-by-the-name-in-the-file-and-completed-with-the-user-prefix")
		}
	}
	if c19st.user != "" && sel == 2 {
		zzverif.Reach("C19.start.prefixed-selection")
	}
	zzverif.Reach("C19.start.done")
}
