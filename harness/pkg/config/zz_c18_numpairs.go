//go:build verif

package config

import (
	"strconv"

	"github.com/fatedier/frp/zzverif"
)

// one item of a number-range literal: "a" or "a-b", optionally blank-padded
func c18Item(tag string, ref *[]int64) string {
	a := []int{1, 5, 10}[zzverif.Choice(tag+".a", 3)]
	pad := []string{"", " "}[zzverif.Choice(tag+".pad", 2)]
	if zzverif.Bool(tag + ".isRange") {
		w := []int{0, 2}[zzverif.Choice(tag+".width", 2)]
		for i := 0; i <= w; i++ {
			*ref = append(*ref, int64(a+i))
		}
		return pad + strconv.Itoa(a) + "-" + strconv.Itoa(a+w) + pad
	}
	*ref = append(*ref, int64(a))
	return pad + strconv.Itoa(a)
}

func c18Literal(tag string) (string, []int64) {
	var ref []int64
	n := 1 + zzverif.Choice(tag+".items", 2)
	s := ""
	for i := 0; i < n; i++ {
		if i > 0 {
			s += ","
		}
		s += c18Item(tag+"."+strconv.Itoa(i), &ref)
	}
	return s, ref
}

// VerifC18NumberPairs: the template function that enumerates port pairs writes the numbers of both
// literals out in the order they are written (ranges ascending), repeated and non-ascending items
// included, and pairs them position by position.
func VerifC18NumberPairs() {
	first, ref1 := c18Literal("first")
	// the second literal: one range with as many numbers as the first literal has, or one more
	extra := zzverif.Choice("secondLonger", 2)
	var ref2 []int64
	for i := 0; i < len(ref1)+extra; i++ {
		ref2 = append(ref2, int64(7000+i))
	}
	second := "7000-" + strconv.Itoa(7000+len(ref2)-1)
	pairs, err := parseNumberRangePair(first, second)
	if len(ref1) != len(ref2) {
		zzverif.Assert(err != nil, "C18.pairs.unequal-counts-are-an-error")
		zzverif.Reach("C18.pairs.unequal")
		return
	}
	zzverif.Assert(err == nil && len(pairs) == len(ref1), "C18.pairs.one-pair-per-position")
	if err != nil || len(pairs) != len(ref1) {
		return
	}
	for i := range pairs {
		zzverif.Assert(pairs[i].First == ref1[i] && pairs[i].Second == ref2[i], "C18.pairs.enumerated-in-written-order-and-paired-by-position")
	}
	zzverif.Reach("C18.pairs.paired")
	if len(ref1) >= 2 && ref1[0] > ref1[len(ref1)-1] {
		zzverif.Reach("C18.pairs.non-ascending")
	}
	nums, e2 := parseNumberRange(first)
	zzverif.Assert(e2 == nil && len(nums) == len(ref1), "C18.pairs.single-literal-enumerated")
}
