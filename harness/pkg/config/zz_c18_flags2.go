//go:build verif

package config

import (
	"github.com/spf13/cobra"

	"github.com/fatedier/frp/pkg/config/types"
	v1 "github.com/fatedier/frp/pkg/config/v1"
	"github.com/fatedier/frp/zzverif"
)

// VerifC18CommonFlags: every documented command-line flag of frps, of frpc's common part and of
// visitors sets the field the configuration file sets for the same setting (each flag given a value
// of its own, through the real pflag parser).
func VerifC18CommonFlags() {
	switch zzverif.Choice("what", 4) {
	case 0:
		c := &v1.ServerConfig{}
		cmd := &cobra.Command{Use: "frps"}
		RegisterServerConfigFlags(cmd, c)
		tlsMode := []string{"", "--dashboard_tls_mode=true", "--dashboard_tls_mode=false"}[zzverif.Choice("dashboardTLSMode", 3)]
		args := []string{"--bind_addr=10.0.0.1", "--bind_port=7001", "--kcp_bind_port=7002", "--quic_bind_port=7003", "--proxy_bind_addr=10.0.0.2",
			"--vhost_http_port=8080", "--vhost_https_port=8443", "--vhost_http_timeout=61", "--dashboard_addr=10.0.0.3", "--dashboard_port=7500",
			"--dashboard_user=du", "--dashboard_pwd=dp", "--enable_prometheus", "--log_file=/var/log/frps.log", "--log_level=debug", "--log_max_days=5",
			"--disable_log_color", "--token=tok", "--subdomain_host=x.com", "--allow_ports=1000-1002,2000", "--max_ports_per_client=4", "--tls_only",
			"--dashboard_tls_cert_file=c.pem", "--dashboard_tls_key_file=k.pem"}
		if tlsMode != "" {
			// flags may come in any order: the mode before or after the files it refers to
			if zzverif.Bool("tlsModeBeforeTheFiles") {
				args = append([]string{tlsMode}, args...)
			} else {
				args = append(args, tlsMode)
			}
		}
		err := cmd.PersistentFlags().Parse(args)
		zzverif.Assert(err == nil, "C18.cflags.documented-flags-parse")
		zzverif.Assert(c.BindAddr == "10.0.0.1" && c.BindPort == 7001 && c.KCPBindPort == 7002 && c.QUICBindPort == 7003 && c.ProxyBindAddr == "10.0.0.2", "C18.cflags.server-listen-settings")
		zzverif.Assert(c.VhostHTTPPort == 8080 && c.VhostHTTPSPort == 8443 && c.VhostHTTPTimeout == 61, "C18.cflags.server-vhost-settings")
		zzverif.Assert(c.WebServer.Addr == "10.0.0.3" && c.WebServer.Port == 7500 && c.WebServer.User == "du" && c.WebServer.Password == "dp" && c.EnablePrometheus, "C18.cflags.server-dashboard-settings")
		zzverif.Assert(c.Log.To == "/var/log/frps.log" && c.Log.Level == "debug" && c.Log.MaxDays == 5 && c.Log.DisablePrintColor, "C18.cflags.server-log-settings")
		zzverif.Assert(c.Auth.Token == "tok" && c.SubDomainHost == "x.com" && c.MaxPortsPerClient == 4 && c.Transport.TLS.Force, "C18.cflags.server-auth-and-limits")
		zzverif.Assert(len(c.AllowPorts) == 2 && c.AllowPorts[0] == (types.PortsRange{Start: 1000, End: 1002}) && c.AllowPorts[1] == (types.PortsRange{Single: 2000}), "C18.cflags.server-allow-ports")
		if tlsMode == "--dashboard_tls_mode=true" {
			zzverif.Assert(c.WebServer.TLS != nil && c.WebServer.TLS.CertFile == "c.pem" && c.WebServer.TLS.KeyFile == "k.pem", "C18.cflags.dashboard-tls-mode-enables-tls-with-the-given-files")
			zzverif.Reach("C18.cflags.dashboard-tls")
		} else {
			zzverif.Assert(c.WebServer.TLS == nil, "C18.cflags.no-dashboard-tls-unless-asked")
		}
		zzverif.Reach("C18.cflags.server")
	case 1:
		c := &v1.ClientCommonConfig{}
		cmd := &cobra.Command{Use: "frpc"}
		RegisterClientCommonConfigFlags(cmd, c)
		tls := zzverif.Bool("tlsEnableFalse")
		args := []string{"--server_addr=frps.example", "--server_port=7001", "--protocol=kcp", "--log_level=warn", "--log_file=/var/log/frpc.log", "--log_max_days=9",
			"--disable_log_color", "--tls_server_name=name.example", "--dns_server=9.9.9.9", "--user=alice", "--token=tok"}
		if tls {
			args = append(args, "--tls_enable=false")
		}
		err := cmd.PersistentFlags().Parse(args)
		zzverif.Assert(err == nil, "C18.cflags.documented-flags-parse")
		zzverif.Assert(c.ServerAddr == "frps.example" && c.ServerPort == 7001 && c.Transport.Protocol == "kcp", "C18.cflags.client-server-settings")
		zzverif.Assert(c.Log.Level == "warn" && c.Log.To == "/var/log/frpc.log" && c.Log.MaxDays == 9 && c.Log.DisablePrintColor, "C18.cflags.client-log-settings")
		zzverif.Assert(c.Transport.TLS.ServerName == "name.example" && c.DNSServer == "9.9.9.9" && c.User == "alice" && c.Auth.Token == "tok", "C18.cflags.client-identity-settings")
		zzverif.Assert(c.Transport.TLS.Enable != nil && *c.Transport.TLS.Enable == !tls, "C18.cflags.client-tls-enable")
		zzverif.Reach("C18.cflags.client")
	case 2:
		// ssh gateway mode: only user and token can be given
		c := &v1.ClientCommonConfig{}
		cmd := &cobra.Command{Use: "ssh"}
		RegisterClientCommonConfigFlags(cmd, c, WithSSHMode())
		err := cmd.PersistentFlags().Parse([]string{"--user=alice", "--token=tok"})
		zzverif.Assert(err == nil && c.User == "alice" && c.Auth.Token == "tok", "C18.cflags.ssh-mode-user-and-token")
		zzverif.Assert(cmd.PersistentFlags().Lookup("server_addr") == nil && cmd.PersistentFlags().Lookup("tls_enable") == nil, "C18.cflags.ssh-mode-cannot-redirect-the-client")
		zzverif.Reach("C18.cflags.ssh")
	default:
		typ := []string{"stcp", "sudp", "xtcp"}[zzverif.Choice("visitorType", 3)]
		c := v1.NewVisitorConfigurerByType(v1.VisitorType(typ))
		cmd := &cobra.Command{Use: "v"}
		RegisterVisitorFlags(cmd, c)
		args := []string{"--visitor_name=v1", "--sk=secret", "--server_name=p1", "--server-user=bob", "--bind_addr=127.0.0.2", "--bind_port=9000"}
		ue, uc := zzverif.Bool("ue"), zzverif.Bool("uc")
		if ue {
			args = append(args, "--ue")
		}
		if uc {
			args = append(args, "--uc")
		}
		err := cmd.Flags().Parse(args)
		b := c.GetBaseConfig()
		zzverif.Assert(err == nil, "C18.cflags.documented-flags-parse")
		zzverif.Assert(b.Name == "v1" && b.Transport.UseEncryption == ue && b.Transport.UseCompression == uc && b.SecretKey == "secret" && b.ServerName == "p1" && b.ServerUser == "bob" && b.BindAddr == "127.0.0.2" && b.BindPort == 9000, "C18.cflags.visitor-fields-as-in-a-file")
		zzverif.Reach("C18.cflags.visitor")
	}
}
