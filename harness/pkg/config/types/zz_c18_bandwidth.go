//go:build verif

package types

import (
	"errors"
	"strings"

	"github.com/fatedier/frp/zzverif"
)

// stub for strconv.ParseFloat (floating-point parsing is not encoded): the literals of the harness
// are concrete, so the value is computed from the digits with concrete float arithmetic (a decimal
// fraction of at most two digits of the literals used here is exact or correctly rounded by one division)
func c18bStubParseFloat(s string, bitSize int) (float64, error) {
	if s == "" {
		return 0, errors.New("invalid syntax")
	}
	n, fn, fd, seenDot := 0, 0, 1, false
	for i := 0; i < len(s); i++ {
		c := s[i]
		switch {
		case c >= '0' && c <= '9':
			if !seenDot {
				n = n*10 + int(c-'0')
			} else {
				fn, fd = fn*10+int(c-'0'), fd*10
			}
		case c == '.' && !seenDot:
			seenDot = true
		default:
			return 0, errors.New("invalid syntax")
		}
	}
	if fn != 0 {
		return float64(n*fd+fn) / float64(fd), nil
	}
	return float64(n), nil
}

// VerifC18Bandwidth: a bandwidth literal round-trips through its textual form: what String() (and
// so the registration message and the dashboard) shows is the literal that was given - fraction and
// unit included - and a whole-number literal means that many KB or MB.
func VerifC18Bandwidth() {
	lits := []string{"1MB", "10KB", "1.5MB", "0.5MB", "64KB", " 2MB ", "3.25KB", "0KB", "", "5GB", "MB", "x1KB", "1.5.2MB"}
	in := lits[zzverif.Choice("literal", len(lits))]
	q, err := NewBandwidthQuantity(in)
	trim := strings.TrimSpace(in)
	valid := trim == "" || (len(trim) > 2 && (strings.HasSuffix(trim, "MB") || strings.HasSuffix(trim, "KB")) && trim[0] >= '0' && trim[0] <= '9' && strings.Count(trim, ".") <= 1)
	zzverif.Assert((err == nil) == valid, "C18.bandwidth.accepted-iff-a-number-followed-by-KB-or-MB")
	if err != nil {
		zzverif.Reach("C18.bandwidth.rejected")
		return
	}
	zzverif.Assert(q.String() == trim, "C18.bandwidth.textual-form-is-the-literal-that-was-given")
	// the text that travels in the registration message means the same quantity again
	q2, err2 := NewBandwidthQuantity(q.String())
	zzverif.Assert(err2 == nil && q2.String() == q.String(), "C18.bandwidth.textual-form-parses-back-to-itself")
	switch trim {
	case "1MB":
		zzverif.Assert(q.Bytes() == 1*MB, "C18.bandwidth.whole-number-of-units")
	case "10KB":
		zzverif.Assert(q.Bytes() == 10*KB, "C18.bandwidth.whole-number-of-units")
	case "64KB":
		zzverif.Assert(q.Bytes() == 64*KB, "C18.bandwidth.whole-number-of-units")
	case "2MB":
		zzverif.Assert(q.Bytes() == 2*MB, "C18.bandwidth.whole-number-of-units")
	case "0KB", "":
		zzverif.Assert(q.Bytes() == 0, "C18.bandwidth.zero")
	case "1.5MB":
		zzverif.Assert(q.Bytes() == MB+MB/2, "C18.bandwidth.fraction-of-a-unit-counts")
	case "0.5MB":
		zzverif.Assert(q.Bytes() == MB/2, "C18.bandwidth.fraction-of-a-unit-counts")
	case "3.25KB":
		zzverif.Assert(q.Bytes() == 3*KB+KB/4, "C18.bandwidth.fraction-of-a-unit-counts")
	}
	if strings.Contains(trim, ".") {
		zzverif.Reach("C18.bandwidth.fraction")
	}
	zzverif.Reach("C18.bandwidth.accepted")
}
