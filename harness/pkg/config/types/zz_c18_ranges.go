//go:build verif

package types

import (
	"github.com/fatedier/frp/pkg/util/util"
	"github.com/fatedier/frp/zzverif"
)

// VerifC18Ranges: port-range literals round-trip through their textual form.
func VerifC18Ranges() {
	maxV := zzverif.Param("maxValue", 99)
	n := 1 + zzverif.Choice("n", zzverif.Param("maxRanges", 2))
	var rs PortsRangeSlice
	for i := 0; i < n; i++ {
		if zzverif.Bool("single") {
			rs = append(rs, PortsRange{Single: zzverif.IntRange("v", 1, maxV)})
		} else {
			a := zzverif.IntRange("a", 0, maxV)
			b := zzverif.IntRange("b", 0, maxV)
			zzverif.Assume(a <= b)
			rs = append(rs, PortsRange{Start: a, End: b})
		}
	}
	text := rs.String()
	back, err := NewPortsRangeSliceFromString(text)
	zzverif.Assert(err == nil, "C18.ranges.roundtrip-parses")
	zzverif.Assert(len(back) == len(rs), "C18.ranges.roundtrip-count")
	if err == nil && len(back) == len(rs) {
		for i := range rs {
			zzverif.Assert(back[i] == rs[i], "C18.ranges.roundtrip-equal")
		}
		zzverif.Reach("C18.ranges.roundtrip")
	}
}

// VerifC18RangesTotal: arbitrary text is a value or an error, never a panic; accepted ranges are ordered.
func VerifC18RangesTotal() {
	text := zzverif.StringUpTo("t", zzverif.Param("maxText", 4), "19,- ")
	out, err := NewPortsRangeSliceFromString(text)
	// the two parsers of port literals agree (the legacy loader checks an allow_ports text with one
	// and builds the whitelist with the other: a text only the first accepts leaves the whitelist
	// empty, i.e. every port allowed)
	nums, e2 := util.ParseRangeNumbers(text)
	zzverif.Assert((err == nil) == (e2 == nil), "C09.ranges.both-port-literal-parsers-accept-the-same-texts")
	if err == nil && e2 == nil {
		total := 0
		for _, r := range out {
			if r.Single != 0 || (r.Start == 0 && r.End == 0) {
				total++
			} else {
				total += r.End - r.Start + 1
			}
		}
		zzverif.Assert(total == len(nums), "C09.ranges.both-parsers-enumerate-the-same-ports")
	}
	if err == nil {
		for _, r := range out {
			if r.Single == 0 {
				zzverif.Assert(r.Start <= r.End, "C18.ranges.accepted-range-ordered")
			}
		}
		zzverif.Reach("C18.ranges.accepted")
	} else {
		zzverif.Assert(out == nil, "C18.ranges.error-no-value")
		zzverif.Reach("C18.ranges.rejected")
	}
}

// VerifSelfTypes: translator validation kernel.
func VerifSelfTypes() {
	for _, s := range []string{"1000-2000,3000", "1,2-3", "5-4", "a", "", "7", " 8 - 9 "} {
		out, err := NewPortsRangeSliceFromString(s)
		zzverif.Observe("parse:"+s, len(out), err != nil)
		for _, r := range out {
			zzverif.Observe("r", r.Start, r.End, r.Single)
		}
		zzverif.Observe("str", PortsRangeSlice(out).String())
	}
}
