//go:build verif

package legacy

import (
	"gopkg.in/ini.v1"

	"github.com/fatedier/frp/zzverif"
)

var c15po struct {
	nameKey bool
	mapErr  bool
}

// stub for (*ini.Section).Name
func c15poStubName(s *ini.Section) string { return "plugin.user-manager" }

// stub for (*ini.Section).MapTo: fills the structure from the section's keys (here: addr, path, ops
// and - when the section has one - a `name` key)
func c15poStubMapTo(s *ini.Section, v interface{}) error {
	if c15po.mapErr {
		return errZZLegacy
	}
	if o, ok := v.(*HTTPPluginOptions); ok {
		o.Addr, o.Path, o.Ops = "127.0.0.1:9000", "/handler", []string{"Login"}
		if c15po.nameKey {
			o.Name = "copied-from-another-section"
		}
	}
	return nil
}

type c15poErr struct{}

func (c15poErr) Error() string { return "bad section" }

var errZZLegacy error = c15poErr{}

// VerifC15LegacyPluginName: a server plugin declared in a legacy ini section [plugin.<name>] is
// registered under the name of its section, whatever keys the section contains: two sections can
// never collapse into one plugin (which would leave one of them unconsulted).
func VerifC15LegacyPluginName() {
	c15po.nameKey = zzverif.Bool("sectionHasANameKey")
	c15po.mapErr = zzverif.Bool("sectionCannotBeMapped")
	opt, err := loadHTTPPluginOpt(&ini.Section{})
	if c15po.mapErr {
		zzverif.Assert(err != nil && opt == nil, "C15.legacyplugin.unreadable-section-is-an-error")
		return
	}
	zzverif.Assert(err == nil && opt != nil, "C15.legacyplugin.loaded")
	if opt != nil {
		zzverif.Assert(opt.Name == "user-manager", "C15.legacyplugin.registered-under-the-name-of-its-section")
		zzverif.Assert(opt.Addr == "127.0.0.1:9000" && opt.Path == "/handler" && len(opt.Ops) == 1, "C15.legacyplugin.settings-kept")
	}
	zzverif.Reach("C15.legacyplugin.done")
}
