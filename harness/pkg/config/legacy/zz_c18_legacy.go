//go:build verif

package legacy

import (
	"github.com/fatedier/frp/pkg/config/types"
	v1 "github.com/fatedier/frp/pkg/config/v1"
	"github.com/fatedier/frp/zzverif"
)

// The field pairs below restate the documented ini -> v1 correspondence (one line per setting,
// written out when this harness was made); the conversion must reproduce every one of them for
// arbitrary (symbolic) values. A value that lands in another field, is dropped, or depends on an
// unrelated switch fails the corresponding equality for some assignment of the inputs.

func zzSet(p any, name string) {
	switch x := p.(type) {
	case *string:
		*x = zzverif.String(name, 1)
	case *int:
		*x = zzverif.Int(name)
	case *int64:
		*x = zzverif.Int64(name)
	case *bool:
		*x = zzverif.Bool(name)
	case *[]string:
		*x = []string{zzverif.String(name+".0", 1), zzverif.String(name+".1", 1)}
	case *map[string]string:
		*x = map[string]string{"k": zzverif.String(name+".k", 1)}
	default:
		zzverif.Unsupported("zzSet: " + name)
	}
}

func zzEq(a, b any, label string) {
	switch x := a.(type) {
	case string:
		y, ok := b.(string)
		zzverif.Assert(ok && zzverif.StrEq(x, y), label)
	case int:
		y, ok := b.(int)
		zzverif.Assert(ok && x == y, label)
	case int64:
		y, ok := b.(int64)
		zzverif.Assert(ok && x == y, label)
	case bool:
		y, ok := b.(bool)
		zzverif.Assert(ok && x == y, label)
	case *bool:
		y, ok := b.(bool)
		zzverif.Assert(ok && x != nil && *x == y, label)
	case []string:
		y, ok := b.([]string)
		zzverif.Assert(ok && len(x) == len(y), label)
		if ok && len(x) == len(y) {
			for i := range x {
				zzverif.Assert(zzverif.StrEq(x[i], y[i]), label)
			}
		}
	case map[string]string:
		y, ok := b.(map[string]string)
		zzverif.Assert(ok && len(x) == len(y), label)
		if ok {
			for k, v := range y {
				w, there := x[k]
				zzverif.Assert(there && zzverif.StrEq(v, w), label)
			}
		}
	default:
		zzverif.Fail(label + ".unsupported-type")
	}
}

func zzScopes(got []v1.AuthScope, hb, wc bool, label string) {
	nHB, nWC := 0, 0
	for _, s := range got {
		switch s {
		case v1.AuthScopeHeartBeats:
			nHB++
		case v1.AuthScopeNewWorkConns:
			nWC++
		default:
			zzverif.Fail(label + ".unknown-scope")
		}
	}
	zzverif.Assert((nHB == 1) == hb && nHB <= 1, label+".heartbeats-scope-iff-authenticate_heartbeats")
	zzverif.Assert((nWC == 1) == wc && nWC <= 1, label+".workconn-scope-iff-authenticate_new_work_conns")
}

func zzLegacyClient() {
	conf := &ClientCommonConf{}
	zzSet(&conf.ClientConfig.AuthenticationMethod, "authMethod")
	zzSet(&conf.ClientConfig.AuthenticateHeartBeats, "authHB")
	zzSet(&conf.ClientConfig.AuthenticateNewWorkConns, "authWC")
	zzSet(&conf.User, "conf.User")
	zzSet(&conf.ClientConfig.Token, "conf.ClientConfig.Token")
	zzSet(&conf.ClientConfig.OidcClientID, "conf.ClientConfig.OidcClientID")
	zzSet(&conf.ClientConfig.OidcClientSecret, "conf.ClientConfig.OidcClientSecret")
	zzSet(&conf.ClientConfig.OidcAudience, "conf.ClientConfig.OidcAudience")
	zzSet(&conf.ClientConfig.OidcScope, "conf.ClientConfig.OidcScope")
	zzSet(&conf.ClientConfig.OidcTokenEndpointURL, "conf.ClientConfig.OidcTokenEndpointURL")
	zzSet(&conf.ClientConfig.OidcAdditionalEndpointParams, "conf.ClientConfig.OidcAdditionalEndpointParams")
	zzSet(&conf.ServerAddr, "conf.ServerAddr")
	zzSet(&conf.ServerPort, "conf.ServerPort")
	zzSet(&conf.NatHoleSTUNServer, "conf.NatHoleSTUNServer")
	zzSet(&conf.DialServerTimeout, "conf.DialServerTimeout")
	zzSet(&conf.DialServerKeepAlive, "conf.DialServerKeepAlive")
	zzSet(&conf.ConnectServerLocalIP, "conf.ConnectServerLocalIP")
	zzSet(&conf.HTTPProxy, "conf.HTTPProxy")
	zzSet(&conf.PoolCount, "conf.PoolCount")
	zzSet(&conf.TCPMux, "conf.TCPMux")
	zzSet(&conf.TCPMuxKeepaliveInterval, "conf.TCPMuxKeepaliveInterval")
	zzSet(&conf.Protocol, "conf.Protocol")
	zzSet(&conf.HeartbeatInterval, "conf.HeartbeatInterval")
	zzSet(&conf.HeartbeatTimeout, "conf.HeartbeatTimeout")
	zzSet(&conf.QUICKeepalivePeriod, "conf.QUICKeepalivePeriod")
	zzSet(&conf.QUICMaxIdleTimeout, "conf.QUICMaxIdleTimeout")
	zzSet(&conf.QUICMaxIncomingStreams, "conf.QUICMaxIncomingStreams")
	zzSet(&conf.TLSEnable, "conf.TLSEnable")
	zzSet(&conf.DisableCustomTLSFirstByte, "conf.DisableCustomTLSFirstByte")
	zzSet(&conf.TLSCertFile, "conf.TLSCertFile")
	zzSet(&conf.TLSKeyFile, "conf.TLSKeyFile")
	zzSet(&conf.TLSTrustedCaFile, "conf.TLSTrustedCaFile")
	zzSet(&conf.TLSServerName, "conf.TLSServerName")
	zzSet(&conf.LogFile, "conf.LogFile")
	zzSet(&conf.LogLevel, "conf.LogLevel")
	zzSet(&conf.LogMaxDays, "conf.LogMaxDays")
	zzSet(&conf.DisableLogColor, "conf.DisableLogColor")
	zzSet(&conf.AdminAddr, "conf.AdminAddr")
	zzSet(&conf.AdminPort, "conf.AdminPort")
	zzSet(&conf.AdminUser, "conf.AdminUser")
	zzSet(&conf.AdminPwd, "conf.AdminPwd")
	zzSet(&conf.AssetsDir, "conf.AssetsDir")
	zzSet(&conf.PprofEnable, "conf.PprofEnable")
	zzSet(&conf.DNSServer, "conf.DNSServer")
	zzSet(&conf.LoginFailExit, "conf.LoginFailExit")
	zzSet(&conf.Start, "conf.Start")
	zzSet(&conf.UDPPacketSize, "conf.UDPPacketSize")
	zzSet(&conf.Metas, "conf.Metas")
	zzSet(&conf.IncludeConfigFiles, "conf.IncludeConfigFiles")
	out := Convert_ClientCommonConf_To_v1(conf)
	zzEq(out.User, conf.User, "C18.legacy.client.User<-User")
	zzEq(out.Auth.Token, conf.ClientConfig.Token, "C18.legacy.client.Auth.Token<-ClientConfig.Token")
	zzEq(out.Auth.OIDC.ClientID, conf.ClientConfig.OidcClientID, "C18.legacy.client.Auth.OIDC.ClientID<-ClientConfig.OidcClientID")
	zzEq(out.Auth.OIDC.ClientSecret, conf.ClientConfig.OidcClientSecret, "C18.legacy.client.Auth.OIDC.ClientSecret<-ClientConfig.OidcClientSecret")
	zzEq(out.Auth.OIDC.Audience, conf.ClientConfig.OidcAudience, "C18.legacy.client.Auth.OIDC.Audience<-ClientConfig.OidcAudience")
	zzEq(out.Auth.OIDC.Scope, conf.ClientConfig.OidcScope, "C18.legacy.client.Auth.OIDC.Scope<-ClientConfig.OidcScope")
	zzEq(out.Auth.OIDC.TokenEndpointURL, conf.ClientConfig.OidcTokenEndpointURL, "C18.legacy.client.Auth.OIDC.TokenEndpointURL<-ClientConfig.OidcTokenEndpointURL")
	zzEq(out.Auth.OIDC.AdditionalEndpointParams, conf.ClientConfig.OidcAdditionalEndpointParams, "C18.legacy.client.Auth.OIDC.AdditionalEndpointParams<-ClientConfig.OidcAdditionalEndpointParams")
	zzEq(out.ServerAddr, conf.ServerAddr, "C18.legacy.client.ServerAddr<-ServerAddr")
	zzEq(out.ServerPort, conf.ServerPort, "C18.legacy.client.ServerPort<-ServerPort")
	zzEq(out.NatHoleSTUNServer, conf.NatHoleSTUNServer, "C18.legacy.client.NatHoleSTUNServer<-NatHoleSTUNServer")
	zzEq(out.Transport.DialServerTimeout, conf.DialServerTimeout, "C18.legacy.client.Transport.DialServerTimeout<-DialServerTimeout")
	zzEq(out.Transport.DialServerKeepAlive, conf.DialServerKeepAlive, "C18.legacy.client.Transport.DialServerKeepAlive<-DialServerKeepAlive")
	zzEq(out.Transport.ConnectServerLocalIP, conf.ConnectServerLocalIP, "C18.legacy.client.Transport.ConnectServerLocalIP<-ConnectServerLocalIP")
	zzEq(out.Transport.ProxyURL, conf.HTTPProxy, "C18.legacy.client.Transport.ProxyURL<-HTTPProxy")
	zzEq(out.Transport.PoolCount, conf.PoolCount, "C18.legacy.client.Transport.PoolCount<-PoolCount")
	zzEq(out.Transport.TCPMux, conf.TCPMux, "C18.legacy.client.Transport.TCPMux<-TCPMux")
	zzEq(out.Transport.TCPMuxKeepaliveInterval, conf.TCPMuxKeepaliveInterval, "C18.legacy.client.Transport.TCPMuxKeepaliveInterval<-TCPMuxKeepaliveInterval")
	zzEq(out.Transport.Protocol, conf.Protocol, "C18.legacy.client.Transport.Protocol<-Protocol")
	zzEq(out.Transport.HeartbeatInterval, conf.HeartbeatInterval, "C18.legacy.client.Transport.HeartbeatInterval<-HeartbeatInterval")
	zzEq(out.Transport.HeartbeatTimeout, conf.HeartbeatTimeout, "C18.legacy.client.Transport.HeartbeatTimeout<-HeartbeatTimeout")
	zzEq(out.Transport.QUIC.KeepalivePeriod, conf.QUICKeepalivePeriod, "C18.legacy.client.Transport.QUIC.KeepalivePeriod<-QUICKeepalivePeriod")
	zzEq(out.Transport.QUIC.MaxIdleTimeout, conf.QUICMaxIdleTimeout, "C18.legacy.client.Transport.QUIC.MaxIdleTimeout<-QUICMaxIdleTimeout")
	zzEq(out.Transport.QUIC.MaxIncomingStreams, conf.QUICMaxIncomingStreams, "C18.legacy.client.Transport.QUIC.MaxIncomingStreams<-QUICMaxIncomingStreams")
	zzEq(out.Transport.TLS.Enable, conf.TLSEnable, "C18.legacy.client.Transport.TLS.Enable<-TLSEnable")
	zzEq(out.Transport.TLS.DisableCustomTLSFirstByte, conf.DisableCustomTLSFirstByte, "C18.legacy.client.Transport.TLS.DisableCustomTLSFirstByte<-DisableCustomTLSFirstByte")
	zzEq(out.Transport.TLS.TLSConfig.CertFile, conf.TLSCertFile, "C18.legacy.client.Transport.TLS.TLSConfig.CertFile<-TLSCertFile")
	zzEq(out.Transport.TLS.TLSConfig.KeyFile, conf.TLSKeyFile, "C18.legacy.client.Transport.TLS.TLSConfig.KeyFile<-TLSKeyFile")
	zzEq(out.Transport.TLS.TLSConfig.TrustedCaFile, conf.TLSTrustedCaFile, "C18.legacy.client.Transport.TLS.TLSConfig.TrustedCaFile<-TLSTrustedCaFile")
	zzEq(out.Transport.TLS.TLSConfig.ServerName, conf.TLSServerName, "C18.legacy.client.Transport.TLS.TLSConfig.ServerName<-TLSServerName")
	zzEq(out.Log.To, conf.LogFile, "C18.legacy.client.Log.To<-LogFile")
	zzEq(out.Log.Level, conf.LogLevel, "C18.legacy.client.Log.Level<-LogLevel")
	zzEq(out.Log.MaxDays, conf.LogMaxDays, "C18.legacy.client.Log.MaxDays<-LogMaxDays")
	zzEq(out.Log.DisablePrintColor, conf.DisableLogColor, "C18.legacy.client.Log.DisablePrintColor<-DisableLogColor")
	zzEq(out.WebServer.Addr, conf.AdminAddr, "C18.legacy.client.WebServer.Addr<-AdminAddr")
	zzEq(out.WebServer.Port, conf.AdminPort, "C18.legacy.client.WebServer.Port<-AdminPort")
	zzEq(out.WebServer.User, conf.AdminUser, "C18.legacy.client.WebServer.User<-AdminUser")
	zzEq(out.WebServer.Password, conf.AdminPwd, "C18.legacy.client.WebServer.Password<-AdminPwd")
	zzEq(out.WebServer.AssetsDir, conf.AssetsDir, "C18.legacy.client.WebServer.AssetsDir<-AssetsDir")
	zzEq(out.WebServer.PprofEnable, conf.PprofEnable, "C18.legacy.client.WebServer.PprofEnable<-PprofEnable")
	zzEq(out.DNSServer, conf.DNSServer, "C18.legacy.client.DNSServer<-DNSServer")
	zzEq(out.LoginFailExit, conf.LoginFailExit, "C18.legacy.client.LoginFailExit<-LoginFailExit")
	zzEq(out.Start, conf.Start, "C18.legacy.client.Start<-Start")
	zzEq(out.UDPPacketSize, conf.UDPPacketSize, "C18.legacy.client.UDPPacketSize<-UDPPacketSize")
	zzEq(out.Metadatas, conf.Metas, "C18.legacy.client.Metadatas<-Metas")
	zzEq(out.IncludeConfigFiles, conf.IncludeConfigFiles, "C18.legacy.client.IncludeConfigFiles<-IncludeConfigFiles")
	zzEq(string(out.Auth.Method), conf.ClientConfig.AuthenticationMethod, "C18.legacy.client.Auth.Method")
	zzScopes(out.Auth.AdditionalScopes, conf.ClientConfig.AuthenticateHeartBeats, conf.ClientConfig.AuthenticateNewWorkConns, "C18.legacy.client")
	zzverif.Reach("C18.legacy.client")
}

func zzLegacyServer() {
	conf := &ServerCommonConf{}
	zzSet(&conf.ServerConfig.AuthenticationMethod, "authMethod")
	zzSet(&conf.ServerConfig.AuthenticateHeartBeats, "authHB")
	zzSet(&conf.ServerConfig.AuthenticateNewWorkConns, "authWC")
	zzSet(&conf.DashboardTLSMode, "dashboardTLS")
	zzSet(&conf.DashboardTLSCertFile, "dashboardCert")
	zzSet(&conf.DashboardTLSKeyFile, "dashboardKey")
	conf.AllowPortsStr = "1000-1002,2000"
	conf.HTTPPlugins = map[string]HTTPPluginOptions{}
	var po HTTPPluginOptions
	zzSet(&po.Name, "plugin.Name")
	zzSet(&po.Addr, "plugin.Addr")
	zzSet(&po.Path, "plugin.Path")
	zzSet(&po.Ops, "plugin.Ops")
	zzSet(&po.TLSVerify, "plugin.TLSVerify")
	conf.HTTPPlugins["p"] = po
	zzSet(&conf.ServerConfig.Token, "conf.ServerConfig.Token")
	zzSet(&conf.ServerConfig.OidcAudience, "conf.ServerConfig.OidcAudience")
	zzSet(&conf.ServerConfig.OidcIssuer, "conf.ServerConfig.OidcIssuer")
	zzSet(&conf.ServerConfig.OidcSkipExpiryCheck, "conf.ServerConfig.OidcSkipExpiryCheck")
	zzSet(&conf.ServerConfig.OidcSkipIssuerCheck, "conf.ServerConfig.OidcSkipIssuerCheck")
	zzSet(&conf.BindAddr, "conf.BindAddr")
	zzSet(&conf.BindPort, "conf.BindPort")
	zzSet(&conf.KCPBindPort, "conf.KCPBindPort")
	zzSet(&conf.QUICBindPort, "conf.QUICBindPort")
	zzSet(&conf.QUICKeepalivePeriod, "conf.QUICKeepalivePeriod")
	zzSet(&conf.QUICMaxIdleTimeout, "conf.QUICMaxIdleTimeout")
	zzSet(&conf.QUICMaxIncomingStreams, "conf.QUICMaxIncomingStreams")
	zzSet(&conf.ProxyBindAddr, "conf.ProxyBindAddr")
	zzSet(&conf.VhostHTTPPort, "conf.VhostHTTPPort")
	zzSet(&conf.VhostHTTPSPort, "conf.VhostHTTPSPort")
	zzSet(&conf.TCPMuxHTTPConnectPort, "conf.TCPMuxHTTPConnectPort")
	zzSet(&conf.TCPMuxPassthrough, "conf.TCPMuxPassthrough")
	zzSet(&conf.VhostHTTPTimeout, "conf.VhostHTTPTimeout")
	zzSet(&conf.DashboardAddr, "conf.DashboardAddr")
	zzSet(&conf.DashboardPort, "conf.DashboardPort")
	zzSet(&conf.DashboardUser, "conf.DashboardUser")
	zzSet(&conf.DashboardPwd, "conf.DashboardPwd")
	zzSet(&conf.AssetsDir, "conf.AssetsDir")
	zzSet(&conf.EnablePrometheus, "conf.EnablePrometheus")
	zzSet(&conf.LogFile, "conf.LogFile")
	zzSet(&conf.LogLevel, "conf.LogLevel")
	zzSet(&conf.LogMaxDays, "conf.LogMaxDays")
	zzSet(&conf.DisableLogColor, "conf.DisableLogColor")
	zzSet(&conf.DetailedErrorsToClient, "conf.DetailedErrorsToClient")
	zzSet(&conf.SubDomainHost, "conf.SubDomainHost")
	zzSet(&conf.Custom404Page, "conf.Custom404Page")
	zzSet(&conf.UserConnTimeout, "conf.UserConnTimeout")
	zzSet(&conf.UDPPacketSize, "conf.UDPPacketSize")
	zzSet(&conf.NatHoleAnalysisDataReserveHours, "conf.NatHoleAnalysisDataReserveHours")
	zzSet(&conf.TCPMux, "conf.TCPMux")
	zzSet(&conf.TCPMuxKeepaliveInterval, "conf.TCPMuxKeepaliveInterval")
	zzSet(&conf.TCPKeepAlive, "conf.TCPKeepAlive")
	zzSet(&conf.MaxPoolCount, "conf.MaxPoolCount")
	zzSet(&conf.HeartbeatTimeout, "conf.HeartbeatTimeout")
	zzSet(&conf.TLSOnly, "conf.TLSOnly")
	zzSet(&conf.TLSCertFile, "conf.TLSCertFile")
	zzSet(&conf.TLSKeyFile, "conf.TLSKeyFile")
	zzSet(&conf.TLSTrustedCaFile, "conf.TLSTrustedCaFile")
	zzSet(&conf.MaxPortsPerClient, "conf.MaxPortsPerClient")
	out := Convert_ServerCommonConf_To_v1(conf)
	zzEq(out.Auth.Token, conf.ServerConfig.Token, "C18.legacy.server.Auth.Token<-ServerConfig.Token")
	zzEq(out.Auth.OIDC.Audience, conf.ServerConfig.OidcAudience, "C18.legacy.server.Auth.OIDC.Audience<-ServerConfig.OidcAudience")
	zzEq(out.Auth.OIDC.Issuer, conf.ServerConfig.OidcIssuer, "C18.legacy.server.Auth.OIDC.Issuer<-ServerConfig.OidcIssuer")
	zzEq(out.Auth.OIDC.SkipExpiryCheck, conf.ServerConfig.OidcSkipExpiryCheck, "C18.legacy.server.Auth.OIDC.SkipExpiryCheck<-ServerConfig.OidcSkipExpiryCheck")
	zzEq(out.Auth.OIDC.SkipIssuerCheck, conf.ServerConfig.OidcSkipIssuerCheck, "C18.legacy.server.Auth.OIDC.SkipIssuerCheck<-ServerConfig.OidcSkipIssuerCheck")
	zzEq(out.BindAddr, conf.BindAddr, "C18.legacy.server.BindAddr<-BindAddr")
	zzEq(out.BindPort, conf.BindPort, "C18.legacy.server.BindPort<-BindPort")
	zzEq(out.KCPBindPort, conf.KCPBindPort, "C18.legacy.server.KCPBindPort<-KCPBindPort")
	zzEq(out.QUICBindPort, conf.QUICBindPort, "C18.legacy.server.QUICBindPort<-QUICBindPort")
	zzEq(out.Transport.QUIC.KeepalivePeriod, conf.QUICKeepalivePeriod, "C18.legacy.server.Transport.QUIC.KeepalivePeriod<-QUICKeepalivePeriod")
	zzEq(out.Transport.QUIC.MaxIdleTimeout, conf.QUICMaxIdleTimeout, "C18.legacy.server.Transport.QUIC.MaxIdleTimeout<-QUICMaxIdleTimeout")
	zzEq(out.Transport.QUIC.MaxIncomingStreams, conf.QUICMaxIncomingStreams, "C18.legacy.server.Transport.QUIC.MaxIncomingStreams<-QUICMaxIncomingStreams")
	zzEq(out.ProxyBindAddr, conf.ProxyBindAddr, "C18.legacy.server.ProxyBindAddr<-ProxyBindAddr")
	zzEq(out.VhostHTTPPort, conf.VhostHTTPPort, "C18.legacy.server.VhostHTTPPort<-VhostHTTPPort")
	zzEq(out.VhostHTTPSPort, conf.VhostHTTPSPort, "C18.legacy.server.VhostHTTPSPort<-VhostHTTPSPort")
	zzEq(out.TCPMuxHTTPConnectPort, conf.TCPMuxHTTPConnectPort, "C18.legacy.server.TCPMuxHTTPConnectPort<-TCPMuxHTTPConnectPort")
	zzEq(out.TCPMuxPassthrough, conf.TCPMuxPassthrough, "C18.legacy.server.TCPMuxPassthrough<-TCPMuxPassthrough")
	zzEq(out.VhostHTTPTimeout, conf.VhostHTTPTimeout, "C18.legacy.server.VhostHTTPTimeout<-VhostHTTPTimeout")
	zzEq(out.WebServer.Addr, conf.DashboardAddr, "C18.legacy.server.WebServer.Addr<-DashboardAddr")
	zzEq(out.WebServer.Port, conf.DashboardPort, "C18.legacy.server.WebServer.Port<-DashboardPort")
	zzEq(out.WebServer.User, conf.DashboardUser, "C18.legacy.server.WebServer.User<-DashboardUser")
	zzEq(out.WebServer.Password, conf.DashboardPwd, "C18.legacy.server.WebServer.Password<-DashboardPwd")
	zzEq(out.WebServer.AssetsDir, conf.AssetsDir, "C18.legacy.server.WebServer.AssetsDir<-AssetsDir")
	zzEq(out.EnablePrometheus, conf.EnablePrometheus, "C18.legacy.server.EnablePrometheus<-EnablePrometheus")
	zzEq(out.Log.To, conf.LogFile, "C18.legacy.server.Log.To<-LogFile")
	zzEq(out.Log.Level, conf.LogLevel, "C18.legacy.server.Log.Level<-LogLevel")
	zzEq(out.Log.MaxDays, conf.LogMaxDays, "C18.legacy.server.Log.MaxDays<-LogMaxDays")
	zzEq(out.Log.DisablePrintColor, conf.DisableLogColor, "C18.legacy.server.Log.DisablePrintColor<-DisableLogColor")
	zzEq(out.DetailedErrorsToClient, conf.DetailedErrorsToClient, "C18.legacy.server.DetailedErrorsToClient<-DetailedErrorsToClient")
	zzEq(out.SubDomainHost, conf.SubDomainHost, "C18.legacy.server.SubDomainHost<-SubDomainHost")
	zzEq(out.Custom404Page, conf.Custom404Page, "C18.legacy.server.Custom404Page<-Custom404Page")
	zzEq(out.UserConnTimeout, conf.UserConnTimeout, "C18.legacy.server.UserConnTimeout<-UserConnTimeout")
	zzEq(out.UDPPacketSize, conf.UDPPacketSize, "C18.legacy.server.UDPPacketSize<-UDPPacketSize")
	zzEq(out.NatHoleAnalysisDataReserveHours, conf.NatHoleAnalysisDataReserveHours, "C18.legacy.server.NatHoleAnalysisDataReserveHours<-NatHoleAnalysisDataReserveHours")
	zzEq(out.Transport.TCPMux, conf.TCPMux, "C18.legacy.server.Transport.TCPMux<-TCPMux")
	zzEq(out.Transport.TCPMuxKeepaliveInterval, conf.TCPMuxKeepaliveInterval, "C18.legacy.server.Transport.TCPMuxKeepaliveInterval<-TCPMuxKeepaliveInterval")
	zzEq(out.Transport.TCPKeepAlive, conf.TCPKeepAlive, "C18.legacy.server.Transport.TCPKeepAlive<-TCPKeepAlive")
	zzEq(out.Transport.MaxPoolCount, conf.MaxPoolCount, "C18.legacy.server.Transport.MaxPoolCount<-MaxPoolCount")
	zzEq(out.Transport.HeartbeatTimeout, conf.HeartbeatTimeout, "C18.legacy.server.Transport.HeartbeatTimeout<-HeartbeatTimeout")
	zzEq(out.Transport.TLS.Force, conf.TLSOnly, "C18.legacy.server.Transport.TLS.Force<-TLSOnly")
	zzEq(out.Transport.TLS.CertFile, conf.TLSCertFile, "C18.legacy.server.Transport.TLS.CertFile<-TLSCertFile")
	zzEq(out.Transport.TLS.KeyFile, conf.TLSKeyFile, "C18.legacy.server.Transport.TLS.KeyFile<-TLSKeyFile")
	zzEq(out.Transport.TLS.TrustedCaFile, conf.TLSTrustedCaFile, "C18.legacy.server.Transport.TLS.TrustedCaFile<-TLSTrustedCaFile")
	zzEq(out.MaxPortsPerClient, conf.MaxPortsPerClient, "C18.legacy.server.MaxPortsPerClient<-MaxPortsPerClient")
	zzEq(string(out.Auth.Method), conf.ServerConfig.AuthenticationMethod, "C18.legacy.server.Auth.Method")
	zzScopes(out.Auth.AdditionalScopes, conf.ServerConfig.AuthenticateHeartBeats, conf.ServerConfig.AuthenticateNewWorkConns, "C18.legacy.server")
	if conf.DashboardTLSMode {
		zzverif.Assert(out.WebServer.TLS != nil, "C18.legacy.server.dashboard-tls-kept")
		if out.WebServer.TLS != nil {
			zzEq(out.WebServer.TLS.CertFile, conf.DashboardTLSCertFile, "C18.legacy.server.WebServer.TLS.CertFile")
			zzEq(out.WebServer.TLS.KeyFile, conf.DashboardTLSKeyFile, "C18.legacy.server.WebServer.TLS.KeyFile")
		}
	} else {
		zzverif.Assert(out.WebServer.TLS == nil, "C18.legacy.server.no-dashboard-tls-unless-asked")
	}
	zzverif.Assert(len(out.HTTPPlugins) == 1, "C18.legacy.server.http-plugins-kept")
	if len(out.HTTPPlugins) == 1 {
		q := out.HTTPPlugins[0]
		zzEq(q.Name, po.Name, "C18.legacy.server.plugin.Name")
		zzEq(q.Addr, po.Addr, "C18.legacy.server.plugin.Addr")
		zzEq(q.Path, po.Path, "C18.legacy.server.plugin.Path")
		zzEq(q.Ops, po.Ops, "C18.legacy.server.plugin.Ops")
		zzEq(q.TLSVerify, po.TLSVerify, "C18.legacy.server.plugin.TLSVerify")
	}
	zzverif.Assert(len(out.AllowPorts) == 2, "C18.legacy.server.allow-ports-kept")
	if len(out.AllowPorts) == 2 {
		zzverif.Assert(out.AllowPorts[0] == (types.PortsRange{Start: 1000, End: 1002}) && out.AllowPorts[1] == (types.PortsRange{Single: 2000}), "C18.legacy.server.allow-ports-kept")
	}
	zzverif.Reach("C18.legacy.server")
}

func zzLegacyProxy() {
	zzverif.SetMapOrderLimit(1)
	kind := zzverif.Choice("proxyType", 8)
	var conf ProxyConf
	switch kind {
	case 0:
		conf = &TCPProxyConf{}
	case 1:
		conf = &UDPProxyConf{}
	case 2:
		conf = &HTTPProxyConf{}
	case 3:
		conf = &HTTPSProxyConf{}
	case 4:
		conf = &TCPMuxProxyConf{}
	case 5:
		conf = &STCPProxyConf{}
	case 6:
		conf = &SUDPProxyConf{}
	default:
		conf = &XTCPProxyConf{}
	}
	base := conf.GetBaseConfig()
	zzSet(&base.ProxyName, "ProxyName")
	zzSet(&base.ProxyType, "ProxyType")
	zzSet(&base.Metas, "Metas")
	zzSet(&base.UseEncryption, "UseEncryption")
	zzSet(&base.UseCompression, "UseCompression")
	zzSet(&base.BandwidthLimitMode, "BandwidthLimitMode")
	zzSet(&base.ProxyProtocolVersion, "ProxyProtocolVersion")
	zzSet(&base.Group, "Group")
	zzSet(&base.GroupKey, "GroupKey")
	zzSet(&base.HealthCheckType, "HealthCheckType")
	zzSet(&base.HealthCheckTimeoutS, "HealthCheckTimeoutS")
	zzSet(&base.HealthCheckMaxFailed, "HealthCheckMaxFailed")
	zzSet(&base.HealthCheckIntervalS, "HealthCheckIntervalS")
	zzSet(&base.HealthCheckURL, "HealthCheckURL")
	zzSet(&base.LocalIP, "LocalIP")
	zzSet(&base.LocalPort, "LocalPort")
	plugins := []string{"", "http2https", "http_proxy", "https2http", "https2https", "socks5", "static_file", "unix_domain_socket", "no_such_plugin"}
	base.Plugin = plugins[zzverif.Choice("plugin", len(plugins))]
	pp := map[string]string{}
	for _, k := range []string{"plugin_local_addr", "plugin_host_header_rewrite", "plugin_crt_path", "plugin_key_path", "plugin_http_user", "plugin_http_passwd",
		"plugin_user", "plugin_passwd", "plugin_local_path", "plugin_strip_prefix", "plugin_unix_path", "plugin_header_X-A", "plugin_header_api-key", "plugin_header_range", "plugin_header_", "other_key"} {
		pp[k] = zzverif.String("param."+k, 1)
	}
	base.PluginParams = pp
	switch v := conf.(type) {
	case *TCPProxyConf:
		zzSet(&v.RemotePort, "RemotePort")
	case *UDPProxyConf:
		zzSet(&v.RemotePort, "RemotePort")
	case *HTTPProxyConf:
		zzSet(&v.CustomDomains, "CustomDomains")
		zzSet(&v.SubDomain, "SubDomain")
		zzSet(&v.Locations, "Locations")
		zzSet(&v.HTTPUser, "HTTPUser")
		zzSet(&v.HTTPPwd, "HTTPPwd")
		zzSet(&v.HostHeaderRewrite, "HostHeaderRewrite")
		zzSet(&v.Headers, "Headers")
		zzSet(&v.RouteByHTTPUser, "RouteByHTTPUser")
	case *HTTPSProxyConf:
		zzSet(&v.CustomDomains, "CustomDomains")
		zzSet(&v.SubDomain, "SubDomain")
	case *TCPMuxProxyConf:
		zzSet(&v.CustomDomains, "CustomDomains")
		zzSet(&v.SubDomain, "SubDomain")
		zzSet(&v.HTTPUser, "HTTPUser")
		zzSet(&v.HTTPPwd, "HTTPPwd")
		zzSet(&v.RouteByHTTPUser, "RouteByHTTPUser")
		zzSet(&v.Multiplexer, "Multiplexer")
	case *STCPProxyConf:
		zzSet(&v.Sk, "Sk")
		zzSet(&v.AllowUsers, "AllowUsers")
	case *SUDPProxyConf:
		zzSet(&v.Sk, "Sk")
		zzSet(&v.AllowUsers, "AllowUsers")
	case *XTCPProxyConf:
		zzSet(&v.Sk, "Sk")
		zzSet(&v.AllowUsers, "AllowUsers")
	}

	res := Convert_ProxyConf_To_v1(conf)
	zzverif.Assert(res != nil, "C18.legacy.proxy.converted")
	if res == nil {
		return
	}
	out := res.GetBaseConfig()
	const L = "C18.legacy.proxy."
	zzEq(out.Name, base.ProxyName, L+"Name<-ProxyName")
	zzEq(out.Type, base.ProxyType, L+"Type<-ProxyType")
	zzEq(out.Metadatas, base.Metas, L+"Metadatas<-Metas")
	zzEq(out.Transport.UseEncryption, base.UseEncryption, L+"Transport.UseEncryption<-UseEncryption")
	zzEq(out.Transport.UseCompression, base.UseCompression, L+"Transport.UseCompression<-UseCompression")
	zzEq(out.Transport.BandwidthLimitMode, base.BandwidthLimitMode, L+"Transport.BandwidthLimitMode<-BandwidthLimitMode")
	zzEq(out.Transport.ProxyProtocolVersion, base.ProxyProtocolVersion, L+"Transport.ProxyProtocolVersion<-ProxyProtocolVersion")
	zzEq(out.LoadBalancer.Group, base.Group, L+"LoadBalancer.Group<-Group")
	zzEq(out.LoadBalancer.GroupKey, base.GroupKey, L+"LoadBalancer.GroupKey<-GroupKey")
	zzEq(out.HealthCheck.Type, base.HealthCheckType, L+"HealthCheck.Type<-HealthCheckType")
	zzEq(out.HealthCheck.TimeoutSeconds, base.HealthCheckTimeoutS, L+"HealthCheck.TimeoutSeconds<-HealthCheckTimeoutS")
	zzEq(out.HealthCheck.MaxFailed, base.HealthCheckMaxFailed, L+"HealthCheck.MaxFailed<-HealthCheckMaxFailed")
	zzEq(out.HealthCheck.IntervalSeconds, base.HealthCheckIntervalS, L+"HealthCheck.IntervalSeconds<-HealthCheckIntervalS")
	zzEq(out.HealthCheck.Path, base.HealthCheckURL, L+"HealthCheck.Path<-HealthCheckURL")
	zzEq(out.LocalIP, base.LocalIP, L+"LocalIP<-LocalIP")
	zzEq(out.LocalPort, base.LocalPort, L+"LocalPort<-LocalPort")
	zzEq(out.Plugin.Type, base.Plugin, L+"Plugin.Type<-Plugin")

	hdr := func(h v1.HeaderOperations) {
		zzverif.Assert(len(h.Set) == 3, L+"plugin.headers-are-exactly-the-plugin_header_-parameters")
		for _, name := range []string{"X-A", "api-key", "range"} {
			v, ok := h.Set[name]
			zzverif.Assert(ok, L+"plugin.header-name-is-what-follows-the-prefix")
			zzEq(v, pp["plugin_header_"+name], L+"plugin.header-value")
		}
	}
	switch o := out.Plugin.ClientPluginOptions.(type) {
	case nil:
		zzverif.Assert(base.Plugin == "" || base.Plugin == "no_such_plugin", L+"plugin.options-present-for-a-known-plugin")
	case *v1.HTTP2HTTPSPluginOptions:
		zzverif.Assert(base.Plugin == "http2https", L+"plugin.options-of-the-configured-plugin")
		zzEq(o.LocalAddr, pp["plugin_local_addr"], L+"plugin.LocalAddr")
		zzEq(o.HostHeaderRewrite, pp["plugin_host_header_rewrite"], L+"plugin.HostHeaderRewrite")
		hdr(o.RequestHeaders)
	case *v1.HTTPProxyPluginOptions:
		zzverif.Assert(base.Plugin == "http_proxy", L+"plugin.options-of-the-configured-plugin")
		zzEq(o.HTTPUser, pp["plugin_http_user"], L+"plugin.HTTPUser")
		zzEq(o.HTTPPassword, pp["plugin_http_passwd"], L+"plugin.HTTPPassword")
	case *v1.HTTPS2HTTPPluginOptions:
		zzverif.Assert(base.Plugin == "https2http", L+"plugin.options-of-the-configured-plugin")
		zzEq(o.LocalAddr, pp["plugin_local_addr"], L+"plugin.LocalAddr")
		zzEq(o.HostHeaderRewrite, pp["plugin_host_header_rewrite"], L+"plugin.HostHeaderRewrite")
		zzEq(o.CrtPath, pp["plugin_crt_path"], L+"plugin.CrtPath")
		zzEq(o.KeyPath, pp["plugin_key_path"], L+"plugin.KeyPath")
		hdr(o.RequestHeaders)
	case *v1.HTTPS2HTTPSPluginOptions:
		zzverif.Assert(base.Plugin == "https2https", L+"plugin.options-of-the-configured-plugin")
		zzEq(o.LocalAddr, pp["plugin_local_addr"], L+"plugin.LocalAddr")
		zzEq(o.HostHeaderRewrite, pp["plugin_host_header_rewrite"], L+"plugin.HostHeaderRewrite")
		zzEq(o.CrtPath, pp["plugin_crt_path"], L+"plugin.CrtPath")
		zzEq(o.KeyPath, pp["plugin_key_path"], L+"plugin.KeyPath")
		hdr(o.RequestHeaders)
	case *v1.Socks5PluginOptions:
		zzverif.Assert(base.Plugin == "socks5", L+"plugin.options-of-the-configured-plugin")
		zzEq(o.Username, pp["plugin_user"], L+"plugin.Username")
		zzEq(o.Password, pp["plugin_passwd"], L+"plugin.Password")
	case *v1.StaticFilePluginOptions:
		zzverif.Assert(base.Plugin == "static_file", L+"plugin.options-of-the-configured-plugin")
		zzEq(o.LocalPath, pp["plugin_local_path"], L+"plugin.LocalPath")
		zzEq(o.StripPrefix, pp["plugin_strip_prefix"], L+"plugin.StripPrefix")
		zzEq(o.HTTPUser, pp["plugin_http_user"], L+"plugin.HTTPUser")
		zzEq(o.HTTPPassword, pp["plugin_http_passwd"], L+"plugin.HTTPPassword")
	case *v1.UnixDomainSocketPluginOptions:
		zzverif.Assert(base.Plugin == "unix_domain_socket", L+"plugin.options-of-the-configured-plugin")
		zzEq(o.UnixPath, pp["plugin_unix_path"], L+"plugin.UnixPath")
	default:
		zzverif.Fail(L + "plugin.unexpected-options-type")
	}

	switch v := conf.(type) {
	case *TCPProxyConf:
		c, ok := res.(*v1.TCPProxyConfig)
		zzverif.Assert(ok, L+"tcp.type")
		if ok {
			zzEq(c.RemotePort, v.RemotePort, L+"tcp.RemotePort")
		}
	case *UDPProxyConf:
		c, ok := res.(*v1.UDPProxyConfig)
		zzverif.Assert(ok, L+"udp.type")
		if ok {
			zzEq(c.RemotePort, v.RemotePort, L+"udp.RemotePort")
		}
	case *HTTPProxyConf:
		c, ok := res.(*v1.HTTPProxyConfig)
		zzverif.Assert(ok, L+"http.type")
		if ok {
			zzEq(c.CustomDomains, v.CustomDomains, L+"http.CustomDomains")
			zzEq(c.SubDomain, v.SubDomain, L+"http.SubDomain")
			zzEq(c.Locations, v.Locations, L+"http.Locations")
			zzEq(c.HTTPUser, v.HTTPUser, L+"http.HTTPUser")
			zzEq(c.HTTPPassword, v.HTTPPwd, L+"http.HTTPPassword<-HTTPPwd")
			zzEq(c.HostHeaderRewrite, v.HostHeaderRewrite, L+"http.HostHeaderRewrite")
			zzEq(c.RequestHeaders.Set, v.Headers, L+"http.RequestHeaders.Set<-Headers")
			zzEq(c.RouteByHTTPUser, v.RouteByHTTPUser, L+"http.RouteByHTTPUser")
		}
	case *HTTPSProxyConf:
		c, ok := res.(*v1.HTTPSProxyConfig)
		zzverif.Assert(ok, L+"https.type")
		if ok {
			zzEq(c.CustomDomains, v.CustomDomains, L+"https.CustomDomains")
			zzEq(c.SubDomain, v.SubDomain, L+"https.SubDomain")
		}
	case *TCPMuxProxyConf:
		c, ok := res.(*v1.TCPMuxProxyConfig)
		zzverif.Assert(ok, L+"tcpmux.type")
		if ok {
			zzEq(c.CustomDomains, v.CustomDomains, L+"tcpmux.CustomDomains")
			zzEq(c.SubDomain, v.SubDomain, L+"tcpmux.SubDomain")
			zzEq(c.HTTPUser, v.HTTPUser, L+"tcpmux.HTTPUser")
			zzEq(c.HTTPPassword, v.HTTPPwd, L+"tcpmux.HTTPPassword<-HTTPPwd")
			zzEq(c.RouteByHTTPUser, v.RouteByHTTPUser, L+"tcpmux.RouteByHTTPUser")
			zzEq(c.Multiplexer, v.Multiplexer, L+"tcpmux.Multiplexer")
		}
	case *STCPProxyConf:
		c, ok := res.(*v1.STCPProxyConfig)
		zzverif.Assert(ok, L+"stcp.type")
		if ok {
			zzEq(c.Secretkey, v.Sk, L+"stcp.Secretkey<-Sk")
			zzEq(c.AllowUsers, v.AllowUsers, L+"stcp.AllowUsers")
		}
	case *SUDPProxyConf:
		c, ok := res.(*v1.SUDPProxyConfig)
		zzverif.Assert(ok, L+"sudp.type")
		if ok {
			zzEq(c.Secretkey, v.Sk, L+"sudp.Secretkey<-Sk")
			zzEq(c.AllowUsers, v.AllowUsers, L+"sudp.AllowUsers")
		}
	case *XTCPProxyConf:
		c, ok := res.(*v1.XTCPProxyConfig)
		zzverif.Assert(ok, L+"xtcp.type")
		if ok {
			zzEq(c.Secretkey, v.Sk, L+"xtcp.Secretkey<-Sk")
			zzEq(c.AllowUsers, v.AllowUsers, L+"xtcp.AllowUsers")
		}
	}
	zzverif.Reach("C18.legacy.proxy")
}

func zzLegacyVisitor() {
	kind := zzverif.Choice("visitorType", 3)
	var conf VisitorConf
	switch kind {
	case 0:
		conf = &STCPVisitorConf{}
	case 1:
		conf = &SUDPVisitorConf{}
	default:
		conf = &XTCPVisitorConf{}
	}
	base := conf.GetBaseConfig()
	zzSet(&base.ProxyName, "ProxyName")
	zzSet(&base.ProxyType, "ProxyType")
	zzSet(&base.UseEncryption, "UseEncryption")
	zzSet(&base.UseCompression, "UseCompression")
	zzSet(&base.Sk, "Sk")
	zzSet(&base.ServerUser, "ServerUser")
	zzSet(&base.ServerName, "ServerName")
	zzSet(&base.BindAddr, "BindAddr")
	zzSet(&base.BindPort, "BindPort")
	if v, ok := conf.(*XTCPVisitorConf); ok {
		zzSet(&v.Protocol, "Protocol")
		zzSet(&v.KeepTunnelOpen, "KeepTunnelOpen")
		zzSet(&v.MaxRetriesAnHour, "MaxRetriesAnHour")
		zzSet(&v.MinRetryInterval, "MinRetryInterval")
		zzSet(&v.FallbackTo, "FallbackTo")
		zzSet(&v.FallbackTimeoutMs, "FallbackTimeoutMs")
	}
	res := Convert_VisitorConf_To_v1(conf)
	zzverif.Assert(res != nil, "C18.legacy.visitor.converted")
	if res == nil {
		return
	}
	out := res.GetBaseConfig()
	const L = "C18.legacy.visitor."
	zzEq(out.Name, base.ProxyName, L+"Name<-ProxyName")
	zzEq(out.Type, base.ProxyType, L+"Type<-ProxyType")
	zzEq(out.Transport.UseEncryption, base.UseEncryption, L+"Transport.UseEncryption")
	zzEq(out.Transport.UseCompression, base.UseCompression, L+"Transport.UseCompression")
	zzEq(out.SecretKey, base.Sk, L+"SecretKey<-Sk")
	zzEq(out.ServerUser, base.ServerUser, L+"ServerUser")
	zzEq(out.ServerName, base.ServerName, L+"ServerName")
	zzEq(out.BindAddr, base.BindAddr, L+"BindAddr")
	zzEq(out.BindPort, base.BindPort, L+"BindPort")
	switch v := conf.(type) {
	case *STCPVisitorConf:
		_, ok := res.(*v1.STCPVisitorConfig)
		zzverif.Assert(ok, L+"stcp.type")
	case *SUDPVisitorConf:
		_, ok := res.(*v1.SUDPVisitorConfig)
		zzverif.Assert(ok, L+"sudp.type")
	case *XTCPVisitorConf:
		c, ok := res.(*v1.XTCPVisitorConfig)
		zzverif.Assert(ok, L+"xtcp.type")
		if ok {
			zzEq(c.Protocol, v.Protocol, L+"xtcp.Protocol")
			zzEq(c.KeepTunnelOpen, v.KeepTunnelOpen, L+"xtcp.KeepTunnelOpen")
			zzEq(c.MaxRetriesAnHour, v.MaxRetriesAnHour, L+"xtcp.MaxRetriesAnHour")
			zzEq(c.MinRetryInterval, v.MinRetryInterval, L+"xtcp.MinRetryInterval")
			zzEq(c.FallbackTo, v.FallbackTo, L+"xtcp.FallbackTo")
			zzEq(c.FallbackTimeoutMs, v.FallbackTimeoutMs, L+"xtcp.FallbackTimeoutMs")
		}
	}
	zzverif.Reach("C18.legacy.visitor")
}

// VerifC18Legacy: the legacy ini structures convert to the v1 structures setting by setting.
func VerifC18Legacy() {
	switch zzverif.Choice("what", 4) {
	case 0:
		zzLegacyClient()
	case 1:
		zzLegacyServer()
	case 2:
		zzLegacyProxy()
	default:
		zzLegacyVisitor()
	}
}
