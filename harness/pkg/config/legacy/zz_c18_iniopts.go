//go:build verif

package legacy

import (
	"errors"

	"gopkg.in/ini.v1"

	"github.com/fatedier/frp/zzverif"
)

var c18ioSeen []ini.LoadOptions

// stub for ini.LoadSources (the ini parser is a dependency): records the options every loader
// parses its file with
func c18ioStubLoadSources(opts ini.LoadOptions, source any, others ...any) (*ini.File, error) {
	c18ioSeen = append(c18ioSeen, opts)
	return nil, errors.New("parser not run in the harness")
}

// VerifC18IniOptions: all three loaders of the legacy format read the file under the same rules:
// values are taken whole - '#' and ';' inside a value (tokens, passwords, secret keys) are data,
// not the start of a comment -, keys and section names are case sensitive, and keys without a
// value are allowed. (The parser documents IgnoreInlineComment=false as "text after # or ; on a
// value line is dropped".)
func VerifC18IniOptions() {
	c18ioSeen = nil
	which := zzverif.Choice("loader", 3)
	switch which {
	case 0:
		_, _ = UnmarshalClientConfFromIni([]byte("x"))
	case 1:
		_, _, _ = LoadAllProxyConfsFromIni("", []byte("x"), nil)
	default:
		_, _ = UnmarshalServerConfFromIni([]byte("x"))
	}
	zzverif.Assert(len(c18ioSeen) == 1, "C18.iniopts.file-parsed-once")
	if len(c18ioSeen) != 1 {
		return
	}
	o := c18ioSeen[0]
	zzverif.Assert(o.IgnoreInlineComment, "C18.iniopts.values-containing-#-or-;-are-taken-whole")
	zzverif.Assert(!o.Insensitive && !o.InsensitiveSections && !o.InsensitiveKeys, "C18.iniopts.names-are-case-sensitive")
	zzverif.Assert(o.AllowBooleanKeys, "C18.iniopts.keys-without-value-allowed")
	zzverif.Assert(!o.IgnoreContinuation && !o.SpaceBeforeInlineComment && !o.UnescapeValueDoubleQuotes && !o.UnescapeValueCommentSymbols && !o.AllowPythonMultilineValues && !o.Loose, "C18.iniopts.no-other-reading-rule-differs-between-loaders")
	zzverif.Reach("C18.iniopts.done")
}
