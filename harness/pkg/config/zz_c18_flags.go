//go:build verif

package config

import (
	"github.com/spf13/cobra"

	v1 "github.com/fatedier/frp/pkg/config/v1"
	"github.com/fatedier/frp/zzverif"
)

// VerifC18Flags: a proxy defined on the command line means the same as the definition in a file:
// list-valued flags split on commas for every proxy type that has them, scalar flags land in the
// fields of the same name.
func VerifC18Flags() {
	typ := []string{"stcp", "sudp", "xtcp", "http", "tcp"}[zzverif.Choice("type", 5)]
	c := v1.NewProxyConfigurerByType(v1.ProxyType(typ))
	cmd := &cobra.Command{Use: "x"}
	RegisterProxyFlags(cmd, c)
	var args []string
	switch typ {
	case "stcp", "sudp", "xtcp":
		args = []string{"--proxy_name=p", "--sk=secret", "--allow_users=alice,bob", "--local_port=22"}
	case "http":
		args = []string{"--proxy_name=p", "--custom_domain=a.com,b.com", "--locations=/x,/y", "--http_user=u", "--host_header_rewrite=h"}
	default:
		args = []string{"--proxy_name=p", "--remote_port=6000", "--local_ip=10.0.0.1", "--ue", "--bandwidth_limit_mode=server"}
	}
	uc := typ == "tcp" && zzverif.Bool("uc")
	if uc {
		args = append(args, "--uc")
	}
	err := cmd.Flags().Parse(args)
	zzverif.Assert(err == nil, "C18.flags.documented-flags-parse")
	zzverif.Assert(c.GetBaseConfig().Name == "p", "C18.flags.name")
	two := func(l []string, a, b string) bool { return len(l) == 2 && l[0] == a && l[1] == b }
	switch cc := c.(type) {
	case *v1.STCPProxyConfig:
		zzverif.Assert(cc.Secretkey == "secret" && two(cc.AllowUsers, "alice", "bob") && cc.LocalPort == 22, "C18.flags.secret-proxy-fields-as-in-a-file")
	case *v1.SUDPProxyConfig:
		zzverif.Assert(cc.Secretkey == "secret" && two(cc.AllowUsers, "alice", "bob") && cc.LocalPort == 22, "C18.flags.secret-proxy-fields-as-in-a-file")
	case *v1.XTCPProxyConfig:
		zzverif.Assert(cc.Secretkey == "secret" && two(cc.AllowUsers, "alice", "bob") && cc.LocalPort == 22, "C18.flags.secret-proxy-fields-as-in-a-file")
	case *v1.HTTPProxyConfig:
		zzverif.Assert(two(cc.CustomDomains, "a.com", "b.com") && two(cc.Locations, "/x", "/y") && cc.HTTPUser == "u" && cc.HostHeaderRewrite == "h", "C18.flags.http-fields-as-in-a-file")
	case *v1.TCPProxyConfig:
		zzverif.Assert(cc.RemotePort == 6000 && cc.LocalIP == "10.0.0.1" && cc.Transport.UseEncryption && cc.Transport.UseCompression == uc && cc.Transport.BandwidthLimitMode == "server", "C18.flags.tcp-fields-as-in-a-file")
	}
	zzverif.Reach("C18.flags.done")
}
