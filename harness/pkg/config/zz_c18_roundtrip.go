//go:build verif

package config

import (
	v1 "github.com/fatedier/frp/pkg/config/v1"
	"github.com/fatedier/frp/pkg/msg"
	"github.com/fatedier/frp/zzverif"
)

func c18StubIsQualifiedName(value string) []string { return nil }

func c18Strs(name string) []string {
	switch zzverif.Choice(name+".n", 3) {
	case 0:
		return nil
	case 1:
		return []string{zzverif.StringOf(name+".0", 2, "ab.")}
	}
	return []string{zzverif.StringOf(name+".0", 1, "ab."), zzverif.StringOf(name+".1", 1, "ab.")}
}

// c18Users: a list of user names; the empty name is a user like any other (a client without `user`)
func c18Users(name string) []string {
	switch zzverif.Choice(name+".blank", 3) {
	case 1:
		return []string{""}
	case 2:
		return []string{zzverif.StringOf(name+".0", 1, "ab."), ""}
	}
	return c18Strs(name)
}

// c18Opt: empty or a one-byte symbolic string; `set` shares the emptiness choice between related fields.
func c18Opt(name string, set bool, alpha string) string {
	if !set {
		return ""
	}
	return zzverif.StringOf(name, 1, alpha)
}

func c18StrsEq(a, b []string) bool {
	if len(a) != len(b) {
		return false
	}
	r := true
	for i := range a {
		if len(a[i]) != len(b[i]) {
			return false
		}
		r = zzverif.And(r, zzverif.StrEq(a[i], b[i]))
	}
	return r
}

func c18Map(name string) map[string]string {
	if !zzverif.Bool(name + ".set") {
		return nil
	}
	return map[string]string{"k": zzverif.StringOf(name+".v", 1, "xy")}
}

func c18MapEq(a, b map[string]string) bool {
	if len(a) != len(b) {
		return false
	}
	for k, v := range a {
		w, ok := b[k]
		if !ok || len(v) != len(w) || !zzverif.StrEq(v, w) {
			return false
		}
	}
	return true
}

func c18Base(b *v1.ProxyBaseConfig, typ string) {
	b.Name = zzverif.StringOf("name", 2, "pq")
	b.Type = typ
	b.Transport.UseEncryption = zzverif.Bool("enc")
	b.Transport.UseCompression = zzverif.Bool("comp")
	b.Transport.BandwidthLimitMode = []string{"", "client", "server"}[zzverif.Choice("bwMode", 3)]
	grouped := zzverif.Bool("grouped")
	b.LoadBalancer.Group = c18Opt("group", grouped, "gh")
	b.LoadBalancer.GroupKey = c18Opt("groupKey", grouped, "kl")
	b.Metadatas = c18Map("metas")
}

func c18BaseEq(a, b *v1.ProxyBaseConfig) bool {
	return zzverif.And(zzverif.And(len(a.Name) == len(b.Name) && zzverif.StrEq(a.Name, b.Name), a.Type == b.Type),
		zzverif.And(zzverif.And(a.Transport.UseEncryption == b.Transport.UseEncryption, a.Transport.UseCompression == b.Transport.UseCompression),
			zzverif.And(a.Transport.BandwidthLimitMode == b.Transport.BandwidthLimitMode,
				zzverif.And(a.LoadBalancer.Group == b.LoadBalancer.Group && a.LoadBalancer.GroupKey == b.LoadBalancer.GroupKey, c18MapEq(a.Metadatas, b.Metadatas)))))
}

// VerifC18RoundTrip: the configuration the server reconstructs from a registration message
// equals the client's completed configuration in every field the server acts on.
func VerifC18RoundTrip() {
	types_ := []string{"tcp", "udp", "http", "https", "tcpmux", "stcp", "xtcp", "sudp"}
	typ := types_[zzverif.Choice("type", len(types_))]
	scfg := &v1.ServerConfig{VhostHTTPPort: 80, VhostHTTPSPort: 443, TCPMuxHTTPConnectPort: 5002, SubDomainHost: "zz.example"}
	if typ == "http" && zzverif.Bool("vhostHTTPDisabled") {
		scfg.VhostHTTPPort = 0
	}
	var cli v1.ProxyConfigurer
	switch typ {
	case "tcp":
		c := &v1.TCPProxyConfig{RemotePort: zzverif.Int("remotePort")}
		c18Base(&c.ProxyBaseConfig, typ)
		cli = c
	case "udp":
		c := &v1.UDPProxyConfig{RemotePort: zzverif.Int("remotePort")}
		c18Base(&c.ProxyBaseConfig, typ)
		cli = c
	case "http":
		set := zzverif.Bool("httpOptsSet")
		c := &v1.HTTPProxyConfig{Locations: c18Strs("loc"), HTTPUser: c18Opt("hu", set, "uv"), HTTPPassword: c18Opt("hp", set, "pq"),
			HostHeaderRewrite: c18Opt("rw", set, "hi"), RouteByHTTPUser: c18Opt("ru", set, "uv")}
		c.CustomDomains, c.SubDomain = c18Strs("dom"), c18Opt("sub", zzverif.Bool("subSet"), "st")
		c.RequestHeaders.Set, c.ResponseHeaders.Set = c18Map("reqH"), c18Map("respH")
		c18Base(&c.ProxyBaseConfig, typ)
		cli = c
	case "https":
		c := &v1.HTTPSProxyConfig{}
		c.CustomDomains, c.SubDomain = c18Strs("dom"), c18Opt("sub", zzverif.Bool("subSet"), "st")
		c18Base(&c.ProxyBaseConfig, typ)
		cli = c
	case "tcpmux":
		set := zzverif.Bool("muxOptsSet")
		c := &v1.TCPMuxProxyConfig{HTTPUser: c18Opt("hu", set, "uv"), HTTPPassword: c18Opt("hp", set, "pq"),
			RouteByHTTPUser: c18Opt("ru", set, "uv"), Multiplexer: []string{"httpconnect", ""}[zzverif.Choice("mux", 2)]}
		c.CustomDomains, c.SubDomain = c18Strs("dom"), c18Opt("sub", zzverif.Bool("subSet"), "st")
		c18Base(&c.ProxyBaseConfig, typ)
		cli = c
	case "stcp":
		c := &v1.STCPProxyConfig{Secretkey: zzverif.StringOf("sk", 2, "sk"), AllowUsers: c18Users("allow")}
		c18Base(&c.ProxyBaseConfig, typ)
		cli = c
	case "xtcp":
		c := &v1.XTCPProxyConfig{Secretkey: zzverif.StringOf("sk", 2, "sk"), AllowUsers: c18Users("allow")}
		c18Base(&c.ProxyBaseConfig, typ)
		cli = c
	default:
		c := &v1.SUDPProxyConfig{Secretkey: zzverif.StringOf("sk", 2, "sk"), AllowUsers: c18Users("allow")}
		c18Base(&c.ProxyBaseConfig, typ)
		cli = c
	}
	cli.Complete("")
	var m msg.NewProxy
	cli.MarshalToMsg(&m)

	srv, err := NewProxyConfigurerFromMsg(&m, scfg)
	if err != nil {
		zzverif.Reach("C18.rt.refused-by-validation")
		return
	}
	zzverif.Reach("C18.rt.accepted")
	zzverif.Assert(c18BaseEq(cli.GetBaseConfig(), srv.GetBaseConfig()), "C18.rt.base-fields-equal")
	switch c := cli.(type) {
	case *v1.TCPProxyConfig:
		s, ok := srv.(*v1.TCPProxyConfig)
		zzverif.Assert(ok && s.RemotePort == c.RemotePort, "C18.rt.tcp")
	case *v1.UDPProxyConfig:
		s, ok := srv.(*v1.UDPProxyConfig)
		zzverif.Assert(ok && s.RemotePort == c.RemotePort, "C18.rt.udp")
	case *v1.HTTPProxyConfig:
		s, ok := srv.(*v1.HTTPProxyConfig)
		zzverif.Assert(ok, "C18.rt.http-type")
		if ok {
			zzverif.Assert(zzverif.And(c18StrsEq(c.CustomDomains, s.CustomDomains), c.SubDomain == s.SubDomain), "C18.rt.http-domains")
			zzverif.Assert(c18StrsEq(c.Locations, s.Locations), "C18.rt.http-locations")
			zzverif.Assert(c.HTTPUser == s.HTTPUser && c.HTTPPassword == s.HTTPPassword && c.HostHeaderRewrite == s.HostHeaderRewrite && c.RouteByHTTPUser == s.RouteByHTTPUser, "C18.rt.http-auth-rewrite-route")
			zzverif.Assert(zzverif.And(c18MapEq(c.RequestHeaders.Set, s.RequestHeaders.Set), c18MapEq(c.ResponseHeaders.Set, s.ResponseHeaders.Set)), "C18.rt.http-headers")
		}
	case *v1.HTTPSProxyConfig:
		s, ok := srv.(*v1.HTTPSProxyConfig)
		zzverif.Assert(ok && zzverif.And(c18StrsEq(c.CustomDomains, s.CustomDomains), c.SubDomain == s.SubDomain), "C18.rt.https")
	case *v1.TCPMuxProxyConfig:
		s, ok := srv.(*v1.TCPMuxProxyConfig)
		zzverif.Assert(ok && zzverif.And(c18StrsEq(c.CustomDomains, s.CustomDomains), c.SubDomain == s.SubDomain && c.Multiplexer == s.Multiplexer && c.HTTPUser == s.HTTPUser && c.HTTPPassword == s.HTTPPassword && c.RouteByHTTPUser == s.RouteByHTTPUser), "C18.rt.tcpmux")
	case *v1.STCPProxyConfig:
		s, ok := srv.(*v1.STCPProxyConfig)
		zzverif.Assert(ok && zzverif.And(len(c.Secretkey) == len(s.Secretkey) && zzverif.StrEq(c.Secretkey, s.Secretkey), c18StrsEq(c.AllowUsers, s.AllowUsers)), "C18.rt.stcp")
	case *v1.XTCPProxyConfig:
		s, ok := srv.(*v1.XTCPProxyConfig)
		zzverif.Assert(ok && zzverif.And(len(c.Secretkey) == len(s.Secretkey) && zzverif.StrEq(c.Secretkey, s.Secretkey), c18StrsEq(c.AllowUsers, s.AllowUsers)), "C18.rt.xtcp")
	case *v1.SUDPProxyConfig:
		s, ok := srv.(*v1.SUDPProxyConfig)
		zzverif.Assert(ok && zzverif.And(len(c.Secretkey) == len(s.Secretkey) && zzverif.StrEq(c.Secretkey, s.Secretkey), c18StrsEq(c.AllowUsers, s.AllowUsers)), "C18.rt.sudp")
	}
	// the default type is tcp
	m2 := msg.NewProxy{ProxyName: "x"}
	d, err := NewProxyConfigurerFromMsg(&m2, scfg)
	_, isTCP := d.(*v1.TCPProxyConfig)
	zzverif.Assert(err == nil && isTCP, "C18.rt.default-type-tcp")
}
