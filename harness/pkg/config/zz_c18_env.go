//go:build verif

package config

import (
	"github.com/fatedier/frp/zzverif"
)

// stub for os.Environ: the environment the process was started with
func c18eStubEnviron() []string {
	return []string{"PLAIN=1", "TOKEN=abc==", "URL=http://h/?a=b&c=d", "EMPTY=", "novalue", "=weird"}
}

// VerifC18Env: every environment variable is available to templates with its full value, also
// when the value itself contains '=' (base64 padding, URLs) or is empty.
func VerifC18Env() {
	envs := GetValues().Envs
	zzverif.Assert(envs["PLAIN"] == "1", "C18.env.plain-value")
	zzverif.Assert(envs["TOKEN"] == "abc==", "C18.env.value-containing-equals-sign-kept-whole")
	zzverif.Assert(envs["URL"] == "http://h/?a=b&c=d", "C18.env.value-with-several-equals-signs-kept-whole")
	v, ok := envs["EMPTY"]
	zzverif.Assert(ok && v == "", "C18.env.empty-value-present")
	_, ok = envs["novalue"]
	zzverif.Assert(!ok, "C18.env.entry-without-equals-sign-skipped")
	zzverif.Reach("C18.env.done")
}
