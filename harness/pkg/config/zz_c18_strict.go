//go:build verif

package config

import (
	"encoding/json"
	"errors"

	v1 "github.com/fatedier/frp/pkg/config/v1"
	"github.com/fatedier/frp/zzverif"
)

// The three parsers are dependencies (reflection-driven) and are replaced by stubs that record, at
// the moment the document is decoded, how strict the decoder was asked to be and what the
// package-level switch consulted by frp's own nested UnmarshalJSON methods says.
var c18s struct {
	format        int // 0 toml, 1 json, 2 yaml
	decodes       int
	decoderStrict bool
	switchAtDec   bool
	jsonStrict    bool
}

func c18sStubTomlUnmarshal(b []byte, v any) error {
	if c18s.format == 0 {
		return nil
	}
	return errors.New("not toml")
}
func c18sStubJSONMarshal(v any) ([]byte, error) { return []byte("{}"), nil }
func c18sStubIsJSONBuffer(b []byte) bool        { return c18s.format != 2 }
func c18sStubDisallow(d *json.Decoder)          { c18s.jsonStrict = true }
func c18sStubDecode(d *json.Decoder, v any) error {
	c18s.decodes++
	c18s.decoderStrict, c18s.switchAtDec = c18s.jsonStrict, v1.DisallowUnknownFields
	return nil
}
func c18sStubYAMLStrict(b []byte, v any) error {
	c18s.decodes++
	c18s.decoderStrict, c18s.switchAtDec = true, v1.DisallowUnknownFields
	return nil
}
func c18sStubYAML(b []byte, v any) error {
	c18s.decodes++
	c18s.decoderStrict, c18s.switchAtDec = false, v1.DisallowUnknownFields
	return nil
}

// VerifC18StrictSwitch: for every sequence of loads, in every format, a document is decoded with
// the decoder AND frp's nested unmarshalers both in exactly the requested mode: unknown fields
// are rejected everywhere in strict mode and ignored everywhere otherwise, whatever was loaded
// before.
func VerifC18StrictSwitch() {
	n := zzverif.Param("loads", 2)
	for i := 0; i < n; i++ {
		c18s.format = zzverif.Choice("format", 3)
		strict := zzverif.Bool("strict")
		c18s.decodes, c18s.jsonStrict = 0, false
		var out v1.ClientCommonConfig
		err := LoadConfigure([]byte("x"), &out, strict)
		zzverif.Assert(err == nil && c18s.decodes == 1, "C18.strict.document-decoded-once")
		zzverif.Assert(c18s.decoderStrict == strict, "C18.strict.decoder-mode-as-requested")
		zzverif.Assert(c18s.switchAtDec == strict, "C18.strict.nested-unmarshalers-see-the-requested-mode")
		if i > 0 {
			zzverif.Reach("C18.strict.second-load")
		}
	}
}
