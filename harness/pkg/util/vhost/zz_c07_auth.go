//go:build verif

package vhost

import (
	"context"
	"errors"
	"net"
	"net/http"
	"net/url"
	"time"

	"github.com/fatedier/frp/zzverif"
)

var c07 struct {
	authUser, authPass string
	authOK             bool
	proxyHdr           string // "" or a sentinel header value
	pUser, pPass       string
	pOK                bool
	forwardedRoute     *RouteConfig
	forwardedInfo      *RequestRouteInfo
	forwards           int
	dialedRoute        string
	status             int
	challenge          bool
	deadlines          int // contexts with a time limit derived while serving the request
}

// stubs for context.WithTimeout / WithDeadline: frp must not put the exchange as a whole under a
// time limit (only the wait for response headers is limited, by the transport)
func c07StubWithTimeout(parent context.Context, d time.Duration) (context.Context, context.CancelFunc) {
	c07.deadlines++
	return context.WithCancel(parent)
}
func c07StubWithDeadline(parent context.Context, d time.Time) (context.Context, context.CancelFunc) {
	c07.deadlines++
	return context.WithCancel(parent)
}

// stub for (*http.Request).BasicAuth: header decoding is net/http's job; any decoded result is possible.
func c07StubBasicAuth(r *http.Request) (string, string, bool) {
	return c07.authUser, c07.authPass, c07.authOK
}

// stub for (http.Header).Get: only Proxy-Authorization is read by the code under test.
func c07StubHeaderGet(h http.Header, key string) string {
	if key == "Proxy-Authorization" {
		return c07.proxyHdr
	}
	return ""
}

// stub for vhost.parseBasicAuth (base64 + split): any decoded result is possible.
func c07StubParseBasicAuth(auth string) (string, string, bool) {
	return c07.pUser, c07.pPass, c07.pOK
}

type c07Handler struct{ rp *HTTPReverseProxy }

func (h *c07Handler) ServeHTTP(rw http.ResponseWriter, req *http.Request) {
	c07.forwards++
	c07.forwardedRoute, _ = req.Context().Value(RouteConfigKey).(*RouteConfig)
	c07.forwardedInfo, _ = req.Context().Value(RouteInfoKey).(*RequestRouteInfo)
	// the transport dials through CreateConnection with the stored route info
	_, _ = h.rp.CreateConnection(c07.forwardedInfo, true)
}

type c07RW struct{ hdr http.Header }

func (w *c07RW) Header() http.Header { return w.hdr }
func (w *c07RW) Write(p []byte) (int, error) {
	return len(p), nil
}
func (w *c07RW) WriteHeader(code int) {
	c07.status = code
	if len(w.hdr["Www-Authenticate"]) > 0 {
		c07.challenge = true
	}
}

func c07Route(id string) RouteConfig {
	rc := RouteConfig{Domain: "h.com", Location: "/"}
	if zzverif.Bool(id + ".userRouted") {
		rc.RouteByHTTPUser = zzverif.StringOf(id+".routeUser", 1, "uv")
	}
	if zzverif.Bool(id + ".protected") {
		rc.Username = zzverif.StringUpTo(id+".user", 1, "uv")
		rc.Password = zzverif.StringUpTo(id+".pass", 1, "pq")
	}
	name := id
	rc.CreateConnFn = func(string) (net.Conn, error) {
		c07.dialedRoute = name
		return nil, errors.New("no backend in harness")
	}
	return rc
}

// VerifC07HTTP: a request reaches a protected route's backend only with exactly that route's
// credentials; the route used for the credential check is the route used to forward.
func VerifC07HTTP() {
	rs := NewRouters()
	rp := &HTTPReverseProxy{vhostRouter: rs}
	rp.proxy = &c07Handler{rp}
	nroutes := 1 + zzverif.Choice("routes", 2)
	var routes []*RouteConfig
	for i := 0; i < nroutes; i++ {
		rc := c07Route([]string{"r0", "r1"}[i])
		if rp.Register(rc) == nil {
			routes = append(routes, &rc)
		}
	}
	c07.authOK = zzverif.Bool("hasAuthorization")
	c07.authUser, c07.authPass = "", ""
	if c07.authOK {
		c07.authUser = zzverif.StringUpTo("authUser", 1, "uv")
		c07.authPass = zzverif.StringUpTo("authPass", 1, "pq")
	}
	absolute := zzverif.Bool("absoluteForm")
	c07.proxyHdr, c07.pUser, c07.pPass, c07.pOK = "", "", "", false
	if zzverif.Bool("hasProxyAuthorization") {
		c07.proxyHdr = "Basic xx"
		c07.pOK = zzverif.Bool("proxyAuthDecodes")
		if c07.pOK {
			c07.pUser = zzverif.StringUpTo("pUser", 1, "uv")
			c07.pPass = zzverif.StringUpTo("pPass", 1, "pq")
		}
	}
	c07.forwards, c07.forwardedRoute, c07.forwardedInfo, c07.dialedRoute, c07.status, c07.challenge = 0, nil, nil, "", 0, false
	c07.deadlines = 0
	u := &url.URL{Path: "/x"}
	if absolute {
		u.Host = "h.com"
	}
	req := &http.Request{Method: "GET", Host: "h.com", URL: u, Header: http.Header{}, RemoteAddr: "9.9.9.9:1"}
	rw := &c07RW{hdr: http.Header{}}

	rp.ServeHTTP(rw, req)

	if c07.forwards == 0 {
		zzverif.Assert(c07.status == 401 && c07.challenge, "C07.http.refusal-is-a-challenge")
		zzverif.Assert(c07.dialedRoute == "", "C07.http.refused-request-reaches-no-backend")
		zzverif.Reach("C07.http.challenged")
		return
	}
	zzverif.Assert(c07.forwards == 1, "C07.http.forwarded-once")
	zzverif.Assert(c07.deadlines == 0, "C02.serve.exchange-not-put-under-a-time-limit")
	R := c07.forwardedRoute
	if R == nil {
		zzverif.Assert(c07.dialedRoute == "", "C07.http.no-route-no-backend")
		zzverif.Reach("C07.http.no-route")
		return
	}
	// the route in the request context is the one the transport dials
	var dialed *RouteConfig
	for i, r := range routes {
		_ = i
		if r.RouteByHTTPUser == R.RouteByHTTPUser && r.Domain == R.Domain {
			dialed = r
		}
	}
	zzverif.Assert(dialed != nil, "C07.http.forward-route-registered")
	protected := R.Username != "" || R.Password != ""
	if protected {
		zzverif.Reach("C07.http.protected-forwarded")
		// the credentials may be presented in Authorization, or (proxy requests) in Proxy-Authorization
		exact := zzverif.And(c07.authOK, zzverif.And(zzverif.StrEq(c07.authUser, R.Username), zzverif.StrEq(c07.authPass, R.Password)))
		exactProxy := zzverif.And(absolute && c07.pOK, zzverif.And(zzverif.StrEq(c07.pUser, R.Username), zzverif.StrEq(c07.pPass, R.Password)))
		zzverif.Assert(zzverif.Or(exact, exactProxy), "C07.http.protected-backend-only-with-exact-credentials")
	} else {
		zzverif.Reach("C07.http.unprotected-forwarded")
	}
}

// VerifC06DecodedPath: locations are matched against the decoded path of the request - the same
// text the credential check uses - so a path segment that needs escaping on the wire ("/a b",
// "/café") selects the route registered for it, and the route checked is the route dialled.
func VerifC06DecodedPath() {
	rs := NewRouters()
	rp := &HTTPReverseProxy{vhostRouter: rs}
	rp.proxy = &c07Handler{rp}
	loc := []string{"/a b", "/café", "/plain"}[zzverif.Choice("location", 3)]
	mk := func(name, location, user string) RouteConfig {
		rc := RouteConfig{Domain: "h.com", Location: location, Username: user, Password: user}
		rc.CreateConnFn = func(string) (net.Conn, error) {
			c07.dialedRoute = name
			return nil, errors.New("no backend in harness")
		}
		return rc
	}
	zzverif.Assume(rp.Register(mk("root", "/", "")) == nil)
	zzverif.Assume(rp.Register(mk("loc", loc, "u")) == nil)
	c07.authOK = zzverif.Bool("hasAuthorization")
	c07.authUser, c07.authPass = "", ""
	if c07.authOK {
		c07.authUser, c07.authPass = "u", "u"
	}
	c07.proxyHdr, c07.pUser, c07.pPass, c07.pOK = "", "", "", false
	c07.forwards, c07.forwardedRoute, c07.forwardedInfo, c07.dialedRoute, c07.status, c07.challenge = 0, nil, nil, "", 0, false
	under := zzverif.Bool("underTheLocation")
	path := "/other/x"
	if under {
		path = loc + "/x"
	}
	req := &http.Request{Method: "GET", Host: "h.com", URL: &url.URL{Path: path}, Header: http.Header{}, RemoteAddr: "9.9.9.9:1"}
	rp.ServeHTTP(&c07RW{hdr: http.Header{}}, req)
	switch {
	case !under:
		zzverif.Assert(c07.forwards == 1 && c07.dialedRoute == "root", "C06.path.request-outside-the-location-goes-to-the-root-route")
		zzverif.Reach("C06.path.root")
	case !c07.authOK:
		zzverif.Assert(c07.forwards == 0 && c07.status == 401 && c07.dialedRoute == "", "C07.path.protected-location-challenges-also-when-its-path-needs-escaping")
		zzverif.Reach("C06.path.challenged")
	default:
		zzverif.Assert(c07.forwards == 1 && c07.dialedRoute == "loc", "C06.path.request-under-a-location-reaches-that-location's-backend")
		if loc != "/plain" {
			zzverif.Reach("C06.path.escaped-location")
		}
	}
}
