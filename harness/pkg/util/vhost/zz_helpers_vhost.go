//go:build verif

package vhost

import (
	"net"

	"github.com/fatedier/frp/zzverif"
)

// harness accessors (overlay only)

func (v *Muxer) ZZHandle(c net.Conn) { v.handle(c) }

func (v *Muxer) ZZSetVhostFunc(f func(net.Conn) (net.Conn, map[string]string, error)) {
	v.vhostFunc = f
}

func (v *Muxer) ZZRoutes() int {
	v.registryRouter.mutex.RLock()
	defer v.registryRouter.mutex.RUnlock()
	n := 0
	for _, byUser := range v.registryRouter.indexByDomain {
		for _, rs := range byUser {
			n += len(rs)
		}
	}
	return n
}

// ZZNewReverseProxy builds the reverse proxy without the net/http machinery.
func ZZNewReverseProxy(rs *Routers) *HTTPReverseProxy { return &HTTPReverseProxy{vhostRouter: rs} }

func (r *Routers) ZZCount() int {
	r.mutex.RLock()
	defer r.mutex.RUnlock()
	n := 0
	for _, byUser := range r.indexByDomain {
		for _, rs := range byUser {
			n += len(rs)
		}
	}
	return n
}

func (r *Routers) ZZHas(domain, location, user string) bool {
	r.mutex.RLock()
	defer r.mutex.RUnlock()
	_, ok := r.exist(domain, location, user)
	return ok
}

// ZZRouteUsername returns the Username of the RouteConfig registered for exactly this triple ("" + false if none).
func (r *Routers) ZZRouteUsername(domain, location, user string) (string, bool) {
	r.mutex.RLock()
	defer r.mutex.RUnlock()
	vr, ok := r.exist(domain, location, user)
	if !ok {
		return "", false
	}
	if rc, ok := vr.payload.(*RouteConfig); ok {
		return rc.Username, true
	}
	return "?", true
}

func (r *Routers) ZZGuard(name string) { zzverif.Guard(r.indexByDomain, &r.mutex, name) }

func (v *Muxer) ZZGuard(name string) { v.registryRouter.ZZGuard(name) }

// ZZListenerCreds returns the credentials of the listener registered in the muxer for exactly
// (domain, "", routeUser).
func (v *Muxer) ZZListenerCreds(domain, routeUser string) (user, pass string, ok bool) {
	v.registryRouter.mutex.RLock()
	defer v.registryRouter.mutex.RUnlock()
	vr, found := v.registryRouter.exist(domain, "", routeUser)
	if !found {
		return "", "", false
	}
	l, isL := vr.payload.(*Listener)
	if !isL {
		return "?", "?", true
	}
	return l.username, l.password, true
}

// ZZPayload returns what was registered with the route.
func (r *Router) ZZPayload() any { return r.payload }
