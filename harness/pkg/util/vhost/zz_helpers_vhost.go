//go:build verif

package vhost

import "net"

// harness accessors (overlay only)

func (v *Muxer) ZZHandle(c net.Conn) { v.handle(c) }

func (v *Muxer) ZZSetVhostFunc(f func(net.Conn) (net.Conn, map[string]string, error)) { v.vhostFunc = f }

func (v *Muxer) ZZRoutes() int {
	n := 0
	for _, byUser := range v.registryRouter.indexByDomain {
		for _, rs := range byUser {
			n += len(rs)
		}
	}
	return n
}
