//go:build verif

package vhost

import (
	"github.com/fatedier/frp/zzverif"
)

// VerifC16RouterLocks: the vhost route table is read by every user request and written by every
// registration and closure, from different goroutines; each access to the outer table and to the
// per-domain tables inside it must hold the table's lock (Go aborts the process on an
// unsynchronised concurrent map access).
func VerifC16RouterLocks() {
	r := NewRouters()
	zzverif.Assume(r.Add("d.com", "/", "", 1) == nil)
	zzverif.Assume(r.Add("e.com", "/", "u", 2) == nil)
	r.ZZGuard("vhost.Routers.indexByDomain")
	r.mutex.RLock()
	inner1, inner2 := r.indexByDomain["d.com"], r.indexByDomain["e.com"]
	r.mutex.RUnlock()
	zzverif.Guard(inner1, &r.mutex, "vhost.Routers.indexByDomain[d.com]")
	zzverif.Guard(inner2, &r.mutex, "vhost.Routers.indexByDomain[e.com]")
	host := []string{"d.com", "e.com", "x.com"}[zzverif.Choice("host", 3)]
	user := []string{"", "u"}[zzverif.Choice("user", 2)]
	switch zzverif.Choice("op", 3) {
	case 0:
		_, _ = r.Get(host, "/p", user)
	case 1:
		_ = r.Add(host, "/q", user, 3)
	default:
		r.Del(host, "/", user)
	}
	zzverif.Reach("C16.routers.done")
}
