//go:build verif

package vhost

import (
	"context"
	"errors"
	"io"
	stdlog "log"
	"net"
	"net/http"
	"net/http/httputil"
	"net/url"
	"time"

	"golang.org/x/net/http2"

	"github.com/fatedier/frp/zzverif"
)

var c02RP *httputil.ReverseProxy

// stub for h2c.NewHandler: captures the *httputil.ReverseProxy frp built
func c02StubH2C(h http.Handler, s *http2.Server) http.Handler {
	c02RP, _ = h.(*httputil.ReverseProxy)
	return h
}
func c02StubLogNew(out io.Writer, prefix string, flag int) *stdlog.Logger { return nil }

type c02Timeout struct{ timeout bool }

func (e c02Timeout) Error() string   { return "net err" }
func (e c02Timeout) Timeout() bool   { return e.timeout }
func (e c02Timeout) Temporary() bool { return false }

var _ net.Error = c02Timeout{}

type c02RW struct {
	hdr    http.Header
	status int
	body   int
}

func (w *c02RW) Header() http.Header         { return w.hdr }
func (w *c02RW) Write(p []byte) (int, error) { w.body += len(p); return len(p), nil }
func (w *c02RW) WriteHeader(code int)        { w.status = code }

func c02Proxy() *httputil.ReverseProxy {
	c02RP = nil
	NewHTTPReverseProxy(HTTPReverseProxyOptions{}, NewRouters())
	return c02RP
}

// VerifC02Rewrite: frp's request rewrite hook changes exactly what the configuration declares.
func VerifC02Rewrite() {
	rp := c02Proxy()
	zzverif.Assume(rp != nil)
	rewriteHost := zzverif.StringUpTo("rewriteHost", 1, "hx")
	hv := zzverif.StringUpTo("setValue", 2, "ab")
	rc := &RouteConfig{Domain: "d.com", Location: zzverif.StringUpTo("loc", 1, "/a"), RouteByHTTPUser: zzverif.StringUpTo("ruser", 1, "u"), RewriteHost: rewriteHost}
	if zzverif.Bool("setsHeader") {
		rc.Headers = map[string]string{"X-Set": hv}
	}
	hasRoute := zzverif.Bool("routeFound")
	var rcv *RouteConfig
	if hasRoute {
		rcv = rc
	}
	info := &RequestRouteInfo{Host: "d.com:80", URL: "/p", RemoteAddr: "9.9.9.9:1234"}
	ctx := context.WithValue(context.Background(), RouteInfoKey, info)
	ctx = context.WithValue(ctx, RouteConfigKey, rcv)
	keep := zzverif.StringUpTo("keepValue", 2, "ab")
	in := &http.Request{Method: "POST", Host: "d.com:80", RemoteAddr: "9.9.9.9:1234",
		URL: &url.URL{Path: "/p", RawQuery: "q=1"}, Header: http.Header{"X-Keep": []string{keep}, "X-Set": []string{"old"}}}
	priorXFF := zzverif.Bool("priorXFF")
	if priorXFF {
		in.Header["X-Forwarded-For"] = []string{"1.1.1.1", "2.2.2.2"}
	}
	in = in.WithContext(ctx)
	out := in.Clone(ctx)
	out.Header.Del("X-Forwarded-For") // what httputil does before calling Rewrite
	rp.Rewrite(&httputil.ProxyRequest{In: in, Out: out})

	zzverif.Assert(out.Method == "POST" && out.URL.Path == "/p" && out.URL.RawQuery == "q=1", "C02.rewrite.method-path-query-untouched")
	zzverif.Assert(out.URL.Scheme == "http", "C02.rewrite.scheme")
	zzverif.Assert(len(out.Header["X-Keep"]) == 1 && out.Header["X-Keep"][0] == keep, "C02.rewrite.other-headers-untouched")
	xff := out.Header["X-Forwarded-For"]
	if priorXFF {
		zzverif.Assert(len(xff) == 1 && xff[0] == "1.1.1.1, 2.2.2.2, 9.9.9.9", "C02.rewrite.xff-extended-by-user-address")
	} else {
		zzverif.Assert(len(xff) == 1 && xff[0] == "9.9.9.9", "C02.rewrite.xff-is-user-address")
	}
	if !hasRoute {
		zzverif.Assert(out.Host == "d.com:80" && out.URL.Host == "d.com:80", "C02.rewrite.no-route-host-unchanged")
		zzverif.Assert(out.Header["X-Set"][0] == "old", "C02.rewrite.no-route-headers-unchanged")
		zzverif.Reach("C02.rewrite.no-route")
		return
	}
	if rewriteHost != "" {
		zzverif.Assert(out.Host == rewriteHost, "C02.rewrite.host-rewritten-as-declared")
		zzverif.Reach("C02.rewrite.host-rewritten")
	} else {
		zzverif.Assert(out.Host == "d.com:80", "C02.rewrite.host-unchanged-when-not-declared")
	}
	if rc.Headers != nil {
		zzverif.Assert(len(out.Header["X-Set"]) == 1 && out.Header["X-Set"][0] == hv, "C02.rewrite.declared-header-set")
		zzverif.Reach("C02.rewrite.header-set")
	} else {
		zzverif.Assert(out.Header["X-Set"][0] == "old", "C02.rewrite.undeclared-header-untouched")
	}
}

// VerifC02PoolKey: the synthetic URL host under which backend connections are pooled is
// injective in (domain, location, user): two routes never share idle connections.
func VerifC02PoolKey() {
	rp := c02Proxy()
	zzverif.Assume(rp != nil)
	maxS := zzverif.Param("maxStr", 2)
	key := func(tag string) (string, string, string, string, string) {
		dom := []string{"d.com", "e.com"}[zzverif.Choice(tag+".dom", 2)]
		loc := zzverif.StringUpTo(tag+".loc", maxS, "/a.")
		usr := zzverif.StringUpTo(tag+".user", maxS, "u.")
		rc := &RouteConfig{Domain: dom, Location: loc, RouteByHTTPUser: usr}
		// a load-balancing group chooses the member (endpoint) per request
		ep := []string{"", "m1", "m2"}[zzverif.Choice(tag+".endpoint", 3)]
		if ep != "" {
			rc.ChooseEndpointFn = func() (string, error) { return ep, nil }
		}
		info := &RequestRouteInfo{Host: dom, URL: "/", RemoteAddr: "9.9.9.9:1"}
		ctx := context.WithValue(context.WithValue(context.Background(), RouteInfoKey, info), RouteConfigKey, rc)
		in := (&http.Request{Method: "GET", Host: dom, RemoteAddr: "9.9.9.9:1", URL: &url.URL{Path: "/"}, Header: http.Header{}}).WithContext(ctx)
		out := in.Clone(ctx)
		rp.Rewrite(&httputil.ProxyRequest{In: in, Out: out})
		zzverif.Assert(info.Endpoint == ep, "C13.poolkey.request-dialled-through-the-chosen-member")
		return out.URL.Host, dom, loc, usr, ep
	}
	k1, d1, l1, u1, e1 := key("r1")
	k2, d2, l2, u2, e2 := key("r2")
	same := d1 == d2 && e1 == e2 && len(l1) == len(l2) && len(u1) == len(u2) && zzverif.And(zzverif.StrEq(l1, l2), zzverif.StrEq(u1, u2))
	if len(k1) == len(k2) {
		zzverif.Assert(zzverif.Implies(zzverif.StrEq(k1, k2), same), "C02.poolkey.injective")
	}
	if e1 != e2 {
		zzverif.Reach("C13.poolkey.two-members")
	}
	zzverif.Reach("C02.poolkey.done")
}

// VerifC02Response: response hook sets the declared headers only; error hook maps
// timeouts to 504 and everything else to the not-found page.
func VerifC02Response() {
	rp := c02Proxy()
	zzverif.Assume(rp != nil)
	v := zzverif.StringUpTo("respValue", 2, "ab")
	keep := zzverif.StringUpTo("keep", 2, "ab")
	rc := &RouteConfig{}
	if zzverif.Bool("setsRespHeader") {
		rc.ResponseHeaders = map[string]string{"X-Resp": v}
	}
	var rcv *RouteConfig
	if zzverif.Bool("routeFound") {
		rcv = rc
	}
	ctx := context.WithValue(context.Background(), RouteConfigKey, rcv)
	req := (&http.Request{Header: http.Header{}}).WithContext(ctx)
	status := zzverif.IntRange("status", 100, 599)
	resp := &http.Response{StatusCode: status, Header: http.Header{"X-Keep": []string{keep}, "X-Resp": []string{"old"}}, Request: req}
	err := rp.ModifyResponse(resp)
	zzverif.Assert(err == nil && resp.StatusCode == status, "C02.resp.status-untouched")
	zzverif.Assert(resp.Header["X-Keep"][0] == keep, "C02.resp.other-headers-untouched")
	if rcv != nil && rc.ResponseHeaders != nil {
		zzverif.Assert(len(resp.Header["X-Resp"]) == 1 && resp.Header["X-Resp"][0] == v, "C02.resp.declared-header-set")
		zzverif.Reach("C02.resp.header-set")
	} else {
		zzverif.Assert(resp.Header["X-Resp"][0] == "old", "C02.resp.undeclared-untouched")
	}
	// error mapping
	var e error
	switch zzverif.Choice("errKind", 3) {
	case 0:
		e = c02Timeout{timeout: true}
	case 1:
		e = c02Timeout{timeout: false}
	default:
		e = errors.New("dial failed")
	}
	rw := &c02RW{hdr: http.Header{}}
	rp.ErrorHandler(rw, &http.Request{Host: "d.com", Header: http.Header{}}, e)
	if te, ok := e.(c02Timeout); ok && te.timeout {
		zzverif.Assert(rw.status == 504 && rw.body == 0, "C02.err.timeout-is-gateway-timeout")
		zzverif.Reach("C02.err.timeout")
	} else {
		zzverif.Assert(rw.status == 404 && rw.body > 0, "C02.err.unreachable-is-not-found-page")
		zzverif.Reach("C02.err.notfound")
	}
}

// VerifC02Transport: the transport frp gives the reverse proxy bounds only the wait for response
// headers (by the configured timeout) and puts no cap on concurrent backend connections, so a
// slow or hung backend request cannot delay other requests.
func VerifC02Transport() {
	secs := []int64{0, 1, 30, 60, 3600}[zzverif.Choice("timeoutSeconds", 5)]
	c02RP = nil
	NewHTTPReverseProxy(HTTPReverseProxyOptions{ResponseHeaderTimeoutS: secs}, NewRouters())
	zzverif.Assume(c02RP != nil)
	tr, ok := c02RP.Transport.(*http.Transport)
	zzverif.Assert(ok && tr != nil, "C02.transport.http-transport")
	if !ok {
		return
	}
	want := time.Duration(secs) * time.Second
	if secs <= 0 {
		want = 60 * time.Second
	}
	zzverif.Assert(tr.ResponseHeaderTimeout == want, "C02.transport.response-header-timeout-as-configured")
	zzverif.Assert(tr.MaxConnsPerHost == 0, "C02.transport.no-cap-on-concurrent-backend-connections")
	zzverif.Assert(!tr.DisableKeepAlives && tr.DialContext != nil, "C02.transport.dials-through-the-tunnel")
	zzverif.Assert(tr.ExpectContinueTimeout == 0 && tr.TLSHandshakeTimeout == 0, "C02.transport.no-other-time-limits")
	zzverif.Reach("C02.transport.done")
}
