//go:build verif

package vhost

import (
	"errors"

	"github.com/fatedier/frp/zzverif"
)

var c02nf struct {
	fail    bool
	content []byte
	asked   []string
}

// stub for os.ReadFile
func c02nfStubReadFile(name string) ([]byte, error) {
	c02nf.asked = append(c02nf.asked, name)
	if c02nf.fail {
		return nil, errors.New("open: no such file or directory")
	}
	return c02nf.content, nil
}

// VerifC02NotFoundPage: what a user is shown for an unknown route, an unreachable backend or a
// failed CONNECT is the configured page when it can be read and the built-in page otherwise - never
// an empty 404.
func VerifC02NotFoundPage() {
	saved := NotFoundPagePath
	defer func() { NotFoundPagePath = saved }()
	custom := zzverif.Bool("customPageConfigured")
	c02nf.fail = zzverif.Bool("unreadable")
	c02nf.content = zzverif.Bytes("page", zzverif.Choice("pageLen", 3))
	c02nf.asked = nil
	NotFoundPagePath = ""
	if custom {
		NotFoundPagePath = "/etc/frp/404.html"
	}
	res := NotFoundResponse()
	zzverif.Assert(res != nil && res.StatusCode == 404, "C02.notfound.status-404")
	if res == nil {
		return
	}
	got := getNotFoundPageContent()
	switch {
	case !custom:
		zzverif.Assert(len(c02nf.asked) == 0, "C02.notfound.no-file-read-without-a-configured-page")
		zzverif.Assert(string(got) == NotFound, "C02.notfound.built-in-page-by-default")
		zzverif.Assert(res.ContentLength == int64(len(NotFound)), "C02.notfound.length-announced-matches-the-page")
		zzverif.Reach("C02.notfound.default")
	case c02nf.fail:
		zzverif.Assert(string(got) == NotFound, "C02.notfound.built-in-page-when-the-configured-page-is-unreadable")
		zzverif.Assert(res.ContentLength == int64(len(NotFound)), "C02.notfound.length-announced-matches-the-page")
		zzverif.Reach("C02.notfound.unreadable")
	default:
		zzverif.Assert(zzverif.BytesEq(got, c02nf.content), "C02.notfound.configured-page-served-unchanged")
		zzverif.Assert(res.ContentLength == int64(len(c02nf.content)), "C02.notfound.length-announced-matches-the-page")
		zzverif.Reach("C02.notfound.custom")
	}
	for _, n := range c02nf.asked {
		zzverif.Assert(n == "/etc/frp/404.html", "C02.notfound.reads-the-configured-file")
	}
}
