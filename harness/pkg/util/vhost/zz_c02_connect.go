//go:build verif

package vhost

import (
	"bufio"
	"context"
	"errors"
	"io"
	"net"
	"net/http"
	"net/url"
	"time"

	"github.com/fatedier/frp/zzverif"
)

type c02cConn struct {
	name      string
	closed    int
	deadlines []time.Time // every deadline armed through any of the three setters, in order
	gotReq    int
	gotResp   []int
}

func (c *c02cConn) Read(p []byte) (int, error)  { return 0, io.EOF }
func (c *c02cConn) Write(p []byte) (int, error) { return len(p), nil }
func (c *c02cConn) Close() error                { c.closed++; return nil }
func (c *c02cConn) LocalAddr() net.Addr         { return nil }
func (c *c02cConn) RemoteAddr() net.Addr        { return nil }
func (c *c02cConn) SetDeadline(t time.Time) error {
	c.deadlines = append(c.deadlines, t)
	return nil
}
func (c *c02cConn) SetReadDeadline(t time.Time) error {
	c.deadlines = append(c.deadlines, t)
	return nil
}
func (c *c02cConn) SetWriteDeadline(t time.Time) error {
	c.deadlines = append(c.deadlines, t)
	return nil
}

// a deadline is left armed if the last setter call carried a non-zero instant
func (c *c02cConn) armed() bool {
	return len(c.deadlines) > 0 && !c.deadlines[len(c.deadlines)-1].IsZero()
}

type c02cRW struct {
	hdr       http.Header
	status    int
	client    *c02cConn
	hijackErr bool
}

func (w *c02cRW) Header() http.Header         { return w.hdr }
func (w *c02cRW) Write(p []byte) (int, error) { return len(p), nil }
func (w *c02cRW) WriteHeader(code int)        { w.status = code }
func (w *c02cRW) Hijack() (net.Conn, *bufio.ReadWriter, error) {
	if w.hijackErr {
		return nil, nil, errors.New("hijack failed")
	}
	return w.client, nil, nil
}

var c02c struct {
	joinA, joinB io.ReadWriteCloser
	joins        int
}

// stubs: net/http serialisation and the golib pump are dependencies
func c02cStubReqWrite(r *http.Request, w io.Writer) error {
	if c, ok := w.(*c02cConn); ok {
		c.gotReq++
	}
	return nil
}
func c02cStubRespWrite(r *http.Response, w io.Writer) error {
	if c, ok := w.(*c02cConn); ok {
		c.gotResp = append(c.gotResp, r.StatusCode)
	}
	return nil
}
func c02cStubJoin(a, b io.ReadWriteCloser) (int64, int64, []error) {
	c02c.joinA, c02c.joinB = a, b
	c02c.joins++
	return 0, 0, nil
}

// VerifC02Connect: a CONNECT through the vhost port becomes a byte-transparent tunnel to the
// routed backend, or the user gets the not-found answer and is disconnected; the tunnel is
// handed to the pump with no deadline left armed on either side.
func VerifC02Connect() {
	routers := NewRouters()
	rp := NewHTTPReverseProxy(HTTPReverseProxyOptions{ResponseHeaderTimeoutS: 60}, routers)
	remote := &c02cConn{name: "remote"}
	routeExists := zzverif.Bool("routeExists")
	dialFails := zzverif.Bool("backendUnreachable")
	if routeExists {
		err := rp.Register(RouteConfig{Domain: "d.com", Location: "", CreateConnFn: func(string) (net.Conn, error) {
			if dialFails {
				return nil, errors.New("no work connection")
			}
			return remote, nil
		}})
		zzverif.Assume(err == nil)
	}
	client := &c02cConn{name: "client"}
	rw := &c02cRW{hdr: http.Header{}, client: client, hijackErr: zzverif.Bool("hijackFails")}
	info := &RequestRouteInfo{Host: "d.com:443", URL: "", RemoteAddr: "9.9.9.9:1"}
	req := (&http.Request{Method: "CONNECT", Host: "d.com:443", URL: &url.URL{Host: "d.com:443"}, Header: http.Header{}}).
		WithContext(context.WithValue(context.Background(), RouteInfoKey, info))
	c02c.joins, c02c.joinA, c02c.joinB = 0, nil, nil
	rp.connectHandler(rw, req)
	zzverif.Quiesce()

	switch {
	case rw.hijackErr:
		zzverif.Assert(rw.status == http.StatusInternalServerError && c02c.joins == 0, "C02.connect.hijack-failure-answered")
	case !routeExists || dialFails:
		zzverif.Assert(len(client.gotResp) == 1 && client.gotResp[0] == http.StatusNotFound, "C02.connect.unreachable-backend-gets-not-found")
		zzverif.Assert(client.closed == 1 && c02c.joins == 0, "C02.connect.refused-user-disconnected")
		zzverif.Reach("C02.connect.not-found")
	default:
		zzverif.Assert(remote.gotReq == 1, "C02.connect.request-forwarded-to-backend-once")
		zzverif.Assert(c02c.joins == 1 && c02c.joinA == io.ReadWriteCloser(remote) && c02c.joinB == io.ReadWriteCloser(client), "C02.connect.tunnel-joins-backend-and-user")
		zzverif.Assert(remote.closed == 0 && client.closed == 0, "C02.connect.tunnel-left-open")
		zzverif.Assert(!remote.armed() && !client.armed(), "C02.connect.no-deadline-left-armed-on-the-tunnel")
		zzverif.Reach("C02.connect.tunnel")
	}
}
