//go:build verif

package vhost

import (
	"strings"

	httppkg "github.com/fatedier/frp/pkg/util/http"
	"github.com/fatedier/frp/zzverif"
)

const c06Alpha = "abA"

type c06Route struct {
	kind   int      // 0 exact, 1 wildcard ("*." + fixed labels), 2 catch-all "*"
	labels []string // fixed labels
	domain string
	loc    string
	user   string
	live   bool // accepted by Add and not deleted
}

func c06Label(name string, w int) string { return zzverif.StringOf(name, w, c06Alpha) }

func c06MakeRoute(w int, maxLoc int) *c06Route {
	r := &c06Route{}
	shape := zzverif.Choice("dshape", zzverif.Param("shapes", 5))
	if zzverif.Param("shapes", 5) == 4 && shape == 3 {
		shape = 4 // quick: exact2, exact3, *.+2 labels, catch-all
	}
	switch shape {
	case 0, 1: // exact, 2 or 3 labels
		n := 2 + shape
		for i := 0; i < n; i++ {
			r.labels = append(r.labels, c06Label("dl", w))
		}
		r.domain = strings.Join(r.labels, ".")
	case 2, 3: // wildcard with 2 or 3 fixed labels
		r.kind = 1
		n := shape
		for i := 0; i < n; i++ {
			r.labels = append(r.labels, c06Label("dl", w))
		}
		r.domain = "*." + strings.Join(r.labels, ".")
	default:
		r.kind = 2
		r.domain = "*"
	}
	r.loc = zzverif.StringUpTo("loc", maxLoc, "/a")
	if zzverif.Bool("ruser.set") {
		r.user = zzverif.StringOf("ruser", 1, "uv")
	}
	return r
}

func c06LowerEq(a, b string) bool {
	return zzverif.StrEq(strings.ToLower(a), strings.ToLower(b))
}

// reference: does route r match request (host labels, path, user)?
func (r *c06Route) matches(hl []string, path, user string) bool {
	if !r.live {
		return false
	}
	m := true
	switch r.kind {
	case 0:
		if len(r.labels) != len(hl) {
			return false
		}
		for i := range hl {
			m = zzverif.And(m, c06LowerEq(r.labels[i], hl[i]))
		}
	case 1:
		f := len(r.labels)
		if f < 2 || len(hl) < f+1 {
			return false
		}
		for i := 0; i < f; i++ {
			m = zzverif.And(m, c06LowerEq(r.labels[i], hl[len(hl)-f+i]))
		}
	}
	if r.user != "" {
		if len(user) != len(r.user) {
			return false
		}
		m = zzverif.And(m, zzverif.StrEq(r.user, user))
	}
	return zzverif.And(m, strings.HasPrefix(path, r.loc))
}

func (r *c06Route) rank() int {
	c := 0
	switch r.kind {
	case 0:
		c = 1000
	case 1:
		c = 10 + len(r.labels)
	}
	u := 0
	if r.user != "" {
		u = 1
	}
	return c*100 + u*10 + len(r.loc)
}

func (r *c06Route) sameTriple(o *c06Route) bool {
	if len(r.user) != len(o.user) || len(r.loc) != len(o.loc) || len(r.domain) != len(o.domain) {
		return false
	}
	return zzverif.And(zzverif.StrEq(r.user, o.user), zzverif.And(c06LowerEq(r.domain, o.domain), zzverif.StrEq(r.loc, o.loc)))
}

func c06Build(rs *Routers, k, w, maxLoc int) []*c06Route {
	var routes []*c06Route
	for i := 0; i < k; i++ {
		r := c06MakeRoute(w, maxLoc)
		dup := false
		for _, o := range routes {
			if o.live {
				dup = zzverif.Or(dup, r.sameTriple(o))
			}
		}
		err := rs.Add(r.domain, r.loc, r.user, i)
		zzverif.Assert((err != nil) == dup, "C06.dup.refused-iff-duplicate-triple")
		if err != nil {
			zzverif.Assert(err == ErrRouterConfigConflict, "C06.dup.error")
			zzverif.Reach("C06.dup.refused")
		} else {
			r.live = true
		}
		routes = append(routes, r)
	}
	return routes
}

func c06Request(w int, maxPath int) (host string, hl []string, path, user string) {
	n := 2 + zzverif.Choice("hlabels", zzverif.Param("hostShapes", 3))
	for i := 0; i < n; i++ {
		hl = append(hl, c06Label("hl", w))
	}
	host = strings.Join(hl, ".")
	path = zzverif.StringUpTo("path", maxPath, "/a")
	if zzverif.Bool("quser.set") {
		user = zzverif.StringOf("quser", 1, "uvw")
	}
	return
}

func c06CheckLookup(routes []*c06Route, got int, found bool, hl []string, path, user string, label string) {
	if !found {
		for _, r := range routes {
			zzverif.Assert(!r.matches(hl, path, user), label+".unmatched-only-if-no-route-matches")
		}
		zzverif.Reach(label + ".none")
		return
	}
	zzverif.Assert(got >= 0 && got < len(routes), label+".payload")
	sel := routes[got]
	zzverif.Assert(sel.matches(hl, path, user), label+".selected-route-matches")
	for i, r := range routes {
		if i != got {
			zzverif.Assert(zzverif.Implies(r.matches(hl, path, user), r.rank() <= sel.rank()), label+".most-specific")
			if r.live && r.rank() < sel.rank() {
				zzverif.Reach(label + ".beats-other")
			}
		}
	}
	zzverif.Reach(label + ".found")
}

// VerifC06HTTPTable: k Adds then one lookup through the HTTP reverse proxy's route search.
func VerifC06HTTPTable() {
	k := zzverif.Param("routes", 2)
	w := zzverif.Param("labelBytes", 1)
	rs := NewRouters()
	routes := c06Build(rs, k, w, zzverif.Param("maxLoc", 2))
	rp := &HTTPReverseProxy{vhostRouter: rs}
	host, hl, path, user := c06Request(w, zzverif.Param("maxPath", 3))
	// request host decoration handled by CanonicalHost: optional :port and trailing dot
	switch zzverif.Choice("decor", zzverif.Param("decor", 4)) {
	case 1:
		host += ":80"
	case 2:
		host += "."
	case 3:
		host += ".:8080"
	}
	ch, err := httppkg.CanonicalHost(host)
	zzverif.Assert(err == nil, "C06.canon.no-error")
	vr, ok := rp.getVhost(ch, path, user)
	got := -1
	if ok {
		got = vr.payload.(int)
	}
	c06CheckLookup(routes, got, ok, hl, path, user, "C06.http")
}

// VerifC06MuxTable: same through the https/tcpmux Muxer's listener search.
func VerifC06MuxTable() {
	k := zzverif.Param("routes", 2)
	w := zzverif.Param("labelBytes", 1)
	rs := NewRouters()
	routes := c06Build(rs, k, w, zzverif.Param("maxLoc", 2))
	// getListener asserts payloads to *Listener: wrap indices
	ls := make([]*Listener, len(routes))
	for dom, byUser := range rs.indexByDomain {
		_ = dom
		for _, vrs := range byUser {
			for _, vr := range vrs {
				i := vr.payload.(int)
				ls[i] = &Listener{name: routes[i].domain}
				vr.payload = ls[i]
			}
		}
	}
	mux := &Muxer{registryRouter: rs}
	host, hl, path, user := c06Request(w, zzverif.Param("maxPath", 3))
	// Muxer.handle lower-cases host and path before the lookup
	l, ok := mux.getListener(strings.ToLower(host), path, user)
	_ = host
	got := -1
	if ok {
		for i := range ls {
			if ls[i] == l {
				got = i
			}
		}
	}
	c06CheckLookup(routes, got, ok, hl, path, user, "C06.mux")
}

// VerifC06Del: removing a route affects exactly that triple, from the next lookup on,
// and re-registration hands the triple to the new owner.
func VerifC06Del() {
	k := zzverif.Param("routes", 2)
	w := zzverif.Param("labelBytes", 1)
	rs := NewRouters()
	routes := c06Build(rs, k, w, zzverif.Param("maxLoc", 2))
	rp := &HTTPReverseProxy{vhostRouter: rs}
	d := zzverif.Choice("del", k)
	zzverif.Assume(routes[d].live)
	// Del is called with the owner's configured strings (any letter case)
	rs.Del(routes[d].domain, routes[d].loc, routes[d].user)
	routes[d].live = false
	host, hl, path, user := c06Request(w, zzverif.Param("maxPath", 3))
	vr, ok := rp.getVhost(strings.ToLower(host), path, user)
	got := -1
	if ok {
		got = vr.payload.(int)
	}
	zzverif.Assert(got != d, "C06.del.former-owner-unreachable")
	c06CheckLookup(routes, got, ok, hl, path, user, "C06.del")
	// re-register the same triple for a new owner
	err := rs.Add(routes[d].domain, routes[d].loc, routes[d].user, k)
	zzverif.Assert(err == nil, "C06.del.reregister-succeeds")
	nr := *routes[d]
	nr.live = true
	routes2 := append(append([]*c06Route(nil), routes...), &nr)
	vr, ok = rp.getVhost(strings.ToLower(host), path, user)
	got = -1
	if ok {
		got = vr.payload.(int)
	}
	zzverif.Assert(got != d, "C06.del.former-owner-unreachable-after-reregister")
	c06CheckLookup(routes2, got, ok, hl, path, user, "C06.readd")
}

// VerifC06Canon: CanonicalHost lower-cases and strips an optional port and trailing dot.
func VerifC06Canon() {
	n := 1 + zzverif.Choice("len", zzverif.Param("maxHost", 4))
	name := zzverif.StringOf("h", n, "aZ9-.")
	zzverif.Assume(name[len(name)-1] != '.')
	want := strings.ToLower(name)
	for d := 0; d < 4; d++ {
		in := name
		switch d {
		case 1:
			in += ":" + zzverif.StringOf("port", 2, "0189")
		case 2:
			in += "."
		case 3:
			in += ".:" + zzverif.StringOf("port", 1, "0189")
		}
		got, err := httppkg.CanonicalHost(in)
		zzverif.Assert(err == nil, "C06.canon.total")
		zzverif.Assert(zzverif.StrEq(got, want), "C06.canon.lower-port-dot")
	}
	zzverif.Reach("C06.canon.done")
}

// VerifSelfVhost: translator validation kernel.
func VerifSelfVhost() {
	for _, h := range []string{"Example.COM", "example.com:8080", "example.com.", "a.b.:1", "[::1]:80", "UP.case.:65535"} {
		c, err := httppkg.CanonicalHost(h)
		zzverif.Observe("canon:"+h, c, err != nil)
	}
	rs := NewRouters()
	zzverif.Observe("add", rs.Add("a.example.com", "/", "", 1) == nil, rs.Add("A.example.com", "/", "", 2) == nil,
		rs.Add("*.example.com", "/api", "", 3) == nil, rs.Add("*.example.com", "/", "u", 4) == nil, rs.Add("*", "", "", 5) == nil,
		rs.Add("a.example.com", "/x/y", "", 6) == nil, rs.Add("a.example.com", "/x", "", 7) == nil)
	rp := &HTTPReverseProxy{vhostRouter: rs}
	for _, q := range [][3]string{{"a.example.com", "/x/y/z", ""}, {"a.example.com", "/x/z", ""}, {"b.example.com", "/api/1", ""}, {"b.example.com", "/q", "u"},
		{"b.example.com", "/q", ""}, {"c.d.example.com", "/api", "v"}, {"other.org", "/", ""}, {"example.com", "/", ""}} {
		vr, ok := rp.getVhost(q[0], q[1], q[2])
		p := -1
		if ok {
			p = vr.payload.(int)
		}
		zzverif.Observe("get:"+q[0]+q[1]+":"+q[2], ok, p)
	}
	rs.Del("a.example.com", "/x/y", "")
	vr, ok := rp.getVhost("a.example.com", "/x/y/z", "")
	zzverif.Observe("afterdel", ok, vr.payload.(int))
}
