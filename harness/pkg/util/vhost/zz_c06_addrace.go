//go:build verif

package vhost

import (
	"github.com/fatedier/frp/zzverif"
)

// VerifC06AddRace: two proxies registering the same (host, location, user) triple at the same moment
// (every interleaving within the preemption bound): exactly one registration succeeds, the table
// holds one route for the triple, and removing it leaves nothing behind.
func VerifC06AddRace() {
	zzverif.SetPreempt(zzverif.Param("preempt", 1))
	r := NewRouters()
	domain := []string{"a.com", "A.com"}[zzverif.Choice("spelling", 2)]
	var e1, e2 error
	done := false
	go func() {
		e2 = r.Add(domain, "/", "", "second")
		done = true
	}()
	e1 = r.Add("a.com", "/", "", "first")
	zzverif.Quiesce()
	zzverif.Assert(done, "C06.addrace.both-registrations-return")
	zzverif.Assert((e1 == nil) != (e2 == nil), "C06.addrace.exactly-one-of-two-simultaneous-registrations-succeeds")
	zzverif.Assert(r.ZZCount() == 1, "C06.addrace.one-route-for-the-triple")
	r.Del("a.com", "/", "")
	zzverif.Assert(r.ZZCount() == 0, "C06.addrace.removal-leaves-nothing")
	zzverif.Reach("C06.addrace.done")
}
