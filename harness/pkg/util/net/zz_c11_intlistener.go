//go:build verif

package net

import (
	"net"

	"github.com/fatedier/frp/zzverif"
)

type c11iConn struct {
	net.Conn
	closed int
}

func (c *c11iConn) Close() error { c.closed++; return nil }

// VerifC11InternalListener: the in-process listener that carries visitor connections to secret
// proxies (and the ssh gateway's connections): a connection that was accepted into its queue (the
// visitor was already told "success") is handed out by Accept or closed - also when the listener is
// closed while connections are still queued; after Close nothing is taken any more and the giver is
// told so.
func VerifC11InternalListener() {
	l := NewInternalListener()
	n := zzverif.Choice("queuedBeforeClose", 3)
	var queued []*c11iConn
	for i := 0; i < n; i++ {
		c := &c11iConn{}
		zzverif.Assert(l.PutConn(c) == nil, "C11.intlistener.open-listener-takes-the-connection")
		queued = append(queued, c)
	}
	served := 0
	if n > 0 && zzverif.Bool("oneServedBeforeClose") {
		c, err := l.Accept()
		zzverif.Assert(err == nil && c == net.Conn(queued[0]), "C11.intlistener.first-in-first-out")
		served = 1
	}
	_ = l.Close()
	late := &c11iConn{}
	zzverif.Assert(l.PutConn(late) != nil, "C11.intlistener.closed-listener-refuses-and-says-so")
	_ = l.Close() // closing twice is harmless
	// the accept loop of the owner keeps calling Accept until it reports the end
	var got []net.Conn
	for i := 0; i < n+1; i++ {
		c, err := l.Accept()
		if err != nil {
			break
		}
		got = append(got, c)
	}
	for i := served; i < n; i++ {
		handed := false
		for _, g := range got {
			if g == net.Conn(queued[i]) {
				handed = true
			}
		}
		zzverif.Assert(handed || queued[i].closed >= 1, "C11.intlistener.queued-connection-is-handed-out-or-closed-when-the-listener-closes")
		zzverif.Reach("C11.intlistener.queued-at-close")
	}
	_, err := l.Accept()
	zzverif.Assert(err != nil, "C11.intlistener.accept-ends-after-close")
	zzverif.Reach("C11.intlistener.done")
}
