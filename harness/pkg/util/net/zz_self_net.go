//go:build verif

package net

import (
	"net"
	"time"

	"github.com/fatedier/frp/zzverif"
)

// VerifSelfNet: translator validation kernel for the pieces of net / net/netip / time the
// harnesses rely on (address formatting through netip's interned zones, host/port splitting,
// duration arithmetic). The same code runs natively and in the interpreter.
func VerifSelfNet() {
	for _, ip := range []net.IP{net.IPv4(9, 9, 9, 9), net.IPv4(127, 0, 0, 1), net.ParseIP("::1"), nil} {
		zzverif.Observe("ip", ip.String(), len(ip))
	}
	a := &net.TCPAddr{IP: net.IPv4(10, 0, 0, 7), Port: 8080}
	u := &net.UDPAddr{Port: 53}
	zzverif.Observe("addr", a.String(), u.String(), a.Network(), u.Network())
	for _, s := range []string{"1.2.3.4:80", "[::1]:443", "host:", ":9", "nohost", "a:b:c"} {
		h, p, err := net.SplitHostPort(s)
		zzverif.Observe("split:"+s, h, p, err != nil)
	}
	zzverif.Observe("join", net.JoinHostPort("1.2.3.4", "80"), net.JoinHostPort("::1", "443"), net.JoinHostPort("", "9"))
	d := 90 * time.Second
	zzverif.Observe("dur", int64(d), int64(d/time.Millisecond), d > time.Minute, int64(time.Duration(3)*time.Second))
	var zero time.Time
	zzverif.Observe("zero", zero.IsZero(), zero.Add(time.Second).IsZero(), zero.Add(2*time.Second).After(zero.Add(time.Second)))
}
