//go:build verif

package net

import (
	"io"
	"net"
	"time"

	"github.com/fatedier/frp/zzverif"
)

type c10Conn struct {
	closed   int
	closeErr bool // the transport reports an error from Close (reset by the peer, already closed by the stack)
}

func (c *c10Conn) Read(p []byte) (int, error)         { return 0, io.EOF }
func (c *c10Conn) Write(p []byte) (int, error)        { return len(p), nil }
func (c *c10Conn) Close() error {
	c.closed++
	if c.closeErr {
		return io.ErrClosedPipe
	}
	return nil
}
func (c *c10Conn) LocalAddr() net.Addr                { return nil }
func (c *c10Conn) RemoteAddr() net.Addr               { return nil }
func (c *c10Conn) SetDeadline(t time.Time) error      { return nil }
func (c *c10Conn) SetReadDeadline(t time.Time) error  { return nil }
func (c *c10Conn) SetWriteDeadline(t time.Time) error { return nil }

// VerifC10Wrappers: closing a wrapper 1..3 times closes the wrapped transport exactly once
// and runs the callback exactly once; a closed internal listener takes no more connections.
func VerifC10Wrappers() {
	times := 1 + zzverif.Choice("closes", 3)
	kind := zzverif.Choice("wrapper", 3)
	under := &c10Conn{closeErr: zzverif.Bool("transportCloseReportsAnError")}
	cb := 0
	var w net.Conn
	switch kind {
	case 0:
		w = WrapCloseNotifyConn(under, func() { cb++ })
	case 1:
		w = WrapStatsConn(under, func(r, wr int64) { cb++ })
	default:
		w = WrapReadWriteCloserToConn(under, under)
		cb = 1
	}
	for i := 0; i < times; i++ {
		_ = w.Close()
	}
	if kind != 2 {
		zzverif.Assert(under.closed == 1, "C10.wrap.transport-closed-exactly-once")
		zzverif.Assert(cb == 1, "C10.wrap.callback-exactly-once")
	} else {
		zzverif.Assert(under.closed == times, "C10.wrap.rwc-close-propagates")
	}
	zzverif.Reach("C10.wrap.done")

	// internal listener
	l := NewInternalListener()
	c1 := &c10Conn{}
	zzverif.Assert(l.PutConn(c1) == nil && l.ZZPending() == 1, "C10.listener.accepts-while-open")
	closes := 1 + zzverif.Choice("lclose", 2)
	for i := 0; i < closes; i++ {
		_ = l.Close()
	}
	c2 := &c10Conn{}
	err := l.PutConn(c2)
	zzverif.Assert(err != nil, "C10.listener.closed-listener-refuses")
	got, e2 := l.Accept()
	zzverif.Assert(e2 == nil && got == net.Conn(c1), "C10.listener.queued-conn-still-delivered")
	_, e3 := l.Accept()
	zzverif.Assert(e3 != nil, "C10.listener.closed-after-drain")
}

// VerifC16WrapperCloseRace: both ends of a bridged pair drop at the same moment: two goroutines
// close the same wrapper concurrently (every interleaving within the preemption bound). The
// wrapped transport is closed once and the close callback - which for websocket connections is
// close(notifyCh) and would panic the process when run twice - runs exactly once.
func VerifC16WrapperCloseRace() {
	zzverif.SetPreempt(zzverif.Param("preempt", 1))
	under := &c10Conn{}
	notify := make(chan struct{})
	cb := 0
	var w net.Conn
	stats := zzverif.Bool("statsConn")
	if stats {
		w = WrapStatsConn(under, func(r, wr int64) { cb++ })
	} else {
		w = WrapCloseNotifyConn(under, func() { cb++; close(notify) })
	}
	done := 0
	for i := 0; i < 2; i++ {
		go func() { _ = w.Close(); done++ }()
	}
	_ = w.Close()
	zzverif.Quiesce()
	zzverif.Assert(done == 2, "C16.wraprace.every-close-returns")
	zzverif.Assert(cb == 1, "C16.wraprace.callback-exactly-once")
	zzverif.Assert(under.closed == 1, "C16.wraprace.transport-closed-exactly-once")
	zzverif.Reach("C16.wraprace.done")
}
