//go:build verif

package net

import (
	"crypto/tls"
	"io"
	"net"
	"time"

	"github.com/fatedier/frp/zzverif"
)

type c05Conn struct {
	first   byte
	second  byte // what follows the first byte on the wire
	n       int
	pos     int // bytes taken from the wire so far
	readErr bool
	reads   int
}

func (c *c05Conn) Read(p []byte) (int, error) {
	c.reads++
	if c.readErr {
		return 0, io.ErrUnexpectedEOF
	}
	if c.n == 0 || len(p) == 0 {
		return 0, nil
	}
	if c.pos == 0 {
		p[0] = c.first
	} else {
		p[0] = c.second
	}
	c.pos++
	return 1, nil
}
func (c *c05Conn) Write(p []byte) (int, error)        { return len(p), nil }
func (c *c05Conn) Close() error                       { return nil }
func (c *c05Conn) LocalAddr() net.Addr                { return nil }
func (c *c05Conn) RemoteAddr() net.Addr               { return nil }
func (c *c05Conn) SetDeadline(t time.Time) error      { return nil }
func (c *c05Conn) SetReadDeadline(t time.Time) error  { return nil }
func (c *c05Conn) SetWriteDeadline(t time.Time) error { return nil }

var c05TLSUnder []net.Conn

// stub for crypto/tls.Server: records which connection object TLS is layered on
func c05StubTLSServer(conn net.Conn, config *tls.Config) *tls.Conn {
	c05TLSUnder = append(c05TLSUnder, conn)
	return &tls.Conn{}
}

// VerifC05Sniff: first-byte dispatch of a new control connection.
func VerifC05Sniff() {
	raw := &c05Conn{first: zzverif.Byte("firstByte"), second: zzverif.Byte("secondByte"), n: zzverif.Choice("n", 2), readErr: zzverif.Bool("readErr")}
	force := zzverif.Bool("forceTLS")
	c05TLSUnder = nil
	out, isTLS, custom, err := CheckAndEnableTLSServerConnWithTimeout(raw, &tls.Config{}, force, time.Second)
	if raw.readErr {
		zzverif.Assert(err != nil && out == nil, "C05.sniff.read-error")
		return
	}
	got := raw.n == 1
	switch {
	case got && raw.first == 0x17:
		zzverif.Assert(err == nil && isTLS && custom, "C05.sniff.custom-byte-is-tls")
		zzverif.Assert(len(c05TLSUnder) == 1 && c05TLSUnder[0] == net.Conn(raw), "C05.sniff.custom-byte-consumed")
		// whatever follows the head byte belongs to the TLS layer: nothing more is read or interpreted here
		zzverif.Assert(raw.pos == 1, "C05.sniff.only-the-head-byte-is-taken-from-the-wire")
		zzverif.Reach("C05.sniff.custom")
	case got && raw.first == 0x16:
		zzverif.Assert(err == nil && isTLS && !custom, "C05.sniff.handshake-byte-is-tls")
		zzverif.Assert(len(c05TLSUnder) == 1 && c05TLSUnder[0] != net.Conn(raw), "C05.sniff.handshake-byte-replayed")
		zzverif.Reach("C05.sniff.standard")
	default:
		if force {
			zzverif.Assert(err != nil && out == nil, "C05.sniff.forced-tls-refuses-plaintext")
			zzverif.Reach("C05.sniff.refused")
		} else {
			zzverif.Assert(err == nil && !isTLS && out != nil && out != net.Conn(raw), "C05.sniff.plaintext-byte-replayed")
			zzverif.Assert(len(c05TLSUnder) == 0, "C05.sniff.plaintext-no-tls")
			if got {
				// the shared connection replays the sniffed byte
				b := make([]byte, 1)
				n, _ := out.Read(b)
				zzverif.Assert(n == 1 && b[0] == raw.first, "C01.sniff.first-byte-not-lost")
			}
			zzverif.Reach("C05.sniff.plain")
		}
	}
}
