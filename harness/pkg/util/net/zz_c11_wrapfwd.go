//go:build verif

package net

import (
	"context"
	"io"
	"net"
	"time"

	"github.com/quic-go/quic-go"

	"github.com/fatedier/frp/zzverif"
)

type c11wAddr struct{ s string }

func (a c11wAddr) Network() string { return "tcp" }
func (a c11wAddr) String() string  { return a.s }

// the transport connection below a layered stream: remembers which deadline was set last
type c11wConn struct {
	rd, wr, both int // number of SetReadDeadline / SetWriteDeadline / SetDeadline calls
	lastRd       time.Time
	lastWr       time.Time
	closed       int
}

func (c *c11wConn) Read(p []byte) (int, error)    { return 0, io.EOF }
func (c *c11wConn) Write(p []byte) (int, error)   { return len(p), nil }
func (c *c11wConn) Close() error                  { c.closed++; return nil }
func (c *c11wConn) LocalAddr() net.Addr           { return c11wAddr{"10.0.0.1:7000"} }
func (c *c11wConn) RemoteAddr() net.Addr          { return c11wAddr{"198.51.100.7:4242"} }
func (c *c11wConn) SetDeadline(t time.Time) error { c.both++; c.lastRd, c.lastWr = t, t; return nil }
func (c *c11wConn) SetReadDeadline(t time.Time) error {
	c.rd++
	c.lastRd = t
	return nil
}
func (c *c11wConn) SetWriteDeadline(t time.Time) error {
	c.wr++
	c.lastWr = t
	return nil
}

// a quic stream that records how it is ended
type c11wStream struct {
	cancelRead, cancelWrite, closed int
	order                            []string
}

func (s *c11wStream) StreamID() quic.StreamID        { return 0 }
func (s *c11wStream) Read(p []byte) (int, error)     { return 0, io.EOF }
func (s *c11wStream) Write(p []byte) (int, error)    { return len(p), nil }
func (s *c11wStream) CancelRead(quic.StreamErrorCode) { s.cancelRead++; s.order = append(s.order, "cancelRead") }
func (s *c11wStream) CancelWrite(quic.StreamErrorCode) {
	s.cancelWrite++
	s.order = append(s.order, "cancelWrite")
}
func (s *c11wStream) Close() error                       { s.closed++; s.order = append(s.order, "close"); return nil }
func (s *c11wStream) Context() context.Context           { return context.Background() }
func (s *c11wStream) SetDeadline(t time.Time) error      { return nil }
func (s *c11wStream) SetReadDeadline(t time.Time) error  { return nil }
func (s *c11wStream) SetWriteDeadline(t time.Time) error { return nil }

// VerifC11WrapperForwarding: the connection wrappers frp puts around layered streams answer with the
// transport's own addresses (the user's real address is what gets announced) and pass each deadline
// on to the same deadline of the transport (a read deadline that arms the write side leaves a blocked
// read blocked); closing a quic stream wrapper ends the read side, finishes the write side gracefully
// (data already written still arrives, followed by end-of-stream) and does so once.
func VerifC11WrapperForwarding() {
	under := &c11wConn{}
	rwc := &c11wConn{}
	w := WrapReadWriteCloserToConn(rwc, under)
	zzverif.Assert(w.RemoteAddr().String() == "198.51.100.7:4242", "C11.wrapfwd.remote-address-is-the-transport's-remote-address")
	zzverif.Assert(w.LocalAddr().String() == "10.0.0.1:7000", "C11.wrapfwd.local-address-is-the-transport's-local-address")
	t1 := time.Time{}.Add(time.Duration(1 + zzverif.Choice("deadline", 3)))
	switch zzverif.Choice("which", 3) {
	case 0:
		_ = w.SetReadDeadline(t1)
		zzverif.Assert(under.rd == 1 && under.wr == 0 && under.both == 0 && under.lastRd.Equal(t1), "C02.wrapfwd.read-deadline-arms-the-transport's-read-side-only")
	case 1:
		_ = w.SetWriteDeadline(t1)
		zzverif.Assert(under.wr == 1 && under.rd == 0 && under.both == 0 && under.lastWr.Equal(t1), "C02.wrapfwd.write-deadline-arms-the-transport's-write-side-only")
	default:
		_ = w.SetDeadline(t1)
		zzverif.Assert(under.lastRd.Equal(t1) && under.lastWr.Equal(t1), "C02.wrapfwd.deadline-arms-both-sides")
	}
	w.SetRemoteAddr(c11wAddr{"203.0.113.9:1"})
	zzverif.Assert(w.RemoteAddr().String() == "203.0.113.9:1", "C11.wrapfwd.explicit-remote-address-wins")
	_ = w.Close()
	zzverif.Assert(rwc.closed == 1, "C10.wrapfwd.close-reaches-the-stream")

	// without a transport below: addresses are nil addresses, deadlines are refused
	w2 := WrapReadWriteCloserToConn(rwc, nil)
	zzverif.Assert(w2.SetReadDeadline(t1) != nil && w2.SetWriteDeadline(t1) != nil && w2.SetDeadline(t1) != nil, "C02.wrapfwd.no-transport-no-deadline")

	st := &c11wStream{}
	q := QuicStreamToNetConn(st, nil)
	_ = q.Close()
	zzverif.Assert(st.cancelRead == 1, "C14.wrapfwd.quic-close-ends-the-read-side")
	zzverif.Assert(st.cancelWrite == 0, "C01.wrapfwd.quic-close-does-not-reset-the-write-side")
	zzverif.Assert(st.closed == 1, "C01.wrapfwd.quic-close-finishes-the-write-side-once")
	zzverif.Reach("C11.wrapfwd.done")
}
