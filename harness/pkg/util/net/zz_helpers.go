//go:build verif

package net

import "net"

// harness accessors (overlay only; not part of /repo)

func (l *InternalListener) ZZPending() int { return len(l.acceptCh) }

func (l *InternalListener) ZZTake() net.Conn {
	select {
	case c := <-l.acceptCh:
		return c
	default:
		return nil
	}
}

func (l *InternalListener) ZZClosed() bool { return l.closed }
