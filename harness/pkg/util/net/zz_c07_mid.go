//go:build verif

package net

import (
	"net/http"

	"github.com/fatedier/frp/zzverif"
)

var c07mid struct {
	user, pass string
	ok         bool
	served     int
	status     int
	challenge  bool
}

func c07midStubBasicAuth(r *http.Request) (string, string, bool) {
	return c07mid.user, c07mid.pass, c07mid.ok
}

type c07midRW struct{ hdr http.Header }

func (w *c07midRW) Header() http.Header         { return w.hdr }
func (w *c07midRW) Write(p []byte) (int, error) { return len(p), nil }
func (w *c07midRW) WriteHeader(code int) {
	c07mid.status = code
	c07mid.challenge = len(w.hdr["Www-Authenticate"]) > 0
}

// VerifC07Middleware: dashboard / admin API / static_file protection.
func VerifC07Middleware() {
	cfgUser := zzverif.StringUpTo("cfgUser", 2, "ab")
	cfgPass := zzverif.StringUpTo("cfgPass", 2, "pq")
	c07mid.ok = zzverif.Bool("hasAuth")
	c07mid.user, c07mid.pass = "", ""
	if c07mid.ok {
		c07mid.user = zzverif.StringUpTo("reqUser", 2, "ab")
		c07mid.pass = zzverif.StringUpTo("reqPass", 2, "pq")
	}
	c07mid.served, c07mid.status, c07mid.challenge = 0, 0, false
	h := NewHTTPAuthMiddleware(cfgUser, cfgPass).Middleware(http.HandlerFunc(func(w http.ResponseWriter, r *http.Request) { c07mid.served++ }))
	// whatever the request looks like otherwise: any method, any path
	method := []string{"GET", "POST", "PUT", "DELETE", "OPTIONS", "HEAD", "PATCH", "CONNECT", ""}[zzverif.Choice("method", 9)]
	h.ServeHTTP(&c07midRW{hdr: http.Header{}}, &http.Request{Method: method, Header: http.Header{}, RequestURI: []string{"/", "/metrics", "/api/reload", "*"}[zzverif.Choice("target", 4)]})
	open := cfgUser == "" && cfgPass == ""
	exact := zzverif.And(c07mid.ok, zzverif.And(zzverif.StrEq(c07mid.user, cfgUser), zzverif.StrEq(c07mid.pass, cfgPass)))
	if c07mid.served == 1 {
		zzverif.Assert(zzverif.Or(open, exact), "C07.mid.served-only-with-exact-credentials")
		zzverif.Reach("C07.mid.served")
	} else {
		zzverif.Assert(c07mid.served == 0 && c07mid.status == 401 && c07mid.challenge, "C07.mid.refusal-is-a-challenge")
		zzverif.Assert(!open, "C07.mid.open-endpoint-serves")
		zzverif.Assert(zzverif.Not(exact), "C07.mid.exact-credentials-served")
		zzverif.Reach("C07.mid.challenged")
	}
}
