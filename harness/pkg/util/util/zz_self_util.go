//go:build verif

package util

import "github.com/fatedier/frp/zzverif"

// VerifSelfUtil: translator validation kernel (concrete vectors from the repo's own tests).
func VerifSelfUtil() {
	for _, s := range []string{"2-5", "1", "3-5,8", " 1-3,5-6,10 ", "3-2", "x", "1-2-3", "", "10-12,,"} {
		n, err := ParseRangeNumbers(s)
		zzverif.Observe("ParseRangeNumbers:"+s, len(n), err != nil)
		for _, v := range n {
			zzverif.Observe("v", v)
		}
	}
	zzverif.Observe("CanonicalAddr", CanonicalAddr("h", 80), CanonicalAddr("h", 8080), CanonicalAddr("::1", 443))
	zzverif.Observe("ConstEq", ConstantTimeEqString("abc", "abc"), ConstantTimeEqString("abc", "abd"), ConstantTimeEqString("", "a"))
	zzverif.Observe("GenErr", GenerateResponseErrorString("sum", nil, false))
}
