//go:build verif

package util

import (
	"crypto/rand"
	"errors"
	"io"

	"github.com/fatedier/frp/zzverif"
)

// an entropy source that (as io.Reader permits) returns fewer bytes than asked for
type c12Source struct {
	data  []byte
	pos   int
	chunk int
	fail  bool
}

func (s *c12Source) Read(p []byte) (int, error) {
	if s.fail && s.pos > 0 {
		return 0, errors.New("entropy source failed")
	}
	n := len(p)
	if n > s.chunk {
		n = s.chunk
	}
	if n > len(s.data)-s.pos {
		n = len(s.data) - s.pos
	}
	copy(p, s.data[s.pos:s.pos+n])
	s.pos += n
	return n, nil
}

// stub for crypto/rand.Read by its documented definition ("Read is a helper function that calls
// Reader.Read using io.ReadFull"); the engine otherwise models it as a source of fresh bytes
func c12StubRandRead(b []byte) (int, error) { return io.ReadFull(rand.Reader, b) }

// VerifC12RunID: a fresh run id is made of as many random bytes as its length asks for, all of them
// taken from the entropy source - whatever chunking the source delivers in - and a failing source
// yields an error, not a weak id.
func VerifC12RunID() {
	saved := rand.Reader
	defer func() { rand.Reader = saved }()
	src := &c12Source{data: zzverif.Bytes("entropy", 9), chunk: 1 + zzverif.Choice("chunk", 9), fail: zzverif.Bool("sourceFails")}
	rand.Reader = src
	id, err := RandID()
	if src.fail && src.chunk < 9 {
		zzverif.Assert(err != nil, "C12.runid.failing-source-is-an-error")
		zzverif.Reach("C12.runid.failed")
		return
	}
	zzverif.Assert(err == nil && len(id) == 16, "C12.runid.sixteen-characters")
	if err != nil || len(id) != 16 {
		return
	}
	const hexd = "0123456789abcdef"
	for i := 0; i < 8; i++ {
		b := src.data[i]
		zzverif.Assert(id[2*i] == hexd[b>>4] && id[2*i+1] == hexd[b&15], "C12.runid.every-character-comes-from-the-entropy-source")
	}
	zzverif.Reach("C12.runid.made")
	if src.chunk < 9 {
		zzverif.Reach("C12.runid.short-reads")
	}
}

// VerifC07ConstantTimeEq: the comparison used for tokens, signatures and passwords says "equal"
// exactly for identical strings: same length, same bytes (NUL bytes and prefixes included).
func VerifC07ConstantTimeEq() {
	a := zzverif.StringUpTo("a", 3, "a\x00")
	b := zzverif.StringUpTo("b", 3, "a\x00")
	got := ConstantTimeEqString(a, b)
	same := len(a) == len(b) && zzverif.StrEq(a, b)
	zzverif.Assert(zzverif.Iff(got, same), "C07.consteq.equal-iff-identical")
	if len(a) != len(b) {
		zzverif.Reach("C07.consteq.different-lengths")
	}
	zzverif.Reach("C07.consteq.done")
}
