//go:build verif

package wait

import (
	"errors"
	"time"

	"github.com/fatedier/frp/zzverif"
)

var c14l struct {
	ch      chan time.Time
	resets  []time.Duration
	created []time.Duration
	stopped int
}

// stubs for the ticker of the retry loop: one channel, fed by the harness; Reset (Go >= 1.23
// semantics, which frp's go.mod selects) leaves no tick of the earlier period behind
func c14lStubNewTicker(d time.Duration) *time.Ticker {
	c14l.created = append(c14l.created, d)
	if d <= 0 {
		panic(errors.New("non-positive interval for NewTicker"))
	}
	return &time.Ticker{C: c14l.ch}
}
func c14lStubReset(t *time.Ticker, d time.Duration) {
	if d <= 0 {
		panic("non-positive interval for Ticker.Reset")
	}
	select {
	case <-c14l.ch:
	default:
	}
	c14l.resets = append(c14l.resets, d)
}
func c14lStubStop(t *time.Ticker) { c14l.stopped++ }

// VerifC14RetryLoop: frp's own retry loop (BackoffUntil, which paces every login attempt, and
// Until, which paces heartbeats): the function is called again only after a tick of a ticker that
// was re-armed, after the call returned, with exactly the delay the backoff manager asked for;
// a tick of the earlier period that fell while the call was running does not shorten the wait; the
// loop ends at success or at the stop signal without a further call.
func VerifC14RetryLoop() {
	c14l.ch = make(chan time.Time, 1)
	c14l.resets, c14l.created, c14l.stopped = nil, nil, 0
	n := 1 + zzverif.Choice("failuresBeforeTheEnd", zzverif.Param("attempts", 3))
	endsByStop := zzverif.Bool("endsByStop")
	sliding := zzverif.Bool("sliding")
	staleTick := zzverif.Bool("aTickFallsWhileTheCallRuns")
	stop := make(chan struct{})
	var asked []time.Duration // what the manager answered, in order
	calls := 0
	bm := BackoffFunc(func(prev time.Duration, prevErr bool) time.Duration {
		d := time.Duration(1+len(asked)) * time.Second
		asked = append(asked, d)
		return d
	})
	var resetsAtCall []int
	f := func() (bool, error) {
		resetsAtCall = append(resetsAtCall, len(c14l.resets))
		calls++
		if staleTick {
			select {
			case c14l.ch <- time.Time{}:
			default:
			}
		}
		if calls > n {
			return true, nil
		}
		return false, errors.New("login failed")
	}
	finished := false
	go func() {
		BackoffUntil(f, bm, sliding, stop)
		finished = true
	}()
	for i := 0; i < n; i++ {
		zzverif.Quiesce()
		// the loop is waiting now: it must not have gone on by itself
		zzverif.Assert(calls == i+1 && !finished, "C14.loop.next-attempt-waits-for-the-tick-of-the-re-armed-ticker")
		if calls != i+1 || finished {
			return
		}
		zzverif.Assert(len(c14l.resets) == i+1, "C14.loop.ticker-re-armed-after-every-failed-attempt")
		if endsByStop && i == n-1 {
			close(stop)
		} else {
			c14l.ch <- time.Time{}
		}
	}
	zzverif.Quiesce()
	zzverif.Assert(finished, "C14.loop.ends-at-success-or-stop")
	if endsByStop {
		zzverif.Assert(calls == n, "C14.loop.no-attempt-after-the-stop-signal")
		zzverif.Reach("C14.loop.stopped")
	} else {
		zzverif.Assert(calls == n+1, "C14.loop.one-attempt-per-tick")
		zzverif.Reach("C14.loop.succeeded")
	}
	zzverif.Assert(c14l.stopped == 1, "C14.loop.ticker-released")
	// the delay armed after attempt i is the manager's answer computed for that wait: in sliding mode
	// the one asked for after the attempt, otherwise the one asked for before it
	for i, d := range c14l.resets {
		k := i + 1 // asked[0] is the initial period of the ticker
		zzverif.Assert(k < len(asked) && d == asked[k], "C14.loop.waits-exactly-the-delay-the-backoff-manager-gave")
		zzverif.Assert(resetsAtCall[i] == i, "C14.loop.re-armed-after-the-attempt-returned")
	}
	if staleTick {
		zzverif.Reach("C14.loop.stale-tick")
	}
}
