//go:build verif

package limit

import (
	"context"
	"errors"

	"golang.org/x/time/rate"

	"github.com/fatedier/frp/zzverif"
)

// ghost state shared by the stubs and fakes of the C01 limiter harnesses
var c01 struct {
	burst      int
	waitFailAt int // index of the WaitN call that fails (-1: never)
	waitCalls  int
	events     []int // >0: WaitN(n) granted ; <0: -(bytes handed to the wrapped writer/reader) ; 0 entries are encoded as 1<<30 / -(1<<30)
}

var errC01 = errors.New("c01 injected failure")

func c01StubBurst(l *rate.Limiter) int { return c01.burst }

func c01StubWaitN(l *rate.Limiter, ctx context.Context, n int) error {
	k := c01.waitCalls
	c01.waitCalls++
	if k == c01.waitFailAt {
		return errC01
	}
	c01.events = append(c01.events, n+1) // n+1 > 0 even for n == 0
	return nil
}

type c01Sink struct {
	data    []byte
	calls   int
	failAt  int // Write call index that fails (-1 never)
	shortBy int // how many bytes fewer the failing call accepts
}

func (s *c01Sink) Write(p []byte) (int, error) {
	k := s.calls
	s.calls++
	if k == s.failAt {
		n := len(p) - s.shortBy
		if n < 0 {
			n = 0
		}
		s.data = append(s.data, p[:n]...)
		c01.events = append(c01.events, -(n + 1))
		return n, errC01
	}
	s.data = append(s.data, p...)
	c01.events = append(c01.events, -(len(p) + 1))
	return len(p), nil
}

// VerifC01Writer: limit.Writer.Write splits a payload into chunks of at most one
// burst, asks the limiter for exactly the chunk size before handing the chunk on,
// and never loses, duplicates, reorders or alters bytes.
func VerifC01Writer() {
	maxLen := zzverif.Param("maxLen", 6)
	n := zzverif.Choice("len", maxLen+1)
	p := zzverif.Bytes("p", n)
	orig := append([]byte(nil), p...)
	c01.burst = zzverif.IntRange("burst", 1, maxLen+1)
	c01.waitFailAt = zzverif.IntRange("waitFailAt", -1, maxLen)
	c01.waitCalls = 0
	c01.events = nil
	sink := &c01Sink{failAt: zzverif.IntRange("sinkFailAt", -1, maxLen), shortBy: zzverif.IntRange("shortBy", 0, maxLen+1)}

	w := NewWriter(sink, nil)
	got, err := w.Write(p)

	// nothing lost / duplicated / reordered / altered: sink is a prefix of the payload
	zzverif.Assert(len(sink.data) <= len(orig), "C01.writer.prefix-len")
	for i := range sink.data {
		if i < len(orig) {
			zzverif.Assert(sink.data[i] == orig[i], "C01.writer.prefix-bytes")
		}
	}
	zzverif.Assert(got == len(sink.data), "C01.writer.count")
	if err == nil {
		zzverif.Assert(len(sink.data) == len(orig), "C01.writer.complete")
		zzverif.Reach("C01.writer.ok")
	} else {
		zzverif.Reach("C01.writer.err")
	}
	// token discipline: events alternate WaitN(k) then write of <= k bytes, k <= burst
	tokens, sent := 0, 0
	for i, e := range c01.events {
		if e > 0 {
			k := e - 1
			zzverif.Assert(k <= c01.burst, "C01.writer.chunk<=burst")
			zzverif.Assert(k >= 1, "C01.writer.chunk>=1")
			tokens += k
			zzverif.Assert(i%2 == 0, "C01.writer.wait-before-write")
		} else {
			k := -e - 1
			sent += k
			zzverif.Assert(i%2 == 1, "C01.writer.wait-before-write")
			zzverif.Assert(i > 0 && c01.events[i-1] > 0 && c01.events[i-1]-1 >= k, "C01.writer.tokens-cover-chunk")
			if k == c01.events[i-1]-1 && k < len(orig) {
				zzverif.Reach("C01.writer.full-chunk")
			}
		}
	}
	zzverif.Assert(sent <= tokens, "C01.writer.sent<=tokens")
	zzverif.Assert(sent == len(sink.data), "C01.writer.sent==sink")
	if len(c01.events) >= 4 {
		zzverif.Reach("C01.writer.multi-chunk")
	}
}

type c01Source struct {
	asked int
	n     int
	err   error
	data  []byte
}

func (s *c01Source) Read(p []byte) (int, error) {
	s.asked = len(p)
	zzverif.Assume(s.n <= len(p)) // io.Reader contract: 0 <= n <= len(p)
	copy(p, s.data[:s.n])
	return s.n, s.err
}

// VerifC01Reader: limit.Reader.Read asks the wrapped reader for at most one burst,
// returns exactly what it returned, and charges the limiter exactly n tokens.
func VerifC01Reader() {
	maxLen := zzverif.Param("maxLen", 6)
	dlen := zzverif.Choice("dstLen", maxLen+1)
	dst := make([]byte, dlen)
	c01.burst = zzverif.IntRange("burst", 1, maxLen+1)
	c01.waitFailAt = zzverif.IntRange("waitFailAt", -1, 0)
	c01.waitCalls = 0
	c01.events = nil
	src := &c01Source{n: zzverif.Choice("srcN", maxLen+1), data: zzverif.Bytes("d", maxLen)}
	srcFails := zzverif.Bool("srcFails")
	if srcFails {
		src.err = errC01
	}
	r := NewReader(src, nil)
	n, err := r.Read(dst)

	zzverif.Assert(src.asked <= c01.burst, "C01.reader.ask<=burst")
	zzverif.Assert(src.asked <= dlen, "C01.reader.ask<=dst")
	zzverif.Assert(src.asked == dlen || src.asked == c01.burst, "C01.reader.ask-all-or-burst")
	zzverif.Assert(n == src.n, "C01.reader.count")
	for i := 0; i < n; i++ {
		zzverif.Assert(dst[i] == src.data[i], "C01.reader.bytes")
	}
	if srcFails {
		zzverif.Assert(err != nil, "C01.reader.err-propagated")
		zzverif.Assert(len(c01.events) == 0, "C01.reader.no-tokens-on-error")
	} else {
		// tokens charged: exactly one WaitN(n), n <= burst
		zzverif.Assert(c01.waitCalls == 1, "C01.reader.one-wait")
		if c01.waitFailAt == 0 {
			zzverif.Assert(err != nil, "C01.reader.wait-error-propagated")
		} else {
			zzverif.Assert(err == nil, "C01.reader.ok")
			zzverif.Assert(len(c01.events) == 1 && c01.events[0]-1 == n, "C01.reader.tokens==n")
			zzverif.Reach("C01.reader.ok")
		}
	}
}
