//go:build verif

package limit

import "io"

// harness accessors (overlay only)
func (r *Reader) ZZInner() io.Reader { return r.r }
func (w *Writer) ZZInner() io.Writer { return w.w }
