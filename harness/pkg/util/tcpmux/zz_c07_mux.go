//go:build verif

package tcpmux

import (
	"context"
	"errors"
	"io"
	"net"
	"net/http"
	"time"

	"github.com/fatedier/frp/pkg/util/vhost"
	"github.com/fatedier/frp/zzverif"
)

type c07Conn struct {
	closed   int
	statuses []int
	// deadlines currently armed (a zero instant disarms)
	readArmed, writeArmed bool
}

func (c *c07Conn) Read(p []byte) (int, error)  { return 0, io.EOF }
func (c *c07Conn) Write(p []byte) (int, error) { return len(p), nil }
func (c *c07Conn) Close() error                { c.closed++; return nil }
func (c *c07Conn) LocalAddr() net.Addr         { return nil }
func (c *c07Conn) RemoteAddr() net.Addr        { return nil }
func (c *c07Conn) SetDeadline(t time.Time) error {
	c.readArmed, c.writeArmed = !t.IsZero(), !t.IsZero()
	return nil
}
func (c *c07Conn) SetReadDeadline(t time.Time) error  { c.readArmed = !t.IsZero(); return nil }
func (c *c07Conn) SetWriteDeadline(t time.Time) error { c.writeArmed = !t.IsZero(); return nil }

// stub for (*http.Response).Write: records the status on the fake connection
func c07StubRespWrite(r *http.Response, w io.Writer) error {
	if c, ok := w.(*c07Conn); ok {
		c.statuses = append(c.statuses, r.StatusCode)
	}
	return nil
}

type c07Ln struct{}

func (c07Ln) Accept() (net.Conn, error) { return nil, errors.New("closed") }
func (c07Ln) Close() error              { return nil }
func (c07Ln) Addr() net.Addr            { return nil }

// VerifC07Mux: a CONNECT is handed to a tcpmux proxy with credentials only if the request
// presents exactly them; otherwise 407 and close, nothing handed over.
func VerifC07Mux() {
	muxer, err := NewHTTPConnectTCPMuxer(c07Ln{}, zzverif.Bool("passthrough"), time.Second)
	zzverif.Assume(err == nil)
	type lst struct {
		l          *vhost.Listener
		user, pass string
		routeUser  string
		got        []net.Conn
	}
	var ls []*lst
	n := 1 + zzverif.Choice("listeners", 2)
	for i := 0; i < n; i++ {
		x := &lst{}
		if zzverif.Bool("protected") {
			x.user = zzverif.StringOf("user", 1, "uv")
			x.pass = zzverif.StringUpTo("pass", 1, "pq")
		}
		if zzverif.Bool("userRouted") {
			x.routeUser = zzverif.StringOf("routeUser", 1, "uv")
		}
		l, err := muxer.Listen(context.Background(), &vhost.RouteConfig{Domain: "h.com", RouteByHTTPUser: x.routeUser, Username: x.user, Password: x.pass})
		if err != nil {
			continue
		}
		x.l = l
		ls = append(ls, x)
		go func() {
			for {
				c, err := x.l.Accept()
				if err != nil {
					return
				}
				x.got = append(x.got, c)
			}
		}()
	}
	reqUser := zzverif.StringUpTo("reqUser", 1, "uv")
	reqPass := zzverif.StringUpTo("reqPass", 1, "pq")
	info := map[string]string{"Host": []string{"h.com", "other.com"}[zzverif.Choice("host", 2)], "Scheme": "tcp", "HTTPUser": reqUser, "HTTPPwd": reqPass}
	muxer.ZZSetVhostFunc(func(c net.Conn) (net.Conn, map[string]string, error) { return c, info, nil })
	conn := &c07Conn{}

	muxer.ZZHandle(conn)
	zzverif.Quiesce()

	handed := 0
	for _, x := range ls {
		handed += len(x.got)
		if len(x.got) > 0 {
			if x.user != "" {
				zzverif.Assert(zzverif.And(zzverif.StrEq(reqUser, x.user), zzverif.StrEq(reqPass, x.pass)), "C07.mux.protected-listener-only-with-exact-credentials")
				zzverif.Reach("C07.mux.protected-admitted")
			}
			zzverif.Assert(x.routeUser == "" || x.routeUser == reqUser, "C07.mux.route-matches-user")
			zzverif.Assert(info["Host"] == "h.com", "C07.mux.host-matches")
		}
	}
	zzverif.Assert(handed <= 1, "C07.mux.exactly-one-listener")
	if handed == 0 {
		zzverif.Assert(conn.closed >= 1, "C07.mux.refused-connection-closed")
		zzverif.Assert(len(conn.statuses) >= 1, "C07.mux.refusal-answered")
		if len(conn.statuses) >= 1 {
			// (without passthrough the 200 CONNECT answer is written before the credential check: the
			// refusal is the last status on the wire, followed by close)
			last := conn.statuses[len(conn.statuses)-1]
			zzverif.Assert(last == 407 || last == 404, "C07.mux.refusal-status")
			if last == 407 {
				zzverif.Reach("C07.mux.challenged")
			}
		}
	} else {
		// the sniffing deadline must not outlive the hand-over: the tunnel is byte-transparent for as
		// long as both ends stay open
		zzverif.Assert(!conn.readArmed && !conn.writeArmed, "C01.mux.no-deadline-left-armed-on-the-handed-over-connection")
		zzverif.Assert(conn.closed == 0, "C01.mux.handed-over-connection-left-open")
		zzverif.Reach("C07.mux.admitted")
	}
	for _, x := range ls {
		_ = x.l.Close()
	}
	zzverif.Quiesce()
	zzverif.Assert(muxer.ZZRoutes() == 0, "C10.mux.routes-released")
}
