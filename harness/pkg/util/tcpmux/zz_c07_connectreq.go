//go:build verif

package tcpmux

import (
	"bufio"
	"encoding/base64"
	"errors"
	"net"
	"net/http"

	"github.com/fatedier/frp/zzverif"
)

var c07q struct {
	req *http.Request
	err error
}

// stub for net/http.ReadRequest: the parser's result is given (any method, host, headers)
func c07qStubReadRequest(b *bufio.Reader) (*http.Request, error) { return c07q.req, c07q.err }

var c07qHosts = []struct{ text, want string }{
	{"a.com", "a.com"}, {"A.Com:443", "a.com"}, {"a.com:", "a.com"}, {"[::1]:80", "::1"}, {"", ""}, {"b.A.com.:8", "b.a.com"},
}

// VerifC07ConnectReq: what the tcpmux front end extracts from a CONNECT request: only CONNECT is
// accepted; the routing host is the request's host, lower-cased, without port and without the trailing dot of a fully qualified name; the credentials
// are those of the Proxy-Authorization header and nothing else (an Authorization header is for the
// backend); in pass-through mode the backend gets the request again (shared connection), otherwise
// the raw connection.
func VerifC07ConnectReq() {
	pass := zzverif.Bool("passthrough")
	muxer := &HTTPConnectTCPMuxer{passthrough: pass}
	method := []string{"CONNECT", "GET", "connect", "POST", ""}[zzverif.Choice("method", 5)]
	h := c07qHosts[zzverif.Choice("host", len(c07qHosts))]
	hdr := http.Header{}
	user := zzverif.StringUpTo("user", zzverif.Param("credLen", 1), "uU:")
	pwd := zzverif.StringUpTo("pwd", zzverif.Param("credLen", 1), "pP:")
	wantUser, wantPwd := "", ""
	switch zzverif.Choice("proxyAuth", 5) {
	case 1:
		hdr.Set("Proxy-Authorization", "Basic "+base64.StdEncoding.EncodeToString([]byte(user+":"+pwd)))
		// the user ends at the first colon
		full := user + ":" + pwd
		for i := 0; i < len(full); i++ {
			if full[i] == ':' {
				wantUser, wantPwd = full[:i], full[i+1:]
				break
			}
		}
		zzverif.Reach("C07.connectreq.with-credentials")
	case 2:
		hdr.Set("Proxy-Authorization", "Bearer "+user)
	case 3:
		hdr.Set("Proxy-Authorization", "Basic !!")
	case 4:
		hdr.Set("Proxy-Authorization", "basic "+base64.StdEncoding.EncodeToString([]byte(user+":"+pwd)))
		full := user + ":" + pwd
		for i := 0; i < len(full); i++ {
			if full[i] == ':' {
				wantUser, wantPwd = full[:i], full[i+1:]
				break
			}
		}
	}
	if zzverif.Bool("backendAuth") {
		hdr.Set("Authorization", "Basic "+base64.StdEncoding.EncodeToString([]byte("x:y")))
	}
	c07q.req = &http.Request{Method: method, Host: h.text, Header: hdr}
	c07q.err = nil
	if zzverif.Bool("parseError") {
		c07q.req, c07q.err = nil, errors.New("malformed")
	}
	raw := &c07Conn{}
	out, info, err := muxer.getHostFromHTTPConnect(raw)
	if c07q.err != nil || method != "CONNECT" {
		zzverif.Assert(err != nil, "C07.connectreq.only-connect-requests-are-routed")
		zzverif.Assert(out == nil, "C07.connectreq.refused-request-yields-no-connection")
		zzverif.Reach("C07.connectreq.refused")
		return
	}
	zzverif.Assert(err == nil, "C07.connectreq.connect-accepted")
	if err != nil {
		return
	}
	zzverif.Assert(info["Host"] == h.want, "C07.connectreq.routing-host-is-the-lowercased-host-without-port")
	zzverif.Assert(info["Scheme"] == "tcp", "C07.connectreq.scheme")
	zzverif.Assert(info["HTTPUser"] == wantUser && info["HTTPPwd"] == wantPwd, "C07.connectreq.credentials-are-exactly-those-of-proxy-authorization")
	if pass {
		zzverif.Assert(out != net.Conn(raw) && out != nil, "C07.connectreq.passthrough-hands-on-the-replaying-connection")
		zzverif.Reach("C07.connectreq.passthrough")
	} else {
		zzverif.Assert(out == net.Conn(raw), "C07.connectreq.terminated-connect-hands-on-the-raw-connection")
		zzverif.Reach("C07.connectreq.terminated")
	}
}
