//go:build verif

package tcpmux

import (
	"context"
	"net"
	"time"

	"github.com/fatedier/frp/pkg/util/vhost"
	"github.com/fatedier/frp/zzverif"
)

// VerifC06MuxHistory: routing follows the CURRENT route table, not what an earlier connection for
// the same host was routed to: after a more specific route appears (exact host beside a wildcard, a
// longer wildcard beside a shorter, a user-restricted route beside an unrestricted one) the next
// connection goes there; after it disappears again, back to the less specific one.
func VerifC06MuxHistory() {
	muxer, err := NewHTTPConnectTCPMuxer(c07Ln{}, true, time.Second)
	zzverif.Assume(err == nil)
	type lst struct {
		l   *vhost.Listener
		got int
	}
	listen := func(rc *vhost.RouteConfig) *lst {
		l, err := muxer.Listen(context.Background(), rc)
		zzverif.Assume(err == nil)
		x := &lst{l: l}
		go func() {
			for {
				if _, err := x.l.Accept(); err != nil {
					return
				}
				x.got++
			}
		}()
		return x
	}
	kind := zzverif.Choice("pair", 3)
	host := "a.h.com"
	var general, specific *vhost.RouteConfig
	switch kind {
	case 0:
		general, specific = &vhost.RouteConfig{Domain: "*.h.com"}, &vhost.RouteConfig{Domain: "a.h.com"}
	case 1:
		general, specific = &vhost.RouteConfig{Domain: "*.h.com"}, &vhost.RouteConfig{Domain: "*.b.h.com"}
		host = "a.b.h.com"
	default:
		general, specific = &vhost.RouteConfig{Domain: "a.h.com"}, &vhost.RouteConfig{Domain: "a.h.com", RouteByHTTPUser: "u"}
	}
	info := map[string]string{"Host": host, "Scheme": "tcp", "HTTPUser": "u", "HTTPPwd": ""}
	muxer.ZZSetVhostFunc(func(c net.Conn) (net.Conn, map[string]string, error) { return c, info, nil })
	serve := func() { muxer.ZZHandle(&c07Conn{}); zzverif.Quiesce() }

	g := listen(general)
	serve()
	zzverif.Assert(g.got == 1, "C06.muxhistory.only-route-serves")
	s := listen(specific)
	serve()
	zzverif.Assert(s.got == 1 && g.got == 1, "C06.muxhistory.a-more-specific-route-takes-over-from-the-next-connection-on")
	_ = s.l.Close()
	zzverif.Quiesce()
	serve()
	zzverif.Assert(g.got == 2, "C06.muxhistory.after-it-is-gone-the-less-specific-route-serves-again")
	_ = g.l.Close()
	zzverif.Quiesce()
	zzverif.Reach("C06.muxhistory.done")
}
