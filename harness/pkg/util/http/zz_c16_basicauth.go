//go:build verif

package http

import (
	"strings"

	"github.com/fatedier/frp/zzverif"
)

// VerifC16ParseBasicAuth: the credential parser used on every tcpmux CONNECT (in a goroutine
// without recover) is total: no header value makes it panic, and it reports success only for
// "Basic " + base64(user ":" password).
func VerifC16ParseBasicAuth() {
	maxLen := zzverif.Param("maxLen", 10)
	auth := zzverif.StringUpTo("header", maxLen, "Basic bOg=")
	user, pass, ok := ParseBasicAuth(auth)
	if ok {
		zzverif.Assert(len(auth) >= 6 && strings.EqualFold(auth[:6], "Basic "), "C16.basicauth.only-the-basic-scheme-followed-by-a-blank")
		zzverif.Reach("C16.basicauth.parsed")
	} else {
		zzverif.Assert(user == "" && pass == "", "C16.basicauth.nothing-extracted-on-failure")
		zzverif.Reach("C16.basicauth.rejected")
	}
	if len(auth) == 5 {
		zzverif.Reach("C16.basicauth.bare-scheme-length")
	}
}
