//go:build verif

package http

import (
	"encoding/base64"
	"strings"

	"github.com/fatedier/frp/zzverif"
)

// VerifC16ParseBasicAuth: the credential parser used on every tcpmux CONNECT (in a goroutine
// without recover) is total: no header value makes it panic, and it reports success only for
// "Basic " + base64(user ":" password).
func VerifC16ParseBasicAuth() {
	maxLen := zzverif.Param("maxLen", 10)
	auth := zzverif.StringUpTo("header", maxLen, "Basic bOg=")
	user, pass, ok := ParseBasicAuth(auth)
	if ok {
		zzverif.Assert(len(auth) >= 6 && strings.EqualFold(auth[:6], "Basic "), "C16.basicauth.only-the-basic-scheme-followed-by-a-blank")
		zzverif.Reach("C16.basicauth.parsed")
	} else {
		zzverif.Assert(user == "" && pass == "", "C16.basicauth.nothing-extracted-on-failure")
		zzverif.Reach("C16.basicauth.rejected")
	}
	if len(auth) == 5 {
		zzverif.Reach("C16.basicauth.bare-scheme-length")
	}
}

// VerifC07BasicAuthContent: credentials are split at the first colon only (a password may contain
// colons) and nothing of either part is dropped: what is compared with the configured password is
// exactly what the peer presented.
func VerifC07BasicAuthContent() {
	user := zzverif.StringUpTo("user", 2, "ab")
	pass := zzverif.StringUpTo("pass", 3, "p:")
	hdr := []string{"Basic ", "basic ", "BASIC "}[zzverif.Choice("scheme", 3)] + base64.StdEncoding.EncodeToString([]byte(user+":"+pass))
	u, p, ok := ParseBasicAuth(hdr)
	zzverif.Assert(ok, "C07.basicauth.well-formed-credentials-parse")
	zzverif.Assert(len(u) == len(user) && zzverif.StrEq(u, user), "C07.basicauth.user-is-what-precedes-the-first-colon")
	zzverif.Assert(len(p) == len(pass) && zzverif.StrEq(p, pass), "C07.basicauth.password-is-everything-after-the-first-colon")
	zzverif.Reach("C07.basicauth.done")
}
