//go:build verif

package http

import (
	"net"
	"net/http"
	"time"

	"github.com/gorilla/mux"

	v1 "github.com/fatedier/frp/pkg/config/v1"
	"github.com/fatedier/frp/zzverif"
)

var c07srv struct {
	user, pass string
	ok         bool
	served     int
	status     int
	slept      time.Duration
}

func c07srvStubBasicAuth(r *http.Request) (string, string, bool) {
	return c07srv.user, c07srv.pass, c07srv.ok
}
func c07srvStubListen(network, address string) (net.Listener, error) { return nil, nil }
func c07srvStubAssetsLoad(path string)                               {}
func c07srvStubNewRouter() *mux.Router                               { return &mux.Router{} }
func c07srvStubSleep(d time.Duration)                                { c07srv.slept += d }

type c07srvRW struct{ hdr http.Header }

func (w *c07srvRW) Header() http.Header         { return w.hdr }
func (w *c07srvRW) Write(p []byte) (int, error) { return len(p), nil }
func (w *c07srvRW) WriteHeader(code int)        { c07srv.status = code }

// VerifC07WebServer: the protection the dashboard and the admin API register their routes with
// (Server.RouteRegister -> AuthMiddleware) is the configured login: whenever a user OR a password
// is configured, a request is served only with exactly that pair; refusals are delayed.
func VerifC07WebServer() {
	cfg := v1.WebServerConfig{Addr: "127.0.0.1", Port: 7500}
	cfg.User = zzverif.StringUpTo("cfgUser", 1, "ab")
	cfg.Password = zzverif.StringUpTo("cfgPass", 1, "pq")
	s, err := NewServer(cfg)
	zzverif.Assume(err == nil)
	var mw mux.MiddlewareFunc
	s.RouteRegister(func(h *RouterRegisterHelper) { mw = h.AuthMiddleware })
	zzverif.Assert(mw != nil, "C07.webserver.routes-get-an-auth-wrapper")
	c07srv.ok = zzverif.Bool("hasAuth")
	c07srv.user, c07srv.pass = "", ""
	if c07srv.ok {
		c07srv.user = zzverif.StringUpTo("reqUser", 1, "ab")
		c07srv.pass = zzverif.StringUpTo("reqPass", 1, "pq")
	}
	c07srv.served, c07srv.status, c07srv.slept = 0, 0, 0
	h := mw(http.HandlerFunc(func(w http.ResponseWriter, r *http.Request) { c07srv.served++ }))
	h.ServeHTTP(&c07srvRW{hdr: http.Header{}}, &http.Request{Method: "GET", Header: http.Header{}, RequestURI: "/api/serverinfo"})
	open := cfg.User == "" && cfg.Password == ""
	exact := zzverif.And(c07srv.ok, zzverif.And(zzverif.StrEq(c07srv.user, cfg.User), zzverif.StrEq(c07srv.pass, cfg.Password)))
	if c07srv.served == 1 {
		zzverif.Assert(zzverif.Or(open, exact), "C07.webserver.served-only-with-the-configured-login")
		if !open {
			zzverif.Reach("C07.webserver.served-with-login")
		}
	} else {
		zzverif.Assert(c07srv.served == 0 && c07srv.status == 401, "C07.webserver.refusal-is-a-401")
		zzverif.Assert(zzverif.And(!open, zzverif.Not(exact)), "C07.webserver.refused-only-without-the-login")
		zzverif.Assert(c07srv.slept > 0, "C07.webserver.refusals-are-delayed")
		if cfg.User == "" {
			zzverif.Reach("C07.webserver.password-only-login-still-guards")
		}
		zzverif.Reach("C07.webserver.refused")
	}
}
