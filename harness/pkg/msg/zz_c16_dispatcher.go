//go:build verif

package msg

import (
	"errors"
	"io"

	"github.com/fatedier/frp/zzverif"
)

type c16Conn struct {
	script    []Message
	pos       int
	writes    int
	failFrom  int // writes with index >= failFrom fail (the peer went away)
	delivered int
}

func (c *c16Conn) Read(p []byte) (int, error)  { return 0, io.EOF }
func (c *c16Conn) Write(p []byte) (int, error) { return len(p), nil }

func c16StubReadMsg(r io.Reader) (Message, error) {
	c := r.(*c16Conn)
	if c.pos >= len(c.script) {
		return nil, io.EOF
	}
	m := c.script[c.pos]
	c.pos++
	return m, nil
}
func c16StubWriteMsg(w io.Writer, m any) error {
	c := w.(*c16Conn)
	i := c.writes
	c.writes++
	if i >= c.failFrom {
		return errors.New("broken pipe")
	}
	c.delivered++
	return nil
}

// VerifC16Dispatcher: a session's message pump never wedges: whatever the peer pipelines and
// whenever its connection stops accepting writes, every request is handled, the read loop reaches
// the end of the stream and the session is signalled done.
func VerifC16Dispatcher() {
	n := 1 + zzverif.Choice("requests", 4)
	conn := &c16Conn{failFrom: zzverif.Choice("writesFailFrom", 6)}
	for i := 0; i < n; i++ {
		conn.script = append(conn.script, &Ping{})
	}
	d := NewDispatcher(conn)
	// the send queue bound (100 in production) is reached with fewer messages here
	d.sendCh = make(chan Message, zzverif.Param("queue", 1))
	handled := 0
	d.RegisterHandler(&Ping{}, func(Message) {
		// "done" tells the owner that no handler runs any more (the session's resources are torn
		// down on it): it must not be signalled while requests are still being dispatched
		select {
		case <-d.Done():
			zzverif.Fail("C12.dispatcher.no-request-dispatched-after-done-was-signalled")
		default:
		}
		handled++
		_ = d.Send(&Pong{}) // every request needs a reply
	})
	d.Run()
	zzverif.Quiesce()
	select {
	case <-d.Done():
	default:
		zzverif.Fail("C16.dispatcher.session-signalled-done-after-end-of-stream")
	}
	zzverif.Assert(handled == n, "C16.dispatcher.every-request-handled")
	if conn.failFrom < n {
		zzverif.Reach("C16.dispatcher.peer-stopped-reading")
	}
	if conn.failFrom >= n {
		zzverif.Reach("C16.dispatcher.all-delivered")
	}
}
