//go:build verif

package msg

import (
	"errors"
	"io"

	"github.com/fatedier/frp/zzverif"
)

type c16Conn struct {
	script    []Message
	pos       int
	writes    int
	failFrom  int // writes with index >= failFrom fail (the peer went away)
	delivered int
}

func (c *c16Conn) Read(p []byte) (int, error)  { return 0, io.EOF }
func (c *c16Conn) Write(p []byte) (int, error) { return len(p), nil }

func c16StubReadMsg(r io.Reader) (Message, error) {
	c := r.(*c16Conn)
	if c.pos >= len(c.script) {
		return nil, io.EOF
	}
	m := c.script[c.pos]
	c.pos++
	return m, nil
}
func c16StubWriteMsg(w io.Writer, m any) error {
	c := w.(*c16Conn)
	i := c.writes
	c.writes++
	if i >= c.failFrom {
		return errors.New("broken pipe")
	}
	c.delivered++
	return nil
}

// VerifC16Dispatcher: a session's message pump never wedges: whatever the peer pipelines and
// whenever its connection stops accepting writes, every request is handled, the read loop reaches
// the end of the stream and the session is signalled done.
func VerifC16Dispatcher() {
	n := 1 + zzverif.Choice("requests", 4)
	conn := &c16Conn{failFrom: zzverif.Choice("writesFailFrom", 6)}
	for i := 0; i < n; i++ {
		conn.script = append(conn.script, &Ping{})
	}
	d := NewDispatcher(conn)
	// the send queue bound (100 in production) is reached with fewer messages here
	d.sendCh = make(chan Message, zzverif.Param("queue", 1))
	handled := 0
	d.RegisterHandler(&Ping{}, func(Message) {
		// "done" tells the owner that no handler runs any more (the session's resources are torn
		// down on it): it must not be signalled while requests are still being dispatched
		select {
		case <-d.Done():
			zzverif.Fail("C12.dispatcher.no-request-dispatched-after-done-was-signalled")
		default:
		}
		handled++
		_ = d.Send(&Pong{}) // every request needs a reply
	})
	d.Run()
	zzverif.Quiesce()
	select {
	case <-d.Done():
	default:
		zzverif.Fail("C16.dispatcher.session-signalled-done-after-end-of-stream")
	}
	zzverif.Assert(handled == n, "C16.dispatcher.every-request-handled")
	if conn.failFrom < n {
		zzverif.Reach("C16.dispatcher.peer-stopped-reading")
	}
	if conn.failFrom >= n {
		zzverif.Reach("C16.dispatcher.all-delivered")
	}
}

type c17dConn struct {
	c16Conn
	errAt   int   // index of the script position at which the reader fails
	err     error // the failure
	readsOK int
}

func c17dStubReadMsg(r io.Reader) (Message, error) {
	c := r.(*c17dConn)
	if c.pos == c.errAt && c.err != nil {
		e := c.err
		c.err = nil // the bytes after the bad frame head are still in the stream: a further read would parse them
		return nil, e
	}
	if c.pos >= len(c.script) {
		return nil, io.EOF
	}
	m := c.script[c.pos]
	c.pos++
	c.readsOK++
	return m, nil
}

// VerifC17DispatcherBadFrame: a frame the codec rejects (unknown type byte, length beyond the limit,
// negative length, undecodable body) ends the session at that frame: the dispatcher reports done and
// nothing that follows in the stream (e.g. a well-formed frame embedded in the rejected body) is
// ever dispatched.
func VerifC17DispatcherBadFrame() {
	before := zzverif.Choice("goodBefore", 3)
	after := 1 + zzverif.Choice("embeddedAfter", 2)
	conn := &c17dConn{errAt: before}
	conn.failFrom = 1 << 30
	for i := 0; i < before+after; i++ {
		conn.script = append(conn.script, &CloseProxy{ProxyName: "victim"})
	}
	switch zzverif.Choice("rejection", 4) {
	case 0:
		conn.err = jsonMsgErrMsgType()
	case 1:
		conn.err = jsonMsgErrMaxLen()
	case 2:
		conn.err = jsonMsgErrFormat()
	default:
		conn.err = errors.New("invalid character 'x' looking for beginning of value")
	}
	d := NewDispatcher(conn)
	handled := 0
	d.RegisterHandler(&CloseProxy{}, func(Message) { handled++ })
	d.Run()
	zzverif.Quiesce()
	select {
	case <-d.Done():
		zzverif.Reach("C17.badframe.session-ended")
	default:
		zzverif.Fail("C17.badframe.rejected-frame-ends-the-session")
	}
	zzverif.Assert(handled == before, "C17.badframe.nothing-after-the-rejected-frame-is-dispatched")
}
