//go:build verif

package msg

import (
	"bytes"
	"errors"
	"io"
	"strings"

	jsonMsg "github.com/fatedier/golib/msg/json"

	"github.com/fatedier/frp/zzverif"
)

var c17 struct {
	unmarshalErr   bool
	unmarshalCalls int
	body           []byte
	marshalBody    []byte
	marshalErr     bool
}

var errC17 = errors.New("c17 injected json error")

// stub for encoding/json.Unmarshal: arbitrary verdict; records the body it was handed.
func c17StubUnmarshal(data []byte, v any) error {
	c17.unmarshalCalls++
	n := zzverif.Concretize(len(data))
	c17.body = append([]byte(nil), data[:n]...)
	if c17.unmarshalErr {
		return errC17
	}
	return nil
}

// stub for encoding/json.Marshal: arbitrary body.
func c17StubMarshal(v any) ([]byte, error) {
	if c17.marshalErr {
		return nil, errC17
	}
	return c17.marshalBody, nil
}

type c17Stream struct {
	data  []byte
	pos   int
	chunk int
}

func (s *c17Stream) Read(p []byte) (int, error) {
	avail := len(s.data) - s.pos
	if avail == 0 {
		return 0, io.EOF
	}
	k := zzverif.Concretize(min(len(p), avail, s.chunk))
	copy(p[:k], s.data[s.pos:s.pos+k])
	s.pos += k
	return k, nil
}

var c17Bytes = []byte{'o', '1', 'p', '2', 'c', 'w', 'r', 's', 'v', '3', 'h', '4', 'u', 'i', 'n', 'm', '5', '6'}

func c17KindOf(m Message) byte {
	switch m.(type) {
	case *Login:
		return 'o'
	case *LoginResp:
		return '1'
	case *NewProxy:
		return 'p'
	case *NewProxyResp:
		return '2'
	case *CloseProxy:
		return 'c'
	case *NewWorkConn:
		return 'w'
	case *ReqWorkConn:
		return 'r'
	case *StartWorkConn:
		return 's'
	case *NewVisitorConn:
		return 'v'
	case *NewVisitorConnResp:
		return '3'
	case *Ping:
		return 'h'
	case *Pong:
		return '4'
	case *UDPPacket:
		return 'u'
	case *NatHoleVisitor:
		return 'i'
	case *NatHoleClient:
		return 'n'
	case *NatHoleResp:
		return 'm'
	case *NatHoleSid:
		return '5'
	case *NatHoleReport:
		return '6'
	}
	return 0
}

func c17New(b byte) Message {
	switch b {
	case 'o':
		return &Login{}
	case '1':
		return &LoginResp{}
	case 'p':
		return &NewProxy{}
	case '2':
		return &NewProxyResp{}
	case 'c':
		return &CloseProxy{}
	case 'w':
		return &NewWorkConn{}
	case 'r':
		return &ReqWorkConn{}
	case 's':
		return &StartWorkConn{}
	case 'v':
		return &NewVisitorConn{}
	case '3':
		return &NewVisitorConnResp{}
	case 'h':
		return &Ping{}
	case '4':
		return &Pong{}
	case 'u':
		return &UDPPacket{}
	case 'i':
		return &NatHoleVisitor{}
	case 'n':
		return &NatHoleClient{}
	case 'm':
		return &NatHoleResp{}
	case '5':
		return &NatHoleSid{}
	}
	return &NatHoleReport{}
}

// VerifC17FrameRead: the frame reader on an arbitrary byte stream delivered in arbitrary chunks.
func VerifC17FrameRead() {
	maxS := zzverif.Param("maxStream", 12)
	S := zzverif.Choice("S", maxS+1)
	data := zzverif.Bytes("d", S)
	st := &c17Stream{data: data, chunk: zzverif.IntRange("chunk", 1, maxS+1)}
	c17.unmarshalErr = zzverif.Bool("unmarshalErr")
	c17.unmarshalCalls = 0
	c17.body = nil

	m, err := ReadMsg(st)

	if S == 0 {
		zzverif.Assert(err != nil, "C17.read.empty-stream-error")
		return
	}
	t := data[0]
	registered := false
	for _, b := range c17Bytes {
		registered = zzverif.Or(registered, t == b)
	}
	if !registered {
		zzverif.Assert(err == jsonMsg.ErrMsgType, "C17.read.unknown-type-error")
		zzverif.Assert(st.pos == 1, "C17.read.unknown-type-reads-one-byte")
		zzverif.Assert(zzverif.SymAllocs() == 0 && c17.unmarshalCalls == 0, "C17.read.unknown-type-no-alloc")
		zzverif.Reach("C17.read.unknown-type")
		return
	}
	if S < 9 {
		zzverif.Assert(err != nil && m == nil, "C17.read.truncated-header-error")
		zzverif.Assert(c17.unmarshalCalls == 0, "C17.read.truncated-header-no-decode")
		return
	}
	var length int64
	for i := 1; i <= 8; i++ {
		length = length<<8 | int64(data[i])
	}
	zzverif.Assert(zzverif.AllocsLE(10240), "C17.read.alloc-bounded")
	if length > 10240 {
		zzverif.Assert(err == jsonMsg.ErrMaxMsgLength, "C17.read.oversize-error")
		zzverif.Assert(st.pos == 9 && zzverif.SymAllocs() == 0, "C17.read.oversize-no-alloc-no-read")
		zzverif.Reach("C17.read.oversize")
		return
	}
	if length < 0 {
		zzverif.Assert(err == jsonMsg.ErrMsgLength, "C17.read.negative-error")
		zzverif.Assert(st.pos == 9 && zzverif.SymAllocs() == 0, "C17.read.negative-no-alloc-no-read")
		zzverif.Reach("C17.read.negative")
		return
	}
	if length > int64(S-9) {
		zzverif.Assert(err != nil && m == nil, "C17.read.short-body-error")
		// the limit is part of the released protocol: a udp packet of the default size needs a frame
		// of about 2 KiB, registrations with metadata more
		zzverif.Assert(err != jsonMsg.ErrMaxMsgLength && err != jsonMsg.ErrMsgLength, "C17.read.frames-up-to-10240-bytes-are-not-refused-for-their-length")
		zzverif.Assert(c17.unmarshalCalls == 0, "C17.read.short-body-no-decode")
		zzverif.Reach("C17.read.short-body")
		return
	}
	n := zzverif.Concretize(int(length))
	zzverif.Assert(st.pos == 9+n, "C17.read.never-past-frame")
	zzverif.Assert(c17.unmarshalCalls == 1, "C17.read.decoded-once")
	zzverif.Assert(len(c17.body) == n, "C17.read.body-length")
	if len(c17.body) == n {
		zzverif.Assert(zzverif.BytesEq(c17.body, data[9:9+n]), "C17.read.body-bytes")
	}
	if c17.unmarshalErr {
		zzverif.Assert(err != nil, "C17.read.malformed-body-error")
		zzverif.Reach("C17.read.malformed-body")
	} else {
		zzverif.Assert(err == nil, "C17.read.ok")
		zzverif.Assert(c17KindOf(m) == t, "C17.read.message-type-of-type-byte")
		zzverif.Reach("C17.read.ok")
		if n > 0 {
			zzverif.Reach("C17.read.ok-nonempty")
		}
	}
}

// VerifC17FrameWrite: Pack = type byte ‖ big-endian int64 length ‖ body, then read back.
func VerifC17FrameWrite() {
	k := zzverif.Choice("kind", len(c17Bytes))
	n := zzverif.Choice("bodyLen", zzverif.Param("maxBody", 3)+1)
	c17.marshalBody = zzverif.Bytes("body", n)
	c17.marshalErr = zzverif.Bool("marshalErr")
	msg := c17New(c17Bytes[k])
	var buf bytes.Buffer
	err := WriteMsg(&buf, msg)
	if c17.marshalErr {
		zzverif.Assert(err != nil && buf.Len() == 0, "C17.write.marshal-error-writes-nothing")
		return
	}
	zzverif.Assert(err == nil, "C17.write.ok")
	out := buf.Bytes()
	zzverif.Assert(len(out) == 9+n, "C17.write.frame-length")
	if len(out) != 9+n {
		return
	}
	zzverif.Assert(out[0] == c17Bytes[k], "C17.write.type-byte")
	for i := 1; i <= 7; i++ {
		zzverif.Assert(out[i] == 0, "C17.write.length-big-endian")
	}
	zzverif.Assert(int(out[8]) == n, "C17.write.length-big-endian")
	zzverif.Assert(zzverif.BytesEq(out[9:], c17.marshalBody), "C17.write.body")
	// read it back through the frame reader
	c17.unmarshalErr = false
	c17.unmarshalCalls = 0
	st := &c17Stream{data: out, chunk: zzverif.IntRange("chunk", 1, 9+n)}
	m2, err := ReadMsg(st)
	zzverif.Assert(err == nil, "C17.roundtrip.ok")
	zzverif.Assert(c17KindOf(m2) == c17Bytes[k], "C17.roundtrip.same-type")
	zzverif.Assert(zzverif.BytesEq(c17.body, c17.marshalBody), "C17.roundtrip.same-body")
	zzverif.Reach("C17.roundtrip.done")
}

type c17Unregistered struct{ X int }

// VerifC17Registry: 18 registered kinds, byte -> type -> byte is the identity, released constants.
func VerifC17Registry() {
	zzverif.Assert(len(msgTypeMap) == 18, "C17.registry.18-kinds")
	cnt := 0
	for b := 0; b < 256; b++ {
		m, err := msgCtl.UnPack(byte(b), nil)
		isReg := false
		for _, rb := range c17Bytes {
			if byte(b) == rb {
				isReg = true
			}
		}
		if isReg {
			cnt++
			zzverif.Assert(err == nil && c17KindOf(m) == byte(b), "C17.registry.byte-to-type")
			var buf bytes.Buffer
			c17.marshalErr, c17.marshalBody = false, nil
			zzverif.Assert(WriteMsg(&buf, m) == nil && buf.Len() == 9 && buf.Bytes()[0] == byte(b), "C17.registry.type-to-byte")
		} else {
			zzverif.Assert(err == jsonMsg.ErrMsgType && m == nil, "C17.registry.unregistered-byte")
		}
	}
	zzverif.Assert(cnt == 18, "C17.registry.released-constants")
	var buf bytes.Buffer
	zzverif.Assert(WriteMsg(&buf, &c17Unregistered{}) == jsonMsg.ErrMsgType && buf.Len() == 0, "C17.registry.unregistered-type-refused")
	zzverif.Reach("C17.registry.done")
}

// JSON field names of the released protocol (the pinned tree), per type byte; 'C', 'R', 'B' stand
// for the nested ClientSpec, PortsRange and NatHoleDetectBehavior structures.
var c17Released = map[byte][]string{
	'1': {"version", "run_id", "error"},
	'2': {"proxy_name", "remote_addr", "error"},
	'3': {"proxy_name", "error"},
	'4': {"error"},
	'5': {"transaction_id", "sid", "response", "nonce"},
	'6': {"sid", "success"},
	'c': {"proxy_name"},
	'h': {"privilege_key", "timestamp"},
	'i': {"transaction_id", "proxy_name", "pre_check", "protocol", "sign_key", "timestamp", "mapped_addrs", "assisted_addrs"},
	'm': {"transaction_id", "sid", "protocol", "candidate_addrs", "assisted_addrs", "detect_behavior", "error"},
	'n': {"transaction_id", "proxy_name", "sid", "mapped_addrs", "assisted_addrs"},
	'o': {"version", "hostname", "os", "arch", "user", "privilege_key", "timestamp", "run_id", "metas", "client_spec", "pool_count"},
	'p': {"proxy_name", "proxy_type", "use_encryption", "use_compression", "bandwidth_limit", "bandwidth_limit_mode", "group", "group_key", "metas", "annotations", "remote_port", "custom_domains", "subdomain", "locations", "http_user", "http_pwd", "host_header_rewrite", "headers", "response_headers", "route_by_http_user", "sk", "allow_users", "multiplexer"},
	'r': {},
	's': {"proxy_name", "src_addr", "dst_addr", "src_port", "dst_port", "error"},
	'u': {"c", "l", "r"},
	'v': {"run_id", "proxy_name", "sign_key", "timestamp", "use_encryption", "use_compression"},
	'w': {"run_id", "privilege_key", "timestamp"},
	'C': {"type", "always_auth_pass"},
	'R': {"from", "to"},
	'B': {"role", "mode", "ttl", "send_delay_ms", "read_timeout", "candidate_ports", "send_random_ports", "listen_random_ports"},
}

func c17JSONNames(tags string) (names []string) {
	for len(tags) > 0 {
		i := strings.IndexByte(tags, ';')
		f := tags[:i]
		tags = tags[i+1:]
		f = f[strings.IndexByte(f, '=')+1:]
		if j := strings.IndexByte(f, ','); j >= 0 {
			f = f[:j]
		}
		names = append(names, f)
	}
	return
}

// VerifC17Fields: every message kind still carries every JSON field name of the released
// protocol (names are read from the struct tags of the current source), so that two builds of
// the same protocol version understand each other's bodies.
func VerifC17Fields() {
	check := func(k byte, v any) {
		have := c17JSONNames(zzverif.FieldTags(v))
		for _, want := range c17Released[k] {
			found := false
			for _, h := range have {
				if h == want {
					found = true
				}
			}
			zzverif.Assert(found, "C17.fields.released-json-field-name-present")
			zzverif.Assert(want != "-", "C17.fields.released-field-not-hidden")
		}
	}
	for _, b := range c17Bytes {
		m, ok := msgTypeMap[b]
		zzverif.Assert(ok, "C17.fields.released-kind-registered")
		check(b, m)
	}
	check('C', ClientSpec{})
	check('R', PortsRange{})
	check('B', NatHoleDetectBehavior{})
	zzverif.Reach("C17.fields.done")
}

// VerifC17SendBound: everything the reader accepts can be sent: a message whose body has exactly
// the largest accepted size (10240 bytes) - or a few bytes less - is written in full and read back.
func VerifC17SendBound() {
	k := zzverif.Choice("kind", len(c17Bytes))
	n := []int{10240, 10239, 10232, 10231}[zzverif.Choice("bodyLen", 4)]
	c17.marshalBody = make([]byte, n)
	c17.marshalBody[0], c17.marshalBody[n-1] = '{', '}'
	c17.marshalErr = false
	var buf bytes.Buffer
	err := WriteMsg(&buf, c17New(c17Bytes[k]))
	zzverif.Assert(err == nil && buf.Len() == 9+n, "C17.sendbound.largest-readable-message-can-be-written")
	if err != nil || buf.Len() != 9+n {
		return
	}
	c17.unmarshalErr, c17.unmarshalCalls = false, 0
	st := &c17Stream{data: buf.Bytes(), chunk: 9 + n}
	m2, err := ReadMsg(st)
	zzverif.Assert(err == nil && c17KindOf(m2) == c17Bytes[k] && len(c17.body) == n, "C17.sendbound.and-read-back")
	zzverif.Reach("C17.sendbound.done")
}
