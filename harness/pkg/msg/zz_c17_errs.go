//go:build verif

package msg

import jsonMsg "github.com/fatedier/golib/msg/json"

func jsonMsgErrMsgType() error { return jsonMsg.ErrMsgType }
func jsonMsgErrMaxLen() error  { return jsonMsg.ErrMaxMsgLength }
func jsonMsgErrFormat() error  { return jsonMsg.ErrMsgFormat }
