// Package zzverif is the harness API of the gosym engine. Under symbolic
// execution every function here is intercepted by the engine; the bodies below
// are the native semantics used when a harness is compiled with the ordinary
// toolchain to replay a solver model against the real build
// (VERIF_REPLAY=<file.json> selects the model).
package zzverif

import (
	"encoding/json"
	"fmt"
	"os"
	"reflect"
	"time"
)

type replay struct {
	Model  map[string]uint64 `json:"model"`
	Params map[string]int    `json:"params"`
}

var (
	rp       *replay
	counts   = map[string]int{}
	Failures []string
	Observed []string
	Reached  = map[string]bool{}
)

func load() {
	if rp != nil {
		return
	}
	rp = &replay{Model: map[string]uint64{}, Params: map[string]int{}}
	if f := os.Getenv("VERIF_REPLAY"); f != "" {
		b, err := os.ReadFile(f)
		if err != nil {
			panic(err)
		}
		if err := json.Unmarshal(b, rp); err != nil {
			panic(err)
		}
	}
}

// Reset clears per-run native state (between replays in one test binary).
func Reset() {
	rp = nil
	counts = map[string]int{}
	Failures = nil
	Observed = nil
	Reached = map[string]bool{}
}

func next(name string, width int, isBool bool) uint64 {
	load()
	k := counts[name]
	counts[name] = k + 1
	full := name
	if k > 0 {
		full = fmt.Sprintf("%s#%d", name, k)
	}
	if isBool {
		full += "?b"
	} else {
		full += fmt.Sprintf("?%d", width)
	}
	return rp.Model[full]
}

// ---- nondeterministic inputs

func Int(name string) int       { return int(int64(next(name, 64, false))) }
func Int64(name string) int64   { return int64(next(name, 64, false)) }
func Uint64(name string) uint64 { return next(name, 64, false) }
func Int32(name string) int32   { return int32(uint32(next(name, 32, false))) }
func Byte(name string) byte     { return byte(next(name, 8, false)) }
func Bool(name string) bool     { return next(name, 0, true) != 0 }

// IntRange returns a symbolic int constrained to lo..hi (inclusive).
func IntRange(name string, lo, hi int) int {
	v := Int(name)
	Assume(v >= lo && v <= hi)
	return v
}

// Choice returns a concrete value in 0..n-1 (the engine forks once per value).
func Choice(name string, n int) int {
	v := IntRange(name, 0, n-1)
	return v
}

// Bytes returns n symbolic bytes (n must be concrete; use Choice for a symbolic length).
func Bytes(name string, n int) []byte {
	b := make([]byte, n)
	for i := range b {
		b[i] = Byte(name)
	}
	return b
}

// String returns a string of exactly n symbolic bytes.
func String(name string, n int) string { return string(Bytes(name, n)) }

// ASCII returns a string of exactly n symbolic bytes each assumed < 0x80.
func ASCII(name string, n int) string {
	b := Bytes(name, n)
	for _, c := range b {
		Assume(c < 0x80)
	}
	return string(b)
}

// StringOf returns a string of exactly n symbolic bytes drawn from alphabet.
func StringOf(name string, n int, alphabet string) string {
	b := Bytes(name, n)
	for _, c := range b {
		ok := false
		for i := 0; i < len(alphabet); i++ {
			if c == alphabet[i] {
				ok = true
			}
		}
		Assume(ok)
	}
	return string(b)
}

// StringUpTo returns a string of symbolic length 0..max over alphabet ("" = any byte < 0x80).
func StringUpTo(name string, max int, alphabet string) string {
	n := Choice(name+".len", max+1)
	if alphabet == "" {
		return ASCII(name, n)
	}
	return StringOf(name, n, alphabet)
}

// ---- assumptions, assertions, coverage

func Assume(c bool) {
	if !c {
		panic(assumeFailed{})
	}
}

type assumeFailed struct{}

// IsAssumeFailed reports whether a recovered panic value is a failed Assume.
func IsAssumeFailed(r interface{}) bool { _, ok := r.(assumeFailed); return ok }

func Assert(c bool, label string) {
	if !c {
		Failures = append(Failures, label)
	}
}

func Fail(label string)  { Assert(false, label) }
func Reach(label string) { Reached[label] = true }

// Observe records values for translator validation (engine and native runs must agree).
func Observe(label string, vals ...interface{}) {
	s := label + "="
	for i, v := range vals {
		if i > 0 {
			s += ","
		}
		s += fmt.Sprintf("%v", v)
	}
	Observed = append(Observed, s)
}

// Except delimits the failing region of a known finding (see known_findings.txt).
func Except(id string, cond bool) {}

// ---- non-forking boolean connectives

func And(a, b bool) bool     { return a && b }
func Or(a, b bool) bool      { return a || b }
func Not(a bool) bool        { return !a }
func Implies(a, b bool) bool { return !a || b }
func Iff(a, b bool) bool     { return a == b }
func IteInt(c bool, a, b int) int {
	if c {
		return a
	}
	return b
}

// StrEq / BytesEq compare without forking.
func StrEq(a, b string) bool { return a == b }
func BytesEq(a, b []byte) bool {
	return string(a) == string(b)
}

// ---- misc

// Param returns a tier parameter (bounds) supplied by the check configuration.
func Param(name string, def int) int {
	load()
	if v, ok := rp.Params[name]; ok {
		return v
	}
	return def
}

// UF applies an uninterpreted function returning a string of outLen bytes.
func UF(name string, outLen int, args ...interface{}) string {
	panic("zzverif.UF has no native semantics; replay natively against the real function instead")
}

// AllocsLE reports whether every lazily sized (symbolic-length) allocation made so far is <= bound.
func AllocsLE(bound int) bool { return true }

// SymAllocs is the number of symbolic-length allocations made so far.
func SymAllocs() int { return 0 }

// Quiesce lets all other goroutines run until each is blocked or finished (native: a short sleep).
func Quiesce() { time.Sleep(20 * time.Millisecond) }

// Guard declares that map m is protected by the mutex at mu (lock-discipline monitor: every
// later access to m without holding mu is a violation, as Go aborts on concurrent map access).
func Guard(m interface{}, mu interface{}, name string) {}

func Yield()                 {}
func SetMapOrderLimit(n int) {}
func SetPreempt(n int)       {}
func Concretize(v int) int   { return v }
func Note(s string)          {}
func IsSymbolicRun() bool    { return false }
func Unsupported(msg string) { panic("unsupported: " + msg) }

// FieldTags returns "GoField=jsontag;" for every exported field of the struct type of v
// (pointer dereferenced, untagged embedded structs flattened).
func FieldTags(v interface{}) string {
	t := reflect.TypeOf(v)
	return fieldTags(t)
}

func fieldTags(t reflect.Type) string {
	if t.Kind() == reflect.Ptr {
		t = t.Elem()
	}
	if t.Kind() != reflect.Struct {
		return "<not a struct>"
	}
	s := ""
	for i := 0; i < t.NumField(); i++ {
		f := t.Field(i)
		if f.PkgPath != "" {
			continue
		}
		tag := f.Tag.Get("json")
		if f.Anonymous && tag == "" {
			s += fieldTags(f.Type)
			continue
		}
		if tag == "" {
			tag = f.Name
		}
		s += f.Name + "=" + tag + ";"
	}
	return s
}
