//go:build verif

package sub

import (
	"github.com/spf13/cobra"

	v1 "github.com/fatedier/frp/pkg/config/v1"
	"github.com/fatedier/frp/zzverif"
)

var c18sub struct {
	started  int
	cfg      *v1.ClientCommonConfig
	proxies  []v1.ProxyConfigurer
	visitors []v1.VisitorConfigurer
	exits    int
}

// stub for startService: records the configuration the sub command hands to the client
func c18subStubStartService(cfg *v1.ClientCommonConfig, proxyCfgs []v1.ProxyConfigurer, visitorCfgs []v1.VisitorConfigurer, cfgFile string) error {
	c18sub.started++
	c18sub.cfg, c18sub.proxies, c18sub.visitors = cfg, proxyCfgs, visitorCfgs
	return nil
}

// stub for os.Exit
func c18subStubExit(code int) { c18sub.exits++ }

func c18subFind(parent *cobra.Command, name string) *cobra.Command {
	for _, c := range parent.Commands() {
		if c.Name() == name {
			return c
		}
	}
	return nil
}

// VerifC18SubCommands: `frpc <type> [visitor] --flags` (the commands the package registers at start-up)
// hand the client exactly the settings given on that command line: the common flags of the command
// that runs - also `--tls_enable=false`, for every type - and the proxy / visitor of that type.
func VerifC18SubCommands() {
	types := []string{"tcp", "udp", "tcpmux", "http", "https", "stcp", "sudp", "xtcp"}
	typ := types[zzverif.Choice("type", len(types))]
	cmd := c18subFind(rootCmd, typ)
	zzverif.Assert(cmd != nil, "C18.subcmds.a-command-per-proxy-type")
	if cmd == nil {
		return
	}
	visitor := (typ == "stcp" || typ == "sudp" || typ == "xtcp") && zzverif.Bool("visitor")
	tlsOff := zzverif.Bool("tlsEnableFalse")
	common := []string{"--server_addr=10.1.1.1", "--server_port=7100", "--user=alice", "--token=tok"}
	if tlsOff {
		common = append(common, "--tls_enable=false")
	}
	c18sub.started, c18sub.cfg, c18sub.proxies, c18sub.visitors, c18sub.exits = 0, nil, nil, nil, 0
	run := cmd
	if visitor {
		run = c18subFind(cmd, "visitor")
		zzverif.Assert(run != nil, "C18.subcmds.visitor-command-for-secret-types")
		if run == nil {
			return
		}
		zzverif.Assert(run.Flags().Parse([]string{"--visitor_name=v", "--server_name=p", "--sk=s", "--bind_port=9000"}) == nil, "C18.subcmds.visitor-flags-parse")
	} else {
		args := []string{"--proxy_name=p", "--local_port=22"}
		switch typ {
		case "tcp", "udp":
			args = append(args, "--remote_port=6000")
		case "http", "https", "tcpmux":
			args = append(args, "--custom_domain=a.com")
		default:
			args = append(args, "--sk=s")
		}
		if typ == "tcpmux" {
			args = append(args, "--mux=httpconnect")
		}
		zzverif.Assert(cmd.Flags().Parse(args) == nil, "C18.subcmds.proxy-flags-parse")
	}
	zzverif.Assert(cmd.PersistentFlags().Parse(common) == nil, "C18.subcmds.common-flags-parse")
	run.Run(run, nil)
	zzverif.Assert(c18sub.exits == 0 && c18sub.started == 1, "C18.subcmds.valid-command-line-starts-the-client")
	if c18sub.started != 1 {
		return
	}
	c := c18sub.cfg
	zzverif.Assert(c.ServerAddr == "10.1.1.1" && c.ServerPort == 7100 && c.User == "alice" && c.Auth.Token == "tok", "C18.subcmds.common-settings-are-those-of-this-command-line")
	zzverif.Assert(c.Transport.TLS.Enable != nil && *c.Transport.TLS.Enable == !tlsOff, "C18.subcmds.tls-enable-is-what-this-command-line-says")
	if visitor {
		zzverif.Assert(len(c18sub.visitors) == 1 && len(c18sub.proxies) == 0 && c18sub.visitors[0].GetBaseConfig().Type == typ && c18sub.visitors[0].GetBaseConfig().Name == "alice.v", "C18.subcmds.one-visitor-of-this-type")
		zzverif.Reach("C18.subcmds.visitor")
	} else {
		zzverif.Assert(len(c18sub.proxies) == 1 && len(c18sub.visitors) == 0 && c18sub.proxies[0].GetBaseConfig().Type == typ && c18sub.proxies[0].GetBaseConfig().Name == "alice.p", "C18.subcmds.one-proxy-of-this-type")
	}
	if tlsOff && typ != "xtcp" {
		zzverif.Reach("C18.subcmds.tls-off")
	}
	zzverif.Reach("C18.subcmds.done")
}
