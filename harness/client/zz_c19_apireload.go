//go:build verif

package client

import (
	"context"
	"errors"
	"net/http"
	"net/url"
	"time"

	v1 "github.com/fatedier/frp/pkg/config/v1"
	"github.com/fatedier/frp/pkg/msg"
	"github.com/fatedier/frp/zzverif"
)

var c19api struct {
	scenario  int
	strictGot bool
	pathGot   string
	loads     int
}

func c19apiProxy(name string, localPort int) v1.ProxyConfigurer {
	c := &v1.TCPProxyConfig{}
	c.Name, c.Type, c.LocalIP, c.LocalPort, c.RemotePort = name, "tcp", "127.0.0.1", localPort, 6000
	c.Complete("") // the loader hands out completed entries
	return c
}

// stub for config.LoadClientConfig: what reading the configuration file yields in the scenario
func c19apiStubLoad(path string, strict bool) (*v1.ClientCommonConfig, []v1.ProxyConfigurer, []v1.VisitorConfigurer, bool, error) {
	c19api.loads++
	c19api.pathGot, c19api.strictGot = path, strict
	common := &v1.ClientCommonConfig{}
	common.Complete()
	switch c19api.scenario {
	case 0:
		return nil, nil, nil, false, errors.New("toml: line 3: unexpected token")
	case 1:
		// the file parses, but a proxy in it breaks a documented constraint (local port out of range)
		return common, []v1.ProxyConfigurer{c19apiProxy("b", 70000)}, nil, false, nil
	}
	return common, []v1.ProxyConfigurer{c19apiProxy("b", 80)}, nil, false, nil
}

type c19apiRW struct {
	hdr  http.Header
	code int
	body []byte
}

func (w *c19apiRW) Header() http.Header { return w.hdr }
func (w *c19apiRW) Write(p []byte) (int, error) {
	w.body = append(w.body, p...)
	return len(p), nil
}
func (w *c19apiRW) WriteHeader(code int) { w.code = code }

// VerifC19APIReload: the admin API's reload (what `frpc reload` calls) on a running client: a file
// that does not load or does not validate is answered 400 with the reason and changes nothing -
// neither the stored configuration nor the running proxies -; a valid file replaces both; the
// strictConfig query parameter decides strictness exactly as a boolean text does.
func VerifC19APIReload() {
	common := &v1.ClientCommonConfig{}
	mux := false
	common.Transport.TCPMux = &mux
	conn := &c14Conn{}
	kon := &c14Connector{conn: conn}
	ctx, cancel := context.WithCancelCause(context.Background())
	svr := &Service{ctx: ctx, cancel: cancel, common: common, authSetter: &c14Setter{}, clientSpec: &msg.ClientSpec{Type: "ssh-tunnel"},
		configFilePath: "/etc/frp/frpc.toml",
		connectorCreator: func(context.Context, *v1.ClientCommonConfig) Connector { return kon }}
	old := []v1.ProxyConfigurer{c19apiProxy("a", 80)}
	svr.proxyCfgs = old
	c14.untilFn, c14.untilN, c14.backoffFn, c14.backoffN = nil, 0, nil, 0
	c14.script, c14.scriptPos, c14.nextRunID, c14.respErr, c14.duringLogin = nil, 0, "rid", false, nil
	svr.loopLoginUntilSuccess(10*time.Second, false)
	zzverif.Assume(c14.backoffFn != nil)
	done, err := c14.backoffFn()
	zzverif.Assume(done && err == nil && svr.ctl != nil)

	c19api.scenario = zzverif.Choice("file", 3)
	c19api.loads = 0
	qi := zzverif.Choice("strictConfig", 5)
	q := []string{"", "strictConfig=true", "strictConfig=1", "strictConfig=false", "strictConfig=yes"}[qi]
	wantStrict := qi == 1 || qi == 2
	rw := &c19apiRW{hdr: http.Header{}}
	svr.apiReload(rw, &http.Request{Method: "GET", URL: &url.URL{Path: "/api/reload", RawQuery: q}, Header: http.Header{}})

	zzverif.Assert(c19api.loads == 1 && c19api.pathGot == "/etc/frp/frpc.toml", "C19.api.reload-reads-the-client's-own-configuration-file-once")
	zzverif.Assert(c19api.strictGot == wantStrict, "C18.api.strictness-as-the-query-parameter-says")
	st := svr.ctl.pm.GetAllProxyStatus()
	if c19api.scenario < 2 {
		zzverif.Assert(rw.code == 400 && len(rw.body) > 0, "C19.api.unusable-file-is-answered-400-with-the-reason")
		zzverif.Assert(len(svr.proxyCfgs) == 1 && svr.proxyCfgs[0] == old[0], "C19.api.unusable-file-leaves-the-stored-configuration")
		zzverif.Assert(len(st) == 1 && st[0].Name == "a", "C19.api.unusable-file-leaves-the-running-proxies")
		if c19api.scenario == 1 {
			zzverif.Reach("C19.api.invalid")
		}
		zzverif.Reach("C19.api.refused")
		return
	}
	zzverif.Assert(rw.code == 200, "C19.api.valid-file-is-answered-200")
	zzverif.Assert(len(svr.proxyCfgs) == 1 && svr.proxyCfgs[0].GetBaseConfig().Name == "b", "C19.api.valid-file-replaces-the-stored-configuration")
	zzverif.Assert(len(st) == 1 && st[0].Name == "b", "C19.api.valid-file-replaces-the-running-proxies")
	zzverif.Reach("C19.api.applied")
}
