//go:build verif

package visitor

import (
	"context"
	"errors"
	"net"
	"time"

	v1 "github.com/fatedier/frp/pkg/config/v1"
	"github.com/fatedier/frp/pkg/msg"
	"github.com/fatedier/frp/pkg/nathole"
	"github.com/fatedier/frp/pkg/transport"
	"github.com/fatedier/frp/zzverif"
)

var c20x struct {
	prepared, punched *net.UDPConn // the socket opened for discovery; the socket the hole was punched on
	closed            []*net.UDPConn
	peer              *net.UDPAddr
	preCheckFails     bool
	prepareFails      bool
	exchangeFails     bool
	makeHoleFails     bool
	otherSocket       bool // the hole was found on one of the extra listening sockets
	sent              *msg.NatHoleVisitor
}

func c20xStubPreCheck(ctx context.Context, tr transport.MessageTransporter, proxyName string, timeout time.Duration) error {
	if c20x.preCheckFails {
		return errors.New("xtcp server doesn't exist")
	}
	return nil
}
func c20xStubPrepare(stunServers []string) (*nathole.PrepareResult, error) {
	if c20x.prepareFails {
		return nil, errors.New("stun failed")
	}
	c20x.prepared = &net.UDPConn{}
	return &nathole.PrepareResult{Addrs: []string{"1.1.1.1:1000"}, ListenConn: c20x.prepared, NatType: "EasyNAT", Behavior: "BehaviorNoChange"}, nil
}
func c20xStubExchange(ctx context.Context, tr transport.MessageTransporter, transactionID string, m msg.Message, timeout time.Duration) (*msg.NatHoleResp, error) {
	if v, ok := m.(*msg.NatHoleVisitor); ok {
		c20x.sent = v
	}
	if c20x.exchangeFails {
		return nil, errors.New("timeout")
	}
	return &msg.NatHoleResp{Sid: "sid-1", Protocol: "quic"}, nil
}
func c20xStubMakeHole(ctx context.Context, listenConn *net.UDPConn, m *msg.NatHoleResp, key []byte) (*net.UDPConn, *net.UDPAddr, error) {
	if c20x.makeHoleFails {
		return nil, nil, errors.New("wait detect message timeout")
	}
	c20x.punched = listenConn
	if c20x.otherSocket {
		c20x.punched = &net.UDPConn{}
	}
	c20x.peer = &net.UDPAddr{IP: net.IPv4(2, 2, 2, 2), Port: 2000}
	return c20x.punched, c20x.peer, nil
}
func c20xStubUDPClose(c *net.UDPConn) error { c20x.closed = append(c20x.closed, c); return nil }
func c20xStubAuthKey(sk string, ts int64) string { return "key(" + sk + ")" }

type c20xSession struct {
	inits   int
	conn    *net.UDPConn
	raddr   *net.UDPAddr
	initErr bool
}

func (s *c20xSession) Init(c *net.UDPConn, raddr *net.UDPAddr) error {
	s.inits++
	s.conn, s.raddr = c, raddr
	if s.initErr {
		return errors.New("session init failed")
	}
	return nil
}
func (s *c20xSession) OpenConn(context.Context) (net.Conn, error) { return nil, errors.New("unused") }
func (s *c20xSession) Close()                                   {}

// VerifC20XTCPVisitorHole: the visitor's side of one hole-punching attempt: it signs its request with
// the proxy's secret, and the tunnel is set up on the very socket on which the hole was punched and
// towards the address the peer answered from; on every failure the socket it opened is closed and no
// tunnel is set up.
func VerifC20XTCPVisitorHole() {
	c20x.prepared, c20x.punched, c20x.closed, c20x.peer, c20x.sent = nil, nil, nil, nil, nil
	c20x.preCheckFails, c20x.prepareFails = zzverif.Bool("preCheckFails"), zzverif.Bool("prepareFails")
	c20x.exchangeFails, c20x.makeHoleFails = zzverif.Bool("exchangeFails"), zzverif.Bool("makeHoleFails")
	c20x.otherSocket = zzverif.Bool("holeFoundOnAnExtraSocket")
	cfg := &v1.XTCPVisitorConfig{}
	cfg.ServerName, cfg.SecretKey, cfg.Protocol = "p1", "secret", "quic"
	ses := &c20xSession{initErr: zzverif.Bool("sessionInitFails")}
	sv := &XTCPVisitor{
		BaseVisitor: &BaseVisitor{helper: c08vHelper{}, ctx: context.Background(), clientCfg: &v1.ClientCommonConfig{NatHoleSTUNServer: "stun.example:3478"}},
		cfg:         cfg,
		session:     ses,
	}
	sv.makeNatHole()
	failed := c20x.preCheckFails || c20x.prepareFails || c20x.exchangeFails || c20x.makeHoleFails
	if failed {
		zzverif.Assert(ses.inits == 0, "C20.xvisitor.no-tunnel-without-a-hole")
		if c20x.prepared != nil {
			zzverif.Assert(len(c20x.closed) == 1 && c20x.closed[0] == c20x.prepared, "C20.xvisitor.discovery-socket-closed-on-failure")
		}
		zzverif.Reach("C20.xvisitor.failed")
		return
	}
	zzverif.Assert(c20x.sent != nil && c20x.sent.ProxyName == "p1" && c20x.sent.SignKey == "key(secret)" && c20x.sent.Protocol == "quic", "C20.xvisitor.request-names-the-proxy-and-is-signed-with-its-secret")
	zzverif.Assert(ses.inits == 1 && ses.conn == c20x.punched && ses.raddr == c20x.peer, "C20.xvisitor.tunnel-set-up-on-the-punched-socket-towards-the-peer")
	if ses.initErr {
		zzverif.Assert(len(c20x.closed) >= 1 && c20x.closed[len(c20x.closed)-1] == c20x.punched, "C20.xvisitor.punched-socket-closed-when-the-tunnel-cannot-start")
	} else {
		for _, c := range c20x.closed {
			zzverif.Assert(c != c20x.punched, "C20.xvisitor.punched-socket-stays-open-for-the-tunnel")
		}
		zzverif.Reach("C20.xvisitor.tunnel")
	}
	if c20x.otherSocket {
		zzverif.Reach("C20.xvisitor.extra-socket")
	}
}
