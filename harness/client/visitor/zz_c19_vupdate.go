//go:build verif

package visitor

import (
	"context"
	"errors"
	"net"
	"reflect"
	"time"

	v1 "github.com/fatedier/frp/pkg/config/v1"
	"github.com/fatedier/frp/zzverif"
)

// fake Visitor created by the NewVisitor stub: whether Run fails is decided per start attempt
type c19Visitor struct {
	cfg     v1.VisitorConfigurer
	started bool
	closed  int
}

func (v *c19Visitor) Run() error {
	if zzverif.Bool("runFails") {
		c19v.failures++
		return errors.New("bind: address already in use")
	}
	v.started = true
	c19v.running = append(c19v.running, v)
	return nil
}
func (v *c19Visitor) AcceptConn(conn net.Conn) error { return nil }
func (v *c19Visitor) Close()                         { v.closed++ }

var c19v struct {
	running  []*c19Visitor // every visitor whose Run succeeded, in start order
	tick     chan time.Time
	failures int
}

func c19StubNewVisitor(ctx context.Context, cfg v1.VisitorConfigurer, clientCfg *v1.ClientCommonConfig, helper Helper) (Visitor, error) {
	return &c19Visitor{cfg: cfg}, nil
}

func c19StubNewTicker(d time.Duration) *time.Ticker { return &time.Ticker{C: c19v.tick} }

var c19vNames = []string{"a", "b"}

func c19vCfg(name string, version int) v1.VisitorConfigurer {
	c := &v1.STCPVisitorConfig{}
	c.Name, c.Type, c.ServerName, c.SecretKey = name, "stcp", "srv", "k"
	c.BindAddr, c.BindPort = "127.0.0.1", 7000+version
	return c
}

type c19vEntry struct {
	name    string
	version int
}

func c19vDefs(l []c19vEntry, name string) (vs []int) {
	for _, e := range l {
		if e.name == name {
			vs = append(vs, e.version)
		}
	}
	return
}

func c19vSame(a, b []int) bool {
	if len(a) != len(b) {
		return false
	}
	for i := range a {
		if a[i] != b[i] {
			return false
		}
	}
	return true
}

// live (started and not closed) fake visitors for a name
func c19vLive(name string) (l []*c19Visitor) {
	for _, v := range c19v.running {
		if v.closed == 0 && v.cfg.GetBaseConfig().Name == name {
			l = append(l, v)
		}
	}
	return
}

// VerifC19VisitorUpdate: after every sequence of reloads and retry ticks, with every start
// attempt free to fail, the visitors that run are configured ones with a definition of the
// last loaded configuration; removed or changed ones are closed and never come back;
// unchanged running ones are left alone; once starts succeed the set converges.
func VerifC19VisitorUpdate() {
	c19v.running, c19v.failures = nil, 0
	c19v.tick = make(chan time.Time)
	vm := NewManager(context.Background(), "rid", &v1.ClientCommonConfig{}, nil, nil, nil)
	steps := zzverif.Param("steps", 3)
	maxLen := zzverif.Param("maxLen", 2)
	var prev []c19vEntry
	check := func(cur []c19vEntry, when string) {
		for _, n := range c19vNames {
			defs := c19vDefs(cur, n)
			live := c19vLive(n)
			zzverif.Assert(len(live) <= 1, "C19.vupdate.at-most-one-running-visitor-per-name")
			if len(defs) == 0 {
				zzverif.Assert(len(live) == 0, "C19.vupdate.removed-visitor-does-not-run")
			}
			for _, v := range live {
				listed := false
				for _, d := range defs {
					if reflect.DeepEqual(v.cfg, c19vCfg(n, d)) {
						listed = true
					}
				}
				zzverif.Assert(listed, "C19.vupdate.running-visitor-has-a-definition-of-the-last-loaded-configuration")
			}
			vm.mu.RLock()
			_, held := vm.cfgs[n]
			vm.mu.RUnlock()
			zzverif.Assert(held == (len(defs) > 0), "C19.vupdate.desired-set-is-exactly-the-configured-names")
		}
	}
	for s := 0; s < steps; s++ {
		if zzverif.Bool("reload") {
			// the loaded list: one of a catalogue covering empty, single, two names, a changed
			// definition, a duplicated name (first/last definition differ) and a reordered pair
			catalogue := [][]c19vEntry{{}, {{"a", 0}}, {{"a", 1}}, {{"b", 0}}, {{"a", 0}, {"b", 0}}, {{"a", 0}, {"a", 1}}, {{"b", 0}, {"a", 1}}}
			if maxLen < 2 {
				catalogue = catalogue[:4]
			}
			cur := catalogue[zzverif.Choice("list", len(catalogue))]
			before := map[string]*c19Visitor{}
			for _, nm := range c19vNames {
				if l := c19vLive(nm); len(l) == 1 {
					before[nm] = l[0]
				}
			}
			cfgs := make([]v1.VisitorConfigurer, 0, len(cur))
			for _, e := range cur {
				cfgs = append(cfgs, c19vCfg(e.name, e.version))
			}
			vm.UpdateAll(cfgs)
			zzverif.Quiesce()
			for _, nm := range c19vNames {
				old := before[nm]
				if old == nil {
					continue
				}
				if c19vSame(c19vDefs(prev, nm), c19vDefs(cur, nm)) {
					zzverif.Assert(old.closed == 0, "C19.vupdate.unchanged-visitor-keeps-running")
					zzverif.Reach("C19.vupdate.kept")
				}
				oldListed := false
				for _, d := range c19vDefs(cur, nm) {
					if reflect.DeepEqual(old.cfg, c19vCfg(nm, d)) {
						oldListed = true
					}
				}
				if !oldListed {
					zzverif.Assert(old.closed == 1, "C19.vupdate.removed-or-changed-visitor-is-closed")
					zzverif.Reach("C19.vupdate.closed")
				}
			}
			prev = cur
			check(prev, "reload")
		} else {
			// the retry ticker fires
			select {
			case c19v.tick <- time.Time{}:
				zzverif.Quiesce()
				zzverif.Reach("C19.vupdate.tick")
			default:
			}
			check(prev, "tick")
		}
	}
	// convergence: after a retry round in which no start fails, every configured visitor runs
	f0 := c19v.failures
	select {
	case c19v.tick <- time.Time{}:
		zzverif.Quiesce()
		check(prev, "final")
		if c19v.failures == f0 {
			for _, n := range c19vNames {
				if len(c19vDefs(prev, n)) > 0 {
					zzverif.Assert(len(c19vLive(n)) == 1, "C19.vupdate.configured-visitors-are-retried-until-they-run")
				}
			}
			zzverif.Reach("C19.vupdate.converged")
		}
	default:
	}
	vm.Close()
}
