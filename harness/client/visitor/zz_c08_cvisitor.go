//go:build verif

package visitor

import (
	"context"
	"io"
	"net"
	"time"

	v1 "github.com/fatedier/frp/pkg/config/v1"
	"github.com/fatedier/frp/pkg/msg"
	"github.com/fatedier/frp/pkg/transport"
	netpkg "github.com/fatedier/frp/pkg/util/net"
	"github.com/fatedier/frp/pkg/vnet"
	"github.com/fatedier/frp/zzverif"
)

type c08vConn struct {
	name      string
	closed    int
	readArmed bool
}

func (c *c08vConn) Read(p []byte) (int, error)         { return 0, io.EOF }
func (c *c08vConn) Write(p []byte) (int, error)        { return len(p), nil }
func (c *c08vConn) Close() error                       { c.closed++; return nil }
func (c *c08vConn) LocalAddr() net.Addr                { return nil }
func (c *c08vConn) RemoteAddr() net.Addr               { return nil }
func (c *c08vConn) SetDeadline(t time.Time) error      { c.readArmed = !t.IsZero(); return nil }
func (c *c08vConn) SetReadDeadline(t time.Time) error  { c.readArmed = !t.IsZero(); return nil }
func (c *c08vConn) SetWriteDeadline(t time.Time) error { return nil }

type c08vLayer struct {
	kind  string
	key   string
	inner io.ReadWriteCloser
}

func (l *c08vLayer) Read(p []byte) (int, error)  { return 0, io.EOF }
func (l *c08vLayer) Write(p []byte) (int, error) { return len(p), nil }
func (l *c08vLayer) Close() error                { return l.inner.Close() }

var c08v struct {
	server       *c08vConn
	sent         []*msg.NewVisitorConn
	sentOn       io.Writer
	readFrom     io.Reader
	readUnderDl  bool
	respErr      string
	joinA, joinB io.ReadWriteCloser
	joins        int
	recycled     int
	connectFails bool
}

type c08vHelper struct{}

func (c08vHelper) ConnectServer() (net.Conn, error) {
	if c08v.connectFails {
		return nil, io.ErrClosedPipe
	}
	return c08v.server, nil
}
func (c08vHelper) TransferConn(string, net.Conn) error          { return nil }
func (c08vHelper) MsgTransporter() transport.MessageTransporter { return nil }
func (c08vHelper) VNetController() *vnet.Controller             { return nil }
func (c08vHelper) RunID() string                                { return "rid" }

func c08vStubAuthKey(sk string, ts int64) string { return zzverif.UF("authkey", 8, sk, ts) }
func c08vStubWriteMsg(w io.Writer, m any) error {
	if v, ok := m.(*msg.NewVisitorConn); ok {
		c08v.sent = append(c08v.sent, v)
		c08v.sentOn = w
	}
	return nil
}
func c08vStubReadMsgInto(r io.Reader, m msg.Message) error {
	c08v.readFrom = r
	c08v.readUnderDl = c08v.server.readArmed
	if resp, ok := m.(*msg.NewVisitorConnResp); ok {
		resp.Error = c08v.respErr
	}
	return nil
}
func c08vStubWithEncryption(rwc io.ReadWriteCloser, key []byte) (io.ReadWriteCloser, error) {
	return &c08vLayer{kind: "enc", key: string(key), inner: rwc}, nil
}
func c08vStubWithCompression(rwc io.ReadWriteCloser) io.ReadWriteCloser {
	return &c08vLayer{kind: "comp", inner: rwc}
}
func c08vStubWithCompressionFromPool(rwc io.ReadWriteCloser) (io.ReadWriteCloser, func()) {
	return &c08vLayer{kind: "comp", inner: rwc}, func() { c08v.recycled++ }
}
func c08vStubJoin(a, b io.ReadWriteCloser) (int64, int64, []error) {
	c08v.joinA, c08v.joinB = a, b
	c08v.joins++
	return 0, 0, nil
}

func c08vWalk(top interface{}) (kinds, key string, end interface{}) {
	cur := top
	for i := 0; i < 6; i++ {
		switch x := cur.(type) {
		case *c08vLayer:
			kinds += x.kind + ","
			if x.kind == "enc" {
				key = x.key
			}
			cur = x.inner
		case *netpkg.WrapReadWriteCloserConn:
			cur = x.ReadWriteCloser
		default:
			return kinds, key, cur
		}
	}
	return kinds, key, cur
}

// VerifC08ClientVisitor: the visitor side of a secret tunnel (stcp stream / sudp connection):
// what it declares to the server is what it applies itself, keyed by the shared secret; the
// answer is read from the connection itself (nothing beyond the frame is consumed) under a
// deadline that is cleared afterwards; a refusal is not bridged.
func VerifC08ClientVisitor() {
	enc, comp := zzverif.Bool("useEncryption"), zzverif.Bool("useCompression")
	c08v.server = &c08vConn{name: "to-frps"}
	c08v.sent, c08v.sentOn, c08v.readFrom, c08v.joins, c08v.joinA, c08v.joinB, c08v.recycled = nil, nil, nil, 0, nil, nil, 0
	c08v.respErr = []string{"", "user not allowed"}[zzverif.Choice("refused", 2)]
	c08v.connectFails = false
	base := &BaseVisitor{helper: c08vHelper{}, ctx: context.Background(), clientCfg: &v1.ClientCommonConfig{}}
	var top interface{}
	sudp := zzverif.Bool("sudp")
	user := &c08vConn{name: "user"}
	if sudp {
		cfg := &v1.SUDPVisitorConfig{}
		cfg.ServerName, cfg.SecretKey = "p1", "secret"
		cfg.Transport.UseEncryption, cfg.Transport.UseCompression = enc, comp
		sv := &SUDPVisitor{BaseVisitor: base, cfg: cfg}
		c, err := sv.getNewVisitorConn()
		if c08v.respErr != "" {
			zzverif.Assert(err != nil && c == nil, "C08.cvisitor.refusal-is-an-error")
			zzverif.Reach("C08.cvisitor.refused")
			return
		}
		zzverif.Assert(err == nil && c != nil, "C08.cvisitor.accepted")
		// the connection lives on after the call: nothing it uses may have been handed back to a pool
		zzverif.Assert(c08v.recycled == 0, "C08.cvisitor.long-lived-stream-keeps-its-compressor")
		top = c
	} else {
		cfg := &v1.STCPVisitorConfig{}
		cfg.ServerName, cfg.SecretKey = "p1", "secret"
		cfg.Transport.UseEncryption, cfg.Transport.UseCompression = enc, comp
		sv := &STCPVisitor{BaseVisitor: base, cfg: cfg}
		sv.handleConn(user)
		zzverif.Assert(user.closed >= 1 && c08v.server.closed >= 1, "C08.cvisitor.both-ends-closed-when-done")
		if c08v.respErr != "" {
			zzverif.Assert(c08v.joins == 0, "C08.cvisitor.refusal-not-bridged")
			zzverif.Reach("C08.cvisitor.refused")
			return
		}
		zzverif.Assert(c08v.joins == 1 && c08v.joinA == io.ReadWriteCloser(user), "C08.cvisitor.user-bridged-once")
		zzverif.Assert((c08v.recycled == 1) == comp, "C08.cvisitor.compression-resources-recycled")
		top = c08v.joinB
	}
	zzverif.Assert(len(c08v.sent) == 1 && c08v.sentOn == io.Writer(c08v.server), "C08.cvisitor.one-request-on-the-server-connection")
	if len(c08v.sent) == 1 {
		m := c08v.sent[0]
		zzverif.Assert(m.ProxyName == "p1" && m.RunID == "rid", "C08.cvisitor.names-the-proxy-and-its-session")
		zzverif.Assert(zzverif.StrEq(m.SignKey, c08vStubAuthKey("secret", m.Timestamp)), "C08.cvisitor.signed-with-the-secret-and-its-timestamp")
		zzverif.Assert(m.UseEncryption == enc && m.UseCompression == comp, "C08.cvisitor.declares-exactly-the-configured-layers")
	}
	zzverif.Assert(c08v.readFrom == io.Reader(c08v.server), "C17.cvisitor.answer-read-from-the-connection-itself-nothing-buffered-past-the-frame")
	zzverif.Assert(c08v.readUnderDl && !c08v.server.readArmed, "C08.cvisitor.answer-awaited-under-a-deadline-cleared-afterwards")
	kinds, key, end := c08vWalk(top)
	want := ""
	if comp {
		want += "comp,"
	}
	if enc {
		want += "enc,"
	}
	zzverif.Assert(kinds == want, "C08.cvisitor.applies-exactly-the-declared-layers-compression-outside-encryption")
	if enc {
		zzverif.Assert(key == "secret", "C08.cvisitor.encryption-keyed-by-the-secret")
	}
	zzverif.Assert(end == interface{}(c08v.server), "C08.cvisitor.stack-ends-at-the-server-connection")
	if enc != comp {
		zzverif.Reach("C08.cvisitor.mixed-flags")
	}
	zzverif.Reach("C08.cvisitor.bridged")
}

// ---- xtcp visitor: tunnel or fallback

var c01x struct {
	tunnel       *c08vConn
	tunnelFails  bool
	transferFail bool
	transferred  []string
	transferConn net.Conn
}

type c01xHelper struct{ c08vHelper }

func (c01xHelper) TransferConn(name string, c net.Conn) error {
	c01x.transferred = append(c01x.transferred, name)
	c01x.transferConn = c
	if c01x.transferFail {
		return io.ErrClosedPipe
	}
	return nil
}

// stub for (*XTCPVisitor).openTunnel: hole punching is not the subject here
func c01xStubOpenTunnel(sv *XTCPVisitor, ctx context.Context) (net.Conn, error) {
	if c01x.tunnelFails {
		return nil, context.DeadlineExceeded
	}
	return c01x.tunnel, nil
}

// VerifC01XTCPVisitor: every user connection of an xtcp visitor ends up bridged over the tunnel
// with the declared layers, handed over to the configured fallback visitor exactly once, or
// closed; it is never left open and ownerless.
func VerifC01XTCPVisitor() {
	enc, comp := zzverif.Bool("useEncryption"), zzverif.Bool("useCompression")
	cfg := &v1.XTCPVisitorConfig{}
	cfg.ServerName, cfg.SecretKey = "p1", "secret"
	cfg.Transport.UseEncryption, cfg.Transport.UseCompression = enc, comp
	if zzverif.Bool("fallbackConfigured") {
		cfg.FallbackTo, cfg.FallbackTimeoutMs = "plan-b", 200
	}
	c01x.tunnel = &c08vConn{name: "tunnel"}
	c01x.tunnelFails, c01x.transferFail = zzverif.Bool("noTunnel"), zzverif.Bool("fallbackGone")
	c01x.transferred, c01x.transferConn = nil, nil
	c08v.joins, c08v.joinA, c08v.joinB, c08v.recycled = 0, nil, nil, 0
	sv := &XTCPVisitor{BaseVisitor: &BaseVisitor{helper: c01xHelper{}, ctx: context.Background(), clientCfg: &v1.ClientCommonConfig{}}, cfg: cfg}
	user := &c08vConn{name: "user"}
	sv.handleConn(user)

	switch {
	case !c01x.tunnelFails:
		zzverif.Assert(c08v.joins == 1 && c08v.joinA == io.ReadWriteCloser(user), "C01.xtcp.user-bridged-over-the-tunnel")
		kinds, key, end := c08vWalk(c08v.joinB)
		want := ""
		if comp {
			want += "comp,"
		}
		if enc {
			want += "enc,"
		}
		zzverif.Assert(kinds == want && (!enc || key == "secret") && end == interface{}(c01x.tunnel), "C01.xtcp.declared-layers-keyed-by-the-secret-over-the-tunnel")
		zzverif.Assert(user.closed >= 1 && len(c01x.transferred) == 0, "C01.xtcp.user-closed-after-the-bridge")
		zzverif.Reach("C01.xtcp.tunnelled")
	case cfg.FallbackTo == "":
		zzverif.Assert(user.closed >= 1 && c08v.joins == 0 && len(c01x.transferred) == 0, "C01.xtcp.no-tunnel-no-fallback-closes-the-user")
	case !c01x.transferFail:
		zzverif.Assert(len(c01x.transferred) == 1 && c01x.transferred[0] == "plan-b" && c01x.transferConn == net.Conn(user), "C01.xtcp.handed-to-the-configured-fallback-once")
		zzverif.Assert(user.closed == 0, "C01.xtcp.handed-over-connection-left-to-its-new-owner")
		zzverif.Reach("C01.xtcp.fallback")
	default:
		zzverif.Assert(user.closed >= 1, "C01.xtcp.failed-hand-over-closes-the-user")
		zzverif.Reach("C01.xtcp.fallback-failed")
	}
}
