//go:build verif

package visitor

import (
	"context"
	"errors"
	"io"
	"net"
	"time"

	v1 "github.com/fatedier/frp/pkg/config/v1"
	"github.com/fatedier/frp/pkg/msg"
	"github.com/fatedier/frp/pkg/transport"
	netpkg "github.com/fatedier/frp/pkg/util/net"
	"github.com/fatedier/frp/pkg/vnet"
	"github.com/fatedier/frp/zzverif"
)

// one visitor connection to frps (a generation)
type c03vConn struct {
	gen     int
	closed  int
	written []msg.Message // datagrams written towards the server on this connection
	afterCl int           // writes attempted after the connection was closed (lost datagrams)
	inbox   chan msg.Message
	broken  chan struct{}
}

func (c *c03vConn) Read(p []byte) (int, error)  { return 0, io.EOF }
func (c *c03vConn) Write(p []byte) (int, error) { return len(p), nil }
func (c *c03vConn) Close() error {
	c.closed++
	if c.closed == 1 {
		close(c.broken)
	}
	return nil
}
func (c *c03vConn) LocalAddr() net.Addr                { return nil }
func (c *c03vConn) RemoteAddr() net.Addr               { return nil }
func (c *c03vConn) SetDeadline(t time.Time) error      { return nil }
func (c *c03vConn) SetReadDeadline(t time.Time) error  { return nil }
func (c *c03vConn) SetWriteDeadline(t time.Time) error { return nil }

var c03v struct {
	conns        []*c03vConn
	announced    []*msg.NewVisitorConn
	connectFails []bool // per connect attempt
	attempts     int
}

type c03vHelper struct{}

func (c03vHelper) ConnectServer() (net.Conn, error) {
	i := c03v.attempts
	c03v.attempts++
	if i < len(c03v.connectFails) && c03v.connectFails[i] {
		return nil, io.ErrClosedPipe
	}
	c := &c03vConn{gen: len(c03v.conns), inbox: make(chan msg.Message, 4), broken: make(chan struct{})}
	c03v.conns = append(c03v.conns, c)
	return c, nil
}
func (c03vHelper) TransferConn(string, net.Conn) error          { return nil }
func (c03vHelper) MsgTransporter() transport.MessageTransporter { return nil }
func (c03vHelper) VNetController() *vnet.Controller             { return nil }
func (c03vHelper) RunID() string                                { return "rid" }

func c03vFind(x interface{}) *c03vConn {
	for i := 0; i < 6; i++ {
		switch v := x.(type) {
		case *c03vConn:
			return v
		case *netpkg.WrapReadWriteCloserConn:
			x = v.ReadWriteCloser
		case *c08vLayer:
			x = v.inner
		default:
			return nil
		}
	}
	return nil
}

func c03vStubWriteMsg(w io.Writer, m any) error {
	c := c03vFind(w)
	if c == nil {
		zzverif.Unsupported("WriteMsg on something that is not a harness connection")
		return nil
	}
	if v, ok := m.(*msg.NewVisitorConn); ok {
		c03v.announced = append(c03v.announced, v)
		return nil
	}
	if c.closed > 0 {
		c.afterCl++
		return errors.New("use of closed connection")
	}
	c.written = append(c.written, m)
	return nil
}
func c03vStubReadMsgInto(r io.Reader, m msg.Message) error { return nil }
func c03vStubReadMsg(r io.Reader) (msg.Message, error) {
	c := c03vFind(r)
	if c == nil {
		return nil, io.EOF
	}
	select {
	case m := <-c.inbox:
		return m, nil
	case <-c.broken:
		return nil, io.EOF
	}
}

// VerifC03SUDPVisitor: the visitor side of an sudp tunnel across replacement of its connection to
// the server: every datagram of the user travels unchanged on the connection that is current when
// it is sent (the first one after a replacement on the new connection), each at most once, replies
// reach the user side unchanged, broken connections are closed and nothing is written to them.
func VerifC03SUDPVisitor() {
	zzverif.SetPreempt(zzverif.Param("preempt", 0))
	c03v.conns, c03v.announced, c03v.attempts = nil, nil, 0
	c03v.connectFails = []bool{false, false, false}
	cfg := &v1.SUDPVisitorConfig{}
	cfg.ServerName, cfg.SecretKey = "p1", "secret"
	sv := &SUDPVisitor{
		BaseVisitor:  &BaseVisitor{helper: c03vHelper{}, ctx: context.Background(), clientCfg: &v1.ClientCommonConfig{}},
		checkCloseCh: make(chan struct{}),
		cfg:          cfg,
	}
	sv.sendCh = make(chan *msg.UDPPacket, 8)
	sv.readCh = make(chan *msg.UDPPacket, 8)
	go sv.dispatcher()

	gens := 1 + zzverif.Choice("generations", 2)
	var sent []*msg.UDPPacket
	var sentGen []int
	var replies []*msg.UDPPacket
	for g := 0; g < gens; g++ {
		// 1..2 datagrams from the user while generation g is current
		k := 1 + zzverif.Choice("datagrams", 2)
		for i := 0; i < k; i++ {
			p := &msg.UDPPacket{Content: zzverif.String("content", 1), RemoteAddr: &net.UDPAddr{Port: 4000 + len(sent)}}
			sent = append(sent, p)
			sentGen = append(sentGen, g)
			sv.sendCh <- p
			zzverif.Quiesce()
		}
		zzverif.Assert(len(c03v.conns) == g+1, "C03.svisitor.one-connection-per-generation")
		if len(c03v.conns) != g+1 {
			return
		}
		cur := c03v.conns[g]
		// the backend answers through the server; a keep-alive in between is not a datagram
		if zzverif.Bool("ping") {
			cur.inbox <- &msg.Ping{}
		}
		r := &msg.UDPPacket{Content: zzverif.String("reply", 1), RemoteAddr: &net.UDPAddr{Port: 4000}}
		replies = append(replies, r)
		cur.inbox <- r
		zzverif.Quiesce()
		if g+1 < gens {
			// the connection to the server breaks while the tunnel is idle
			_ = cur.Close()
			zzverif.Quiesce()
			zzverif.Reach("C03.svisitor.replaced")
		}
	}
	sv.Close()
	if zzverif.Bool("closedTwice") {
		// a reload that drops the visitor and the shutdown of the client may both close it
		sv.Close()
		zzverif.Reach("C16.svisitor.closed-twice")
	}
	zzverif.Quiesce()

	// user -> backend direction
	total := 0
	for g, c := range c03v.conns {
		total += len(c.written)
		zzverif.Assert(c.afterCl == 0, "C03.svisitor.nothing-sent-on-a-broken-connection")
		zzverif.Assert(c.closed >= 1, "C03.svisitor.every-connection-closed-in-the-end")
		_ = g
	}
	zzverif.Assert(total == len(sent), "C03.svisitor.every-datagram-forwarded-exactly-once")
	idx := make([]int, len(c03v.conns))
	for i, p := range sent {
		g := sentGen[i]
		if g >= len(c03v.conns) {
			continue
		}
		c := c03v.conns[g]
		if idx[g] < len(c.written) {
			w, ok := c.written[idx[g]].(*msg.UDPPacket)
			zzverif.Assert(ok && w == p, "C03.svisitor.datagram-travels-on-the-current-connection-in-order")
			if ok {
				zzverif.Assert(zzverif.StrEq(w.Content, p.Content) && w.RemoteAddr == p.RemoteAddr, "C03.svisitor.datagram-unchanged")
			}
			idx[g]++
		} else {
			zzverif.Fail("C03.svisitor.datagram-travels-on-the-current-connection-in-order")
		}
	}
	zzverif.Assert(len(c03v.announced) == len(c03v.conns), "C03.svisitor.each-connection-announced-once")
	// backend -> user direction: replies in order, unchanged, pings not among them
	n := len(sv.readCh)
	_ = n
	got := 0
	for {
		p, ok := <-sv.readCh
		if !ok {
			break
		}
		if got < len(replies) {
			zzverif.Assert(p == replies[got], "C03.svisitor.reply-delivered-unchanged-in-order")
		}
		got++
	}
	zzverif.Assert(got == len(replies), "C03.svisitor.every-reply-delivered-exactly-once")
	zzverif.Reach("C03.svisitor.done")
}
