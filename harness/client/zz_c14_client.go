//go:build verif

package client

import (
	"context"
	"errors"
	"io"
	"net"
	"time"

	v1 "github.com/fatedier/frp/pkg/config/v1"
	"github.com/fatedier/frp/pkg/msg"
	"github.com/fatedier/frp/zzverif"
)

type c14Conn struct {
	closed       int
	readDeadline []time.Time
	written      []msg.Message
}

func (c *c14Conn) Read(p []byte) (int, error)    { return 0, io.EOF }
func (c *c14Conn) Write(p []byte) (int, error)   { return len(p), nil }
func (c *c14Conn) Close() error                  { c.closed++; return nil }
func (c *c14Conn) LocalAddr() net.Addr           { return nil }
func (c *c14Conn) RemoteAddr() net.Addr          { return nil }
func (c *c14Conn) SetDeadline(t time.Time) error { return nil }
func (c *c14Conn) SetReadDeadline(t time.Time) error {
	c.readDeadline = append(c.readDeadline, t)
	return nil
}
func (c *c14Conn) SetWriteDeadline(t time.Time) error { return nil }

type c14Connector struct {
	conn   *c14Conn
	closed int
	opened int
}

func (k *c14Connector) Open() error { k.opened++; return nil }
func (k *c14Connector) Connect() (net.Conn, error) {
	return k.conn, nil
}
func (k *c14Connector) Close() error { k.closed++; return nil }

type c14Setter struct{ fail bool }

func (s *c14Setter) SetLogin(*msg.Login) error { return nil }
func (s *c14Setter) SetPing(*msg.Ping) error {
	if s.fail {
		return errors.New("cannot sign ping")
	}
	return nil
}
func (s *c14Setter) SetNewWorkConn(*msg.NewWorkConn) error { return nil }

var c14 struct {
	untilFn     func()
	untilPeriod time.Duration
	untilN      int
	backoffFn   func() (bool, error)
	backoffN    int
	elapsed     time.Duration
	respErr     bool
	deadlineSet bool
	readConn    *c14Conn
}

func c14StubUntil(f func(), period time.Duration, stopCh <-chan struct{}) {
	c14.untilFn, c14.untilPeriod = f, period
	c14.untilN++
}
func c14StubBackoffUntil(f func() (bool, error), backoff interface {
	Backoff(time.Duration, bool) time.Duration
}, sliding bool, stopCh <-chan struct{}) {
	c14.backoffFn = f
	c14.backoffN++
}
func c14StubSince(t time.Time) time.Duration { return c14.elapsed }
func c14StubWriteMsg(c io.Writer, m any) error {
	if cc, ok := c.(*c14Conn); ok {
		cc.written = append(cc.written, m)
	}
	return nil
}

// stub for msg.ReadMsgInto: the login response; records whether a read deadline is armed at that moment
func c14StubReadMsgInto(c io.Reader, m msg.Message) error {
	cc, _ := c.(*c14Conn)
	c14.readConn = cc
	if cc != nil && len(cc.readDeadline) > 0 {
		last := cc.readDeadline[len(cc.readDeadline)-1]
		c14.deadlineSet = !last.IsZero()
	}
	if c14.respErr {
		return errors.New("i/o timeout")
	}
	if r, ok := m.(*msg.LoginResp); ok {
		r.RunID = "rid"
	}
	return nil
}

// VerifC14ClientWatchdog: the client applies the liveness rule to a silent server: when the
// last pong is older than the timeout the session's connection AND connector are closed.
func VerifC14ClientWatchdog() {
	common := &v1.ClientCommonConfig{}
	hbI := zzverif.IntRange("heartbeatInterval", -1, 2)
	t := zzverif.IntRange("heartbeatTimeout", -1, 1<<20)
	common.Transport.HeartbeatInterval = int64(hbI)
	common.Transport.HeartbeatTimeout = int64(t)
	conn := &c14Conn{}
	kon := &c14Connector{conn: conn}
	ctl, err := NewControl(context.Background(), &SessionContext{Common: common, RunID: "r", Conn: conn, Connector: kon, AuthSetter: &c14Setter{}})
	zzverif.Assume(err == nil)
	c14.untilFn, c14.untilN, c14.backoffFn, c14.backoffN = nil, 0, nil, 0
	s := zzverif.IntRange("elapsedSeconds", 0, 1<<21)
	r := zzverif.IntRange("elapsedNanos", 0, 999999999)
	c14.elapsed = time.Duration(s)*time.Second + time.Duration(r)

	ctl.heartbeatWorker()
	zzverif.Quiesce()

	if hbI <= 0 {
		zzverif.Assert(c14.untilN == 0 && c14.backoffN == 0, "C14.client.heartbeats-disabled")
		zzverif.Reach("C14.client.disabled")
		return
	}
	zzverif.Assert(c14.backoffN == 1, "C14.client.heartbeat-sender-started")
	if t <= 0 {
		zzverif.Assert(c14.untilN == 0, "C14.client.no-watchdog-without-timeout")
		return
	}
	zzverif.Assert(c14.untilN == 1 && c14.untilPeriod == time.Second, "C14.client.watchdog-every-second")
	c14.untilFn()
	dead := zzverif.Or(s > t, zzverif.And(s == t, r > 0))
	zzverif.Assert(zzverif.Iff(conn.closed >= 1, dead), "C14.client.silent-server-torn-down-iff-older-than-timeout")
	if conn.closed >= 1 {
		zzverif.Assert(kon.closed >= 1, "C14.client.connector-closed-too")
		zzverif.Reach("C14.client.torn-down")
	} else {
		zzverif.Assert(kon.closed == 0, "C14.client.session-kept")
		zzverif.Reach("C14.client.kept")
	}
	// one heartbeat tick: a ping is queued iff it could be signed
	if c14.backoffFn != nil {
		ctl.sessionCtx.AuthSetter = &c14Setter{fail: zzverif.Bool("setPingFails")}
		before := len(ctl.msgDispatcher.SendChannel())
		_, e := c14.backoffFn()
		after := len(ctl.msgDispatcher.SendChannel())
		fails := ctl.sessionCtx.AuthSetter.(*c14Setter).fail
		zzverif.Assert((e != nil) == fails && (after == before+1) == !fails, "C14.client.ping-sent-iff-signed")
	}
	// a pong with an error closes the session; a clean pong refreshes
	ctl2conn := &c14Conn{}
	k2 := &c14Connector{conn: ctl2conn}
	ctl2, _ := NewControl(context.Background(), &SessionContext{Common: common, RunID: "r", Conn: ctl2conn, Connector: k2, AuthSetter: &c14Setter{}})
	pongErr := zzverif.Bool("pongError")
	p := &msg.Pong{}
	if pongErr {
		p.Error = "bad"
	}
	ctl2.handlePong(p)
	zzverif.Assert((ctl2conn.closed >= 1) == pongErr && (k2.closed >= 1) == pongErr, "C14.client.error-pong-closes-session")
}

// VerifC14Login: one login attempt never waits for the server's answer without a deadline.
func VerifC14Login() {
	common := &v1.ClientCommonConfig{}
	mux := zzverif.Bool("tcpMux")
	common.Transport.TCPMux = &mux
	common.Transport.PoolCount = 1
	conn := &c14Conn{}
	kon := &c14Connector{conn: conn}
	svr := &Service{ctx: context.Background(), common: common, authSetter: &c14Setter{},
		connectorCreator: func(context.Context, *v1.ClientCommonConfig) Connector { return kon }}
	c14.respErr = zzverif.Bool("serverSilent")
	c14.deadlineSet, c14.readConn = false, nil
	c, k, err := svr.login()
	zzverif.Assert(c14.readConn == conn, "C14.login.reads-the-answer")
	zzverif.Assert(c14.deadlineSet, "C14.login.answer-awaited-under-a-deadline")
	if c14.respErr {
		zzverif.Assert(err != nil && kon.closed >= 1, "C14.login.failed-attempt-releases-the-connector")
		zzverif.Reach("C14.login.failed")
	} else {
		zzverif.Assert(err == nil && c == net.Conn(conn) && k != nil && svr.runID == "rid", "C14.login.ok")
		zzverif.Assert(len(conn.readDeadline) >= 2 && conn.readDeadline[len(conn.readDeadline)-1].IsZero(), "C14.login.deadline-cleared-after-answer")
		zzverif.Reach("C14.login.ok")
	}
}
