//go:build verif

package client

import (
	"context"
	"errors"
	"io"
	"net"
	"time"

	v1 "github.com/fatedier/frp/pkg/config/v1"
	"github.com/fatedier/frp/pkg/msg"
	"github.com/fatedier/frp/zzverif"
)

type c14Conn struct {
	closed       int
	readDeadline []time.Time
	written      []msg.Message
}

func (c *c14Conn) Read(p []byte) (int, error)    { return 0, io.EOF }
func (c *c14Conn) Write(p []byte) (int, error)   { return len(p), nil }
func (c *c14Conn) Close() error                  { c.closed++; return nil }
func (c *c14Conn) LocalAddr() net.Addr           { return nil }
func (c *c14Conn) RemoteAddr() net.Addr          { return nil }
func (c *c14Conn) SetDeadline(t time.Time) error { return nil }
func (c *c14Conn) SetReadDeadline(t time.Time) error {
	c.readDeadline = append(c.readDeadline, t)
	return nil
}
func (c *c14Conn) SetWriteDeadline(t time.Time) error { return nil }

type c14Connector struct {
	conn   *c14Conn
	closed int
	opened int
}

func (k *c14Connector) Open() error { k.opened++; return nil }
func (k *c14Connector) Connect() (net.Conn, error) {
	return k.conn, nil
}
func (k *c14Connector) Close() error { k.closed++; return nil }

type c14Setter struct{ fail bool }

func (s *c14Setter) SetLogin(*msg.Login) error { return nil }
func (s *c14Setter) SetPing(*msg.Ping) error {
	if s.fail {
		return errors.New("cannot sign ping")
	}
	return nil
}
func (s *c14Setter) SetNewWorkConn(*msg.NewWorkConn) error { return nil }

var c14 struct {
	untilFn     func()
	untilPeriod time.Duration
	untilN      int
	backoffFn   func() (bool, error)
	backoffN    int
	backoffMgr  interface {
		Backoff(time.Duration, bool) time.Duration
	}
	backoffSliding bool
	jitterMode     int // 0 symbolic, 1 always the minimum, 2 always the maximum
	elapsed        time.Duration
	respErr        bool
	deadlineSet    bool
	readConn       *c14Conn
	script         []int
	scriptPos      int
	nextRunID      string
	duringLogin    func() // runs while a login round trip is outstanding (between Login and LoginResp)
}

func c14StubUntil(f func(), period time.Duration, stopCh <-chan struct{}) {
	c14.untilFn, c14.untilPeriod = f, period
	c14.untilN++
}
func c14StubBackoffUntil(f func() (bool, error), backoff interface {
	Backoff(time.Duration, bool) time.Duration
}, sliding bool, stopCh <-chan struct{}) {
	c14.backoffFn = f
	c14.backoffMgr, c14.backoffSliding = backoff, sliding
	c14.backoffN++
}

// stub for wait.Jitter by its documented contract: any duration between d and d + maxFactor*d
// (computed in whole per-mille so that no float arithmetic is needed)
func c14StubJitter(d time.Duration, maxFactor float64) time.Duration {
	if maxFactor <= 0.0 {
		maxFactor = 1.0
	}
	if c14.jitterMode != 0 {
		// rate harness: the whole run at one extreme of the contract (concrete arithmetic)
		if c14.jitterMode == 1 {
			return d
		}
		return d + time.Duration(float64(d)*maxFactor)
	}
	pm := int64(maxFactor * 1000)
	x := zzverif.Int64("jitter")
	zzverif.Assume(x >= 0 && x <= (int64(d)/1000+1)*pm)
	return d + time.Duration(x)
}
func c14StubSince(t time.Time) time.Duration { return c14.elapsed }
func c14StubWriteMsg(c io.Writer, m any) error {
	if cc, ok := c.(*c14Conn); ok {
		cc.written = append(cc.written, m)
	}
	return nil
}

// stub for msg.ReadMsgInto: the login response; records whether a read deadline is armed at that moment
func c14StubReadMsgInto(c io.Reader, m msg.Message) error {
	cc, _ := c.(*c14Conn)
	c14.readConn = cc
	if cc != nil && len(cc.readDeadline) > 0 {
		last := cc.readDeadline[len(cc.readDeadline)-1]
		c14.deadlineSet = !last.IsZero()
	}
	if c14.duringLogin != nil {
		f := c14.duringLogin
		c14.duringLogin = nil
		f()
	}
	if c14.script != nil {
		k := c14.script[c14.scriptPos]
		c14.scriptPos++
		r, _ := m.(*msg.LoginResp)
		switch k {
		case 0: // accepted: a fresh run id, or the one the client presented
			if r != nil {
				r.RunID = c14.nextRunID
			}
			return nil
		case 1: // refused: an error and no run id
			if r != nil {
				r.Error = "authorization failed"
			}
			return nil
		default:
			return errors.New("i/o timeout")
		}
	}
	if c14.respErr {
		return errors.New("i/o timeout")
	}
	if r, ok := m.(*msg.LoginResp); ok {
		r.RunID = "rid"
	}
	return nil
}

// VerifC14ClientWatchdog: the client applies the liveness rule to a silent server: when the
// last pong is older than the timeout the session's connection AND connector are closed.
func VerifC14ClientWatchdog() {
	common := &v1.ClientCommonConfig{}
	hbI := zzverif.IntRange("heartbeatInterval", -1, 2)
	t := zzverif.IntRange("heartbeatTimeout", -1, 1<<20)
	common.Transport.HeartbeatInterval = int64(hbI)
	common.Transport.HeartbeatTimeout = int64(t)
	conn := &c14Conn{}
	kon := &c14Connector{conn: conn}
	ctl, err := NewControl(context.Background(), &SessionContext{Common: common, RunID: "r", Conn: conn, Connector: kon, AuthSetter: &c14Setter{}})
	zzverif.Assume(err == nil)
	c14.untilFn, c14.untilN, c14.backoffFn, c14.backoffN = nil, 0, nil, 0
	s := zzverif.IntRange("elapsedSeconds", 0, 1<<21)
	r := zzverif.IntRange("elapsedNanos", 0, 999999999)
	c14.elapsed = time.Duration(s)*time.Second + time.Duration(r)

	ctl.heartbeatWorker()
	zzverif.Quiesce()

	if hbI <= 0 {
		zzverif.Assert(c14.untilN == 0 && c14.backoffN == 0, "C14.client.heartbeats-disabled")
		zzverif.Reach("C14.client.disabled")
		return
	}
	zzverif.Assert(c14.backoffN == 1, "C14.client.heartbeat-sender-started")
	if t <= 0 {
		zzverif.Assert(c14.untilN == 0, "C14.client.no-watchdog-without-timeout")
		return
	}
	zzverif.Assert(c14.untilN == 1 && c14.untilPeriod == time.Second, "C14.client.watchdog-every-second")
	c14.untilFn()
	dead := zzverif.Or(s > t, zzverif.And(s == t, r > 0))
	zzverif.Assert(zzverif.Iff(conn.closed >= 1, dead), "C14.client.silent-server-torn-down-iff-older-than-timeout")
	if conn.closed >= 1 {
		zzverif.Assert(kon.closed >= 1, "C14.client.connector-closed-too")
		zzverif.Reach("C14.client.torn-down")
	} else {
		zzverif.Assert(kon.closed == 0, "C14.client.session-kept")
		zzverif.Reach("C14.client.kept")
	}
	// one heartbeat tick: a ping is queued iff it could be signed
	if c14.backoffFn != nil {
		ctl.sessionCtx.AuthSetter = &c14Setter{fail: zzverif.Bool("setPingFails")}
		before := len(ctl.msgDispatcher.SendChannel())
		_, e := c14.backoffFn()
		after := len(ctl.msgDispatcher.SendChannel())
		fails := ctl.sessionCtx.AuthSetter.(*c14Setter).fail
		zzverif.Assert((e != nil) == fails && (after == before+1) == !fails, "C14.client.ping-sent-iff-signed")
	}
	// a pong with an error closes the session; a clean pong refreshes
	ctl2conn := &c14Conn{}
	k2 := &c14Connector{conn: ctl2conn}
	ctl2, _ := NewControl(context.Background(), &SessionContext{Common: common, RunID: "r", Conn: ctl2conn, Connector: k2, AuthSetter: &c14Setter{}})
	pongErr := zzverif.Bool("pongError")
	p := &msg.Pong{}
	if pongErr {
		p.Error = "bad"
	}
	ctl2.handlePong(p)
	zzverif.Assert((ctl2conn.closed >= 1) == pongErr && (k2.closed >= 1) == pongErr, "C14.client.error-pong-closes-session")
}

// VerifC14Login: one login attempt never waits for the server's answer without a deadline.
func VerifC14Login() {
	common := &v1.ClientCommonConfig{}
	mux := zzverif.Bool("tcpMux")
	common.Transport.TCPMux = &mux
	common.Transport.PoolCount = 1
	conn := &c14Conn{}
	kon := &c14Connector{conn: conn}
	svr := &Service{ctx: context.Background(), common: common, authSetter: &c14Setter{},
		connectorCreator: func(context.Context, *v1.ClientCommonConfig) Connector { return kon }}
	c14.respErr = zzverif.Bool("serverSilent")
	c14.deadlineSet, c14.readConn = false, nil
	c, k, err := svr.login()
	zzverif.Assert(c14.readConn == conn, "C14.login.reads-the-answer")
	zzverif.Assert(c14.deadlineSet, "C14.login.answer-awaited-under-a-deadline")
	if c14.respErr {
		zzverif.Assert(err != nil && kon.closed >= 1, "C14.login.failed-attempt-releases-the-connector")
		zzverif.Reach("C14.login.failed")
	} else {
		zzverif.Assert(err == nil && c == net.Conn(conn) && k != nil && svr.runID == "rid", "C14.login.ok")
		zzverif.Assert(len(conn.readDeadline) >= 2 && conn.readDeadline[len(conn.readDeadline)-1].IsZero(), "C14.login.deadline-cleared-after-answer")
		zzverif.Reach("C14.login.ok")
	}
}

// VerifC14Backoff: the three retry loops of the client (heartbeat sender, login loop, session
// supervisor) are paced by the real fastBackoffImpl with the options the real callers pass.
// For every sequence of outcomes and clock readings the delay before the next attempt stays
// between a positive floor (no tight loop) and the configured ceiling (bounded delay).
func VerifC14Backoff() {
	c14.untilFn, c14.untilN, c14.backoffFn, c14.backoffN, c14.backoffMgr = nil, 0, nil, 0, nil
	var floor, ceiling time.Duration
	switch zzverif.Choice("loop", 3) {
	case 0: // heartbeat sender
		intervals := []int64{1, 2, 30, 3600}
		iv := intervals[zzverif.Choice("heartbeatInterval", len(intervals))]
		common := &v1.ClientCommonConfig{}
		common.Transport.HeartbeatInterval = iv
		common.Transport.HeartbeatTimeout = 90
		conn := &c14Conn{}
		ctl, err := NewControl(context.Background(), &SessionContext{Common: common, RunID: "r", Conn: conn, Connector: &c14Connector{conn: conn}, AuthSetter: &c14Setter{}})
		zzverif.Assume(err == nil)
		ctl.heartbeatWorker()
		zzverif.Quiesce()
		floor, ceiling = time.Second, time.Duration(iv)*time.Second
		zzverif.Reach("C14.backoff.heartbeat")
	case 1: // login loop
		ctx, cancel := context.WithCancelCause(context.Background())
		svr := &Service{ctx: ctx, cancel: cancel, common: &v1.ClientCommonConfig{}}
		maxI := []time.Duration{10 * time.Second, 20 * time.Second}[zzverif.Choice("maxInterval", 2)]
		svr.loopLoginUntilSuccess(maxI, false)
		floor, ceiling = time.Second, maxI
		zzverif.Reach("C14.backoff.login")
	case 2: // session supervisor
		ctx, cancel := context.WithCancelCause(context.Background())
		svr := &Service{ctx: ctx, cancel: cancel, common: &v1.ClientCommonConfig{}}
		done := make(chan struct{})
		close(done)
		svr.ctl = &Control{doneCh: done}
		svr.keepControllerWorking()
		floor, ceiling = 200*time.Millisecond, 20*time.Second
		zzverif.Reach("C14.backoff.supervisor")
	}
	zzverif.Assert(c14.backoffN == 1 && c14.backoffMgr != nil && c14.backoffSliding, "C14.backoff.loop-is-paced-by-a-backoff-manager")
	mgr := c14.backoffMgr
	// the protocol of wait.BackoffUntil(sliding): the ticker starts with Backoff(0,false), then
	// after every attempt delay = Backoff(delay, attemptFailed)
	delay := mgr.Backoff(0, false)
	zzverif.Assert(delay >= floor && delay <= ceiling, "C14.backoff.first-delay-within-bounds")
	n := zzverif.Param("attempts", 4)
	fails := 0
	for i := 0; i < n; i++ {
		failed := zzverif.Bool("attemptFailed")
		prev := delay
		delay = mgr.Backoff(delay, failed)
		zzverif.Assert(delay >= floor, "C14.backoff.no-tight-loop")
		zzverif.Assert(delay <= ceiling, "C14.backoff.delay-bounded-by-the-configured-maximum")
		if failed {
			fails++
		} else {
			fails = 0
			zzverif.Assert(delay <= prev || delay <= ceiling, "C14.backoff.success-does-not-escalate")
		}
	}
	if fails == n {
		zzverif.Reach("C14.backoff.all-failed")
	}
}

// VerifC12ClientRunID: over every sequence of accepted, refused and unanswered login attempts the
// client presents the run id of its last accepted login (none before the first), so that the
// server can replace the old session instead of keeping it beside a new one.
func VerifC12ClientRunID() {
	common := &v1.ClientCommonConfig{}
	mux := false
	common.Transport.TCPMux = &mux
	conn := &c14Conn{}
	kon := &c14Connector{conn: conn}
	svr := &Service{ctx: context.Background(), common: common, authSetter: &c14Setter{},
		connectorCreator: func(context.Context, *v1.ClientCommonConfig) Connector { return kon }}
	n := zzverif.Param("attempts", 3)
	c14.script, c14.scriptPos = nil, 0
	for i := 0; i < n; i++ {
		c14.script = append(c14.script, zzverif.Choice("answer", 3))
	}
	have := ""
	for i := 0; i < n; i++ {
		before := len(conn.written)
		// the server hands out a new id to a client without one and confirms a presented one
		c14.nextRunID = have
		if have == "" {
			c14.nextRunID = []string{"id-a", "id-b", "id-c", "id-d"}[i]
		}
		_, _, err := svr.login()
		zzverif.Assert(len(conn.written) == before+1, "C12.client.one-login-message-per-attempt")
		if len(conn.written) == before+1 {
			l, ok := conn.written[before].(*msg.Login)
			zzverif.Assert(ok && l.RunID == have, "C12.client.login-presents-the-run-id-of-the-last-accepted-login")
		}
		switch c14.script[i] {
		case 0:
			zzverif.Assert(err == nil && svr.runID == c14.nextRunID, "C12.client.accepted-login-stores-the-run-id")
			have = c14.nextRunID
			if i > 0 {
				zzverif.Reach("C12.client.relogin-accepted")
			}
		default:
			zzverif.Assert(err != nil, "C12.client.refused-or-unanswered-login-is-an-error")
			zzverif.Assert(svr.runID == have, "C12.client.failed-attempt-keeps-the-run-id")
			if have != "" {
				zzverif.Reach("C12.client.failed-after-accepted")
			}
		}
	}
	c14.script = nil
}

// VerifC14ReloginConfig: the login loop registers the configuration that is current when a
// login finally succeeds: a reload during an outage is not lost, however many attempts failed
// before.
func VerifC14ReloginConfig() {
	common := &v1.ClientCommonConfig{}
	mux := false
	common.Transport.TCPMux = &mux
	conn := &c14Conn{}
	kon := &c14Connector{conn: conn}
	ctx, cancel := context.WithCancelCause(context.Background())
	svr := &Service{ctx: ctx, cancel: cancel, common: common, authSetter: &c14Setter{}, clientSpec: &msg.ClientSpec{Type: "ssh-tunnel"},
		connectorCreator: func(context.Context, *v1.ClientCommonConfig) Connector { return kon }}
	mk := func(name string) v1.ProxyConfigurer {
		c := &v1.TCPProxyConfig{}
		c.Name, c.Type, c.LocalIP, c.LocalPort, c.RemotePort = name, "tcp", "127.0.0.1", 80, 6000
		return c
	}
	svr.proxyCfgs = []v1.ProxyConfigurer{mk("a")}
	c14.untilFn, c14.untilN, c14.backoffFn, c14.backoffN = nil, 0, nil, 0
	svr.loopLoginUntilSuccess(10*time.Second, false)
	zzverif.Assert(c14.backoffN == 1 && c14.backoffFn != nil, "C14.relogin.loop-started")
	attempt := c14.backoffFn
	fails := zzverif.Choice("failedAttempts", 3)
	reloadAt := zzverif.Choice("reloadBeforeAttempt", 5) // 3 = no reload, 4 = while the last (successful) login is outstanding
	want := "a"
	c14.script, c14.scriptPos, c14.nextRunID = nil, 0, "rid"
	for i := 0; i < fails; i++ {
		c14.script = append(c14.script, 2)
	}
	c14.script = append(c14.script, 0)
	for i := 0; i <= fails; i++ {
		if reloadAt == i {
			if i == 0 && zzverif.Bool("stillConnectedAtReload") {
				// the reload arrives while the previous session is still up; the session is lost afterwards
				prev, perr := NewControl(svr.ctx, &SessionContext{Common: common, RunID: "rid", Conn: &c14Conn{}, Connector: &c14Connector{conn: &c14Conn{}}, AuthSetter: &c14Setter{}})
				zzverif.Assume(perr == nil)
				svr.ctl = prev
				zzverif.Reach("C14.relogin.reloaded-while-connected")
			}
			zzverif.Assert(svr.UpdateAllConfigurer([]v1.ProxyConfigurer{mk("b")}, nil) == nil, "C14.relogin.reload-accepted")
			want = "b"
			zzverif.Reach("C14.relogin.reloaded-during-outage")
		}
		if reloadAt == 4 && i == fails {
			c14.duringLogin = func() {
				zzverif.Assert(svr.UpdateAllConfigurer([]v1.ProxyConfigurer{mk("b")}, nil) == nil, "C14.relogin.reload-accepted")
				want = "b"
				zzverif.Reach("C14.relogin.reloaded-during-login")
			}
		}
		done, err := attempt()
		if i < fails {
			zzverif.Assert(!done && err != nil, "C14.relogin.failed-attempt-is-retried")
		} else {
			zzverif.Assert(done && err == nil && svr.ctl != nil, "C14.relogin.session-established")
		}
	}
	c14.script = nil
	if svr.ctl == nil {
		return
	}
	st := svr.ctl.pm.GetAllProxyStatus()
	zzverif.Assert(len(st) == 1 && st[0].Name == want, "C14.relogin.registers-the-configuration-current-at-login")
	zzverif.Reach("C14.relogin.done")
}

var c14clock int64 // virtual time in ns (stub for time.Now in the rate harness)

func c14StubNow() time.Time { return time.Time{}.Add(time.Duration(c14clock)) }

// VerifC14BackoffRate: while every attempt fails and real time passes only through the waits the
// loop itself performs, the session supervisor's retry pace escalates: after a bounded number of
// quick retries the delay grows past the fast-retry delay and keeps doubling up to the ceiling
// (no sustained tight loop).
func VerifC14BackoffRate() {
	c14.untilFn, c14.untilN, c14.backoffFn, c14.backoffN, c14.backoffMgr = nil, 0, nil, 0, nil
	c14clock = int64(1000 * time.Second)
	c14.jitterMode = 1 + zzverif.Choice("jitterExtreme", 2)
	defer func() { c14.jitterMode = 0 }()
	ctx, cancel := context.WithCancelCause(context.Background())
	svr := &Service{ctx: ctx, cancel: cancel, common: &v1.ClientCommonConfig{}}
	done := make(chan struct{})
	close(done)
	svr.ctl = &Control{doneCh: done}
	svr.keepControllerWorking()
	zzverif.Assert(c14.backoffMgr != nil, "C14.rate.loop-is-paced-by-a-backoff-manager")
	mgr := c14.backoffMgr
	delay := mgr.Backoff(0, false)
	n := zzverif.Param("failures", 12)
	var quickAt []int64 // virtual instants at which a quick (sub-second) retry delay was handed out
	maxDelay := delay
	for i := 0; i < n; i++ {
		c14clock += int64(delay) // the loop waits `delay`, the attempt itself fails at once
		delay = mgr.Backoff(delay, true)
		if delay < time.Second {
			quickAt = append(quickAt, c14clock)
		}
		if delay > maxDelay {
			maxDelay = delay
		}
		zzverif.Assert(delay <= 20*time.Second, "C14.rate.escalation-stops-at-the-ceiling")
	}
	// per minute: 3 fast retries and the short escalation steps that start from the fast delay
	for i := range quickAt {
		inWindow := 0
		for j := 0; j <= i; j++ {
			if quickAt[i]-quickAt[j] < int64(time.Minute) {
				inWindow++
			}
		}
		zzverif.Assert(inWindow <= 8, "C14.rate.bounded-number-of-quick-retries-under-sustained-failure")
	}
	zzverif.Assert(maxDelay >= time.Second, "C14.rate.sustained-failure-escalates-beyond-the-fast-retry-delay")
	if n <= 12 {
		zzverif.Assert(delay >= time.Second, "C14.rate.sustained-failure-escalates-beyond-the-fast-retry-delay")
	}
	zzverif.Reach("C14.rate.done")
}

// VerifC19ReloadRacesLogin: a configuration reload arrives while a (re)login is completing, in its
// own goroutine, at any point of the login's last steps (every interleaving within the preemption
// bound): the session that results registers the configuration loaded last - the reload is applied
// either to the snapshot the new session starts from or to the new session itself, never lost
// between the two.
func VerifC19ReloadRacesLogin() {
	zzverif.SetPreempt(zzverif.Param("preempt", 1))
	common := &v1.ClientCommonConfig{}
	mux := false
	common.Transport.TCPMux = &mux
	conn := &c14Conn{}
	kon := &c14Connector{conn: conn}
	ctx, cancel := context.WithCancelCause(context.Background())
	svr := &Service{ctx: ctx, cancel: cancel, common: common, authSetter: &c14Setter{}, clientSpec: &msg.ClientSpec{Type: "ssh-tunnel"},
		connectorCreator: func(context.Context, *v1.ClientCommonConfig) Connector { return kon }}
	mk := func(name string) v1.ProxyConfigurer {
		c := &v1.TCPProxyConfig{}
		c.Name, c.Type, c.LocalIP, c.LocalPort, c.RemotePort = name, "tcp", "127.0.0.1", 80, 6000
		return c
	}
	svr.proxyCfgs = []v1.ProxyConfigurer{mk("a")}
	c14.untilFn, c14.untilN, c14.backoffFn, c14.backoffN = nil, 0, nil, 0
	c14.script, c14.scriptPos, c14.nextRunID, c14.respErr, c14.duringLogin = nil, 0, "rid", false, nil
	svr.loopLoginUntilSuccess(10*time.Second, false)
	zzverif.Assume(c14.backoffFn != nil)
	reloaded := false
	go func() {
		_ = svr.UpdateAllConfigurer([]v1.ProxyConfigurer{mk("b")}, nil)
		reloaded = true
	}()
	done, err := c14.backoffFn()
	zzverif.Quiesce()
	zzverif.Assert(done && err == nil && svr.ctl != nil && reloaded, "C19.reloadrace.login-and-reload-both-complete")
	if svr.ctl == nil {
		return
	}
	st := svr.ctl.pm.GetAllProxyStatus()
	zzverif.Assert(len(st) == 1 && st[0].Name == "b", "C19.reloadrace.session-runs-the-configuration-loaded-last")
	zzverif.Reach("C19.reloadrace.done")
}
