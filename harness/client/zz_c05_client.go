//go:build verif

package client

import (
	"context"
	"crypto/tls"
	"errors"
	"net"

	libnet "github.com/fatedier/golib/net"
	quic "github.com/quic-go/quic-go"

	v1 "github.com/fatedier/frp/pkg/config/v1"
	"github.com/fatedier/frp/zzverif"
)

var c05c struct {
	tlsCalls               int
	cert, key, ca, sn      string
	made                   *tls.Config
	dialTLS                *tls.Config // what the dialer was given
	dialTLSSet             bool
	headByteTLS, headByteX bool
	headByteCalls          int
	dials                  int
	tlsBuildFails          bool // the certificate / CA files cannot be read
}

func c05cStubNewClientTLSConfig(certPath, keyPath, caPath, serverName string) (*tls.Config, error) {
	c05c.tlsCalls++
	c05c.cert, c05c.key, c05c.ca, c05c.sn = certPath, keyPath, caPath, serverName
	if c05c.tlsBuildFails {
		return nil, errors.New("open ca.crt: no such file or directory")
	}
	c05c.made = &tls.Config{ServerName: serverName}
	return c05c.made, nil
}
func c05cStubQuicDialAddr(ctx context.Context, addr string, tlsConf *tls.Config, conf *quic.Config) (quic.Connection, error) {
	c05c.dials++
	c05c.dialTLS, c05c.dialTLSSet = tlsConf, true
	return nil, errors.New("no network in the harness")
}
func c05cStubWithTLSConfig(tlsConfig *tls.Config) libnet.DialOption {
	c05c.dialTLS, c05c.dialTLSSet = tlsConfig, true
	return libnet.WithLocalAddr("")
}
func c05cStubWithTLSConfigAndPriority(p uint64, tlsConfig *tls.Config) libnet.DialOption {
	c05c.dialTLS, c05c.dialTLSSet = tlsConfig, true
	return libnet.WithLocalAddr("")
}
func c05cStubDialContext(ctx context.Context, addr string, opts ...libnet.DialOption) (net.Conn, error) {
	c05c.dials++
	return &c14Conn{}, nil
}
func c05cStubParseProxyURL(u string) (string, string, *libnet.ProxyAuth, error) {
	return "", "", nil, nil
}
func c05cStubHeadByte(enableTLS bool, disableCustom bool) libnet.AfterHookFunc {
	c05c.headByteCalls++
	c05c.headByteTLS, c05c.headByteX = enableTLS, disableCustom
	return nil
}
func c05cStubHookWebsocket(protocol string, host string) libnet.AfterHookFunc { return nil }

// VerifC05ClientDial: for every transport protocol and TLS setting the client dials the server
// with a TLS configuration built from exactly the configured certificate, key, trusted CA and
// server name (the server address when none is given) whenever TLS applies, and with none
// otherwise; the configuration that was built is the one the dialer gets.
func VerifC05ClientDial() {
	cfg := &v1.ClientCommonConfig{ServerAddr: "frps.example", ServerPort: 7000}
	proto := []string{"tcp", "kcp", "websocket", "wss", "quic", "QUIC"}[zzverif.Choice("protocol", 6)]
	cfg.Transport.Protocol = proto
	enable := zzverif.Bool("tlsEnable")
	cfg.Transport.TLS.Enable = &enable
	if zzverif.Bool("clientCert") {
		cfg.Transport.TLS.CertFile, cfg.Transport.TLS.KeyFile = "c.crt", "c.key"
	}
	if zzverif.Bool("trustedCA") {
		cfg.Transport.TLS.TrustedCaFile = "ca.crt"
	}
	if zzverif.Bool("serverName") {
		cfg.Transport.TLS.ServerName = "name.example"
	}
	noFirstByte := zzverif.Bool("disableCustomTLSFirstByte")
	cfg.Transport.TLS.DisableCustomTLSFirstByte = &noFirstByte
	mux := false
	cfg.Transport.TCPMux = &mux
	// what the operator wrote, before defaults are filled in the way the loader does
	wantCert, wantKey, wantCA := cfg.Transport.TLS.CertFile, cfg.Transport.TLS.KeyFile, cfg.Transport.TLS.TrustedCaFile
	wantSN := "frps.example"
	if cfg.Transport.TLS.ServerName != "" {
		wantSN = "name.example"
	}
	if zzverif.Bool("completedAsLoaded") {
		cfg.Complete()
		zzverif.Reach("C05.client.completed")
	}
	c05c.tlsCalls, c05c.made, c05c.dialTLS, c05c.dialTLSSet, c05c.headByteCalls, c05c.dials = 0, nil, nil, false, 0, 0
	c05c.tlsBuildFails = zzverif.Bool("tlsFilesUnreadable")
	c := NewConnector(context.Background(), cfg).(*defaultConnectorImpl)
	isQuic := proto == "quic" || proto == "QUIC"
	var derr error
	var dconn net.Conn
	if isQuic {
		derr = c.Open()
	} else {
		dconn, derr = c.realConnect()
	}
	if c05c.tlsBuildFails && (enable || proto == "wss" || isQuic) {
		// TLS was asked for and cannot be set up: the client does not fall back to a clear-text connection
		zzverif.Assert(derr != nil && dconn == nil && c05c.dials == 0, "C05.client.no-connection-without-the-tls-configuration-that-was-asked-for")
		zzverif.Reach("C05.client.tls-setup-failed")
		return
	}
	zzverif.Assert(c05c.dials == 1 && c05c.dialTLSSet, "C05.client.dialled-once")
	tlsApplies := enable || proto == "wss"
	switch {
	case tlsApplies:
		zzverif.Assert(c05c.tlsCalls == 1, "C05.client.tls-configuration-built-once")
		zzverif.Assert(c05c.cert == wantCert && c05c.key == wantKey, "C05.client.configured-client-certificate-used")
		zzverif.Assert(c05c.ca == wantCA, "C05.client.configured-trusted-ca-used")
		zzverif.Assert(c05c.sn == wantSN, "C05.client.expected-server-name")
		zzverif.Assert(c05c.dialTLS == c05c.made && c05c.made != nil, "C05.client.dialer-gets-the-configuration-that-was-built")
		if cfg.Transport.TLS.TrustedCaFile != "" && cfg.Transport.TLS.CertFile == "" {
			zzverif.Reach("C05.client.one-way-tls-with-ca")
		}
	case isQuic:
		// quic always runs over TLS; without TLS enabled the client does not verify the server
		zzverif.Assert(c05c.tlsCalls == 1 && c05c.cert == "" && c05c.ca == "" && c05c.sn == wantSN, "C05.client.quic-without-tls-option")
		zzverif.Assert(c05c.dialTLS == c05c.made, "C05.client.dialer-gets-the-configuration-that-was-built")
	default:
		zzverif.Assert(c05c.tlsCalls == 0 && c05c.dialTLS == nil, "C05.client.no-tls-when-not-enabled")
		zzverif.Reach("C05.client.plain")
	}
	if !isQuic && proto != "wss" {
		zzverif.Assert(c05c.headByteCalls == 1 && c05c.headByteTLS == tlsApplies && c05c.headByteX == noFirstByte, "C05.client.first-byte-marker-iff-tls-and-as-configured")
	}
	if isQuic && c05c.dialTLS != nil {
		zzverif.Assert(len(c05c.dialTLS.NextProtos) == 1 && c05c.dialTLS.NextProtos[0] == "frp", "C05.client.quic-alpn")
		zzverif.Reach("C05.client.quic")
	}
}
