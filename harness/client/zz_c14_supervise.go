//go:build verif

package client

import (
	"context"

	v1 "github.com/fatedier/frp/pkg/config/v1"
	"github.com/fatedier/frp/pkg/msg"
	"github.com/fatedier/frp/pkg/util/wait"
	"github.com/fatedier/frp/zzverif"
)

// stub for wait.BackoffUntil: the supervisor's own loop body is captured (the harness drives it);
// the login loop nested inside it makes one attempt
var (
	c14sNest  int
	c14sOuter func() (bool, error)
)

func c14sStubBackoffUntil(f func() (bool, error), backoff wait.BackoffManager, sliding bool, stopCh <-chan struct{}) {
	c14sNest++
	if c14sNest == 1 {
		c14sOuter = f
		return
	}
	_, _ = f()
}

// VerifC14Supervise: after a lost session the supervisor logs in again and then watches THAT session:
// it does not come back for another login while the new session is alive, and it does when the new
// session ends.
func VerifC14Supervise() {
	common := &v1.ClientCommonConfig{}
	mux := false
	common.Transport.TCPMux = &mux
	conn := &c14Conn{}
	kon := &c14Connector{conn: conn}
	ctx, cancel := context.WithCancelCause(context.Background())
	svr := &Service{ctx: ctx, cancel: cancel, common: common, authSetter: &c14Setter{}, clientSpec: &msg.ClientSpec{Type: "ssh-tunnel"},
		connectorCreator: func(context.Context, *v1.ClientCommonConfig) Connector { return kon }}
	c14q.readGate, c14q.writeGate = make(chan struct{}), make(chan struct{})
	close(c14q.writeGate)
	// the session that was lost: a real control whose teardown has completed
	old, oerr := NewControl(ctx, &SessionContext{Common: common, RunID: "rid", Conn: &c14Conn{}, Connector: &c14Connector{conn: &c14Conn{}}, AuthSetter: &c14Setter{}})
	zzverif.Assume(oerr == nil)
	close(old.doneCh)
	svr.ctl = old
	c14.script, c14.respErr, c14.duringLogin = nil, false, nil
	c14.backoffFn, c14.backoffN = nil, 0
	c14sNest = 0
	svr.keepControllerWorking()
	zzverif.Assert(c14sOuter != nil, "C14.supervise.loop-started-after-the-session-was-lost")
	if c14sOuter == nil {
		return
	}
	returned := false
	var lastErr error
	go func() {
		_, lastErr = c14sOuter()
		returned = true
	}()
	zzverif.Quiesce()
	zzverif.Assert(svr.ctl != nil && svr.ctl != old, "C14.supervise.logged-in-again")
	zzverif.Assert(kon.opened == 1, "C14.supervise.one-login-for-one-lost-session")
	zzverif.Assert(!returned, "C14.supervise.no-further-login-while-the-new-session-lives")
	if returned {
		return
	}
	zzverif.Reach("C14.supervise.watching-the-new-session")
	close(c14q.readGate) // the new session's connection is lost
	zzverif.Quiesce()
	zzverif.Assert(returned && lastErr != nil, "C14.supervise.comes-back-for-another-login-when-the-new-session-ends")
	zzverif.Reach("C14.supervise.done")
}
