//go:build verif

package health

import (
	"context"
	"errors"
	"net/http"
	"time"

	v1 "github.com/fatedier/frp/pkg/config/v1"
	"github.com/fatedier/frp/zzverif"
)

var c19 struct {
	outcomes []bool // true = probe succeeded
	pos      int
	events   []string
}

var errC19 = errors.New("probe failed")

// time budget handed to each probe (stubs of context.WithDeadline / WithTimeout and time.Now)
var c19Budgets []time.Duration

const c19NowNs = int64(1000 * time.Second)

func c19StubNow() time.Time { return time.Time{}.Add(time.Duration(c19NowNs)) }
func c19StubWithDeadline(parent context.Context, d time.Time) (context.Context, context.CancelFunc) {
	c19Budgets = append(c19Budgets, d.Sub(c19StubNow()))
	return context.WithCancel(parent)
}
func c19StubWithTimeout(parent context.Context, d time.Duration) (context.Context, context.CancelFunc) {
	c19Budgets = append(c19Budgets, d)
	return context.WithCancel(parent)
}

// stub for (*Monitor).doCheck: scripted probe outcomes; the monitor is stopped after the last one
func c19StubDoCheck(m *Monitor, ctx context.Context) error {
	ok := c19.outcomes[c19.pos]
	c19.pos++
	if c19.pos == len(c19.outcomes) {
		defer m.Stop()
	}
	if ok {
		return nil
	}
	return errC19
}

// VerifC19Health: withdrawn after exactly maxFailed consecutive failures, never fewer; a
// success restarts the count; registered again after the next success.
func VerifC19Health() {
	n := zzverif.Param("probes", 5)
	maxFailed := zzverif.IntRange("maxFailed", 1, 3)
	maxFailed = zzverif.Concretize(maxFailed)
	c19.outcomes, c19.pos, c19.events = nil, 0, nil
	for i := 0; i <= n; i++ { // one extra outcome is consumed by the stop iteration
		c19.outcomes = append(c19.outcomes, zzverif.Bool("probeOK"))
	}
	c19Budgets = nil
	timeoutS := 1 + zzverif.Choice("timeoutSeconds", 3)
	m := NewMonitor(context.Background(), v1.HealthCheckConfig{Type: "tcp", MaxFailed: maxFailed, TimeoutSeconds: timeoutS, IntervalSeconds: 10}, "127.0.0.1:1",
		func() { c19.events = append(c19.events, "up") }, func() { c19.events = append(c19.events, "down") })
	m.checkWorker()

	// every probe runs under the configured timeout, so that a backend that hangs counts as failed
	zzverif.Assert(len(c19Budgets) == n+1, "C19.health.every-probe-has-a-deadline")
	for _, b := range c19Budgets {
		zzverif.Assert(b == time.Duration(timeoutS)*time.Second, "C19.health.probe-deadline-is-the-configured-timeout")
	}

	// reference
	var want []string
	healthy, consecutive := false, 0
	for i := 0; i < n; i++ {
		if c19.outcomes[i] {
			consecutive = 0
			if !healthy {
				healthy = true
				want = append(want, "up")
			}
		} else {
			consecutive++
			if healthy && consecutive >= maxFailed {
				healthy = false
				want = append(want, "down")
			}
		}
	}
	zzverif.Assert(len(c19.events) <= len(want) || true, "C19.health.trace")
	// compare event traces
	same := len(c19.events) == len(want)
	if same {
		for i := range want {
			if want[i] != c19.events[i] {
				same = false
			}
		}
	}
	zzverif.Assert(same, "C19.health.withdrawn-after-exactly-maxFailed-consecutive-failures")
	if len(want) >= 2 {
		zzverif.Reach("C19.health.withdrawn")
	}
	if len(want) >= 3 {
		zzverif.Reach("C19.health.reregistered")
	}
}

var c19HTTP struct {
	doErr  bool
	status int
	reqCtx context.Context // the context the probe request was bound to
}

type c19CtxKey struct{}

type c19Body struct{}

func (c19Body) Read(p []byte) (int, error) { return 0, errors.New("EOF") }
func (c19Body) Close() error               { return nil }

func c19StubNewRequestWithContext(ctx context.Context, method, url string, body interface{ Read([]byte) (int, error) }) (*http.Request, error) {
	c19HTTP.reqCtx = ctx
	return &http.Request{Header: http.Header{}}, nil
}
func c19StubDo(c *http.Client, r *http.Request) (*http.Response, error) {
	if c19HTTP.doErr {
		return nil, errC19
	}
	return &http.Response{StatusCode: c19HTTP.status, Body: c19Body{}}, nil
}
func c19StubCopy(dst interface{ Write([]byte) (int, error) }, src interface{ Read([]byte) (int, error) }) (int64, error) {
	return 0, nil
}

// VerifC19Probe: an http probe fails exactly on transport error or a non-2xx answer.
func VerifC19Probe() {
	c19HTTP.doErr = zzverif.Bool("transportError")
	c19HTTP.status = zzverif.IntRange("status", 0, 999)
	monCtx, cancelMon := context.WithCancel(context.Background())
	defer cancelMon()
	m := &Monitor{checkType: "http", url: "http://x/health", header: http.Header{}, ctx: monCtx, cancel: cancelMon}
	// the per-probe context (it carries the probe's deadline in checkWorker)
	probeCtx := context.WithValue(monCtx, c19CtxKey{}, "this-probe")
	c19HTTP.reqCtx = nil
	err := m.doHTTPCheck(probeCtx)
	zzverif.Assert(c19HTTP.reqCtx != nil && c19HTTP.reqCtx.Value(c19CtxKey{}) == "this-probe", "C19.probe.http-request-bound-to-the-probe's-deadline-context")
	ok := !c19HTTP.doErr && c19HTTP.status >= 200 && c19HTTP.status <= 299
	zzverif.Assert((err == nil) == ok, "C19.probe.http-failed-iff-error-or-non-2xx")
	if err == nil {
		zzverif.Reach("C19.probe.ok")
	} else {
		zzverif.Reach("C19.probe.failed")
	}
	m2 := &Monitor{checkType: "udp"}
	zzverif.Assert(m2.doCheck(context.Background()) == ErrHealthCheckType, "C19.probe.unknown-type-fails")
}
