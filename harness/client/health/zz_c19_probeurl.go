//go:build verif

package health

import (
	"context"

	v1 "github.com/fatedier/frp/pkg/config/v1"
	"github.com/fatedier/frp/zzverif"
)

// VerifC19ProbeURL: the http probe asks the backend for exactly the configured request target - the
// path as written (query string, escapes and all) on the proxy's local address - and carries the
// configured headers; the documented defaults apply to unset numbers.
func VerifC19ProbeURL() {
	paths := []string{"/status", "status", "/status?probe=frp&deep=0", "/a%20b", "/x#y", "/"}
	path := paths[zzverif.Choice("path", len(paths))]
	interval, timeout, maxFailed := zzverif.IntRange("interval", -1, 2), zzverif.IntRange("timeout", -1, 2), zzverif.IntRange("maxFailed", -1, 2)
	cfg := v1.HealthCheckConfig{Type: "http", Path: path, IntervalSeconds: interval, TimeoutSeconds: timeout, MaxFailed: maxFailed,
		HTTPHeaders: []v1.HTTPHeader{{Name: "X-Probe", Value: "1"}}}
	m := NewMonitor(context.Background(), cfg, "127.0.0.1:8080", func() {}, func() {})
	want := "http://127.0.0.1:8080" + path
	if path[0] != '/' {
		want = "http://127.0.0.1:8080/" + path
	}
	zzverif.Assert(m.url == want, "C19.probeurl.probe-asks-for-the-configured-path-as-written")
	zzverif.Assert(m.header.Get("X-Probe") == "1", "C19.probeurl.configured-headers-sent")
	zzverif.Assert(m.maxFailedTimes >= 1 && m.interval > 0 && m.timeout > 0, "C19.probeurl.unset-numbers-get-positive-defaults")
	if maxFailed >= 1 {
		zzverif.Assert(m.maxFailedTimes == maxFailed, "C19.probeurl.configured-threshold-kept")
	}
	zzverif.Reach("C19.probeurl.done")
}
