//go:build verif

package proxy

import (
	"context"
	"errors"
	"io"
	"net"
	"time"

	libnet "github.com/fatedier/golib/net"
	pp "github.com/pires/go-proxyproto"
	"golang.org/x/time/rate"

	v1 "github.com/fatedier/frp/pkg/config/v1"
	"github.com/fatedier/frp/pkg/msg"
	plugin "github.com/fatedier/frp/pkg/plugin/client"
	"github.com/fatedier/frp/pkg/util/limit"
	"github.com/fatedier/frp/zzverif"
)

var errC01 = errors.New("c01 injected")

type c01Conn struct {
	name   string
	closed int
	header int
}

func (c *c01Conn) Read(p []byte) (int, error)         { return 0, io.EOF }
func (c *c01Conn) Write(p []byte) (int, error)        { return len(p), nil }
func (c *c01Conn) Close() error                       { c.closed++; return nil }
func (c *c01Conn) LocalAddr() net.Addr                { return c01Addr{} }
func (c *c01Conn) RemoteAddr() net.Addr               { return c01Addr{} }
func (c *c01Conn) SetDeadline(t time.Time) error      { return nil }
func (c *c01Conn) SetReadDeadline(t time.Time) error  { return nil }
func (c *c01Conn) SetWriteDeadline(t time.Time) error { return nil }

type c01Addr struct{}

func (c01Addr) Network() string { return "tcp" }
func (c01Addr) String() string  { return "1.2.3.4:5" }

// tagged layer recorded by the stubs
type c01Layer struct {
	kind  string // enc / comp / limit
	key   string
	inner io.ReadWriteCloser
	rd    io.Reader
	wr    io.Writer
	// limit layer: the close function the caller supplied (golib calls it once on Close)
	closeFn func() error
	closed  bool
}

func (l *c01Layer) Read(p []byte) (int, error)  { return 0, io.EOF }
func (l *c01Layer) Write(p []byte) (int, error) { return len(p), nil }
func (l *c01Layer) Close() error {
	if l.kind == "limit" {
		if l.closed {
			return nil
		}
		l.closed = true
		if l.closeFn != nil {
			return l.closeFn()
		}
		return nil
	}
	if l.inner != nil {
		return l.inner.Close()
	}
	return nil
}

var c01S struct {
	encFails    bool
	dialFails   bool
	recycled    int
	joinA       io.ReadWriteCloser
	joinB       io.ReadWriteCloser
	joins       int
	local       *c01Conn
	dialAddr    string
	headerWrite int
	// the announced source address is text the resolver does not accept
	srcUnresolvable bool
	// address texts handed to the resolver, and what the first should read
	resolved    []string
	wantSrcText string
}

// a client plugin that keeps the connection after Handle returns (as the http-server based plugins do)
type c01Plugin struct {
	got              []*plugin.ConnectionInfo
	recycledAtHandle int
}

func (p *c01Plugin) Name() string { return "c01" }
func (p *c01Plugin) Handle(ctx context.Context, ci *plugin.ConnectionInfo) {
	cp := *ci
	p.got = append(p.got, &cp)
	p.recycledAtHandle = c01S.recycled
}
func (p *c01Plugin) Close() error { return nil }

func c01StubWithEncryption(rwc io.ReadWriteCloser, key []byte) (io.ReadWriteCloser, error) {
	if c01S.encFails {
		return nil, errC01
	}
	return &c01Layer{kind: "enc", key: string(key), inner: rwc}, nil
}
func c01StubWithCompressionFromPool(rwc io.ReadWriteCloser) (io.ReadWriteCloser, func()) {
	return &c01Layer{kind: "comp", inner: rwc}, func() { c01S.recycled++ }
}
func c01StubWrapRWC(r io.Reader, w io.Writer, closeFn func() error) io.ReadWriteCloser {
	return &c01Layer{kind: "limit", rd: r, wr: w, closeFn: closeFn}
}
func c01StubDial(addr string, opts ...libnet.DialOption) (net.Conn, error) {
	c01S.dialAddr = addr
	if c01S.dialFails {
		return nil, errC01
	}
	c01S.local = &c01Conn{name: "local"}
	return c01S.local, nil
}
func c01StubJoin(a, b io.ReadWriteCloser) (int64, int64, []error) {
	c01S.joins++
	c01S.joinA, c01S.joinB = a, b
	return 0, 0, nil
}
func c01StubHeaderWriteTo(h *pp.Header, w io.Writer) (int64, error) {
	c01S.headerWrite++
	// the library dereferences both addresses: a nil (also a typed nil) address is a crash of frpc
	src, okS := h.SourceAddr.(*net.TCPAddr)
	dst, okD := h.DestinationAddr.(*net.TCPAddr)
	zzverif.Assert(okS && src != nil && okD && dst != nil, "C16.client.proxy-protocol-header-never-written-with-a-missing-address")
	return 0, nil
}
func c01StubResolveTCPAddr(network, address string) (*net.TCPAddr, error) {
	c01S.resolved = append(c01S.resolved, address)
	if c01S.srcUnresolvable && len(address) > 0 && address[0] == 'n' {
		return nil, errC01 // "no such host", "missing port": whatever text the peer put into the message
	}
	return &net.TCPAddr{Port: 1}, nil
}

// VerifC01ClientStack: the wrapper stack the client builds on a work connection.
func VerifC01ClientStack() {
	cfg := &v1.ProxyBaseConfig{Name: "p"}
	cfg.LocalIP, cfg.LocalPort = "127.0.0.1", 8080
	cfg.Transport.UseEncryption = zzverif.Bool("useEncryption")
	cfg.Transport.UseCompression = zzverif.Bool("useCompression")
	cfg.Transport.ProxyProtocolVersion = []string{"", "v1", "v2"}[zzverif.Choice("ppVersion", 3)]
	var lim *rate.Limiter
	if zzverif.Bool("clientSideLimit") {
		lim = &rate.Limiter{}
	}
	pxy := &BaseProxy{baseCfg: cfg, clientCfg: &v1.ClientCommonConfig{}, limiter: lim, ctx: context.Background()}
	var plg *c01Plugin
	if zzverif.Bool("handledByPlugin") {
		plg = &c01Plugin{}
		pxy.proxyPlugin = plg
	}
	c01S.encFails, c01S.dialFails = zzverif.Bool("encFails"), zzverif.Bool("dialFails")
	c01S.recycled, c01S.joins, c01S.joinA, c01S.joinB, c01S.local, c01S.headerWrite = 0, 0, nil, nil, nil, 0
	work := &c01Conn{name: "work"}
	m := &msg.StartWorkConn{ProxyName: "p"}
	c01S.srcUnresolvable = false
	if zzverif.Bool("hasSrc") {
		m.SrcAddr, m.SrcPort = "9.9.9.9", 1234
		m.DstAddr, m.DstPort = "10.0.0.1", 80
		wantSrcText := "9.9.9.9:1234"
		if zzverif.Bool("srcIsNotAnAddress") {
			m.SrcAddr, c01S.srcUnresolvable = "not an address", true
			wantSrcText = ""
		} else if zzverif.Bool("userOverIPv6") {
			m.SrcAddr, wantSrcText = "2001:db8::7", "[2001:db8::7]:1234"
		}
		c01S.wantSrcText = wantSrcText
	}
	c01S.resolved = nil
	pxy.HandleTCPWorkConnection(work, m, []byte("tok"))
	if m.SrcAddr != "" && c01S.wantSrcText != "" && len(c01S.resolved) >= 1 {
		// the announced address is given to the resolver in the host:port form (brackets around an
		// IPv6 literal), otherwise it does not resolve and the user's connection is dropped
		zzverif.Assert(c01S.resolved[0] == c01S.wantSrcText, "C01.client.announced-user-address-resolved-in-host-port-form")
		zzverif.Reach("C01.client.address-resolved")
	}

	if plg != nil {
		if len(plg.got) == 0 {
			zzverif.Assert(work.closed >= 1 && ((cfg.Transport.UseEncryption && c01S.encFails) || c01S.srcUnresolvable), "C01.client.plugin-not-reached-only-on-cipher-failure-and-then-closed")
			return
		}
		zzverif.Reach("C01.client.plugin")
		ci := plg.got[0]
		zzverif.Assert(len(plg.got) == 1 && c01S.joins == 0 && c01S.local == nil, "C01.client.plugin-handles-instead-of-the-backend-dial")
		zzverif.Assert(ci.UnderlyingConn == net.Conn(work), "C01.client.plugin-gets-this-work-conn")
		// the plugin keeps using the stream after Handle returned: its compressor must still be its own
		zzverif.Assert(c01S.recycled == 0, "C02.client.compressor-not-recycled-while-the-plugin-holds-the-stream")
		zzverif.Assert(work.closed == 0, "C01.client.plugin-stream-left-open")
		var kinds string
		cur := ci.Conn
		for i := 0; i < 5; i++ {
			l, ok := cur.(*c01Layer)
			if !ok {
				break
			}
			kinds += l.kind + ","
			if l.kind == "limit" {
				cur = work
			} else {
				cur = l.inner
			}
		}
		want := ""
		if cfg.Transport.UseCompression {
			want += "comp,"
		}
		if cfg.Transport.UseEncryption {
			want += "enc,"
		}
		if lim != nil {
			want += "limit,"
		}
		zzverif.Assert(kinds == want && cur == io.ReadWriteCloser(work), "C01.client.plugin-gets-the-layers-exactly-as-configured")
		zzverif.Assert((ci.SrcAddr != nil) == (m.SrcAddr != ""), "C01.client.plugin-gets-the-user's-address-iff-announced")
		wantHeader := cfg.Transport.ProxyProtocolVersion != "" && m.SrcAddr != ""
		zzverif.Assert((ci.ProxyProtocolHeader != nil) == wantHeader, "C01.client.plugin-gets-the-proxy-protocol-header-iff-declared")
		_ = ci.Conn.Close()
		zzverif.Assert(work.closed >= 1, "C01.client.closing-the-stack-closes-the-work-conn")
		return
	}
	if c01S.joins == 0 {
		zzverif.Assert(work.closed >= 1, "C01.client.work-conn-closed-when-not-bridged")
		zzverif.Assert((cfg.Transport.UseEncryption && c01S.encFails) || c01S.dialFails || c01S.srcUnresolvable, "C01.client.not-bridged-only-on-failure")
		if c01S.srcUnresolvable {
			zzverif.Reach("C16.client.unresolvable-address-confined-to-its-connection")
		}
		zzverif.Reach("C01.client.not-bridged")
		return
	}
	zzverif.Assert(c01S.joins == 1 && c01S.joinA == io.ReadWriteCloser(c01S.local), "C01.client.bridged-to-the-proxy's-backend")
	zzverif.Assert(c01S.dialAddr == "127.0.0.1:8080", "C01.client.backend-address")
	// walk the stack from the application side to the wire
	var kinds string
	cur := c01S.joinB
	limited := false
	for i := 0; i < 5; i++ {
		l, ok := cur.(*c01Layer)
		if !ok {
			break
		}
		kinds += l.kind + ","
		switch l.kind {
		case "enc":
			zzverif.Assert(l.key == "tok", "C05.layers.encryption-keyed-by-token")
			cur = l.inner
		case "comp":
			cur = l.inner
		case "limit":
			r, okR := l.rd.(*limit.Reader)
			w, okW := l.wr.(*limit.Writer)
			zzverif.Assert(okR && okW && r != nil && w != nil, "C01.client.limit-layer-uses-limit-reader-writer")
			limited = true
			cur = work
		}
	}
	zzverif.Assert(cur == io.ReadWriteCloser(work), "C01.client.stack-ends-at-this-work-conn")
	want := ""
	if cfg.Transport.UseCompression {
		want += "comp,"
	}
	if cfg.Transport.UseEncryption {
		want += "enc,"
	}
	if lim != nil {
		want += "limit,"
	}
	zzverif.Assert(kinds == want, "C01.client.layers-exactly-as-configured-compression-outside-encryption")
	zzverif.Assert(limited == (lim != nil), "C01.client.every-byte-passes-the-limiter-iff-limit-configured")
	zzverif.Assert((c01S.recycled == 1) == cfg.Transport.UseCompression, "C01.client.compression-resources-recycled")
	wantHeader := cfg.Transport.ProxyProtocolVersion != "" && m.SrcAddr != ""
	zzverif.Assert((c01S.headerWrite == 1) == wantHeader, "C01.client.proxy-protocol-header-iff-declared")
	// end of stream: when the pump closes the application end of the stack (backend finished)
	// the work connection itself is closed, so the peer sees end-of-stream
	zzverif.Assert(work.closed == 0, "C01.client.work-conn-open-while-bridged")
	_ = c01S.joinB.Close()
	zzverif.Assert(work.closed >= 1, "C01.client.closing-the-stack-closes-the-work-conn")
	zzverif.Reach("C01.client.bridged")
	if lim != nil && cfg.Transport.UseEncryption {
		zzverif.Reach("C01.client.limit+enc")
	}
}
