//go:build verif

package proxy

import (
	"context"
	"reflect"
	"strconv"
	"time"

	v1 "github.com/fatedier/frp/pkg/config/v1"
	"github.com/fatedier/frp/pkg/msg"
	"github.com/fatedier/frp/zzverif"
)

// fake transport.MessageTransporter: records what the client sends to the server
type c19Transporter struct {
	sent []msg.Message
}

func (t *c19Transporter) Send(m msg.Message) error {
	t.sent = append(t.sent, m)
	return nil
}
func (t *c19Transporter) Do(ctx context.Context, req msg.Message, laneKey, recvMsgType string) (msg.Message, error) {
	return nil, errC01
}
func (t *c19Transporter) Dispatch(m msg.Message, laneKey string) bool                  { return false }
func (t *c19Transporter) DispatchWithType(m msg.Message, msgType, laneKey string) bool { return false }

// pseudo message: a wrapper for this name was started (its status worker will register it)
type c19Started struct{ name string }

var c19Tr *c19Transporter

// stub for (*Wrapper).Start: the real method, its call recorded in the same log as the messages
func c19StubWrapperStart(pw *Wrapper) {
	if c19Tr != nil {
		c19Tr.sent = append(c19Tr.sent, &c19Started{name: pw.Name})
	}
	pw.Start()
}

// number of NewProxy / CloseProxy messages for a proxy name, and the kind of the last one
func (t *c19Transporter) count(name string) (news, closes int, last string) {
	for _, m := range t.sent {
		switch v := m.(type) {
		case *msg.NewProxy:
			if v.ProxyName == name {
				news++
				last = "new"
			}
		case *msg.CloseProxy:
			if v.ProxyName == name {
				closes++
				last = "close"
			}
		}
	}
	return
}

var c19Names = []string{"a", "b"}

func c19Cfg(name string, version int) v1.ProxyConfigurer {
	c := &v1.TCPProxyConfig{}
	c.Name = name
	c.Type = "tcp"
	c.LocalIP = "127.0.0.1"
	c.LocalPort = 80
	c.RemotePort = 6000 + version
	if c19DiffLocal {
		// two versions of a definition differ only in what stays on the client (the backend's port):
		// the registration message is the same, the proxy must be restarted all the same
		c.LocalPort, c.RemotePort = 80+version, 6000
	}
	if c19DiffPlugin {
		// ... or only in the options of the client plugin that serves as backend
		c.RemotePort = 6000
		c.Plugin.Type = v1.PluginUnixDomainSocket
		c.Plugin.ClientPluginOptions = &v1.UnixDomainSocketPluginOptions{Type: v1.PluginUnixDomainSocket, UnixPath: []string{"/run/s0", "/run/s1", "/run/s2", "/run/s3"}[version%4]}
	}
	return c
}

var c19DiffLocal, c19DiffPlugin bool

type c19Entry struct {
	name    string
	version int
}

func c19List(maxLen int) []c19Entry {
	n := zzverif.Choice("listLen", maxLen+1)
	var l []c19Entry
	for i := 0; i < n; i++ {
		l = append(l, c19Entry{c19Names[zzverif.Choice("name", len(c19Names))], zzverif.Choice("version", 2)})
	}
	return l
}

func c19Defs(l []c19Entry, name string) (vs []int) {
	for _, e := range l {
		if e.name == name {
			vs = append(vs, e.version)
		}
	}
	return
}

func c19SameInts(a, b []int) bool {
	if len(a) != len(b) {
		return false
	}
	for i := range a {
		if a[i] != b[i] {
			return false
		}
	}
	return true
}

// VerifC19ProxyUpdate: after every sequence of reloads (add, remove, change, reorder, duplicate
// names) the proxy manager holds exactly the configured names with a configured definition;
// removed or changed entries are stopped and closed at the server; entries whose definition did
// not change keep the same running wrapper (no re-registration).
func VerifC19ProxyUpdate() {
	tr := &c19Transporter{}
	c19Tr = tr
	defer func() { c19Tr = nil }()
	pm := NewManager(context.Background(), &v1.ClientCommonConfig{}, tr, nil)
	reloads := zzverif.Param("reloads", 2)
	maxLen := zzverif.Param("maxLen", 3)
	c19DiffLocal, c19DiffPlugin = false, false
	switch zzverif.Choice("versionsDifferIn", 3) {
	case 1:
		c19DiffLocal = true
	case 2:
		c19DiffPlugin = true
	}
	var prev []c19Entry
	for r := 0; r < reloads; r++ {
		cur := c19List(maxLen)
		before := map[string]*Wrapper{}
		for k, w := range pm.proxies {
			before[k] = w
		}
		closesBefore := map[string]int{}
		for _, n := range c19Names {
			_, closesBefore[n], _ = tr.count(n)
		}
		cfgs := make([]v1.ProxyConfigurer, 0, len(cur))
		for _, e := range cur {
			cfgs = append(cfgs, c19Cfg(e.name, e.version))
		}
		mark := len(tr.sent)
		pm.UpdateAll(cfgs)
		// the old entry of a name is withdrawn at the server before its replacement is started: a
		// CloseProxy that follows the replacement's registration would tear the new one down
		for i := mark; i < len(tr.sent); i++ {
			if st, ok := tr.sent[i].(*c19Started); ok {
				for j := i + 1; j < len(tr.sent); j++ {
					if cl, isClose := tr.sent[j].(*msg.CloseProxy); isClose {
						zzverif.Assert(cl.ProxyName != st.name, "C19.update.old-entry-withdrawn-before-its-replacement-starts")
					}
				}
			}
		}

		for _, n := range c19Names {
			oldDefs, newDefs := c19Defs(prev, n), c19Defs(cur, n)
			w, have := pm.proxies[n]
			old := before[n]
			_, closes, _ := tr.count(n)
			if len(newDefs) == 0 {
				zzverif.Assert(!have, "C19.update.removed-entry-is-forgotten")
			} else {
				zzverif.Assert(have, "C19.update.configured-entry-is-held")
			}
			if have {
				zzverif.Assert(w.Phase != ProxyPhaseClosed, "C19.update.held-entry-is-not-a-stopped-one")
				listed := false
				for _, v := range newDefs {
					if reflect.DeepEqual(w.Cfg, c19Cfg(n, v)) {
						listed = true
					}
				}
				zzverif.Assert(listed, "C19.update.held-entry-has-a-definition-of-the-last-loaded-configuration")
			}
			if old != nil && (!have || w != old) {
				// the old wrapper was replaced or dropped: it must be stopped and closed at the server
				zzverif.Assert(old.Phase == ProxyPhaseClosed, "C19.update.replaced-entry-is-stopped")
				zzverif.Assert(closes == closesBefore[n]+1, "C19.update.replaced-entry-is-closed-at-the-server")
				c := &c01Conn{}
				old.InWorkConn(c, &msg.StartWorkConn{ProxyName: n})
				zzverif.Assert(c.closed == 1, "C19.update.stopped-entry-refuses-work-connections")
				zzverif.Reach("C19.update.stopped")
			}
			if old != nil && len(oldDefs) > 0 && c19SameInts(oldDefs, newDefs) {
				// nothing about this name changed between the two loads
				zzverif.Assert(have && w == old, "C19.update.unchanged-entry-keeps-running-without-restart")
				zzverif.Assert(closes == closesBefore[n], "C19.update.unchanged-entry-is-not-closed-at-the-server")
				if len(newDefs) > 1 {
					zzverif.Reach("C19.update.duplicate-kept")
				}
				zzverif.Reach("C19.update.kept")
			}
			if old != nil && have && len(oldDefs) == 1 && len(newDefs) == 1 && oldDefs[0] != newDefs[0] {
				zzverif.Assert(w != old, "C19.update.changed-entry-is-restarted-with-the-new-definition")
				zzverif.Reach("C19.update.changed")
			}
		}
		zzverif.Assert(len(pm.proxies) <= len(c19Names), "C19.update.no-extra-entries")
		prev = cur
	}
}

// ------------------------------------------------------------------ wrapper life cycle

var c19p struct {
	now  int64
	tick chan time.Time
}

func c19StubNow() time.Time {
	return time.Time{}.Add(time.Duration(c19p.now))
}
func c19StubAfter(d time.Duration) <-chan time.Time { return c19p.tick }

func c19Legal(from, to string) bool {
	if from == to || to == ProxyPhaseClosed {
		return from != ProxyPhaseClosed || to == ProxyPhaseClosed
	}
	switch from {
	case ProxyPhaseNew:
		return to == ProxyPhaseWaitStart
	case ProxyPhaseWaitStart:
		return to == ProxyPhaseRunning || to == ProxyPhaseStartErr || to == ProxyPhaseCheckFailed
	case ProxyPhaseStartErr:
		return to == ProxyPhaseWaitStart
	case ProxyPhaseRunning:
		return to == ProxyPhaseCheckFailed
	case ProxyPhaseCheckFailed:
		return to == ProxyPhaseWaitStart
	}
	return false
}

// VerifC19Phase: one proxy wrapper with its real status worker, driven through every sequence of
// health changes, server replies (success, error, late, missing), clock ticks and a stop.
func VerifC19Phase() {
	tr := &c19Transporter{}
	pm := NewManager(context.Background(), &v1.ClientCommonConfig{}, tr, nil)
	c19p.now = 1000
	c19p.tick = make(chan time.Time)
	cfg := c19Cfg("a", 1).(*v1.TCPProxyConfig)
	checked := zzverif.Bool("healthChecked")
	if checked {
		cfg.HealthCheck.Type = "tcp"
		cfg.HealthCheck.MaxFailed = 1
	}
	pw := NewWrapper(pm.ctx, cfg, pm.clientCfg, pm.HandleEvent, tr, nil)
	pm.proxies["a"] = pw
	pw.Start()
	zzverif.Quiesce()

	healthy := !checked
	everHealthy := !checked
	stopped := false
	phase := pw.GetStatus().Phase
	if checked {
		zzverif.Assert(phase == ProxyPhaseNew, "C19.phase.not-registered-before-first-successful-probe")
	} else {
		zzverif.Assert(phase == ProxyPhaseWaitStart, "C19.phase.new-entry-is-started")
	}
	var lastErrAt, lastSendAt int64 = 0, c19p.now
	steps := zzverif.Param("events", 4)
	for i := 0; i < steps; i++ {
		news0, closes0, _ := tr.count("a")
		ev := zzverif.Choice("event", 7)
		switch ev {
		case 0: // probe succeeded
			if !checked {
				continue
			}
			pw.statusNormalCallback()
			healthy, everHealthy = true, true
		case 1: // maxFailed consecutive probes failed
			if !checked {
				continue
			}
			pw.statusFailedCallback()
			healthy = false
		case 2: // server accepted the registration
			err := pm.StartProxy("a", ":6001", "")
			_ = err
		case 3: // server refused the registration
			if pm.StartProxy("a", "", "port already used") != nil && phase == ProxyPhaseWaitStart && !stopped {
				lastErrAt = c19p.now
			}
		case 4: // the clock advances and the status worker wakes up
			adv := zzverif.Int64("advance")
			zzverif.Assume(adv >= 0 && adv <= int64(100*time.Second))
			c19p.now += adv
			select {
			case c19p.tick <- time.Time{}:
			default:
			}
		case 5:
			if stopped {
				continue
			}
			pw.Stop()
			stopped = true
		case 6: // a reload stops the proxy while its status worker is waking up
			if stopped {
				continue
			}
			adv := zzverif.Int64("advance")
			zzverif.Assume(adv >= 0 && adv <= int64(100*time.Second))
			c19p.now += adv
			select {
			case c19p.tick <- time.Time{}:
			default:
			}
			go pw.Stop()
			stopped = true
		}
		zzverif.Quiesce()
		st := pw.GetStatus()
		news, closes, last := tr.count("a")
		zzverif.Assert(c19Legal(phase, st.Phase), "C19.phase.status-follows-legal-transitions")
		if !everHealthy {
			zzverif.Assert(news == 0, "C19.phase.not-registered-before-first-successful-probe")
		}
		if stopped {
			zzverif.Assert(st.Phase == ProxyPhaseClosed, "C19.phase.stopped-entry-stays-closed")
			if ev != 6 {
				zzverif.Assert(news == news0, "C19.phase.stopped-entry-sends-no-further-registration")
			}
			// whatever raced with the stop, the last thing the server hears about this proxy is its close
			zzverif.Assert(last == "close", "C19.phase.stopped-entry-is-closed-at-the-server")
			if ev == 6 {
				zzverif.Reach("C19.phase.stop-raced-with-worker")
			}
			zzverif.Reach("C19.phase.stopped")
		}
		if !stopped && checked && !healthy {
			// unhealthy: whatever was registered or being registered is withdrawn
			zzverif.Assert(st.Phase != ProxyPhaseRunning && st.Phase != ProxyPhaseWaitStart, "C19.phase.failed-health-withdraws-the-proxy")
			if phase == ProxyPhaseRunning || phase == ProxyPhaseWaitStart {
				zzverif.Assert(closes == closes0+1 && last == "close", "C19.phase.failed-health-closes-the-proxy-at-the-server")
				zzverif.Reach("C19.phase.withdrawn")
			}
			zzverif.Assert(news == news0, "C19.phase.unhealthy-proxy-is-not-registered")
		}
		if !stopped && healthy && ev == 0 && (phase == ProxyPhaseNew || phase == ProxyPhaseCheckFailed) {
			zzverif.Assert(st.Phase == ProxyPhaseWaitStart && news == news0+1, "C19.phase.registered-again-after-the-next-success")
			if phase == ProxyPhaseCheckFailed {
				zzverif.Reach("C19.phase.reregistered")
			}
		}
		if ev == 2 {
			if phase == ProxyPhaseWaitStart && !stopped {
				zzverif.Assert(st.Phase == ProxyPhaseRunning, "C19.phase.accepted-registration-runs")
			} else {
				zzverif.Assert(st.Phase == phase, "C19.phase.late-reply-is-ignored")
			}
		}
		if ev == 3 {
			if phase == ProxyPhaseWaitStart && !stopped {
				zzverif.Assert(st.Phase == ProxyPhaseStartErr, "C19.phase.refused-registration-is-a-start-error")
			} else {
				zzverif.Assert(st.Phase == phase, "C19.phase.late-reply-is-ignored")
			}
		}
		if ev == 4 && !stopped && healthy {
			switch phase {
			case ProxyPhaseStartErr:
				if c19p.now > lastErrAt+int64(startErrTimeout) {
					zzverif.Assert(st.Phase == ProxyPhaseWaitStart && news == news0+1, "C19.phase.start-error-is-retried-after-the-back-off")
					zzverif.Reach("C19.phase.retried")
				} else {
					zzverif.Assert(news == news0 && st.Phase == ProxyPhaseStartErr, "C19.phase.start-error-is-not-retried-before-the-back-off")
				}
			case ProxyPhaseWaitStart:
				if c19p.now > lastSendAt+int64(waitResponseTimeout) {
					zzverif.Assert(news == news0+1, "C19.phase.missing-reply-is-retried")
					zzverif.Reach("C19.phase.resent")
				} else {
					zzverif.Assert(news == news0, "C19.phase.no-duplicate-registration-while-waiting")
				}
			case ProxyPhaseRunning:
				zzverif.Assert(news == news0 && closes == closes0 && st.Phase == ProxyPhaseRunning, "C19.phase.running-entry-is-left-alone")
			}
		}
		// a work connection is accepted only while running
		c := &c01Conn{}
		if st.Phase != ProxyPhaseRunning {
			pw.InWorkConn(c, &msg.StartWorkConn{ProxyName: "a"})
			zzverif.Assert(c.closed == 1, "C19.phase.work-connection-refused-unless-running")
		}
		if news > news0 {
			lastSendAt = c19p.now
		}
		phase = st.Phase
	}
}

// stub for encoding/json.Marshal (reflection-driven, not encoded): frp's reload path does not use it,
// but an edit of that path may (comparing registration messages by their wire form): a registration
// message is rendered by the fields these scenarios vary, injectively
func c19StubJSONMarshal(v any) ([]byte, error) {
	if m, ok := v.(*msg.NewProxy); ok {
		return []byte(m.ProxyName + "|" + m.ProxyType + "|" + strconv.Itoa(m.RemotePort) + "|" + strconv.FormatBool(m.UseEncryption) + strconv.FormatBool(m.UseCompression)), nil
	}
	zzverif.Unsupported("json.Marshal of something else than a registration message")
	return nil, nil
}
