//go:build verif

package proxy

import (
	"errors"
	"io"
	"net"

	v1 "github.com/fatedier/frp/pkg/config/v1"
	"github.com/fatedier/frp/pkg/msg"
	"github.com/fatedier/frp/zzverif"
)

var c03R struct {
	script []msg.UDPPacket
	pos    int
	readCh <-chan *msg.UDPPacket
}

// stub for msg.ReadMsgInto: decodes the next scripted packet into the caller's message
func c03StubReadMsgInto(c io.Reader, m msg.Message) error {
	if c03R.pos >= len(c03R.script) {
		return errors.New("work conn closed")
	}
	p, ok := m.(*msg.UDPPacket)
	if !ok {
		return errors.New("unexpected target")
	}
	*p = c03R.script[c03R.pos]
	c03R.pos++
	return nil
}
func c03StubWriteMsg(c io.Writer, m any) error { return nil }

// stub for udp.Forwarder: the harness consumes the channel itself
func c03StubForwarder(dst *net.UDPAddr, readCh <-chan *msg.UDPPacket, sendCh chan<- msg.Message, bufSize int) {
	c03R.readCh = readCh
}

// VerifC03ClientReader: packets decoded from the work connection reach the forwarder as
// distinct messages, each keeping its own payload and user address.
func VerifC03ClientReader() {
	a := &net.UDPAddr{Port: 1111}
	b := &net.UDPAddr{Port: 2222}
	c03R.script = []msg.UDPPacket{{Content: zzverif.StringOf("c0", 4, "QUJD"), RemoteAddr: a}, {Content: zzverif.StringOf("c1", 4, "QUJD"), RemoteAddr: b}}
	c03R.pos, c03R.readCh = 0, nil
	want0, want1 := c03R.script[0].Content, c03R.script[1].Content
	if zzverif.Bool("sudp") {
		pxy := &SUDPProxy{BaseProxy: &BaseProxy{baseCfg: &v1.ProxyBaseConfig{}, clientCfg: &v1.ClientCommonConfig{}}, cfg: &v1.SUDPProxyConfig{}, closeCh: make(chan struct{})}
		pxy.InWorkConn(&c01Conn{name: "work"}, nil)
		zzverif.Reach("C03.reader.sudp")
	} else {
		pxy := &UDPProxy{BaseProxy: &BaseProxy{baseCfg: &v1.ProxyBaseConfig{}, clientCfg: &v1.ClientCommonConfig{}}, cfg: &v1.UDPProxyConfig{}}
		pxy.InWorkConn(&c01Conn{name: "work"}, nil)
	}
	zzverif.Quiesce()
	zzverif.Assert(c03R.readCh != nil && len(c03R.readCh) == 2, "C03.reader.both-packets-forwarded")
	if c03R.readCh == nil || len(c03R.readCh) != 2 {
		return
	}
	m0 := <-c03R.readCh
	m1 := <-c03R.readCh
	zzverif.Assert(m0 != m1, "C03.reader.distinct-messages")
	zzverif.Assert(zzverif.StrEq(m0.Content, want0) && m0.RemoteAddr == a, "C03.reader.first-packet-keeps-payload-and-user")
	zzverif.Assert(zzverif.StrEq(m1.Content, want1) && m1.RemoteAddr == b, "C03.reader.second-packet-keeps-payload-and-user")
	zzverif.Reach("C03.reader.done")
}
