//go:build verif

package proxy

import (
	"context"
	"errors"
	"io"
	"net"
	"time"

	v1 "github.com/fatedier/frp/pkg/config/v1"
	"github.com/fatedier/frp/pkg/msg"
	"github.com/fatedier/frp/pkg/nathole"
	"github.com/fatedier/frp/pkg/transport"
	"github.com/fatedier/frp/zzverif"
)

var c20p struct {
	prepared, punched *net.UDPConn
	closed            []*net.UDPConn
	peer              *net.UDPAddr
	sidReadFails      bool
	prepareFails      bool
	exchangeFails     bool
	makeHoleFails     bool
	otherSocket       bool
	protocol          string
	sentClient        *msg.NatHoleClient
	keyGot            string
	listenKind        string
	listenConn        *net.UDPConn
	listenPeer        *net.UDPAddr
	listenStart       *msg.StartWorkConn
}

func c20pStubReadMsgInto(r io.Reader, m msg.Message) error {
	if c20p.sidReadFails {
		return io.ErrUnexpectedEOF
	}
	if s, ok := m.(*msg.NatHoleSid); ok {
		s.Sid = "sid-7"
	}
	return nil
}
func c20pStubPrepare(stunServers []string) (*nathole.PrepareResult, error) {
	if c20p.prepareFails {
		return nil, errors.New("stun failed")
	}
	c20p.prepared = &net.UDPConn{}
	return &nathole.PrepareResult{Addrs: []string{"1.1.1.1:1000"}, AssistedAddrs: []string{"10.0.0.1:1000"}, ListenConn: c20p.prepared, NatType: "EasyNAT", Behavior: "BehaviorNoChange"}, nil
}
func c20pStubExchange(ctx context.Context, tr transport.MessageTransporter, transactionID string, m msg.Message, timeout time.Duration) (*msg.NatHoleResp, error) {
	if v, ok := m.(*msg.NatHoleClient); ok {
		c20p.sentClient = v
		zzverif.Assert(v.TransactionID == transactionID, "C20.xproxy.answer-awaited-under-the-transaction-of-the-request")
	}
	if c20p.exchangeFails {
		return nil, errors.New("timeout")
	}
	return &msg.NatHoleResp{Sid: "sid-7", Protocol: c20p.protocol}, nil
}
func c20pStubMakeHole(ctx context.Context, listenConn *net.UDPConn, m *msg.NatHoleResp, key []byte) (*net.UDPConn, *net.UDPAddr, error) {
	c20p.keyGot = string(key)
	zzverif.Assert(listenConn == c20p.prepared, "C20.xproxy.hole-punched-from-the-socket-whose-address-was-reported")
	if c20p.makeHoleFails {
		return nil, nil, errors.New("wait detect message timeout")
	}
	c20p.punched = listenConn
	if c20p.otherSocket {
		c20p.punched = &net.UDPConn{}
	}
	c20p.peer = &net.UDPAddr{IP: net.IPv4(2, 2, 2, 2), Port: 2000}
	return c20p.punched, c20p.peer, nil
}
func c20pStubUDPClose(c *net.UDPConn) error { c20p.closed = append(c20p.closed, c); return nil }
func c20pStubListenKCP(pxy *XTCPProxy, c *net.UDPConn, raddr *net.UDPAddr, m *msg.StartWorkConn) {
	c20p.listenKind, c20p.listenConn, c20p.listenPeer, c20p.listenStart = "kcp", c, raddr, m
}
func c20pStubListenQUIC(pxy *XTCPProxy, c *net.UDPConn, raddr *net.UDPAddr, m *msg.StartWorkConn) {
	c20p.listenKind, c20p.listenConn, c20p.listenPeer, c20p.listenStart = "quic", c, raddr, m
}

func c20pClosed(c *net.UDPConn) bool {
	for _, x := range c20p.closed {
		if x == c {
			return true
		}
	}
	return false
}

// VerifC20XTCPProxyHole: the proxy owner's side of one hole-punching attempt (the work connection
// that carries the session id): it answers under the session it was handed, reports the addresses
// it discovered, punches with the proxy's secret from the socket whose address it reported, serves
// the tunnel on the very socket the hole was punched on towards the peer that answered, in the
// protocol the server chose, and tells the server how the attempt ended; the work connection and
// the discovery socket never outlive the attempt.
func VerifC20XTCPProxyHole() {
	c20p.prepared, c20p.punched, c20p.closed, c20p.peer, c20p.sentClient, c20p.keyGot = nil, nil, nil, nil, nil, ""
	c20p.listenKind, c20p.listenConn, c20p.listenPeer, c20p.listenStart = "", nil, nil, nil
	fail := zzverif.Choice("failsAt", 5) // 0 nowhere, 1 reading the session id, 2 discovery, 3 exchange, 4 punching
	c20p.sidReadFails, c20p.prepareFails, c20p.exchangeFails, c20p.makeHoleFails = fail == 1, fail == 2, fail == 3, fail == 4
	c20p.otherSocket = zzverif.Bool("holeFoundOnAnExtraSocket")
	c20p.protocol = []string{"quic", "kcp", ""}[zzverif.Choice("protocol", 3)]
	tr := &c19Transporter{}
	cfg := &v1.XTCPProxyConfig{}
	cfg.Name, cfg.Type, cfg.Secretkey = "u.x1", "xtcp", "s3cret"
	pxy := &XTCPProxy{BaseProxy: &BaseProxy{baseCfg: &cfg.ProxyBaseConfig, clientCfg: &v1.ClientCommonConfig{NatHoleSTUNServer: "stun.example:3478"}, msgTransporter: tr, ctx: context.Background()}, cfg: cfg}
	work := &c01Conn{}
	start := &msg.StartWorkConn{ProxyName: "u.x1"}
	pxy.InWorkConn(work, start)

	zzverif.Assert(work.closed >= 1, "C20.xproxy.work-connection-closed-when-the-attempt-is-over")
	if c20p.prepared != nil && !(fail == 0 && !c20p.otherSocket) {
		// unless the tunnel is served on it, the discovery socket is closed
		zzverif.Assert(c20pClosed(c20p.prepared), "C20.xproxy.discovery-socket-closed-unless-the-tunnel-runs-on-it")
	}
	reports := 0
	var rep *msg.NatHoleReport
	for _, m := range tr.sent {
		if r, ok := m.(*msg.NatHoleReport); ok {
			reports++
			rep = r
		}
	}
	if fail >= 1 && fail <= 3 {
		zzverif.Assert(c20p.listenKind == "" && reports == 0, "C20.xproxy.nothing-served-or-reported-before-an-attempt-was-made")
		zzverif.Reach("C20.xproxy.gave-up-early")
		return
	}
	zzverif.Assert(c20p.sentClient != nil && c20p.sentClient.Sid == "sid-7" && c20p.sentClient.ProxyName == "u.x1", "C20.xproxy.answers-under-the-session-it-was-handed")
	zzverif.Assert(len(c20p.sentClient.MappedAddrs) == 1 && c20p.sentClient.MappedAddrs[0] == "1.1.1.1:1000" && len(c20p.sentClient.AssistedAddrs) == 1, "C20.xproxy.reports-the-addresses-it-discovered")
	zzverif.Assert(c20p.keyGot == "s3cret", "C08.xproxy.detection-messages-keyed-by-the-proxy's-secret")
	zzverif.Assert(reports == 1 && rep.Sid == "sid-7" && rep.Success == (fail == 0), "C20.xproxy.outcome-reported-once-for-this-session")
	if fail == 4 {
		zzverif.Assert(c20p.listenKind == "", "C20.xproxy.no-tunnel-without-a-hole")
		zzverif.Reach("C20.xproxy.punch-failed")
		return
	}
	want := "quic"
	if c20p.protocol == "kcp" {
		want = "kcp"
	}
	zzverif.Assert(c20p.listenKind == want, "C20.xproxy.tunnel-protocol-is-the-server's-choice-quic-by-default")
	zzverif.Assert(c20p.listenConn == c20p.punched && c20p.listenPeer == c20p.peer, "C20.xproxy.tunnel-served-on-the-punched-socket-towards-the-peer-that-answered")
	zzverif.Assert(c20p.listenStart == start, "C01.xproxy.tunnel-serves-the-proxy-the-work-connection-was-started-for")
	if c20p.otherSocket {
		zzverif.Reach("C20.xproxy.extra-socket")
	}
	zzverif.Reach("C20.xproxy.tunnel")
}
