//go:build verif

package client

import (
	"context"
	"errors"
	"io"
	"time"

	v1 "github.com/fatedier/frp/pkg/config/v1"
	"github.com/fatedier/frp/pkg/msg"
	"github.com/fatedier/frp/zzverif"
)

var c14q struct {
	readGate, writeGate chan struct{}
	writes              int
}

// stubs: the control connection is stalled (nothing arrives, writes do not complete) until the
// harness lets it die; then reads and writes fail
func c14qStubReadMsg(c io.Reader) (msg.Message, error) {
	<-c14q.readGate
	return nil, io.EOF
}
func c14qStubWriteMsg(c io.Writer, m any) error {
	c14q.writes++
	<-c14q.writeGate
	return errors.New("broken pipe")
}

// stub for time.After: the proxies' periodic status checks do not fire during the scenario
func c14qStubAfter(d time.Duration) <-chan time.Time { return nil }

// VerifC14TeardownWithQueuedMessages: when the control connection is lost the session ends - its
// proxies are stopped and Done() is signalled, so that the service logs in again - whatever is still
// queued for sending at that moment (a stalled peer fills the queue), however many proxies run.
func VerifC14TeardownWithQueuedMessages() {
	c14q.readGate, c14q.writeGate = make(chan struct{}), make(chan struct{})
	c14q.writes = 0
	conn := &c14Conn{}
	ctl, err := NewControl(context.Background(), &SessionContext{Common: &v1.ClientCommonConfig{}, RunID: "r", Conn: conn, Connector: &c14Connector{conn: conn}, AuthSetter: &c14Setter{}})
	zzverif.Assume(err == nil)
	n := zzverif.Choice("proxies", 3)
	var cfgs []v1.ProxyConfigurer
	for i := 0; i < n; i++ {
		c := &v1.TCPProxyConfig{}
		c.Name, c.Type = []string{"p0", "p1"}[i], "tcp"
		c.LocalIP, c.LocalPort, c.RemotePort = "127.0.0.1", 80+i, 6000+i
		cfgs = append(cfgs, c)
	}
	ctl.Run(cfgs, nil)
	zzverif.Quiesce()
	// the peer is slow: messages pile up in the send queue (the sender itself is stuck in a write)
	ch := ctl.msgDispatcher.SendChannel()
	switch zzverif.Choice("queue", 3) {
	case 1:
		for len(ch) < cap(ch)-1 {
			ch <- &msg.Ping{}
		}
		zzverif.Reach("C14.teardownq.nearly-full")
	case 2:
		for len(ch) < cap(ch) {
			ch <- &msg.Ping{}
		}
		zzverif.Reach("C14.teardownq.full")
	}
	// the connection dies
	close(c14q.readGate)
	close(c14q.writeGate)
	zzverif.Quiesce()
	ended := false
	select {
	case <-ctl.Done():
		ended = true
	default:
	}
	zzverif.Assert(ended, "C14.teardownq.session-ends-after-connection-loss-whatever-is-queued")
	if ended {
		zzverif.Assert(conn.closed >= 1, "C14.teardownq.connection-closed")
		zzverif.Reach("C14.teardownq.ended")
	}
}
