//go:build verif

package client

import (
	"context"
	"io"
	"time"

	v1 "github.com/fatedier/frp/pkg/config/v1"
	"github.com/fatedier/frp/pkg/msg"
	"github.com/fatedier/frp/zzverif"
)

var c05cc struct {
	calls int
	key   string
	on    io.ReadWriter
}

type c05ccRW struct{ inner io.ReadWriter }

func (c *c05ccRW) Read(p []byte) (int, error)  { return c.inner.Read(p) }
func (c *c05ccRW) Write(p []byte) (int, error) { return c.inner.Write(p) }

// stub for netpkg.NewCryptoReadWriter
func c05ccStubNewCryptoRW(rw io.ReadWriter, key []byte) (io.ReadWriter, error) {
	c05cc.calls++
	c05cc.key = string(key)
	c05cc.on = rw
	return &c05ccRW{inner: rw}, nil
}

// VerifC05ClientControlCipher: after every successful login the client wraps the control connection
// in the token-keyed cipher - with a configured token or without one - unless it is the in-process
// client of the ssh gateway (whose "connection" never leaves the server process).
func VerifC05ClientControlCipher() {
	common := &v1.ClientCommonConfig{}
	mux := false
	common.Transport.TCPMux = &mux
	common.Auth.Token = []string{"tok", ""}[zzverif.Choice("token", 2)]
	conn := &c14Conn{}
	kon := &c14Connector{conn: conn}
	ctx, cancel := context.WithCancelCause(context.Background())
	var spec *msg.ClientSpec
	switch zzverif.Choice("clientSpec", 3) {
	case 1:
		spec = &msg.ClientSpec{Type: "ssh-tunnel"}
	case 2:
		spec = &msg.ClientSpec{Type: "other"}
	}
	svr := &Service{ctx: ctx, cancel: cancel, common: common, authSetter: &c14Setter{}, clientSpec: spec,
		connectorCreator: func(context.Context, *v1.ClientCommonConfig) Connector { return kon }}
	c14.untilFn, c14.untilN, c14.backoffFn, c14.backoffN = nil, 0, nil, 0
	c14.script, c14.scriptPos, c14.nextRunID, c14.respErr = nil, 0, "rid", false
	c05cc.calls, c05cc.key, c05cc.on = 0, "", nil
	svr.loopLoginUntilSuccess(10*time.Second, false)
	zzverif.Assume(c14.backoffFn != nil)
	done, err := c14.backoffFn()
	zzverif.Assert(done && err == nil && svr.ctl != nil, "C05.cctl.session-established")
	inProcess := spec != nil && spec.Type == "ssh-tunnel"
	zzverif.Assert((c05cc.calls == 1) == !inProcess && c05cc.calls <= 1, "C05.cctl.control-channel-wrapped-in-the-cipher-unless-in-process")
	if c05cc.calls == 1 {
		zzverif.Assert(c05cc.key == common.Auth.Token, "C05.cctl.keyed-by-the-configured-token")
		zzverif.Assert(c05cc.on == io.ReadWriter(conn), "C05.cctl.cipher-sits-on-the-control-connection")
		zzverif.Reach("C05.cctl.wrapped")
		if common.Auth.Token == "" {
			zzverif.Reach("C05.cctl.wrapped-without-token")
		}
	}
}
