//go:build verif

package client

import (
	"context"
	"errors"
	"io"
	"net"

	"github.com/fatedier/frp/client/proxy"
	v1 "github.com/fatedier/frp/pkg/config/v1"
	"github.com/fatedier/frp/pkg/msg"
	"github.com/fatedier/frp/zzverif"
)

var c11c struct {
	connectFails, signFails, writeFails, readFails bool
	readErrKind                                    int
	startErr, startName                            string
	wrote                                          []msg.Message
	wroteOn                                        []io.Writer
	handedName                                     []string
	handedConn                                     []net.Conn
	handedMsg                                      []*msg.StartWorkConn
	opened                                         []*c14Conn
}

type c11Connector struct{}

func (k *c11Connector) Open() error { return nil }
func (k *c11Connector) Connect() (net.Conn, error) {
	if c11c.connectFails {
		return nil, errors.New("dial failed")
	}
	c := &c14Conn{}
	c11c.opened = append(c11c.opened, c)
	return c, nil
}
func (k *c11Connector) Close() error { return nil }

type c11Setter struct{}

func (s *c11Setter) SetLogin(*msg.Login) error { return nil }
func (s *c11Setter) SetPing(*msg.Ping) error   { return nil }
func (s *c11Setter) SetNewWorkConn(m *msg.NewWorkConn) error {
	if c11c.signFails {
		return errors.New("cannot sign")
	}
	m.PrivilegeKey = "signed:" + m.RunID
	return nil
}

func c11StubWriteMsg(c io.Writer, m any) error {
	if c11c.writeFails {
		return errors.New("write failed")
	}
	c11c.wrote = append(c11c.wrote, m)
	c11c.wroteOn = append(c11c.wroteOn, c)
	return nil
}

func c11StubReadMsgInto(c io.Reader, m msg.Message) error {
	if c11c.readFails {
		// the stream ended, the frame was malformed, or nothing came before the deadline
		return []error{io.EOF, io.ErrUnexpectedEOF, errors.New("message type error"), errors.New("invalid character 'x' looking for beginning of value"), errors.New("i/o timeout")}[c11c.readErrKind]
	}
	if s, ok := m.(*msg.StartWorkConn); ok {
		s.ProxyName, s.Error = c11c.startName, c11c.startErr
		s.SrcAddr, s.SrcPort = "198.51.100.7", 4242
	}
	return nil
}

// stub for (*proxy.Manager).HandleWorkConn: records the hand-over (the manager's own dispatch by
// name is decided by the client/proxy harnesses)
func c11StubHandleWorkConn(pm *proxy.Manager, name string, c net.Conn, m *msg.StartWorkConn) {
	c11c.handedName = append(c11c.handedName, name)
	c11c.handedConn = append(c11c.handedConn, c)
	c11c.handedMsg = append(c11c.handedMsg, m)
}

// VerifC11ClientReqWorkConn: the client's answer to one ReqWorkConn: a fresh connection announced
// with this session's run id and signature, then handed to the proxy the server named, with the
// server's StartWorkConn - or closed on every failure; never left open without an owner.
func VerifC11ClientReqWorkConn() {
	c11c.connectFails = zzverif.Bool("connectFails")
	c11c.signFails = zzverif.Bool("signFails")
	c11c.writeFails = zzverif.Bool("writeFails")
	c11c.readFails = zzverif.Bool("readFails")
	c11c.readErrKind = 0
	if c11c.readFails {
		c11c.readErrKind = zzverif.Choice("readError", 5)
	}
	c11c.startErr = []string{"", "no such proxy"}[zzverif.Choice("startError", 2)]
	c11c.startName = []string{"p1", "p2", ""}[zzverif.Choice("startName", 3)]
	c11c.wrote, c11c.wroteOn, c11c.handedName, c11c.handedConn, c11c.handedMsg, c11c.opened = nil, nil, nil, nil, nil, nil

	runID := []string{"r-1", "r-2"}[zzverif.Choice("runID", 2)]
	ctlConn := &c14Conn{}
	ctl, err := NewControl(context.Background(), &SessionContext{Common: &v1.ClientCommonConfig{}, RunID: runID, Conn: ctlConn, Connector: &c11Connector{}, AuthSetter: &c11Setter{}})
	zzverif.Assume(err == nil)

	ctl.handleReqWorkConn(&msg.ReqWorkConn{})
	zzverif.Quiesce()

	if c11c.connectFails {
		zzverif.Assert(len(c11c.opened) == 0 && len(c11c.handedConn) == 0 && len(c11c.wrote) == 0, "C11.creq.nothing-happens-without-a-connection")
		return
	}
	zzverif.Assert(len(c11c.opened) == 1, "C11.creq.one-fresh-connection-per-request")
	wc := c11c.opened[0]
	ok := !c11c.signFails && !c11c.writeFails && !c11c.readFails && c11c.startErr == ""
	if !c11c.signFails && !c11c.writeFails {
		zzverif.Assert(len(c11c.wrote) == 1 && c11c.wroteOn[0] == io.Writer(wc), "C11.creq.announced-on-the-new-connection-only")
		if len(c11c.wrote) == 1 {
			m, isNew := c11c.wrote[0].(*msg.NewWorkConn)
			zzverif.Assert(isNew && m.RunID == runID, "C11.creq.announced-with-this-session's-run-id")
			zzverif.Assert(isNew && m.PrivilegeKey == "signed:"+runID, "C11.creq.announcement-is-signed")
		}
	}
	if c11c.signFails {
		zzverif.Assert(len(c11c.wrote) == 0, "C11.creq.unsigned-announcement-is-not-sent")
	}
	zzverif.Assert(len(ctlConn.written) == 0 && ctlConn.closed == 0, "C11.creq.control-connection-untouched")
	if ok {
		zzverif.Reach("C11.creq.handed-over")
		zzverif.Assert(len(c11c.handedConn) == 1 && c11c.handedConn[0] == net.Conn(wc) && wc.closed == 0, "C11.creq.connection-handed-to-the-proxy-manager-open")
		if len(c11c.handedConn) == 1 {
			zzverif.Assert(c11c.handedName[0] == c11c.startName, "C11.creq.handed-to-the-proxy-the-server-named")
			hm := c11c.handedMsg[0]
			zzverif.Assert(hm != nil && hm.ProxyName == c11c.startName && hm.SrcAddr == "198.51.100.7" && hm.SrcPort == 4242, "C11.creq.server's-start-message-passed-on-unchanged")
		}
	} else {
		zzverif.Reach("C11.creq.failed")
		zzverif.Assert(len(c11c.handedConn) == 0, "C11.creq.failed-connection-is-not-handed-over")
		zzverif.Assert(wc.closed >= 1, "C11.creq.failed-connection-is-closed")
	}
}
